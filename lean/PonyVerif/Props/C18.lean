/-
  C18 — a db_session commits exactly when its body succeeds.  Property theorems only.

  Model: PonyVerif/Model/DbSession.lean (mirrors pony/orm/core.py DBSessionContextManager, pony/flask/__init__.py,
  pony/orm/integration/bottle_plugin.py).  Every theorem is for ALL environments `env` (which commits fail, which
  exceptions carry `should_retry`, which are TransactionErrors), ALL option records `o` (retry count, ddl, serializable,
  `allowed_exceptions` / `retry_exceptions` as arbitrary — possibly raising — predicates) and ALL bodies, where a body is
  an arbitrary program `Prog` (writes, raises, try/except, its own `commit()` / `rollback()` calls, nested
  `with db_session`, nested decorated calls, wrapped generators, Flask requests, to any depth).

  Vocabulary (Lemmas/DbSession.lean):
    Clean s             the thread is outside every session and holds nothing uncommitted
    entered o s         the state in which the body of an outermost session `o` starts
    wantsCommit o exc   `_commit_or_rollback` chooses commit: no exception, or `allowed_exceptions` says yes
    commitOK env n ws   committing `ws` as the n-th real commit succeeds (nothing pending: trivially)
    corErr …            the exception `_commit_or_rollback` itself raises (commit failure / raising callable)
    attCommits env o a  attempt `a` of a decorated function ends with its writes committed:
                        the commit goes through and (the body returned, or it raised an exception that is not retried
                        and that the session allows)
    attOutSpec env o a  how the loop iteration ends: `done out` / `again e`
    Chain … i log       `log` faithfully records consecutive body executions i, i+1, …, each started right after the
                        outermost `_enter()` with nothing pending and the database as it was before the call, all but
                        the last ending in "retry"
-/
import PonyVerif.Lemmas.DbSession
import PonyVerif.Lemmas.DbSessionMulti
namespace PonyVerif.Props.C18
open PonyVerif.Model.DbSession PonyVerif.Gen

/-! ### bridges to the source: the pieces regenerated from pony/orm/core.py, pony/flask/__init__.py and
pony/orm/integration/bottle_plugin.py on every run (Gen/DbSessionGen.lean) compute, at the places where the model uses them,
exactly what every theorem below relies on.  A change of the source at one of these places regenerates a different
definition and these (and the dependent) theorems stop checking. -/

/-- `_commit_or_rollback`: `can_commit` is True without an exception, otherwise what `allowed_exceptions` (list or callable) says -/
theorem C18_bridge_can_commit (o : Opts) (exc : Option Exc) :
    allowedDecision o exc = (match exc with | none => .yes | some e => o.allowed e) := allowedDecision_eq o exc

/-- the `except:` clause of the retry loop: `do_retry` is True for `should_retry`, otherwise what `retry_exceptions` says -/
theorem C18_bridge_do_retry (env : Env) (o : Opts) (e : Exc) :
    doRetry env o e = if env.shouldRetry e then .yes else o.retryable e := doRetry_eq env o e

/-- `for i in range(db_session.retry+1)`, `finally: db_session.__exit__(exc_type, exc, tb)`, `rollback()` on the retry
    path, `commit()` after the body -/
theorem C18_bridge_loop (retry : Nat) (e : Exc) :
    DbSessionGen.loopFuel retry = retry + 1 ∧ loopExc e = some e ∧ DbSessionGen.retryPathRollsBack = true ∧
    DbSessionGen.commitAfterBody = true := ⟨rfl, loopExc_eq e, rfl, rfl⟩

/-- `_enter` adds 1, `__exit__` subtracts 1 and calls `_commit_or_rollback(exc_type, exc, tb)` exactly when the counter
    is back to 0; `commit()` / `rollback()` are the first actions of the two branches; the session is cleared -/
theorem C18_bridge_enter_exit (c : Int) :
    DbSessionGen.counterAfterEnter c = c + 1 ∧ DbSessionGen.counterAfterExit c = c - 1 ∧
    (DbSessionGen.exitIsOutermost c = true ↔ c = 0) ∧ DbSessionGen.exitPassesExc = true ∧
    DbSessionGen.commitBranchCommits = true ∧ DbSessionGen.elseBranchRollsBack = true ∧ DbSessionGen.clearsSession = true := by
  refine ⟨rfl, rfl, ?_, rfl, rfl, rfl, rfl⟩
  simp [DbSessionGen.exitIsOutermost]

/-- the generator wrapper sets the counter to 1 while the generator runs and to 0 afterwards -/
theorem C18_bridge_generator : DbSessionGen.genCounterInside = 1 ∧ DbSessionGen.genCounterAfter = 0 := ⟨rfl, rfl⟩

/-- Flask `_exit_session` hands the exception type to `__exit__`; Bottle allows HTTPResponse that is not HTTPError -/
theorem C18_bridge_glue (isResp isErr : Bool) :
    DbSessionGen.flaskExitPassesType = true ∧ DbSessionGen.isAllowedException isResp isErr = (isResp && !isErr) :=
  ⟨rfl, rfl⟩

/-- every statement with which an object is saved (INSERT / UPDATE / DELETE in `_save_created_`, `_save_updated_`,
    `_save_deleted_`) opens the session's transaction itself (`start_transaction=True`): a per-object `obj.flush()` as the
    first write of an optimistic session does not run in autocommit mode.  (The model treats a row write followed by
    `obj.flush()` like any other pending write; that the real statement stays inside the transaction is what this bridge
    pins in the source and what the object-flush grid of the engine checks on the real code.) -/
theorem C18_bridge_row_saves : DbSessionGen.rowSavesStartTransaction = true := rfl

/-- the suspension test of the generator / coroutine wrapper refuses a `yield` whenever a session cache is modified OR
    still inside a transaction (flushed but uncommitted changes): in the model both are "something is pending" -/
theorem C18_bridge_suspend (modified inTransaction : Bool) :
    DbSessionGen.suspendRefused modified inTransaction = (modified || inTransaction) := rfl

/-! ### nested sessions: only the outermost exit commits or rolls back

Bodies are arbitrary programs.  Since this round a program may also call the module-level `commit()` / `rollback()`
itself (`Prog.commit`, `Prog.rollback`); `p.noManual` says it does not.  Every theorem below is stated for ALL programs:
what the body committed itself is `b.1.committed` (the database when the body ended) and the theorems say what the
session machinery adds to it; for `noManual` bodies `C18_nested` gives `b.1.committed = s.committed`, i.e. the body's
writes are committed iff … and otherwise NOTHING is committed (`C18_cm_nothing_else`, `C18_decorator_nothing_else`). -/

/-- While a session is open, no program that does not call commit()/rollback() itself — whatever it nests: `with
    db_session(...)`, decorated calls (any `retry`), wrapped generators, Flask requests, try/except — commits, rolls
    back, or changes the nesting counter or the outermost session; it can only add pending writes.  (Unbounded nesting
    depth: induction over programs.) -/
theorem C18_nested (env : Env) (p : Prog) (hm : p.noManual) (s : St) (hc : 0 < s.counter) (hs : s.session.isSome = true) :
    (exec env p s).1.committed = s.committed ∧ (exec env p s).1.ncommit = s.ncommit ∧
    (exec env p s).1.counter = s.counter ∧ (exec env p s).1.session = s.session ∧
    ∃ ws, (exec env p s).1.pending = s.pending ++ ws := by
  have h := exec_inner env p hm s hc hs
  exact ⟨h.committed, h.ncommit, h.counter, h.session, h.pending⟩

/-- ANY program run while a session is open — also one that calls commit()/rollback() itself at any depth — leaves the
    nesting counter and the outermost session as they were: inner exits never end the session, the outermost `__exit__`
    still decides about whatever is pending then -/
theorem C18_nested_balanced (env : Env) (p : Prog) (s : St) (hc : 0 < s.counter) (hs : s.session.isSome = true) :
    (exec env p s).1.counter = s.counter ∧ (exec env p s).1.session = s.session := by
  have h := exec_bal env p s hc hs
  exact ⟨h.counter, h.session⟩

/-- every top-level program leaves the thread clean: counter 0, no session, nothing pending — nothing uncommitted can
    leak into the next session or the next attempt -/
theorem C18_no_leak (env : Env) (p : Prog) (s : St) (hc : Clean s) : Clean (exec env p s).1 :=
  exec_clean env p s hc

/-! ### context manager `with db_session(**o): body` -/

/-- commit-iff, all bodies: on top of what the body committed itself, exactly what is pending when the body ends
    (`b.1.pending`) is committed iff the body returned or raised an exception for which `allowed_exceptions` says yes —
    and the commit itself goes through; otherwise it is discarded.  The thread is clean afterwards. -/
theorem C18_cm_commit_iff (env : Env) (o : Opts) (body : Prog) (s : St) (hc : Clean s) (h0 : o.retry = 0) :
    let b := exec env body (entered o s)
    let r := exec env (.withSession o body) s
    Clean r.1 ∧
    r.1.committed = b.1.committed ++
      (if wantsCommit o b.2.exc? && commitOK env b.1.ncommit b.1.pending then b.1.pending else []) := by
  intro b r
  have h := cm_top env o (exec env body) s hc (exec_bal env body) h0
  exact ⟨h.1, h.2.1⟩

/-- … and for a body that does not commit itself: its writes are committed iff …, otherwise the database is unchanged -/
theorem C18_cm_nothing_else (env : Env) (o : Opts) (body : Prog) (hm : body.noManual) (s : St) (hc : Clean s)
    (h0 : o.retry = 0) :
    let b := exec env body (entered o s)
    let r := exec env (.withSession o body) s
    r.1.committed = s.committed ++
      (if wantsCommit o b.2.exc? && commitOK env s.ncommit b.1.pending then b.1.pending else []) := by
  intro b r
  have h := (C18_cm_commit_iff env o body s hc h0).2
  have hn := C18_nested env body hm (entered o s) (by simp [entered]) (by simp [entered])
  have h1 : b.1.committed = s.committed := hn.1
  have h2 : b.1.ncommit = s.ncommit := hn.2.1
  show (exec env (.withSession o body) s).1.committed = _
  rw [h, h1, h2]

/-- propagation: the outcome is the body's outcome unless `__exit__` itself raises (commit failure, raising callable),
    in which case that exception propagates; in particular an exception of the body is never swallowed and a normal
    result is reported only if the body returned and the commit went through. -/
theorem C18_cm_propagates (env : Env) (o : Opts) (body : Prog) (s : St) (hc : Clean s) (h0 : o.retry = 0) :
    let b := exec env body (entered o s)
    let r := exec env (.withSession o body) s
    r.2 = (match corErr env o b.2.exc? b.1.ncommit b.1.pending with
           | some e' => .raise e'
           | none => b.2) ∧
    (∀ e, b.2 = .raise e → ∃ e', r.2 = .raise e') ∧
    (r.2 = .ret → b.2 = .ret ∧ commitOK env b.1.ncommit b.1.pending = true) := by
  intro b r
  have h := (cm_top env o (exec env body) s hc (exec_bal env body) h0).2.2.2
  have h' : r.2 = (match corErr env o b.2.exc? b.1.ncommit b.1.pending with
           | some e' => .raise e'
           | none => b.2) := h
  refine ⟨h', ?_, ?_⟩
  · intro e he
    rw [h']
    cases corErr env o b.2.exc? b.1.ncommit b.1.pending with
    | some e' => exact ⟨e', rfl⟩
    | none => exact ⟨e, he⟩
  · intro hr
    rw [h'] at hr
    cases hce : corErr env o b.2.exc? b.1.ncommit b.1.pending with
    | some e' => rw [hce] at hr; cases hr
    | none =>
      rw [hce] at hr
      dsimp only at hr
      refine ⟨hr, ?_⟩
      rw [hr] at hce
      exact (commitOK_iff _ _ _).2 hce

/-- `with db_session(retry=n)`, n ≠ 0: TypeError before anything happens -/
theorem C18_cm_retry_rejected (env : Env) (o : Opts) (body : Prog) (s : St) (h0 : o.retry ≠ 0) :
    exec env (.withSession o body) s = (s, .raise .retryInCM) := by
  simp [exec, cm, h0]

/-! ### decorator `@db_session(**o)` on a plain function: the retry loop -/

/-- the log of a top-level call is a faithful chain of consecutive executions 0, 1, 2, … of the body -/
theorem C18_decorator_chain (env : Env) (o : Opts) (f : Nat → Prog) (s : St) (hc : Clean s) :
    Chain env o (fun i => exec env (f i)) s.committed 0 (decorated env o (fun i => exec env (f i)) s).log := by
  rw [decorated_top env o _ s hc]
  exact (loop_spec env o _ (fun j => exec_bal env (f j)) o.retry 0 none s hc).1

/-- retry bound: the body runs at least once and at most retry+1 times -/
theorem C18_retry_bound (env : Env) (o : Opts) (f : Nat → Prog) (s : St) (hc : Clean s) :
    1 ≤ (decorated env o (fun i => exec env (f i)) s).log.length ∧
    (decorated env o (fun i => exec env (f i)) s).log.length ≤ o.retry + 1 := by
  rw [decorated_top env o _ s hc]
  obtain ⟨_, h2, _, a, h4, _⟩ := loop_spec env o _ (fun j => exec_bal env (f j)) o.retry 0 none s hc
  refine ⟨?_, h2⟩
  cases hl : (loop env o (fun i => exec env (f i)) (o.retry + 1) 0 none s).log with
  | nil => rw [hl] at h4; cases h4
  | cons x xs => simp

/-- every attempt starts from the committed state (all bodies): right after the outermost `_enter()`, with nothing
    pending — the previous attempt's uncommitted writes are gone —; the first one sees the database as it was before the
    call, and each later one sees exactly the database the previous body left (`after.committed`: what that body committed
    itself; the retry machinery commits nothing in between) -/
theorem C18_attempts_start_from_committed (env : Env) (o : Opts) (f : Nat → Prog) (s : St) (hc : Clean s) :
    let log := (decorated env o (fun i => exec env (f i)) s).log
    (∀ a ∈ log, a.start.pending = [] ∧ a.start.counter = 1 ∧ a.start.session = some o.sess) ∧
    (∃ a0, log.head? = some a0 ∧ a0.start.committed = s.committed) ∧
    (∀ j (h : j + 1 < log.length), log[j + 1].start.committed = log[j].after.committed) := by
  intro log
  obtain ⟨h1, _, _, h4, h5⟩ := chain_all (C18_decorator_chain env o f s hc)
  exact ⟨fun a ha => ⟨(h1 a ha).2, (h1 a ha).1.1, (h1 a ha).1.2⟩, h4, h5⟩

/-- … and when no body commits itself, every attempt starts (and ends) with the database exactly as before the call -/
theorem C18_attempts_start_unchanged (env : Env) (o : Opts) (f : Nat → Prog) (hm : ∀ i, (f i).noManual) (s : St)
    (hc : Clean s) :
    ∀ a ∈ (decorated env o (fun i => exec env (f i)) s).log,
      a.start.committed = s.committed ∧ a.after.committed = s.committed ∧ a.after.ncommit = a.start.ncommit :=
  chain_noManual (fun j => exec_inner env (f j) (hm j)) (C18_decorator_chain env o f s hc)

/-- a retry happens only for retryable exceptions: every execution but the last ended with an exception `e` (of the body,
    or of `commit()`) for which `exc.should_retry` or `retry_exceptions` said yes — and the loop committed nothing of it -/
theorem C18_retry_only_retryable (env : Env) (o : Opts) (f : Nat → Prog) (s : St) (hc : Clean s) :
    ∀ a ∈ (decorated env o (fun i => exec env (f i)) s).log.dropLast,
      ∃ e, a.exc = some e ∧ doRetry env o e = .yes ∧ attCommits env o a = false :=
  (chain_all (C18_decorator_chain env o f s hc)).2.1

/-- the j-th record is what the j-th execution of the body really did -/
theorem C18_log_faithful (env : Env) (o : Opts) (f : Nat → Prog) (s : St) (hc : Clean s)
    (j : Nat) (h : j < (decorated env o (fun i => exec env (f i)) s).log.length) :
    ∃ c, Faithful env o (fun i => exec env (f i)) c j (decorated env o (fun i => exec env (f i)) s).log[j] := by
  obtain ⟨c, hc'⟩ := (chain_all (C18_decorator_chain env o f s hc)).2.2.1 j h
  exact ⟨c, by simpa using hc'⟩

/-- commit-iff for the decorator, all bodies: after the call the thread is clean and the database is what the LAST
    execution of the body left (`a.after.committed`) plus what was pending when it ended iff that execution `attCommits`
    (returned, or raised a non-retried allowed exception, and the commit went through).  The outcome is determined by the
    last execution; when it asked for another retry, the retries were exhausted and its exception propagates. -/
theorem C18_decorator_commit_iff (env : Env) (o : Opts) (f : Nat → Prog) (s : St) (hc : Clean s) :
    let r := decorated env o (fun i => exec env (f i)) s
    Clean r.st ∧
    ∃ a, r.log.getLast? = some a ∧
      r.st.committed = a.after.committed ++ (if attCommits env o a then a.writes else []) ∧
      r.out = (match attOutSpec env o a with | .done out => out | .again e => .raise e) ∧
      (∀ e, attOutSpec env o a = .again e → r.log.length = o.retry + 1) := by
  intro r
  have hr : r = loop env o (fun i => exec env (f i)) (o.retry + 1) 0 none s := decorated_top env o _ s hc
  rw [hr]
  obtain ⟨_, _, h3, a, h4⟩ := loop_spec env o _ (fun j => exec_bal env (f j)) o.retry 0 none s hc
  exact ⟨h3, a, h4⟩

/-- … and when no body commits itself: the database afterwards is the one before the call plus the writes of the last
    execution iff it `attCommits`; otherwise NOTHING is committed -/
theorem C18_decorator_nothing_else (env : Env) (o : Opts) (f : Nat → Prog) (hm : ∀ i, (f i).noManual) (s : St)
    (hc : Clean s) :
    let r := decorated env o (fun i => exec env (f i)) s
    ∃ a, r.log.getLast? = some a ∧
      r.st.committed = s.committed ++ (if attCommits env o a then a.writes else []) := by
  intro r
  obtain ⟨_, a, h1, h2, _⟩ := C18_decorator_commit_iff env o f s hc
  have hmem : a ∈ (decorated env o (fun i => exec env (f i)) s).log := List.mem_of_getLast? h1
  have h3 := (C18_attempts_start_unchanged env o f hm s hc a hmem).2.1
  exact ⟨a, h1, by rw [← h3]; exact h2⟩

/-- propagation for the decorator: the call returns normally iff the last execution returned and its commit went
    through; if the `except:` clause saw `e` and neither predicate raises, `e` itself propagates (or, when it is allowed
    and not retried, the exception of the failing commit) -/
theorem C18_decorator_propagates (env : Env) (o : Opts) (f : Nat → Prog) (s : St) (hc : Clean s) :
    let r := decorated env o (fun i => exec env (f i)) s
    ∃ a, r.log.getLast? = some a ∧
      (r.out = .ret ↔ a.exc = none) ∧
      (∀ e, a.exc = some e → (∀ x, o.allowed e ≠ .raises x) → (∀ x, doRetry env o e ≠ .raises x) →
        commitOK env a.after.ncommit (if a.bodyOut = .ret then [] else a.writes) = true → r.out = .raise e) := by
  intro r
  obtain ⟨_, a, h1, _, h3, _⟩ := C18_decorator_commit_iff env o f s hc
  refine ⟨a, h1, ?_, ?_⟩
  · show (decorated env o (fun i => exec env (f i)) s).out = .ret ↔ _
    rw [h3]
    unfold attOutSpec
    cases hx : a.exc with
    | none => simp
    | some e =>
      simp only [reduceCtorEq, iff_false]
      cases doRetry env o e with
      | yes => cases o.allowed e <;> simp
      | no => simp
      | raises e' => simp
  · intro e hx hna hnr hok
    show (decorated env o (fun i => exec env (f i)) s).out = .raise e
    rw [h3]
    have hce : commitErr env a.after.ncommit (if a.bodyOut = .ret then [] else a.writes) = none :=
      (commitOK_iff _ _ _).1 hok
    unfold attOutSpec
    simp only [hx]
    cases hd : doRetry env o e with
    | yes =>
      cases ha : o.allowed e with
      | raises x => exact absurd ha (hna x)
      | yes => rfl
      | no => rfl
    | raises x => exact absurd hd (hnr x)
    | no =>
      simp only [corErr]
      cases ha : o.allowed e with
      | raises x => exact absurd ha (hna x)
      | yes => simp [hce]
      | no => rfl

/-- called inside another session the decorator does nothing by itself: the body runs exactly once, `retry` is ignored,
    nothing is committed or rolled back (`ddl`: TransactionError, the body does not run) -/
theorem C18_decorator_nested (env : Env) (o : Opts) (f : Nat → Prog) (s : St) (hc : s.counter ≠ 0) :
    exec env (.call o f) s = if o.ddl then (s, .raise .ddlDecoratedInside) else exec env (f 0) s := by
  simp only [exec, decorated, hc, ne_eq, not_false_eq_true, if_true]
  split <;> rfl

/-! ### Flask and Bottle glue -/

/-- Flask, all views: on top of what the view committed itself, what is pending when it ends is committed iff the view
    returned (the module-level db_session allows no exception) and the commit went through; a view that raises gets
    nothing more committed and its exception stays the outcome of the request. -/
theorem C18_flask (env : Env) (view : Prog) (s : St) (hc : Clean s) :
    let b := exec env view (entered (defaultOpts env) s)
    let r := exec env (.flask true view) s
    Clean r.1 ∧
    r.1.committed = b.1.committed ++
      (if b.2 = .ret ∧ commitOK env b.1.ncommit b.1.pending = true then b.1.pending else []) ∧
    (∀ e, b.2 = .raise e → r.2 = .raise e ∧ r.1.committed = b.1.committed) := by
  intro b r
  have hr : r = cm env (defaultOpts env) (exec env view) s := flask_eq_cm env _ s hc
  have h := cm_top env (defaultOpts env) (exec env view) s hc (exec_bal env view) rfl
  dsimp only at h
  have hal : ∀ e, (defaultOpts env).allowed e = .no := fun _ => rfl
  rw [hr]
  refine ⟨h.1, ?_, ?_⟩
  · rw [h.2.1]
    show _ ++ (if wantsCommit (defaultOpts env) b.2.exc? && commitOK env b.1.ncommit b.1.pending then b.1.pending else []) = _
    cases hb : b.2 <;> simp [wantsCommit, Outcome.exc?, hal] <;> rfl
  · intro e he
    have hb : (exec env view (entered (defaultOpts env) s)).2 = .raise e := he
    refine ⟨?_, ?_⟩
    · rw [h.2.2.2, hb]; simp [Outcome.exc?, corErr, hal]
    · rw [h.2.1, hb]; simp [Outcome.exc?, wantsCommit, hal]; rfl

/-- Flask with a view that does not commit itself: the request is committed iff the view succeeded, else nothing is -/
theorem C18_flask_nothing_else (env : Env) (view : Prog) (hm : view.noManual) (s : St) (hc : Clean s) :
    let b := exec env view (entered (defaultOpts env) s)
    let r := exec env (.flask true view) s
    r.1.committed = s.committed ++
      (if b.2 = .ret ∧ commitOK env s.ncommit b.1.pending = true then b.1.pending else []) := by
  intro b r
  have h := (C18_flask env view s hc).2.1
  have hn := C18_nested env view hm (entered (defaultOpts env) s) (by simp [entered]) (by simp [entered])
  have h1 : b.1.committed = s.committed := hn.1
  have h2 : b.1.ncommit = s.ncommit := hn.2.1
  show (exec env (.flask true view) s).1.committed = _
  rw [h, h1, h2]

/-- Flask, teardown without Pony's before_request hook having run (`request.pony_session` absent): `_exit_session`
    does nothing -/
theorem C18_flask_unhooked (env : Env) (view : Prog) (s : St) :
    exec env (.flask false view) s = exec env view s := by
  simp only [exec, flaskRequest, Bool.false_eq_true, if_false, flaskExit_eq]

/-- Bottle: `PonyPlugin.apply` runs the callback exactly once; on top of what the callback committed itself, what is
    pending when it ends is committed iff the commit goes through and the callback returned or raised an HTTPResponse that
    is not an HTTPError (the expression of `is_allowed_exception`, regenerated from the source) and is not retryable;
    otherwise it is discarded. -/
theorem C18_bottle (env : Env) (isResp isErr : Exc → Bool) (callback : Nat → Prog) (s : St) (hc : Clean s) :
    let r := decorated env (bottleOpts env isResp isErr) (fun i => exec env (callback i)) s
    Clean r.st ∧
    ∃ a, r.log = [a] ∧ a.start = entered (bottleOpts env isResp isErr) s ∧
      r.st.committed = a.after.committed ++
        (if commitOK env a.after.ncommit a.writes &&
            (match a.bodyOut with
             | .ret => true
             | .raise e => (isResp e && !isErr e) && !(env.shouldRetry e) && !(env.isTx e))
         then a.writes else []) := by
  intro r
  obtain ⟨h1, a, h2, h3, _⟩ := C18_decorator_commit_iff env (bottleOpts env isResp isErr) callback s hc
  have hb := C18_retry_bound env (bottleOpts env isResp isErr) callback s hc
  have hlen : r.log.length = 1 := by
    have h0 : (bottleOpts env isResp isErr).retry = 0 := rfl
    rw [h0] at hb
    exact Nat.le_antisymm hb.2 hb.1
  have hlog : r.log = [a] := by
    cases hl : r.log with
    | nil => rw [hl] at hlen; cases hlen
    | cons x xs =>
      cases xs with
      | nil =>
        have h2' : r.log.getLast? = some a := h2
        rw [hl] at h2'
        simp at h2'
        rw [h2']
      | cons y ys => rw [hl] at hlen; simp at hlen
  have hstart : a.start = entered (bottleOpts env isResp isErr) s := by
    have hr : r = loop env (bottleOpts env isResp isErr) (fun i => exec env (callback i)) 1 0 none s :=
      decorated_top env _ _ s hc
    have hl2 : r.log = [a] := hlog
    rw [hr, loop_unfold env _ _ 0 0 none s hc] at hl2
    rcases ht : attempt env (bottleOpts env isResp isErr) (fun i => exec env (callback i)) 0 (entered (bottleOpts env isResp isErr) s) with ⟨s2, ao, a'⟩
    rw [ht] at hl2
    have ha' : a' = a := by
      cases ao <;> simpa [loop] using hl2
    rcases hb2 : exec env (callback 0) (entered (bottleOpts env isResp isErr) s) with ⟨bs, bo⟩
    have hsp := (attempt_spec env (bottleOpts env isResp isErr) (fun i => exec env (callback i)) 0 _
      (entered_Entered _ s) (exec_bal env (callback 0)) bs bo hb2).1
    rw [ht] at hsp
    simp only at hsp
    rw [← ha', hsp]
  have hbool : attCommits env (bottleOpts env isResp isErr) a =
      (commitOK env a.after.ncommit a.writes &&
        (match a.bodyOut with
         | .ret => true
         | .raise e => (isResp e && !isErr e) && !(env.shouldRetry e) && !(env.isTx e))) := by
    simp only [attCommits]
    cases a.bodyOut with
    | ret => rfl
    | raise e =>
      simp only [doRetry_eq, bottleOpts, isAllowedException_eq]
      by_cases hs : env.shouldRetry e = true <;> by_cases ht : env.isTx e = true <;>
        by_cases hrd : isResp e = true <;> by_cases hre : isErr e = true <;> simp [hs, ht, hrd, hre]
  refine ⟨h1, a, hlog, hstart, ?_⟩
  show (decorated env (bottleOpts env isResp isErr) (fun i => exec env (callback i)) s).st.committed = _
  rw [h3, hbool]

/-! ### generator functions -/

/-- one step of a `db_session`-wrapped generator, resumed outside any session: afterwards the thread is clean again
    (the consumer's state is restored around the suspension), nothing uncommitted is carried over the suspension
    (`db2cache_copy` holds no pending write), and exactly `stepCommits` was committed:
    the manually committed prefix of the segment iff that `commit()` went through, the rest iff the generator returned
    (StopIteration) and the final commit went through; a segment ending in an exception, in `close()`/`throw()`, or in a
    `yield` with uncommitted changes commits nothing more and propagates an exception. -/
theorem C18_generator_step (env : Env) (o : Opts) (seg : Seg) (resume : Resume) (s : St) (hc : Clean s) :
    Clean (wrappedInteract env o seg resume [] s).1 ∧
    (wrappedInteract env o seg resume [] s).2.1 = [] ∧
    (wrappedInteract env o seg resume [] s).1.committed = s.committed ++ stepCommits env s.ncommit seg resume ∧
    (wrappedInteract env o seg resume [] s).2.2 = stepOutSpec env s.ncommit seg resume := by
  obtain ⟨h1, h2, _, h4, h5⟩ := step_spec env o seg resume s hc
  exact ⟨h1, h2, h4, h5⟩

/-- a segment that ends by raising commits nothing beyond what the body committed itself; the exception propagates -/
theorem C18_generator_raise (env : Env) (o : Opts) (seg : Seg) (s : St) (hc : Clean s) (e : Exc)
    (hfin : seg.fin = .raise e) (hm : seg.manualCommit = false) :
    (wrappedInteract env o seg .next [] s).1.committed = s.committed ∧
    (wrappedInteract env o seg .next [] s).2.2 = .raised e := by
  obtain ⟨_, _, h3, h4⟩ := C18_generator_step env o seg .next s hc
  rw [h3, h4]
  simp [stepCommits, stepOutSpec, hfin, hm]

/-- a wrapped generator resumed inside another db_session: TransactionError, nothing touched -/
theorem C18_generator_inside_session (env : Env) (o : Opts) (seg : Seg) (resume : Resume) (copy : List Write) (s : St)
    (hs : s.session.isSome = true) :
    wrappedInteract env o seg resume copy s = (s, copy, .raised .genInsideSession) := by
  simp [wrappedInteract, hs]

/-- other sessions of the consumer on the same thread while the generator is suspended (`Seg.before`): every suspension
    leaves the thread clean (`C18_generator_step`), so such a session runs like any top-level session — it leaves the
    thread clean again, commits exactly its own row iff its commit goes through (a read-only one commits nothing) — and
    the generator's next step again starts from a clean thread: the two cannot see or disturb each other's transaction -/
theorem C18_generator_consumer_session (env : Env) (b : Between) (s : St) (hc : Clean s) :
    Clean (betweenRun env b s).1 ∧
    (betweenRun env b s).1.committed = s.committed ++
      (match b with
       | .write w => if commitOK env s.ncommit [w] then [w] else []
       | _ => []) := by
  refine ⟨(betweenRun_clean env b s hc).1, ?_⟩
  cases b with
  | none => simp [betweenRun]
  | read =>
    have h := cm_top env {} _ s hc readBody_inner.bal rfl
    have hp := readBody_inner (entered {} s) (by simp [entered]) (by simp [entered])
    obtain ⟨ws, hws⟩ := hp.pending
    have hpend : ws = [] := by
      have : (entered ({} : Opts) s).session.isSome = true := by simp [entered]
      simp only [this, if_true] at hws
      simpa using hws.symm
    show (cm env {} _ s).1.committed = _
    rw [h.2.1, hp.committed]
    have hpe : (entered ({} : Opts) s).pending = [] := by simpa [entered] using hc.2.2
    simp only [hpe, List.append_nil]
    simp [entered]
  | write w =>
    have h := cm_top env {} _ s hc (writeBody_inner w).bal rfl
    show (cm env {} _ s).1.committed = _
    rw [h.2.1]
    simp [addWrites, wantsCommit, Outcome.exc?, entered, hc.2.2]

/-- a whole run of a wrapped generator (any resume script): clean at the end, the database only grows -/
theorem C18_generator_run (env : Env) (o : Opts) (steps : List (Seg × Resume)) (s : St) (hc : Clean s) :
    Clean (exec env (.iter o steps) s).1 ∧ s.committed <+: (exec env (.iter o steps) s).1.committed :=
  iterGen_clean env o steps s hc

/-! ### several databases in one db_session: module-level `commit()` / `rollback()` over all session caches
(Model/DbSessionMulti.lean).  Here the clause "otherwise nothing is committed" of C18 is FALSE for the code as it is —
there is no two-phase commit — so the full statement is kept as a `def`, refuted by a witness that the engine replays on
the real code on every run, and the strongest true statements are proved: every database on its own is atomic; a failing
flush or a failing commit of the primary database commits nothing anywhere; under the guard `othersCommit` the whole
session is all-or-nothing; a failed body leaves every database untouched whatever `rollback()` itself does. -/

section MultiDb
open PonyVerif.Model.DbSessionMulti

/-- `rollback()` discards everything pending in every database and empties `local.db2cache` — also when the rollback of
    some (or every) connection itself fails (the connection is dropped then) -/
theorem C18_multi_rollback_discards (f : Faults) (cs : List Cache) :
    Rel Unchanged cs (rollbackAll f cs).1 ∧ ∀ c ∈ (rollbackAll f cs).1, c.alive = false := by
  refine ⟨rel_map rolledBack rolledBack_unchanged cs, ?_⟩
  intro c hc
  simp only [rollbackAll, List.mem_map] at hc
  obtain ⟨x, _, rfl⟩ := hc
  rfl

/-- the outermost exit of a session whose body failed with an exception that is not allowed: every database is left
    untouched and `__exit__` raises nothing itself (a RollbackException is swallowed: the body's exception propagates),
    for ANY number of databases and ANY rollback failures -/
theorem C18_multi_failed_body (f : Faults) (cs : List Cache) :
    Rel Unchanged cs (exitSession f false cs).1 ∧ (exitSession f false cs).2 = none := by
  simp only [exitSession, Bool.false_eq_true, if_false, and_true]
  exact (C18_multi_rollback_discards f cs).1

/-- every database on its own is atomic, whatever fails: it ends either with all of the session's writes to it committed
    or untouched -/
theorem C18_multi_each_atomic (f : Faults) (cs : List Cache) :
    Rel (fun c c' => Unchanged c c' ∨ Committed c c') cs (commitAll f cs).1 := by
  cases cs with
  | nil => exact .nil
  | cons p os =>
    simp only [commitAll]
    cases (p :: os).find? (flushRaises f) with
    | some c => exact rel_mono (fun _ _ h => .inl h) (rel_map rolledBack rolledBack_unchanged (p :: os))
    | none =>
      dsimp only
      rcases cacheCommit_cases f p with hp | hp
      · simp only [hp.1, if_true]
        exact .cons (.inl hp.2.1) (rel_mono (fun _ _ h => .inl h) (rel_map rolledBack rolledBack_unchanged os))
      · simp only [hp.1, Bool.false_eq_true, if_false]
        exact .cons (.inr hp.2.1) (others_shape f os)

/-- a failing flush (of any database) or a failing commit of the PRIMARY database: nothing is committed anywhere -/
theorem C18_multi_primary_atomic (f : Faults) (p : Cache) (os : List Cache)
    (h : (∃ c ∈ p :: os, flushRaises f c = true) ∨ (p.pending ≠ [] ∧ f.commit p.db = true)) :
    Rel Unchanged (p :: os) (commitAll f (p :: os)).1 ∧ (commitAll f (p :: os)).2 ≠ none := by
  simp only [commitAll]
  cases hfind : (p :: os).find? (flushRaises f) with
  | some c => exact ⟨rel_map rolledBack rolledBack_unchanged (p :: os), by simp⟩
  | none =>
    rcases h with ⟨c, hc, hfl⟩ | ⟨hp1, hp2⟩
    · rw [List.find?_eq_none] at hfind
      exact absurd hfl (by simpa using hfind c hc)
    · dsimp only
      rcases cacheCommit_cases f p with hp | hp
      · simp only [hp.1, if_true]
        exact ⟨.cons hp.2.1 (rel_map rolledBack rolledBack_unchanged os), by simp⟩
      · rcases hp.2.2 with h1 | h1
        · exact absurd h1 hp1
        · rw [hp2] at h1; cases h1

/-- the guard under which the whole session is atomic across databases: no non-primary database that has something
    pending fails to commit -/
def othersCommit (f : Faults) (os : List Cache) : Prop := ∀ c ∈ os, c.pending = [] ∨ f.commit c.db = false

/-- under that guard `commit()` is all-or-nothing across ALL databases: either everything pending is committed in every
    database and nothing is raised, or an exception is raised and no database changed -/
theorem C18_multi_atomic_partial (f : Faults) (p : Cache) (os : List Cache) (hg : othersCommit f os) :
    ((commitAll f (p :: os)).2 = none ∧ Rel Committed (p :: os) (commitAll f (p :: os)).1) ∨
    ((commitAll f (p :: os)).2 ≠ none ∧ Rel Unchanged (p :: os) (commitAll f (p :: os)).1) := by
  by_cases hfl : ∃ c ∈ p :: os, flushRaises f c = true
  · exact .inr ((C18_multi_primary_atomic f p os (.inl hfl)).symm)
  · have hfind : (p :: os).find? (flushRaises f) = none := by
      apply find_none_of_noflush
      intro c hc
      cases hv : flushRaises f c with
      | false => rfl
      | true => exact absurd ⟨c, hc, hv⟩ hfl
    rcases cacheCommit_cases f p with hp | hp
    · exact .inr ((C18_multi_primary_atomic f p os (.inr ⟨hp.2.2.1, hp.2.2.2⟩)).symm)
    · left
      have ho := others_ok f os hg
      simp only [commitAll, hfind, hp.1, Bool.false_eq_true, if_false, ho.2]
      exact ⟨trivial, .cons hp.2.1 ho.1⟩

/-- the full statement: "`commit()` raises → nothing is committed in any database" -/
def C18_multi_atomic_full : Prop :=
  ∀ (f : Faults) (cs : List Cache), (commitAll f cs).2 ≠ none → Rel Unchanged cs (commitAll f cs).1

/-- two databases, both written; the commit of the non-primary one fails -/
def witnessCaches : List Cache := [{ db := 1, num := 1, pending := [11] }, { db := 0, num := 0, pending := [10] }]
def witnessFaults : Faults := { commit := fun db => db == 0 }

/-- … is FALSE for the code as it is: there is no two-phase commit; the primary database is already committed when the
    commit of another one fails (PartialCommitException).  The engine replays this witness on the real code on every run. -/
theorem C18_multi_atomic_full_false : ¬ C18_multi_atomic_full := by
  intro h
  have h1 := h witnessFaults witnessCaches (by decide)
  have h2 : commitAll witnessFaults witnessCaches =
      ([{ db := 1, num := 1, committed := [11] }, { db := 0, num := 0, alive := false }], some .partialCommit) := by decide
  rw [h2] at h1
  cases h1 with
  | cons hab _ => exact absurd hab.2.1 (by decide)

/-- when `commit()` ends with PartialCommitException the primary database IS committed -/
theorem C18_multi_partial_means_primary_committed (f : Faults) (p : Cache) (os : List Cache)
    (h : (commitAll f (p :: os)).2 = some .partialCommit) :
    ∃ p' rest, (commitAll f (p :: os)).1 = p' :: rest ∧ Committed p p' := by
  simp only [commitAll] at h ⊢
  cases hfind : (p :: os).find? (flushRaises f) with
  | some c => rw [hfind] at h; simp at h
  | none =>
    rw [hfind] at h
    dsimp only at h ⊢
    rcases cacheCommit_cases f p with hp | hp
    · simp [hp.1] at h
    · simp only [hp.1, Bool.false_eq_true, if_false]
      exact ⟨_, _, rfl, hp.2.1⟩

/-- the order in which `commit()` goes through the databases: `_get_caches()` yields the live caches sorted by
    (priority, creation number), highest first — with equal priorities the database touched LAST is the primary one -/
example : (getCaches [{ db := 0, num := 0 }, { db := 1, num := 1 }, { db := 2, num := 2, alive := false }]).map (·.db) = [1, 0] := by
  decide
example : (getCaches [{ db := 0, num := 0, priority := 5 }, { db := 1, num := 1 }]).map (·.db) = [0, 1] := by decide

/-- non-vacuity of the guard -/
example : othersCommit witnessFaults [{ db := 3, pending := [1] }, { db := 0 }] := by
  intro c hc
  simp only [List.mem_cons, List.mem_singleton, List.not_mem_nil, or_false] at hc
  rcases hc with rfl | rfl
  · right; rfl
  · left; rfl

end MultiDb

/-! ### non-vacuity: concrete runs of the model -/

def eRetry : Exc := .user 1
def eAllowed : Exc := .user 2
def eOther : Exc := .user 3

def optsEx : Opts :=
  { retry := 2,
    allowed := fun e => if e = eAllowed then .yes else .no,
    retryable := fun e => if e = eRetry then .yes else .no }

/-- body: attempts 0 and 1 write and raise the retryable exception, attempt 2 writes and returns -/
def bodyEx (i : Nat) : Prog :=
  if i < 2 then .seq (.write (10 + i)) (.raise eRetry) else .seq (.write (10 + i)) (.withSession {} (.write 99))

example : Clean ({} : St) := ⟨rfl, rfl, rfl⟩

example : (exec {} (.call optsEx bodyEx) {}).1.committed = [12, 99] ∧ (exec {} (.call optsEx bodyEx) {}).2 = .ret ∧
    (decorated {} optsEx (fun i => exec {} (bodyEx i)) {}).log.length = 3 := by decide

/-- retries exhausted: nothing committed, the exception propagates, 3 executions -/
example : (exec {} (.call optsEx (fun i => .seq (.write i) (.raise eRetry))) {}).1.committed = [] ∧
    (exec {} (.call optsEx (fun i => .seq (.write i) (.raise eRetry))) {}).2 = .raise eRetry ∧
    (decorated {} optsEx (fun i => exec {} (.seq (.write i) (.raise eRetry))) {}).log.length = 3 := by decide

/-- allowed exception: committed, and it propagates; other exception: rolled back -/
example : exec {} (.withSession { optsEx with retry := 0 } (.seq (.write 7) (.raise eAllowed))) {} =
    ({ committed := [7], ncommit := 1 }, .raise eAllowed) := by decide
example : exec {} (.withSession { optsEx with retry := 0 } (.seq (.write 7) (.raise eOther))) {} =
    ({}, .raise eOther) := by decide

/-- failing commit: nothing committed, the commit's exception propagates -/
example : exec { commitFail := fun _ => some (.user 100) } (.withSession {} (.write 7)) {} =
    ({ ncommit := 1 }, .raise (.user 100)) := by decide

/-- Flask: failing view → rollback; succeeding view → commit -/
example : exec {} (.flask true (.seq (.write 1) (.raise eOther))) {} = ({}, .raise eOther) := by decide
example : exec {} (.flask true (.write 1)) {} = ({ committed := [1], ncommit := 1 }, .ret) := by decide

/-- a body that commits itself: what it committed stays, what it wrote afterwards is rolled back when it fails … -/
example : exec {} (.withSession {} (.seq (.write 1) (.seq .commit (.seq (.write 2) (.raise eOther))))) {} =
    ({ committed := [1], ncommit := 1 }, .raise eOther) := by decide
/-- … a retried attempt keeps only what it committed itself, and the next attempt starts from exactly that -/
example : (exec {} (.call optsEx (fun i => if i = 0 then .seq (.write 1) (.seq .commit (.seq (.write 2) (.raise eRetry)))
                                            else .seq .observe (.write 3))) {}) =
    ({ committed := [1, 3], ncommit := 2, trace := [.saw [1]] }, .ret) := by decide
/-- … and `rollback()` inside a body discards what was pending, the session goes on -/
example : exec {} (.withSession {} (.seq (.write 1) (.seq .rollback (.write 2)))) {} =
    ({ committed := [2], ncommit := 1 }, .ret) := by decide
/-- the `noManual` hypothesis is satisfiable by a program with nested sessions -/
example : (Prog.withSession {} (.seq (.write 1) (.call optsEx bodyEx))).noManual := by
  simp only [Prog.noManual, bodyEx, true_and]
  intro i
  split <;> simp [Prog.noManual]

/-- generator: manual commit before the yield is kept, the tail of a raising segment is not -/
example : exec {} (.iter {} [({ writes := [1], manualCommit := true, fin := .yield }, .next),
                             ({ writes := [2], fin := .raise eOther }, .next)]) {} =
    ({ committed := [1], ncommit := 1 }, .raise eOther) := by decide

end PonyVerif.Props.C18
