import PonyVerif.Model.DbSession
namespace PonyVerif.Props.C18
open PonyVerif.Model.DbSession

theorem C18_placeholder : (exec {} .skip {}).2 = .ret := rfl

end PonyVerif.Props.C18
