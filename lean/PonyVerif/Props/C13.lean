import PonyVerif.Model.Undo
/-
  C13 — a modification that raises leaves the session exactly as it was.  (theorems: work in progress)
-/
namespace PonyVerif.Props.C13
open PonyVerif.Model.Undo

/-- running an empty undo list changes nothing -/
theorem undoAll_nil (s : Store) : undoAll [] s = s := rfl

end PonyVerif.Props.C13
