import PonyVerif.Lemmas.UndoCreate
/-
  C13 — a modification that raises leaves the session exactly as it was.

  The model (Model/Undo.lean) mirrors the do/undo structure of pony/orm/core.py: every mutation for which the code registers
  an undo closure pushes the inverse that closure performs; mutations without a registered inverse are performed without
  one; a failing call runs the list newest-first.  The theorems below say that this structure restores the whole
  observation, for EVERY schema, EVERY well-formed store and EVERY call (create, attribute assignment, obj.set(**kw),
  collection assign / add / remove / clear, delete with cascades of any depth).
-/
namespace PonyVerif.Props.C13
open PonyVerif.Model.Undo

/-- what the property calls "every observable part of the session": the objects with status, primary key, `_save_pos_`,
    write bits, attribute values and the SetData of every collection (items, added, removed, count); the save queue
    `objects_to_save` with its positions; the primary-key, unique and composite-key indexes; `modified_collections`.
    (`cache.modified` is not part of it: the code never restores that flag; a flush with an empty queue writes nothing.) -/
structure Observation where
  n : Nat
  row : ObjId → Option Row
  toSave : List (Option ObjId)
  pkIdx : EntId → Nat → Option ObjId
  idx : AttrId → Nat → Option ObjId
  cidx : KeyId → List Nat → Option ObjId
  modColl : AttrId → ObjId → Bool

def observe (s : Store) : Observation :=
  { n := s.n, row := fun o => if o < s.n then some (s.row o) else none, toSave := s.toSave,
    pkIdx := s.pkIdx, idx := s.idx, cidx := s.cidx, modColl := s.modColl }

/-- well-formed session: `_save_pos_` and `objects_to_save` agree; the key indexes hold exactly the current key values of live objects;
    their entries belong to declared keys and point to objects of the session -/
def WF (sch : Schema) (s : Store) : Prop := SaveOk s ∧ IdxOk sch s ∧ IdxDom sch s

theorem observe_eq_of_eqv {s R : Store} (h : Eqv s.n R s) : observe R = observe s := by
  simp only [observe, h.n, h.toSave, h.pkIdx, h.idx, h.cidx, h.modColl, Observation.mk.injEq, true_and, and_true]
  funext o
  by_cases ho : o < s.n
  · simp only [ho, if_true]; rw [h.row o ho]
  · simp only [ho, if_false]

/-- THE PROPERTY: a call that raises leaves every observable part of the session as it was -/
theorem C13 (sch : Schema) (s : Store) (op : Op) (e : Err) (hwf : WF sch s) (h : (stepO sch s op).err = some e) :
    observe (stepO sch s op).store = observe s := by
  unfold stepO at h ⊢
  cases op with
  | flush ids => simp at h
  | create ent pk vals =>
    simp only at h ⊢
    generalize hr : run1 sch (Op.create ent pk vals) { store := s } = r at h ⊢
    cases r with
    | ok st => simp at h
    | err e' st => exact observe_eq_of_eqv (failing_call_restores _ s e' st hwf.1 hwf.2.1 hr)
  | set o a v =>
    simp only at h ⊢
    generalize hr : run1 sch (Op.set o a v) { store := s } = r at h ⊢
    cases r with
    | ok st => simp at h
    | err e' st => exact observe_eq_of_eqv (failing_call_restores _ s e' st hwf.1 hwf.2.1 hr)
  | setMany o kw =>
    simp only at h ⊢
    generalize hr : run1 sch (Op.setMany o kw) { store := s } = r at h ⊢
    cases r with
    | ok st => simp at h
    | err e' st => exact observe_eq_of_eqv (failing_call_restores _ s e' st hwf.1 hwf.2.1 hr)
  | add o c items =>
    simp only at h ⊢
    generalize hr : run1 sch (Op.add o c items) { store := s } = r at h ⊢
    cases r with
    | ok st => simp at h
    | err e' st => exact observe_eq_of_eqv (failing_call_restores _ s e' st hwf.1 hwf.2.1 hr)
  | remove o c items =>
    simp only at h ⊢
    generalize hr : run1 sch (Op.remove o c items) { store := s } = r at h ⊢
    cases r with
    | ok st => simp at h
    | err e' st => exact observe_eq_of_eqv (failing_call_restores _ s e' st hwf.1 hwf.2.1 hr)
  | clear o c =>
    simp only at h ⊢
    generalize hr : run1 sch (Op.clear o c) { store := s } = r at h ⊢
    cases r with
    | ok st => simp at h
    | err e' st => exact observe_eq_of_eqv (failing_call_restores _ s e' st hwf.1 hwf.2.1 hr)
  | delete o =>
    simp only at h ⊢
    generalize hr : run1 sch (Op.delete o) { store := s } = r at h ⊢
    cases r with
    | ok st => simp at h
    | err e' st => exact observe_eq_of_eqv (failing_call_restores _ s e' st hwf.1 hwf.2.1 hr)

/-- the same for `step`, the state-transition function of the model -/
theorem C13_step (sch : Schema) (s : Store) (op : Op) (e : Err) (hwf : WF sch s) (h : (stepO sch s op).err = some e) :
    observe (step sch s op) = observe s := C13 sch s op e hwf h

/-- pending writes: after a failed call a commit has the same queue, the same positions and the same modified collections to work from -/
theorem C13_pending_writes (sch : Schema) (s : Store) (op : Op) (e : Err) (hwf : WF sch s) (h : (stepO sch s op).err = some e) :
    (stepO sch s op).store.toSave = s.toSave ∧ (stepO sch s op).store.modColl = s.modColl ∧
    ∀ o, o < s.n → ((stepO sch s op).store.row o).savePos = (s.row o).savePos ∧ ((stepO sch s op).store.row o).status = (s.row o).status ∧
      ((stepO sch s op).store.row o).wbits = (s.row o).wbits ∧ ((stepO sch s op).store.row o).added = (s.row o).added ∧
      ((stepO sch s op).store.row o).removed = (s.row o).removed := by
  have h0 := C13 sch s op e hwf h
  have hq : (observe (stepO sch s op).store).toSave = (observe s).toSave := by rw [h0]
  have hm : (observe (stepO sch s op).store).modColl = (observe s).modColl := by rw [h0]
  refine ⟨hq, hm, fun o ho => ?_⟩
  have hn : (observe (stepO sch s op).store).n = (observe s).n := by rw [h0]
  have hr : (observe (stepO sch s op).store).row o = (observe s).row o := by rw [h0]
  have hn' : (stepO sch s op).store.n = s.n := hn
  simp only [observe, hn', ho, if_true, Option.some.injEq] at hr
  rw [hr]; exact ⟨rfl, rfl, rfl, rfl, rfl⟩

/-- key lookups after a failed call answer as before -/
theorem C13_key_lookups (sch : Schema) (s : Store) (op : Op) (e : Err) (hwf : WF sch s) (h : (stepO sch s op).err = some e) :
    (stepO sch s op).store.pkIdx = s.pkIdx ∧ (stepO sch s op).store.idx = s.idx ∧ (stepO sch s op).store.cidx = s.cidx := by
  have h0 := C13 sch s op e hwf h
  exact ⟨by have : (observe (stepO sch s op).store).pkIdx = (observe s).pkIdx := by rw [h0]
            exact this,
         by have : (observe (stepO sch s op).store).idx = (observe s).idx := by rw [h0]
            exact this,
         by have : (observe (stepO sch s op).store).cidx = (observe s).cidx := by rw [h0]
            exact this⟩

/-- the empty session is well-formed -/
theorem C13_WF_init (sch : Schema) : WF sch ({} : Store) :=
  ⟨fun o ho => absurd ho (Nat.not_lt_zero o), fun o ho => absurd ho (Nat.not_lt_zero o),
   ⟨fun _ _ _ h => (by cases h), fun _ _ _ h => (by cases h)⟩⟩

/-- a failed call leaves a well-formed session well-formed -/
theorem C13_failed_call_keeps_WF (sch : Schema) (s : Store) (op : Op) (e : Err) (hwf : WF sch s) (h : (stepO sch s op).err = some e) :
    WF sch (step sch s op) := by
  have key : ∀ (r : Res), run1 sch op { store := s } = r → ∀ e' st, r = .err e' st → WF sch (undoAll st.trail st.store) := by
    intro r hr e' st hrr
    have he := failing_call_restores op s e' st hwf.1 hwf.2.1 (hr.trans hrr)
    exact ⟨hwf.1.of_eqv he, hwf.2.1.of_eqv he, hwf.2.2.of_eqv he⟩
  unfold step stepO at *
  cases op with
  | flush ids => simp at h
  | create ent pk vals =>
    simp only at h ⊢
    generalize hr : run1 sch (Op.create ent pk vals) { store := s } = r at h ⊢
    cases r with
    | ok st => simp at h
    | err e' st => exact key _ hr e' st rfl
  | set o a v =>
    simp only at h ⊢
    generalize hr : run1 sch (Op.set o a v) { store := s } = r at h ⊢
    cases r with
    | ok st => simp at h
    | err e' st => exact key _ hr e' st rfl
  | setMany o kw =>
    simp only at h ⊢
    generalize hr : run1 sch (Op.setMany o kw) { store := s } = r at h ⊢
    cases r with
    | ok st => simp at h
    | err e' st => exact key _ hr e' st rfl
  | add o c items =>
    simp only at h ⊢
    generalize hr : run1 sch (Op.add o c items) { store := s } = r at h ⊢
    cases r with
    | ok st => simp at h
    | err e' st => exact key _ hr e' st rfl
  | remove o c items =>
    simp only at h ⊢
    generalize hr : run1 sch (Op.remove o c items) { store := s } = r at h ⊢
    cases r with
    | ok st => simp at h
    | err e' st => exact key _ hr e' st rfl
  | clear o c =>
    simp only at h ⊢
    generalize hr : run1 sch (Op.clear o c) { store := s } = r at h ⊢
    cases r with
    | ok st => simp at h
    | err e' st => exact key _ hr e' st rfl
  | delete o =>
    simp only at h ⊢
    generalize hr : run1 sch (Op.delete o) { store := s } = r at h ⊢
    cases r with
    | ok st => simp at h
    | err e' st => exact key _ hr e' st rfl

/-- EVERY call keeps the session well-formed, whatever its outcome: flush, delete with cascades of any depth, every collection call,
    attribute assignment (key attributes included), `obj.set(**kw)` and the constructor — for schemas of the kind Pony accepts
    (`SchemaWf`: key attributes belong to the key's entity, `unique` only on int attributes, no collection inside a key), with the
    decidable guard `createdOk`: the object made by a successful constructor call has status `created` -/
theorem C13_WF_step (sch : Schema) (s : Store) (op : Op) (hsw : SchemaWf sch) (hwf : WF sch s) (hc : createdOk sch s op = true) :
    WF sch (step sch s op) := by
  cases herr : (stepO sch s op).err with
  | some e => exact C13_failed_call_keeps_WF sch s op e hwf herr
  | none =>
    have key : ∀ st', run1 sch op { store := s } = .ok st' → WF sch st'.store :=
      fun st' h => call_keeps hsw op s st' hwf.1 hwf.2.1 hwf.2.2 h hc
    unfold step stepO at *
    cases op with
    | flush ids => exact flush_keeps sch ids s hwf.1 hwf.2.1 hwf.2.2
    | create ent pk vals =>
      simp only at herr ⊢
      generalize hr : run1 sch (Op.create ent pk vals) { store := s } = r at herr ⊢
      cases r with
      | ok st => exact key st hr
      | err e' st => simp at herr
    | setMany o kw =>
      simp only at herr ⊢
      generalize hr : run1 sch (Op.setMany o kw) { store := s } = r at herr ⊢
      cases r with
      | ok st => exact key st hr
      | err e' st => simp at herr
    | set o a v =>
      simp only at herr ⊢
      generalize hr : run1 sch (Op.set o a v) { store := s } = r at herr ⊢
      cases r with
      | ok st => exact key st hr
      | err e' st => simp at herr
    | add o c items =>
      simp only at herr ⊢
      generalize hr : run1 sch (Op.add o c items) { store := s } = r at herr ⊢
      cases r with
      | ok st => exact key st hr
      | err e' st => simp at herr
    | remove o c items =>
      simp only at herr ⊢
      generalize hr : run1 sch (Op.remove o c items) { store := s } = r at herr ⊢
      cases r with
      | ok st => exact key st hr
      | err e' st => simp at herr
    | clear o c =>
      simp only at herr ⊢
      generalize hr : run1 sch (Op.clear o c) { store := s } = r at herr ⊢
      cases r with
      | ok st => exact key st hr
      | err e' st => simp at herr
    | delete o =>
      simp only at herr ⊢
      generalize hr : run1 sch (Op.delete o) { store := s } = r at herr ⊢
      cases r with
      | ok st => exact key st hr
      | err e' st => simp at herr

/-- the guard of `C13_WF_step` along a whole history -/
def createdOkAll (sch : Schema) : Store → List Op → Bool
  | _, [] => true
  | s, op :: ops => createdOk sch s op && createdOkAll sch (step sch s op) ops

/-- every state reachable by a history of calls (whose constructors left their objects `created`) is well-formed -/
theorem C13_WF_reachable (sch : Schema) (hsw : SchemaWf sch) : ∀ (history : List Op) (s : Store), WF sch s → createdOkAll sch s history = true →
    WF sch (run sch s history) := by
  intro history
  induction history with
  | nil => intro s hs _; exact hs
  | cons op ops ih =>
    intro s hs hc
    simp only [createdOkAll, Bool.and_eq_true] at hc
    exact ih _ (C13_WF_step sch s op hsw hs hc.1) hc.2

/-- THE PROPERTY IN EVERY REACHABLE STATE: after any history of calls (valid or failing, any mix of creates, assignments, set(**kw),
    collection calls, deletes, flushes), a call that raises leaves every observable part of the session as it was -/
theorem C13_reachable (sch : Schema) (hsw : SchemaWf sch) (history : List Op) (hc : createdOkAll sch {} history = true) (op : Op) (e : Err)
    (h : (stepO sch (run sch {} history) op).err = some e) :
    observe (step sch (run sch {} history) op) = observe (run sch {} history) :=
  C13 sch _ op e (C13_WF_reachable sch hsw history {} (C13_WF_init sch) hc) h

/-- the statement without the guard `createdOk` (NOT proved: it needs 'the object under construction is not deleted by its own
    constructor', true of the code, where the constructor never calls `_delete_`) -/
def C13_WF_invariant_full : Prop := ∀ (sch : Schema) (s : Store) (op : Op), SchemaWf sch → WF sch s → WF sch (step sch s op)

/-! ### the hypotheses are satisfiable, the conclusion is not vacuous -/

/-- one entity E0 with a one-to-many collection `a0` (reverse `a1`, Optional) and a blocking collection `a2` (reverse `a3`, Required,
    no cascade): deleting the parent first clears `a0` through `Set.__set__(obj, (), undo_funcs)` and is then refused -/
def demoSchema : Schema :=
  { attrs := [ { ent := 0, kind := .coll, rev := 1 }, { ent := 1, kind := .ref, rev := 0 },
               { ent := 0, kind := .coll, rev := 3 }, { ent := 2, kind := .ref, rev := 2, required := true } ], ckeys := [] }

def demoHistory : List Op :=
  [ .create 0 (some 1) [], .create 1 (some 1) [(1, .val (some 0))], .create 2 (some 1) [(3, .val (some 0))] ]

/-- the delete of the parent fails ... -/
example : (stepO demoSchema (run demoSchema {} demoHistory) (.delete 0)).err = some .constraintError := by decide

/-- ... after it registered undo entries (the child's reference, the reverse removal, the collection rewrite) -/
example : (run1 demoSchema (.delete 0) { store := run demoSchema {} demoHistory }).st.trail.length = 3 := by decide

/-- the guard of `C13_reachable` is met by the history above -/
example : createdOkAll demoSchema {} demoHistory = true := by decide

end PonyVerif.Props.C13
