/-
  C27 — objects keep their class and polymorphic queries are exact.  Property theorems only.
  All statements are for every hierarchy `h` (any number of classes, any multiple-inheritance DAG respecting definition order).
-/
import PonyVerif.Model.Inherit
import PonyVerif.Model.JoinDiscr
import PonyVerif.Model.SeedLoad
set_option linter.unusedSimpArgs false
set_option linter.unusedVariables false
namespace PonyVerif.Props.C27
open PonyVerif.Model.Inherit

/-! ### `_all_bases_` / `_subclasses_` are Python's subclass relation -/

/-- `i ∈ j._all_bases_` iff `j` is a proper subclass of `i` (any fuel ≥ the class number) -/
theorem C27_allBases (h : Hier) (hw : h.wf) : ∀ (f j i : Nat), j ≤ f → (i ∈ allBases h f j ↔ StrictSub h j i) := by
  intro f
  induction f with
  | zero =>
    intro j i hj
    have hj0 : j = 0 := by omega
    subst hj0
    constructor
    · intro hm; simp [allBases] at hm
    · intro hs
      cases hs with
      | direct hb => exact absurd (hw 0 _ hb) (by omega)
      | trans hb _ => exact absurd (hw 0 _ hb) (by omega)
  | succ f ih =>
    intro j i hj
    constructor
    · intro hm
      simp only [allBases, List.mem_flatMap, List.mem_append, List.mem_singleton] at hm
      obtain ⟨b, hb, hi⟩ := hm
      have hbj := hw j b hb
      rcases hi with hi | hi
      · exact StrictSub.trans hb ((ih b i (by omega)).1 hi)
      · subst hi; exact StrictSub.direct hb
    · intro hs
      simp only [allBases, List.mem_flatMap, List.mem_append, List.mem_singleton]
      cases hs with
      | direct hb => exact ⟨i, hb, Or.inr rfl⟩
      | trans hb hs' =>
        rename_i b
        have hbj := hw j b hb
        exact ⟨b, hb, Or.inl ((ih b i (by omega)).2 hs')⟩

theorem strictSub_lt (h : Hier) (hw : h.wf) {j i : Nat} (hs : StrictSub h j i) : i < j := by
  induction hs with
  | direct hb => exact hw _ _ hb
  | trans hb _ ih => have := hw _ _ hb; omega

/-- the computable `issubclass` is the inductive one -/
theorem C27_isSub (h : Hier) (hw : h.wf) (j i : Nat) : h.isSub j i = true ↔ IsSub h j i := by
  simp only [Hier.isSub, Hier.allBasesOf, Bool.or_eq_true, beq_iff_eq, List.contains_iff_mem, IsSub]
  rw [C27_allBases h hw j j i (Nat.le_refl _)]

/-- `j ∈ i._subclasses_` iff `j` is a class of the hierarchy and a proper subclass of `i` -/
theorem C27_subclasses (h : Hier) (hw : h.wf) (i j : Nat) : j ∈ h.subclasses i ↔ (j < h.n ∧ StrictSub h j i) := by
  simp only [Hier.subclasses, List.mem_filter, List.mem_range, List.contains_iff_mem, Hier.allBasesOf]
  rw [C27_allBases h hw j j i (Nat.le_refl _)]

/-- the subclass relation is antisymmetric (definition order) -/
theorem C27_sub_antisymm (h : Hier) (hw : h.wf) {j i : Nat} (h1 : IsSub h j i) (h2 : IsSub h i j) : j = i := by
  rcases h1 with h1 | h1
  · exact h1
  · rcases h2 with h2 | h2
    · exact h2.symm
    · have := strictSub_lt h hw h1; have := strictSub_lt h hw h2; omega

/-! ### rows: the IN-list of a query over `e` keeps exactly the rows of `e` and its subclasses; the row's class is read back exactly -/

/-- with pairwise different discriminator values, `code2cls` returns the class that wrote the value -/
theorem C27_code2cls (h : Hier) (hd : h.distinct) (r : Nat) (hr : r < h.n) : h.code2cls (h.discr r) = some r := by
  simp only [Hier.code2cls]
  have hfind : ∀ (l : List Nat), (∀ x ∈ l, x < h.n) → r ∈ l → l.find? (fun i => h.discr i == h.discr r) = some r := by
    intro l
    induction l with
    | nil => intro _ hm; simp at hm
    | cons x xs ih =>
      intro hl hm
      by_cases hx : h.discr x = h.discr r
      · have : x = r := hd x r (hl x (by simp)) hr hx
        have hx' : (h.discr x == h.discr r) = true := by simpa using hx
        rw [List.find?_cons, hx', this]
      · have hx' : (h.discr x == h.discr r) = false := by simpa using hx
        have hm' : r ∈ xs := by
          simp at hm; rcases hm with hm | hm
          · subst hm; exact absurd rfl hx
          · exact hm
        rw [List.find?_cons, hx']
        exact ih (fun y hy => hl y (by simp [hy])) hm'
  apply hfind
  · intro x hx; simpa using hx
  · simpa using hr

/-- **Polymorphic criteria are exact.**  For every hierarchy with pairwise different discriminators, every entity `e` and every row written
    by class `r`: the row passes the `IN` criteria of a query over `e` iff `r` is `e` or a subclass of `e`. -/
theorem C27_criteria (h : Hier) (hw : h.wf) (hd : h.distinct) (e r : Nat) (he : e < h.n) (hr : r < h.n) :
    h.selects e (h.discr r) = true ↔ IsSub h r e := by
  simp only [Hier.selects, Hier.criteria, List.contains_iff_mem, List.mem_append, List.mem_map, List.mem_singleton, IsSub]
  constructor
  · intro hm
    rcases hm with ⟨j, hj, hdj⟩ | hm
    · have hj' := (C27_subclasses h hw e j).1 hj
      have : j = r := hd j r hj'.1 hr hdj
      subst this; exact Or.inr hj'.2
    · exact Or.inl (hd r e hr he hm)
  · intro hs
    rcases hs with hs | hs
    · subst hs; exact Or.inr rfl
    · exact Or.inl ⟨r, (C27_subclasses h hw e r).2 ⟨hr, hs⟩, rfl⟩

/-- the row is materialised as exactly the class that wrote it (`row.discr ∈ criteria E ↔ isSubclass (classOf row.discr) E`) -/
theorem C27_row_class (h : Hier) (hw : h.wf) (hd : h.distinct) (e r : Nat) (he : e < h.n) (hr : r < h.n) :
    h.parseRow (h.discr r) = some r ∧ (h.selects e (h.discr r) = true ↔ ∃ c, h.parseRow (h.discr r) = some c ∧ IsSub h c e) := by
  have hc := C27_code2cls h hd r hr
  refine ⟨hc, ?_⟩
  rw [C27_criteria h hw hd e r he hr]
  simp [Hier.parseRow, hc]

/-- the full statement without the distinctness guard -/
def C27_criteria_full : Prop :=
  ∀ (h : Hier), h.wf → ∀ e r, e < h.n → r < h.n → (h.selects e (h.discr r) = true ↔ IsSub h r e)

/-- two sibling classes with the same `_discriminator_` value (Pony accepts the definition): rows of one are selected by queries over the other -/
def dupHier : Hier := { n := 3, bases := fun i => if i = 0 then [] else [0], discr := fun i => if i = 0 then 0 else 1 }

theorem C27_criteria_full_false : ¬ C27_criteria_full := by
  intro hf
  have hw : dupHier.wf := by
    intro i b hb
    by_cases hi : i = 0
    · simp [dupHier, hi] at hb
    · have hb0 : b = 0 := by simpa [dupHier, hi] using hb
      omega
  have := (hf dupHier hw 1 2 (by decide) (by decide)).1 (by decide)
  rcases this with h1 | h1
  · exact absurd h1 (by decide)
  · cases h1 with
    | direct hb => simp [dupHier] at hb
    | trans hb hs =>
      rename_i b
      have hb0 : b = 0 := by simpa [dupHier] using hb
      rw [hb0] at hs
      have := strictSub_lt dupHier hw hs; omega

/-- … and such a row is read back as the class defined last (`code2cls` overwrites) -/
theorem C27_duplicate_reads_back_wrong : dupHier.parseRow (dupHier.discr 1) = some 2 := by decide

example : (⟨3, fun i => if i = 0 then [] else [0], fun i => i⟩ : Hier).distinct := by
  intro i j _ _ h; simp only at h; omega

/-! ### class refinement in the identity map -/

/-- refinement keeps the class or moves it DOWN the hierarchy to the requested entity -/
theorem C27_refine_down (h : Hier) (hw : h.wf) (cls entity rb wb : Nat) (compat : Bool) (c' : Nat)
    (hr : h.refine cls entity rb wb compat = .ok c') : IsSub h c' cls ∧ (c' = cls ∨ c' = entity) := by
  unfold Hier.refine at hr
  split at hr
  · cases hr; exact ⟨Or.inl rfl, Or.inl rfl⟩
  · split at hr
    · cases hr; exact ⟨Or.inl rfl, Or.inl rfl⟩
    · split at hr
      · cases hr
      · rename_i hsub
        split at hr
        · cases hr
        · cases hr
          have : h.isSub entity cls = true := by simpa using hsub
          exact ⟨(C27_isSub h hw _ _).1 this, Or.inr rfl⟩

/-- once a read or write bit is set the class changes only if the bit layouts are compatible; otherwise it never changes -/
theorem C27_refine_bits (h : Hier) (cls entity rb wb c' : Nat) (hb : rb ≠ 0 ∨ wb ≠ 0)
    (hr : h.refine cls entity rb wb false = .ok c') : c' = cls := by
  unfold Hier.refine at hr
  split at hr
  · cases hr; rfl
  · split at hr
    · cases hr; rfl
    · split at hr
      · cases hr
      · have : (rb != 0 || wb != 0) = true := by
          rcases hb with hb | hb <;> simp [hb]
        simp [this] at hr

/-- **the bits keep their meaning**: whenever refinement succeeds on an object with bits set, every attribute of the old class has the same
    bit in the new class (so `_rbits_` / `_wbits_` still denote the same attributes) -/
theorem C27_refine_bits_meaning (h : Hier) (bits : Nat → Nat → Option Nat) (attrs : List Nat) (cls entity rb wb c' : Nat)
    (hb : rb ≠ 0 ∨ wb ≠ 0) (hr : h.refine cls entity rb wb (layoutCompat bits attrs cls entity) = .ok c') :
    ∀ a ∈ attrs, ∀ b, bits cls a = some b → bits c' a = some b := by
  have hbits : (rb != 0 || wb != 0) = true := by rcases hb with hb | hb <;> simp [hb]
  intro a ha b hab
  unfold Hier.refine at hr
  split at hr
  · cases hr; exact hab
  · split at hr
    · cases hr; exact hab
    · split at hr
      · cases hr
      · split at hr
        · cases hr
        · rename_i hc
          cases hr
          have hcompat : layoutCompat bits attrs cls entity = true := by
            cases hl : layoutCompat bits attrs cls entity with
            | true => rfl
            | false => simp [hbits, hl] at hc
          have := (List.all_eq_true.1 hcompat) a ha
          simpa [hab] using this

/-- the result is always at least as specific as what was asked for: afterwards the object is an instance of `entity` -/
theorem C27_refine_instance (h : Hier) (hw : h.wf) (cls entity rb wb : Nat) (compat : Bool) (c' : Nat)
    (hr : h.refine cls entity rb wb compat = .ok c') : IsSub h c' entity := by
  unfold Hier.refine at hr
  split at hr
  · rename_i he; cases hr; exact Or.inl he
  · split at hr
    · rename_i hs; cases hr; exact (C27_isSub h hw _ _).1 hs
    · split at hr
      · cases hr
      · split at hr
        · cases hr
        · cases hr; exact Or.inl rfl

/-- **Loading the row of a not yet touched object refines it to the stored class.**  The object was reached through a reference typed `cls`
    (so its stored class `r` is `cls` or a subclass); `_parse_row_` asks for `r`; no bits are set: afterwards the class is exactly `r`. -/
theorem C27_refine_to_stored (h : Hier) (hw : h.wf) (cls r : Nat) (compat : Bool) (hs : IsSub h r cls) : h.refine cls r 0 0 compat = .ok r := by
  unfold Hier.refine
  by_cases h1 : cls = r
  · simp [h1]
  · have h2 : h.isSub cls r = false := by
      cases hc : h.isSub cls r with
      | false => rfl
      | true => exact absurd (C27_sub_antisymm h hw ((C27_isSub h hw _ _).1 hc) hs) h1
    have h3 : h.isSub r cls = true := (C27_isSub h hw _ _).2 hs
    simp [h1, h2, h3]

/-- asking for an unrelated class is refused, whatever the bits -/
theorem C27_refine_unrelated (h : Hier) (hw : h.wf) (cls entity rb wb : Nat) (compat : Bool) (h1 : ¬ IsSub h cls entity) (h2 : ¬ IsSub h entity cls) :
    h.refine cls entity rb wb compat = .error .classChange := by
  have e1 : cls ≠ entity := fun e => h1 (Or.inl e)
  have e2 : h.isSub cls entity = false := by
    cases hc : h.isSub cls entity with
    | false => rfl
    | true => exact absurd ((C27_isSub h hw _ _).1 hc) h1
  have e3 : h.isSub entity cls = false := by
    cases hc : h.isSub entity cls with
    | false => rfl
    | true => exact absurd ((C27_isSub h hw _ _).1 hc) h2
  simp [Hier.refine, e1, e2, e3]

/-! ### isinstance inside a query -/

/-- **isinstance translation = Python isinstance.**  For an object iterated as `e` whose stored class is `r` (`r` is `e` or a subclass),
    pairwise different discriminators, and a root test that accepts every class `r` descends from: the emitted condition evaluated on the
    row's discriminator is `any(issubclass(r, c) for c in classes)`. -/
theorem C27_isinstance (h : Hier) (hw : h.wf) (hd : h.distinct) (sameRoot : Nat → Bool) (e r : Nat) (classes : List Nat)
    (he : e < h.n) (hr : r < h.n) (hre : IsSub h r e) (hc : ∀ c ∈ classes, c < h.n)
    (hroot : ∀ c ∈ classes, IsSub h r c → sameRoot c = true) :
    evalCond (h.isinstanceSql sameRoot e classes) (h.discr r) = classes.any (fun c => h.isSub r c) := by
  -- membership in the downward closure `subs`
  have hsubs : ∀ x, x < h.n → (x ∈ (classes.filter sameRoot).flatMap (fun c => c :: h.subclasses c) ↔
      ∃ c ∈ classes, sameRoot c = true ∧ IsSub h x c) := by
    intro x hx
    simp only [List.mem_flatMap, List.mem_filter, List.mem_cons, IsSub]
    constructor
    · rintro ⟨c, ⟨hcm, hcr⟩, hxc⟩
      refine ⟨c, hcm, hcr, ?_⟩
      rcases hxc with hxc | hxc
      · exact Or.inl hxc
      · exact Or.inr ((C27_subclasses h hw c x).1 hxc).2
    · rintro ⟨c, hcm, hcr, hxc⟩
      refine ⟨c, ⟨hcm, hcr⟩, ?_⟩
      rcases hxc with hxc | hxc
      · exact Or.inl hxc
      · exact Or.inr ((C27_subclasses h hw c x).2 ⟨hx, hxc⟩)
  have sub_trans : ∀ {a b c : Nat}, IsSub h a b → IsSub h b c → IsSub h a c := by
    intro a b c h1 h2
    rcases h1 with h1 | h1
    · subst h1; exact h2
    · rcases h2 with h2 | h2
      · subst h2; exact Or.inr h1
      · refine Or.inr ?_
        clear hre hroot
        induction h1 with
        | direct hb => exact StrictSub.trans hb h2
        | trans hb _ ih => exact StrictSub.trans hb (ih h2)
  -- Python side
  have hpy : (classes.any (fun c => h.isSub r c) = true) ↔ ∃ c ∈ classes, IsSub h r c := by
    simp only [List.any_eq_true]
    constructor
    · rintro ⟨c, hcm, hs⟩; exact ⟨c, hcm, (C27_isSub h hw _ _).1 hs⟩
    · rintro ⟨c, hcm, hs⟩; exact ⟨c, hcm, (C27_isSub h hw _ _).2 hs⟩
  have hrsubs : (r ∈ (classes.filter sameRoot).flatMap (fun c => c :: h.subclasses c)) ↔ ∃ c ∈ classes, IsSub h r c := by
    rw [hsubs r hr]
    constructor
    · rintro ⟨c, hcm, _, hs⟩; exact ⟨c, hcm, hs⟩
    · rintro ⟨c, hcm, hs⟩; exact ⟨c, hcm, hroot c hcm hs, hs⟩
  simp only [Hier.isinstanceSql]
  split
  · -- e ∈ subs : TRUE
    rename_i hes
    have hes' := (hsubs e he).1 (by simpa using hes)
    obtain ⟨c, hcm, _, hec⟩ := hes'
    have : classes.any (fun c => h.isSub r c) = true := hpy.2 ⟨c, hcm, sub_trans hre hec⟩
    simp [evalCond, this]
  · rename_i hes
    have hes' : e ∉ (classes.filter sameRoot).flatMap (fun c => c :: h.subclasses c) := by simpa using hes
    split
    · -- empty intersection : FALSE
      rename_i hemp
      have hnone : ¬ ∃ c ∈ classes, IsSub h r c := by
        intro hex
        have hrs := hrsubs.2 hex
        have hre' : r ∈ h.subclasses e := by
          rcases hre with hre | hre
          · subst hre; exact absurd hrs hes'
          · exact (C27_subclasses h hw e r).2 ⟨hr, hre⟩
        have : r ∈ ((classes.filter sameRoot).flatMap (fun c => c :: h.subclasses c)).filter (fun c => (h.subclasses e).contains c) := by
          simp only [List.mem_filter, List.contains_iff_mem]; exact ⟨hrs, hre'⟩
        simp only [List.isEmpty_iff] at hemp
        rw [hemp] at this; simp at this
      have : classes.any (fun c => h.isSub r c) = false := by
        cases hv : classes.any (fun c => h.isSub r c) with
        | false => rfl
        | true => exact absurd (hpy.1 hv) hnone
      simp [evalCond, this]
    · -- IN-list
      have key : ∀ (subs : List Nat), (r ∈ subs ↔ ∃ c ∈ classes, IsSub h r c) → e ∉ subs →
          (((subs.filter (fun c => (h.subclasses e).contains c)).map h.discr).contains (h.discr r) = true ↔ ∃ c ∈ classes, IsSub h r c) := by
        intro subs hrs hes
        simp only [List.contains_iff_mem, List.mem_map, List.mem_filter]
        constructor
        · rintro ⟨x, ⟨hxs, hxe⟩, hdx⟩
          have hxn : x < h.n := ((C27_subclasses h hw e x).1 hxe).1
          have : x = r := hd x r hxn hr hdx
          subst this; exact hrs.1 hxs
        · intro hex
          have hrs' := hrs.2 hex
          have hre' : r ∈ h.subclasses e := by
            rcases hre with hre | hre
            · subst hre; exact absurd hrs' hes
            · exact (C27_subclasses h hw e r).2 ⟨hr, hre⟩
          exact ⟨r, ⟨hrs', hre'⟩, rfl⟩
      have k := key _ hrsubs hes'
      simp only [evalCond]
      cases hv : classes.any (fun c => h.isSub r c) with
      | true => exact k.2 (hpy.1 hv)
      | false =>
        apply Bool.eq_false_iff.2
        intro hcon
        have := hpy.2 (k.1 hcon)
        rw [hv] at this; exact absurd this (by simp)

/-! ### the diamond: iterating one branch, testing against the sibling branch -/

/-- Person(0) ← Student(1), Teacher(2) ← Assistant(3 : Student, Teacher), discriminators 0..3 -/
def diamond : Hier := { n := 4, bases := fun i => if i = 0 then [] else if i = 3 then [1, 2] else [0], discr := fun i => i }

/-- `select(s for s in Student if isinstance(s, Teacher))`: Teacher is neither an ancestor nor a descendant of Student, yet the condition
    is not constant — it selects the rows of the common subclass Assistant -/
theorem C27_isinstance_diamond_sibling :
    diamond.isinstanceSql (fun _ => true) 1 [2] = .discrIn [3] ∧
    evalCond (diamond.isinstanceSql (fun _ => true) 1 [2]) (diamond.discr 3) = true ∧
    evalCond (diamond.isinstanceSql (fun _ => true) 1 [2]) (diamond.discr 1) = false := by
  decide

/-- the class filter has to be the ROOT test: a filter that keeps only ancestors and descendants of the iterated entity (so that it rejects
    the sibling branch) makes the condition constant false, while the Assistant row IS an instance of Teacher — the hypothesis `hroot` of
    C27_isinstance cannot be weakened to relatedness -/
theorem C27_isinstance_related_filter_false :
    ¬ (∀ (h : Hier) (e r : Nat) (classes : List Nat), e < h.n → r < h.n → h.isSub r e = true → (∀ c ∈ classes, c < h.n) →
        evalCond (h.isinstanceSql (fun c => h.isSub c e || h.isSub e c) e classes) (h.discr r) = classes.any (fun c => h.isSub r c)) := by
  intro hf
  have := hf diamond 1 3 [2] (by decide) (by decide) (by decide) (by decide)
  revert this; decide

/-! ### which table references carry the discriminator filter (guards regenerated from TableRef / JoinedTableRef .make_join) -/

section JoinDiscr
open PonyVerif.Model.JoinDiscr PonyVerif.Gen

theorem tableRef_after_first (hasDiscr : Bool) (s : TState) (hj : s.joined = true) (calls : List Bool) :
    calls.foldl (tableRefStep hasDiscr) s = s := by
  induction calls with
  | nil => rfl
  | cons c cs ih => simp [List.foldl, tableRefStep, JoinGuards.tableRefOuterGuard, hj, ih]

theorem starTableRef_after_first (hasDiscr : Bool) (s : TState) (hj : s.joined = true) (calls : List Bool) :
    calls.foldl (starTableRefStep hasDiscr) s = s := by
  induction calls with
  | nil => rfl
  | cons c cs ih => simp [List.foldl, starTableRefStep, JoinGuards.starTableRefOuterGuard, hj, ih]

/-- **Every table reference of an entity is filtered exactly once.**  Whatever the sequence of `make_join(pk_only)` calls on a TableRef
    (a `for` variable, or the lazily joined table of a nested `Entity.select/exists(lambda)`), as soon as there is one call the table is in
    FROM exactly once and carries the discriminator criteria exactly once iff the entity has a discriminator — also when the first use
    is pk-only -/
theorem C27_tableref_filtered_once (hasDiscr : Bool) (first : Bool) (rest : List Bool) :
    (tableRefRun hasDiscr (first :: rest)).fromItems = 1 ∧
    (tableRefRun hasDiscr (first :: rest)).filters = (if hasDiscr then 1 else 0) := by
  have h1 : tableRefStep hasDiscr {} first = { joined := true, fromItems := 1, filters := if hasDiscr then 1 else 0 } := by
    cases hasDiscr <;> simp [tableRefStep, JoinGuards.tableRefOuterGuard, JoinGuards.tableRefDiscrGuard]
  simp only [tableRefRun, List.foldl, h1]
  rw [tableRef_after_first hasDiscr _ rfl rest]
  exact ⟨rfl, rfl⟩

/-- the same for a StarTableRef (`for x in <subquery returning entities>`) -/
theorem C27_startableref_filtered_once (hasDiscr : Bool) (first : Bool) (rest : List Bool) :
    (starTableRefRun hasDiscr (first :: rest)).fromItems = 1 ∧
    (starTableRefRun hasDiscr (first :: rest)).filters = (if hasDiscr then 1 else 0) := by
  have h1 : starTableRefStep hasDiscr {} first = { joined := true, fromItems := 1, filters := if hasDiscr then 1 else 0 } := by
    cases hasDiscr <;> simp [starTableRefStep, JoinGuards.starTableRefOuterGuard, JoinGuards.starTableRefDiscrGuard]
  simp only [starTableRefRun, List.foldl, h1]
  rw [starTableRef_after_first hasDiscr _ rfl rest]
  exact ⟨rfl, rfl⟩

example : (tableRefRun true [true, false, true]).filters = 1 := by decide

/-- invariant of a JoinedTableRef under any sequence of calls -/
def jinv (k : RelKind) (hasDiscr : Bool) (s : JState) : Prop :=
  s.entityJoins ≤ 1 ∧ s.m2mJoins ≤ 1 ∧
  (s.entityJoins = 1 ↔ (s.joined = true ∧ s.optimized = false)) ∧
  (k = .m2m → (s.m2mJoins = 1 ↔ s.joined = true)) ∧
  (k ≠ .m2m → s.m2mJoins = 0) ∧
  ((k = .fkLeft ∨ k = .m2m) → s.filters = (if hasDiscr then s.entityJoins else 0)) ∧
  s.filters ≤ s.entityJoins ∧
  (s.optimized = true → k = .fkLeft ∨ (k = .m2m ∧ s.joined = true))

theorem jinv_step (k : RelKind) (hasDiscr : Bool) (s : JState) (pkOnly : Bool) (h : jinv k hasDiscr s) :
    jinv k hasDiscr (joinedStep k hasDiscr s pkOnly) := by
  obtain ⟨h1, h2, h3, h4, h5, h6, h7, h8⟩ := h
  rcases s with ⟨j, o, e, f, m⟩
  simp only at h1 h2 h3 h4 h5 h6 h7 h8
  cases k <;> cases pkOnly <;> cases j <;> cases o <;> cases hasDiscr <;>
    simp [jinv, joinedStep, joinEntity, JoinGuards.joinedEarlyReturn, JoinGuards.joinedDiscrGuard] at * <;> omega

theorem jinv_run (k : RelKind) (hasDiscr : Bool) (calls : List Bool) : jinv k hasDiscr (joinedRun k hasDiscr calls) := by
  have : ∀ s, jinv k hasDiscr s → jinv k hasDiscr (calls.foldl (joinedStep k hasDiscr) s) := by
    induction calls with
    | nil => intro s h; exact h
    | cons c cs ih => intro s h; exact ih _ (jinv_step k hasDiscr s c h)
  apply this
  cases k <;> cases hasDiscr <;> simp [jinv]

/-- **Attribute navigation.**  For every relationship kind and every sequence of `make_join(pk_only)` calls on a JoinedTableRef: the
    entity's table and the intermediate table are joined at most once; no join condition carries the criteria twice; and for a
    foreign key on the left and for many-to-many the entity's table, whenever it is joined, carries the criteria iff the entity has a
    discriminator (there the join happens only on a non-pk-only use) -/
theorem C27_joined_filtered (k : RelKind) (hasDiscr : Bool) (calls : List Bool) :
    (joinedRun k hasDiscr calls).entityJoins ≤ 1 ∧ (joinedRun k hasDiscr calls).m2mJoins ≤ 1 ∧
    (joinedRun k hasDiscr calls).filters ≤ (joinedRun k hasDiscr calls).entityJoins ∧
    ((k = .fkLeft ∨ k = .m2m) →
      (joinedRun k hasDiscr calls).filters = (if hasDiscr then (joinedRun k hasDiscr calls).entityJoins else 0)) := by
  obtain ⟨h1, h2, _, _, _, h6, h7, _⟩ := jinv_run k hasDiscr calls
  exact ⟨h1, h2, h7, h6⟩

/-- where the key column lives in the OTHER table (one-to-one on the right, one-to-many) a pk-only first use joins that table without
    the criteria and later uses do not add them — the rows are already restricted by the key column, which only the declaring entity's rows fill -/
theorem C27_joined_right_pk_only_unfiltered :
    (joinedRun .o2m true [true, false]).entityJoins = 1 ∧ (joinedRun .o2m true [true, false]).filters = 0 ∧
    (joinedRun .o2oRight true [false, true]).filters = 1 := by
  decide

example : (joinedRun .m2m true [true, false, false]) = { joined := true, optimized := false, entityJoins := 1, filters := 1, m2mJoins := 1 } := by decide

end JoinDiscr

/-! ### seeds: an object reached through a base-class reference is loaded before it is handed out (guards regenerated from core.py) -/

section SeedLoad
open PonyVerif.Model.SeedLoad PonyVerif.Gen.LoadGuards

/-- **No seed of a polymorphic entity escapes.**  At each of the four sites that hand out objects which may be known by primary key only
    (to-one attribute, many-to-many collection, tuple query result, identity-map lookup), in the situation where the site hands out an
    entity instance in a live session: if the entity has subclasses the object is loaded first -/
theorem C27_no_seed_escapes (s : Site) (c : LoadCtx) (hn : normal s c = true) (hs : c.hasSub = true) : stillSeed s c = false := by
  rcases c with ⟨notNone, isRef, hasSub, alive, sessionAlive, isSeed, manyToMany, notCached, exprIsEntity, singleColumn, isEntity, hasDiscr⟩
  simp only at hs
  subst hs
  cases s <;>
    simp [normal, stillSeed, loadGuard, attrGetLoadGuard, setCopyLoadGuard, queryTupleLoadGuard, findInCacheLoadGuard] at hn ⊢ <;>
    simp [hn]

/-- an entity without subclasses: the stored class of an object reached through it IS that entity -/
theorem C27_no_subclasses_exact (h : Hier) (hw : h.wf) (cls r : Nat) (hr : r < h.n) (hs : IsSub h r cls) (he : h.subclasses cls = []) : r = cls := by
  rcases hs with hs | hs
  · exact hs
  · have := (C27_subclasses h hw cls r).2 ⟨hr, hs⟩
    rw [he] at this; simp at this

/-- **Every hand-out has the stored class.**  For every hierarchy, site and situation: an object whose stored class is `r`, known in the
    identity map with the declared class `cls ⊇ r`, is handed out with class exactly `r` — because it had been built from its row, or it is
    loaded now and refined (C27_refine_to_stored), or `cls` has no subclasses at all -/
theorem C27_handed_out_exact (h : Hier) (hw : h.wf) (s : Site) (c : LoadCtx) (cls r : Nat) (hr : r < h.n) (hsub : IsSub h r cls)
    (hn : normal s c = true) (hc : c.hasSub = !(h.subclasses cls).isEmpty) :
    classAfter h s c cls r = .ok r := by
  unfold classAfter
  by_cases hs : c.hasSub = true
  · rw [C27_no_seed_escapes s c hn hs]
    simp only [Bool.false_eq_true, if_false]
    split
    · exact C27_refine_to_stored h hw cls r true hsub
    · rfl
  · have he : h.subclasses cls = [] := by
      have : c.hasSub = false := by simpa using hs
      rw [this] at hc
      simpa using hc.symm
    have hrc := C27_no_subclasses_exact h hw cls r hr hsub he
    subst hrc
    split
    · rfl
    · split
      · simp [Hier.refine]
      · rfl

example : normal .attrGet ⟨true, true, true, true, true, true, false, false, false, false, false, true⟩ = true ∧
    stillSeed .attrGet ⟨true, true, true, true, true, true, false, false, false, false, false, true⟩ = false := by decide

/-- **Objects built from a full row have the stored class** (select over an entity, E[pk] / E.get on an object not yet in the session,
    select_by_sql, one-to-many collections, `_load_` of a seed): with the way `_fetch_objects` and `_parse_row_` pick the class in the CURRENT
    source, a row written by class `r` and fetched for a query over `e ⊇ r` becomes an object of class exactly `r` -/
theorem C27_full_row_exact (h : Hier) (hw : h.wf) (hd : h.distinct) (e r : Nat) (hr : r < h.n) (hs : IsSub h r e)
    (hasDiscr : Bool) (hnd : hasDiscr = false → h.subclasses e = []) :
    rowClass h e hasDiscr (h.discr r) = some r := by
  have h1 : fetchObjectsUsesParsedClass = true := by decide
  have h2 : parseRowUsesCode2cls = true := by decide
  unfold rowClass
  simp only [h1, h2, if_true]
  cases hasDiscr with
  | true => simp only [if_true]; exact C27_code2cls h hd r hr
  | false =>
    simp only [Bool.false_eq_true, if_false]
    rw [C27_no_subclasses_exact h hw e r hr hs (hnd rfl)]

/-- **`select_random` takes its unfiltered fast path only where no filter is needed.**  With the guard read from the current source: whenever
    `Entity.select_random(n)` does NOT go through the ordinary discriminator-filtered `select().random(n)` — i.e. it batch-loads random
    primary keys of the whole table — the entity either has no discriminator (its table holds only its own objects) or is the ROOT of its
    hierarchy (every row of the table is an instance of it); a middle or leaf class of a single-table hierarchy always takes the filtered path -/
theorem C27_select_random_fast_only_root (c : RandomCtx) (h : selectRandomFilteredGuard c = false) :
    c.pkInt = true ∧ (c.hasDiscr = false ∨ c.isRoot = true) := by
  rcases c with ⟨pkInt, pkComposite, hasDiscr, isRoot, hasSub⟩
  cases pkInt <;> cases hasDiscr <;> cases isRoot <;> simp [selectRandomFilteredGuard] at h ⊢

example : selectRandomFilteredGuard ⟨true, false, true, false, false⟩ = true := by decide   -- a leaf class: filtered

end SeedLoad

end PonyVerif.Props.C27
