/-
  C06 — values reach the database unchanged: parameters, literals and identifiers.
  Property theorems only.  Strings are `List Char` of arbitrary length over all of Unicode; nothing is bounded.

  `Gen.quoteStr` is regenerated from /repo (`Value.quote_str`) on every run; `C06_bridge_quoteStr` is the obligation that
  breaks when that source changes.  The `List Char` mirrors (`quoteStrL`, `quoteNameL`, `likeAst`, `placeholders`,
  `adapter`) and the database-side rules (`lexQuoted`, `lexMySQL`, `scanP`, `likeMatch`, `resolve`) are in
  Model/SqlText.lean and are run against the real code / real SQLite on every run by harness/engines/c06.py.
-/
import PonyVerif.Gen.Quote
import PonyVerif.Gen.SqlBuild
import PonyVerif.Gen.ParamKey
import PonyVerif.Gen.GroupConcat
import PonyVerif.Py.Lemmas
import PonyVerif.Lemmas.SqlText
namespace PonyVerif.Props.C06
open PonyVerif.Py PonyVerif.Model.SqlText

/-! ### bridge: the regenerated `quote_str` has the shape the `List Char` mirror assumes -/

/-- closed form of `Value.quote_str` on Lean `String`s (`String.replace` is the trusted reading of `str.replace`) -/
def quoteStrS (style s : String) : String :=
  "'" ++ (if style == "format" || style == "pyformat" then s.replace "%" "%%" else s).replace "'" "''" ++ "'"

theorem C06_bridge_quoteStr (s style : String) :
    PonyVerif.Gen.quoteStr (.str s) (.str style) = .ok (.str (quoteStrS style s)) := by
  by_cases h1 : style = "format"
  · subst h1; simp [PonyVerif.Gen.quoteStr, quoteStrS, PyVal.inList, PyVal.replace, bind, Except.bind, pure, Except.pure]
  · by_cases h2 : style = "pyformat"
    · subst h2; simp [PonyVerif.Gen.quoteStr, quoteStrS, PyVal.inList, PyVal.replace, bind, Except.bind, pure, Except.pure]
    · simp [PonyVerif.Gen.quoteStr, quoteStrS, PyVal.inList, PyVal.replace, bind, Except.bind, pure, Except.pure, h1, h2]

/-! ### bridges: how MOD / LIKE / REPLACE nodes become SQL text (regenerated from `SQLBuilder` on every run) -/

/-- the operator text of `SQLBuilder.MOD` on Lean `String`s -/
def modSymbolS (style : String) : String := if style == "format" || style == "pyformat" then " %% " else " % "

theorem C06_bridge_mod (a b : PyVal) (style : String) :
    PonyVerif.Gen.sqlMod a b (.str style)
      = .ok (.list [.str "(", .call "builder" [a], .str (modSymbolS style), .call "builder" [b], .str ")"]) := by
  by_cases h1 : style = "format"
  · subst h1; simp [PonyVerif.Gen.sqlMod, modSymbolS, PyVal.inList, bind, Except.bind, pure, Except.pure]
  · by_cases h2 : style = "pyformat"
    · subst h2; simp [PonyVerif.Gen.sqlMod, modSymbolS, PyVal.inList, bind, Except.bind, pure, Except.pure]
    · simp [PonyVerif.Gen.sqlMod, modSymbolS, PyVal.inList, bind, Except.bind, pure, Except.pure, h1, h2]

/-- `expr LIKE template [ESCAPE escape]`: the ESCAPE clause is written exactly when `_like` appended `[ 'VALUE', '!' ]` -/
theorem C06_bridge_like (e t : PyVal) (esc : Option PyVal) (hesc : ∀ v, esc = some v → PyVal.truthy v = true) :
    PonyVerif.Gen.sqlLike e t (esc.getD .none)
      = .ok (.list ([.call "builder" [e], .str " LIKE ", .call "builder" [t]] ++
                    match esc with
                    | none => []
                    | some v => [.str " ESCAPE ", .call "builder" [v]])) := by
  cases esc with
  | none => simp [PonyVerif.Gen.sqlLike, bind, Except.bind, pure, Except.pure]
  | some v =>
    have := hesc v rfl
    simp [PonyVerif.Gen.sqlLike, bind, Except.bind, pure, Except.pure, this, PyVal.add]

theorem C06_bridge_not_like (e t : PyVal) (esc : Option PyVal) (hesc : ∀ v, esc = some v → PyVal.truthy v = true) :
    PonyVerif.Gen.sqlNotLike e t (esc.getD .none)
      = .ok (.list ([.call "builder" [e], .str " NOT LIKE ", .call "builder" [t]] ++
                    match esc with
                    | none => []
                    | some v => [.str " ESCAPE ", .call "builder" [v]])) := by
  cases esc with
  | none => simp [PonyVerif.Gen.sqlNotLike, bind, Except.bind, pure, Except.pure]
  | some v =>
    have := hesc v rfl
    simp [PonyVerif.Gen.sqlNotLike, bind, Except.bind, pure, Except.pure, this, PyVal.add]

/-- `replace(str, from, to)`: argument order of the SQL function = argument order of the AST node `_like` builds -/
theorem C06_bridge_replace (a b c : PyVal) :
    PonyVerif.Gen.sqlReplaceCall a b c
      = .ok (.list [.str "replace(", .call "builder" [a], .str ", ", .call "builder" [b], .str ", ", .call "builder" [c], .str ")"]) := by
  simp [PonyVerif.Gen.sqlReplaceCall, pure, Except.pure]

example : PyVal.truthy (.list [.str "VALUE", .str "!"]) = true := rfl

/-! ### string literals -/

/-- The `%` expansion a format / pyformat driver applies undoes exactly the `%` doubling of `quote_str`; for the other
    styles the text is sent as is.  In every style the server receives the standard quoting of `s`. -/
theorem C06_literal_expand (style : Style) (s : Str) : expandPercent style (quoteStrL style s) = some (stdQuote s) := by
  cases style <;> simp only [expandPercent, quoteStrL, Style.percent, if_true, if_false, Bool.false_eq_true]
  all_goals
    have h := scanP_doubled '\'' (by decide) s ['\'']
    have h2 : scanP .text ['\''] = some [Tok.lit '\''] := by simp [scanP]
    rw [h2] at h
    have h3 : scanP .text (stdQuote (replaceChar '%' ['%', '%'] s))
        = some (Tok.lit '\'' :: (lits (replaceChar '\'' ['\'', '\''] s) ++ [Tok.lit '\''])) := by
      simp only [stdQuote]
      rw [scanP_lit_cons _ (by decide), h]; rfl
    rw [h3]
    have : Tok.lit '\'' :: (lits (replaceChar '\'' ['\'', '\''] s) ++ [Tok.lit '\'']) = lits (stdQuote s) := by
      simp [lits, stdQuote]
    rw [this]; simp [litsOnly_lits]

/-- The scanner is back in text mode after a literal: what follows is expanded independently of the value. -/
theorem C06_literal_expand_in_context (style : Style) (h : style.percent = true) (s rest : Str) :
    scanP .text (quoteStrL style s ++ rest) = (scanP .text rest).map (lits (stdQuote s) ++ ·) := by
  simp only [quoteStrL, h, if_true, stdQuote, List.cons_append, List.append_assoc]
  rw [scanP_lit_cons _ (by decide), scanP_doubled '\'' (by decide), scanP_lit_cons _ (by decide)]
  cases hr : scanP .text rest <;> simp [lits, hr]

/-- **Literal round trip** (SQLite, PostgreSQL, Oracle; all five styles; every string): the text Pony emits for the
    constant `s`, after the driver's `%` expansion, is one string-literal token that denotes exactly `s`. -/
theorem C06_literal_roundtrip (d : Dialect) (hd : d ≠ .mysql) (style : Style) (s : Str) :
    (expandPercent style (quoteStrL style s)).bind (lexLiteral d) = some (s, []) := by
  rw [C06_literal_expand]
  have := lexQuoted_stdQuote s [] (by simp)
  cases d <;> simp_all [lexLiteral]

/-- …and inside a statement: whatever text follows the literal (not starting with a quote) is left for the lexer
    untouched — the value cannot end the literal early or swallow what follows. -/
theorem C06_literal_in_context (d : Dialect) (hd : d ≠ .mysql) (s rest : Str) (h : rest.head? ≠ some '\'') :
    lexLiteral d (stdQuote s ++ rest) = some (s, rest) := by
  have := lexQuoted_stdQuote s rest h
  cases d <;> simp_all [lexLiteral]

/-- the full statement for MySQL (default sql_mode: backslash is an escape character inside string literals) -/
def C06_literal_roundtrip_mysql_full : Prop :=
  ∀ (style : Style) (s : Str), (expandPercent style (quoteStrL style s)).bind (lexLiteral .mysql) = some (s, [])

/-- It is false: `quote_str` does not escape the backslash and `MySQLValue` does not override it.
    Witness `a\b`: MySQL reads the literal `'a\b'` as `a` followed by a backspace.
    (Suspected defect, unconfirmable offline: no MySQL server exists in the sandbox.) -/
theorem C06_literal_roundtrip_mysql_full_false : ¬ C06_literal_roundtrip_mysql_full := by
  intro h
  have := h .format ['a', '\\', 'b']
  rw [C06_literal_expand] at this
  revert this; decide

/-- Worse, on the lexer model a value can change the structure of the statement: for `\' OR 1=1 -- ` the literal ends
    after `\'` and the rest of the value is read as SQL. -/
theorem C06_literal_mysql_structure_witness :
    lexLiteral .mysql (stdQuote ['\\', '\'', ' ', 'O', 'R', ' ', '1', '=', '1', ' ', '-', '-', ' ']) = some (['\''], [' ', 'O', 'R', ' ', '1', '=', '1', ' ', '-', '-', ' ', '\'']) := by
  decide

/-- MySQL, strings without a backslash: the round trip holds (all styles). -/
theorem C06_literal_roundtrip_mysql_partial (style : Style) (s : Str) (hs : '\\' ∉ s) :
    (expandPercent style (quoteStrL style s)).bind (lexLiteral .mysql) = some (s, []) := by
  rw [C06_literal_expand]
  have hb : '\\' ∉ replaceChar '\'' ['\'', '\''] s ++ ['\''] := by
    have := replaceChar_not_mem '\\' '\'' (by decide) s hs
    simp [this]
  have := lexQuoted_stdQuote s [] (by simp)
  simp only [List.append_nil, stdQuote, lexQuoted] at this
  simp [lexLiteral, lexMySQL, stdQuote, lexMySQLBody_eq _ hb]
  simpa using this

example : '\\' ∉ ['i', 't', '\'', 's', ' ', '1', '0', '0', '%'] := by decide

/-! ### identifiers -/

/-- **Identifier round trip**: `quote_name` output is one quoted-identifier token denoting `n`, for both quote
    characters and every name; whatever follows (not starting with the quote character) is untouched. -/
theorem C06_ident_roundtrip (q : Char) (n : Str) : lexQuoted q (quoteNameL q n) = some (n, []) := by
  have := lexQuoted_quoteName q n [] (by simp)
  simpa using this

theorem C06_ident_in_context (q : Char) (n rest : Str) (h : rest.head? ≠ some q) :
    lexQuoted q (quoteNameL q n ++ rest) = some (n, rest) :=
  lexQuoted_quoteName q n rest h

/-- qualified names (`'.'.join(quote_name(item) for item in name)`): the two components are read back one after the other -/
theorem C06_ident_qualified (q : Char) (hq : q ≠ '.') (a b : Str) :
    lexQuoted q (quoteNamesL q [a, b]) = some (a, '.' :: quoteNameL q b) ∧
    lexQuoted q (quoteNameL q b) = some (b, []) := by
  refine ⟨?_, C06_ident_roundtrip q b⟩
  have hq' : ¬ '.' = q := fun e => hq e.symm
  exact lexQuoted_quoteName q a ('.' :: quoteNameL q b) (by simp [hq'])

/-- the full statement including the driver's `%` expansion: identifiers are embedded in DML that format / pyformat
    drivers expand -/
def C06_ident_expand_full : Prop :=
  ∀ (style : Style) (q : Char) (n : Str), (expandPercent style (quoteNameL q n)).bind (lexQuoted q) = some (n, [])

/-- It is false for the format styles: `quote_name` does not double `%` (witness: a column called `a%%b` reaches a
    format-style server as `a%b`; `a%sb` would consume an argument).
    (Suspected defect, unconfirmable offline: the only executable backend, SQLite, uses qmark.) -/
theorem C06_ident_expand_full_false : ¬ C06_ident_expand_full := by
  intro h
  have := h .format '`' ['a', '%', '%', 'b']
  revert this; decide

/-- holds for the styles without `%` expansion, and for names without `%` -/
theorem C06_ident_expand_partial (style : Style) (q : Char) (n : Str) (h : style.percent = false ∨ ('%' ∉ n ∧ q ≠ '%')) :
    (expandPercent style (quoteNameL q n)).bind (lexQuoted q) = some (n, []) := by
  by_cases hp : style.percent = true
  · rcases h with h | ⟨hn, hq⟩
    · simp [hp] at h
    · have e : replaceChar '%' ['%', '%'] n = n := replaceChar_of_not_mem _ _ _ hn
      have h1 := scanP_doubled q hq n [q]
      rw [e] at h1
      have h2 : scanP .text [q] = some [Tok.lit q] := by simp [scanP, hq]
      rw [h2] at h1
      have h3 : scanP .text (quoteNameL q n) = some (lits (quoteNameL q n)) := by
        simp only [quoteNameL]
        rw [scanP_lit_cons _ hq, h1]; simp [lits]
      simp only [expandPercent, hp, if_true, h3, Option.bind_some, litsOnly_lits]
      exact C06_ident_roundtrip q n
  · simp [expandPercent, hp, C06_ident_roundtrip]

example : (Style.named).percent = false ∨ ('%' ∉ ['a', '%', 'b'] ∧ '\x22' ≠ '%') := Or.inl rfl

/-! ### statement structure -/

/-- **No value or name can change the structure of the statement.**  For every statement assembled from raw SQL text
    written by Pony (no quote characters), string values (`quote_str`) and names (`quote_name`), in any number and order
    (two tokens quoted with the same character never adjacent), the text the parser sees outside quoted tokens — the
    skeleton — is exactly the raw text with one marker per value / name … -/
theorem C06_statement_structure (ps : List Piece) (h : WFPieces none ps) :
    skeleton .out (renderPieces ps) = some (skelPieces ps) := by
  simpa [stateOf, pending] using skeleton_pieces ps none (by simp) h

/-- … hence it does not depend on the values and names at all: two statements of the same shape have the same skeleton,
    whatever strings and identifiers are put in. -/
theorem C06_structure_value_independent (ps qs : List Piece) (hs : ps.map Piece.shape = qs.map Piece.shape)
    (h : WFPieces none ps) : skeleton .out (renderPieces ps) = skeleton .out (renderPieces qs) := by
  have hq : WFPieces none qs := by
    rw [← WFPieces_shape, ← hs, WFPieces_shape]; exact h
  rw [C06_statement_structure ps h, C06_statement_structure qs hq, ← skelPieces_shape ps, ← skelPieces_shape qs, hs]

/-- a concrete statement: `SELECT "n" FROM "t" WHERE "n" = '<hostile value>'` is well-formed for every value -/
example (v n t : Str) :
    WFPieces none [.raw ['S', 'E', 'L', ' '], .ident '\x22' n, .raw [' ', 'F', ' '], .ident '\x22' t, .raw [' ', '=', ' '], .lit v] := by
  simp [WFPieces, isQuote]

/-! ### LIKE -/

inductive LikeKind | contains | startswith | endswith
  deriving DecidableEq, Repr

/-- the `before` / `after` arguments `contains`, `call_startswith`, `call_endswith` pass to `_like` -/
def LikeKind.before : LikeKind → Option Str
  | .contains => some ['%'] | .startswith => none | .endswith => some ['%']
def LikeKind.after : LikeKind → Option Str
  | .contains => some ['%'] | .startswith => some ['%'] | .endswith => none

/-- Python's reading -/
def LikeKind.py : LikeKind → Str → Str → Bool
  | .contains, x, s => containsB x s
  | .startswith, x, s => x.isPrefixOf s
  | .endswith, x, s => endsWithB x s

theorem C06_py_contains_iff (x s : Str) : LikeKind.py .contains x s = true ↔ x <:+: s := containsB_iff x s
theorem C06_py_startswith_iff (x s : Str) : LikeKind.py .startswith x s = true ↔ x <+: s := List.isPrefixOf_iff_prefix
theorem C06_py_endswith_iff (x s : Str) : LikeKind.py .endswith x s = true ↔ x <:+ s := endsWithB_iff x s

private theorem like_kind (e : Option Char) (X x : Str) (h : Spells e X x) (k : LikeKind) (s : Str) :
    likeMatch e ((if truthyS k.before then k.before.getD [] else []) ++ X ++ (if truthyS k.after then k.after.getD [] else [])) s
      = k.py x s := by
  cases k
  · simpa [LikeKind.before, LikeKind.after, truthyS, LikeKind.py] using like_contains e X x h s
  · simpa [LikeKind.before, LikeKind.after, truthyS, LikeKind.py] using like_startswith e X x h s
  · simpa [LikeKind.before, LikeKind.after, truthyS, LikeKind.py] using like_endswith e X x h s

private theorem plain_of_no_meta (e : Option Char) (x : Str) (h : (x.contains '%' || x.contains '_') = false)
    (he : ∀ c, e = some c → c ∉ x) : ∀ c ∈ x, c ≠ '%' ∧ c ≠ '_' ∧ some c ≠ e := by
  intro c hc
  simp only [Bool.or_eq_false_iff, List.contains_eq_mem, decide_eq_false_iff_not] at h
  refine ⟨fun e1 => h.1 (e1 ▸ hc), fun e1 => h.2 (e1 ▸ hc), fun e1 => he c e1.symm hc⟩

/-- **Constant path** (`x` is a string constant of the query), dialects without a default LIKE escape character
    (SQLite, Oracle): `x in e.name`, `e.name.startswith(x)`, `e.name.endswith(x)` compute Python's answer for
    every constant `x` and every stored string `s` — with or without metacharacters, `!` included. -/
theorem C06_like_const (k : LikeKind) (x s item : Str) :
    (likeAst (some x) k.before k.after).run none item s = k.py x s := by
  by_cases hm : (x.contains '%' || x.contains '_') = true
  · have := like_kind (some '!') (escapeLike x) x (spells_escapeLike x) k s
    have hm2 : '%' ∈ x ∨ '_' ∈ x := by simpa using hm
    cases k <;> simpa [likeAst, LikeAst.run, hm2, SqlExpr.eval, pyReplaceChain_eq, truthyS, LikeKind.before, LikeKind.after] using this
  · have hm' : (x.contains '%' || x.contains '_') = false := by simpa using hm
    have hp := plain_of_no_meta none x hm' (by simp)
    have := like_kind none x x (spells_plain none x hp) k s
    have hm2 : ¬ ('%' ∈ x ∨ '_' ∈ x) := by simpa using hm'
    cases k <;> simpa [likeAst, LikeAst.run, hm2, SqlExpr.eval, truthyS, LikeKind.before, LikeKind.after] using this

/-- **Expression path** (`x` is a parameter, column or any non-constant string expression): the nested
    `replace(replace(replace(x,'!','!!'),'%','!%'),'_','!_')` evaluated by the database, wrapped by `CONCAT`, with
    `ESCAPE '!'` — Python's answer for every `x` and `s`, on every dialect (the ESCAPE clause is always present). -/
theorem C06_like_param (k : LikeKind) (dflt : Option Char) (x s : Str) :
    (likeAst none k.before k.after).run dflt x s = k.py x s := by
  have := like_kind (some '!') (escapeLike x) x (spells_escapeLike x) k s
  cases k <;>
    simpa [likeAst, LikeAst.run, SqlExpr.eval, sqlReplaceChainAst, sqlReplace_single, ← pyReplaceChain_eq, pyReplaceChain,
      truthyS, LikeKind.before, LikeKind.after] using this

/-- the SQL-side escaping of the expression path computes the same pattern text as the Python-side escaping -/
theorem C06_like_param_eq_const_pattern (x : Str) :
    (sqlReplaceChainAst .item).eval x = pyReplaceChain x := by
  simp [sqlReplaceChainAst, SqlExpr.eval, sqlReplace_single, pyReplaceChain]

/-- both paths decide the same (where no default escape character interferes) -/
theorem C06_like_param_eq_const (k : LikeKind) (x s : Str) :
    (likeAst none k.before k.after).run none x s = (likeAst (some x) k.before k.after).run none [] s := by
  rw [C06_like_param, C06_like_const]

/-- the full statement of the constant path for a dialect whose LIKE has a default escape character
    (PostgreSQL and MySQL: backslash) -/
def C06_like_const_backslash_full : Prop :=
  ∀ (k : LikeKind) (x s : Str), (likeAst (some x) k.before k.after).run (some '\\') [] s = k.py x s

/-- It is false: a constant without `%`/`_` gets no ESCAPE clause, so a backslash in it acts as the escape character.
    Witness: `'\\' in e.name` becomes `LIKE '%\%'`, which matches exactly the strings ending in `%`.
    (Suspected defect, unconfirmable offline: no PostgreSQL / MySQL server in the sandbox.) -/
theorem C06_like_const_backslash_full_false : ¬ C06_like_const_backslash_full := by
  intro h
  have := h .contains ['\\'] ['%']
  revert this
  simp [likeAst, LikeAst.run, SqlExpr.eval, truthyS, LikeKind.before, LikeKind.after, LikeKind.py, containsB]
  rw [like_pct]; simp
  rw [like_esc_cons _ (by decide)]; simp [like_nil]

/-- with a default escape character `b` the constant path is right whenever the constant contains a metacharacter
    (then `ESCAPE '!'` is emitted) or does not contain `b` -/
theorem C06_like_const_backslash_partial (b : Char) (k : LikeKind) (x s item : Str)
    (h : (x.contains '%' || x.contains '_') = true ∨ b ∉ x) :
    (likeAst (some x) k.before k.after).run (some b) item s = k.py x s := by
  by_cases hm : (x.contains '%' || x.contains '_') = true
  · have := like_kind (some '!') (escapeLike x) x (spells_escapeLike x) k s
    have hm2 : '%' ∈ x ∨ '_' ∈ x := by simpa using hm
    cases k <;> simpa [likeAst, LikeAst.run, hm2, SqlExpr.eval, pyReplaceChain_eq, truthyS, LikeKind.before, LikeKind.after] using this
  · have hm' : (x.contains '%' || x.contains '_') = false := by simpa using hm
    have hb : b ∉ x := by rcases h with h | h; exact absurd h hm; exact h
    have hp := plain_of_no_meta (some b) x hm' (by intro c hc; cases hc; exact hb)
    have := like_kind (some b) x x (spells_plain (some b) x hp) k s
    have hm2 : ¬ ('%' ∈ x ∨ '_' ∈ x) := by simpa using hm'
    cases k <;> simpa [likeAst, LikeAst.run, hm2, SqlExpr.eval, truthyS, LikeKind.before, LikeKind.after] using this

example : (['5', '0', '%', '_', 'o', 'f', 'f', '!'].contains '%' || ['5', '0', '%', '_', 'o', 'f', 'f', '!'].contains '_') = true ∨ '\\' ∉ ['5', '0', '%', '_', 'o', 'f', 'f', '!'] := by decide
example : (likeAst (some ['5', '0', '%', '_', 'o', 'f', 'f', '!']) (some ['%']) (some ['%'])).run none []
    ['n', 'o', 'w', ' ', '5', '0', '%', '_', 'o', 'f', 'f', '!', ' ', 't', 'o', 'd', 'a', 'y'] = true := by
  have := C06_like_const .contains ['5', '0', '%', '_', 'o', 'f', 'f', '!']
    ['n', 'o', 'w', ' ', '5', '0', '%', '_', 'o', 'f', 'f', '!', ' ', 't', 'o', 'd', 'a', 'y'] []
  simp only [LikeKind.before, LikeKind.after] at this
  rw [this]; decide

/-! ### one Param object per paramkey: `make_param`, composite (JSON path) parameters -/

/-- **The per-statement Param cache is harmless exactly when the key determines the content**: if any two occurrences with
    equal paramkeys carry the same content (converter / path items), every occurrence receives a Param object with its own
    content - for every sequence of occurrences. -/
theorem C06_make_param_cache [BEq κ] [LawfulBEq κ] (occ : List (κ × γ))
    (hkey : ∀ a ∈ occ, ∀ b ∈ occ, a.1 = b.1 → a.2 = b.2) :
    makeParams [] occ = occ.map (·.2) :=
  makeParams_eq occ [] hkey (by simp)

/-- Python values of the inputs of the regenerated component expression, for each kind of path item -/
def keyCompPy : KeyComp → PyVal
  | .pk v => .list [.int v, .none, .none]
  | .s s => .call "str" [.int s]
  | .i i => .int i
  | .ellipsis => .call "Ellipsis" []
  | .none => .none
def itemIsParamPy : PathItem → PyVal
  | .param _ => .bool true | _ => .bool false
def itemIsSlicePy : PathItem → PyVal
  | .slice => .bool true | _ => .bool false
def itemParamkeyPy : PathItem → PyVal
  | .param v => .list [.int v, .none, .none] | _ => .none
def itemValuePy : PathItem → PyVal
  | .skey s => .call "str" [.int s] | .ikey i => .int i | .ellipsis => .call "Ellipsis" [] | .slice => .call "slice" [] | .param _ => .none

/-- bridge: the component expression regenerated from `build_json_path` computes the typed mirror `keyComponent` … -/
theorem C06_bridge_json_key_component (it : PathItem) :
    PonyVerif.Gen.jsonKeyComponent (itemIsSlicePy it) (itemIsParamPy it) (itemParamkeyPy it) (itemValuePy it) = .ok (keyCompPy (keyComponent it)) := by
  cases it <;> rfl

/-- … for every item of the very sequence the composite parameter evaluates (no `if` filter in the generator). -/
theorem C06_bridge_json_key_flags :
    PonyVerif.Gen.jsonKeyKeepsAllItems = true ∧ PonyVerif.Gen.jsonKeyIteratesItems = true := by
  exact ⟨rfl, rfl⟩

/-- distinct key components are distinct Python values (tuples, strings, ints, Ellipsis, None never compare equal) -/
theorem C06_keycomp_toPy_inj (a b : KeyComp) (h : keyCompPy a = keyCompPy b) : a = b := by
  cases a <;> cases b <;> simp_all [keyCompPy] <;> omega

/-- **JSON path parameters**: in a statement with any number of JSON paths - sharing variables, differing only in constant
    keys, or repeated - every path occurrence receives a composite parameter that evaluates exactly its own items. -/
theorem C06_json_path_params (paths : List (List PathItem)) :
    makeParams [] (paths.map (fun p => (pathKey p, p))) = paths := by
  rw [C06_make_param_cache]
  · simp [List.map_map, Function.comp_def]
  · intro a ha b hb hab
    simp only [List.mem_map] at ha hb
    obtain ⟨p, _, rfl⟩ := ha
    obtain ⟨q, _, rfl⟩ := hb
    exact pathKey_inj p q hab

/-- why the key must contain the constant items: with a key made of the parameters only, `data[v][1]` and `data[v][2]` in one
    statement would share one object and the second placeholder would carry the first path -/
example : makeParams [] ([[PathItem.param 0, .ikey 1], [.param 0, .ikey 2]].map
      (fun p => (p.filter (fun it => match it with | .param _ => true | _ => false), p)))
    = [[.param 0, .ikey 1], [.param 0, .ikey 1]] := by decide

/-! ### parameters -/

/-- **Parameters**: for every style, every sequence of parameter occurrences (with repeats) and every value
    assignment, the placeholder written at occurrence `pos` is bound by the driver to the value of the key that
    occurs there. -/
theorem C06_params (style : Style) (occ : List Nat) (vals : Nat → α) (pos : Nat) (h : pos < occ.length) :
    (placeholders style occ)[pos]?.bind (fun ph => resolve ph pos (adapter style occ vals)) = some (vals occ[pos]) := by
  have hmem : occ[pos] ∈ occ := List.getElem_mem h
  have hid := idOf_eq occ occ[pos] hmem
  have hlt : occ.idxOf occ[pos] < occ.length := List.idxOf_lt_length_iff.mpr hmem
  have hget : occ[occ.idxOf occ[pos]] = occ[pos] := List.getElem_idxOf hlt
  have hdict : dictGet (occ.map (fun k => (idOf occ k, vals k))) (idOf occ occ[pos]) = some (vals occ[pos]) := by
    unfold dictGet
    apply lookup_of_forall
    · intro p hp hpa
      simp only [List.mem_reverse, List.mem_map] at hp
      obtain ⟨k, hk, rfl⟩ := hp
      have : k = occ[pos] := idOf_inj occ k occ[pos] hk hmem hpa
      simp [this]
    · exact ⟨(idOf occ occ[pos], vals occ[pos]), by simp only [List.mem_reverse, List.mem_map]; exact ⟨occ[pos], hmem, rfl⟩, rfl⟩
  rw [hid] at hdict
  cases style <;>
    simp [placeholders, placeholder, adapter, resolve, h, List.getElem?_eq_getElem, hid, hlt, hget, hdict]

example : (placeholders .numeric [7, 7, 3, 7, 5]).map Ph.render = [":1", ":1", ":3", ":1", ":5"] := by decide

/-- `builder.layout` lists the occurrences in order (used by the query cache to extract values) -/
theorem C06_layout (occ : List Nat) : layout occ = occ := rfl

/-- `MOD` under the format styles: the doubled `%` reaches the server as one `%` -/
theorem C06_mod_percent (style : Style) : expandPercent style (modSymbol style) = some [' ', '%', ' '] := by
  cases style <;> decide

/-! ### numbers, dates, times, intervals -/

/-- **Integers**: `str(i)` is read back as exactly `i` by the numeric-literal lexer, for every integer, in front of any
    text that does not start with a digit. -/
theorem C06_int_roundtrip (i : Int) (rest : Str) (hr : ∀ c, rest.head? = some c → isDig c = false) :
    lexInt (valueStr d style (.int i) ++ rest) = some (i, rest) := by
  obtain ⟨c, r, h, hne, _⟩ := natDigits_head_ne_minus i.natAbs
  have hl := lexNat_natDigits i.natAbs rest hr
  by_cases hi : i < 0
  · simp only [valueStr, intStr, hi, if_true, List.cons_append, lexInt, hl, Option.map_some]
    congr 2; omega
  · rw [h] at hl
    have e : ((i.natAbs : Nat) : Int) = i := Int.natAbs_of_nonneg (by omega)
    simp only [List.cons_append] at hl
    simp only [valueStr, intStr, hi, if_false, h, List.cons_append, lexInt, hne, hl, Option.map_some, e]

/-- a rendered integer is harmless raw text: no quote character, no `%`, no backslash (it is a well-formed `raw`
    piece of `C06_statement_structure` and passes the `%` expansion unchanged) -/
theorem C06_int_safe (i : Int) : ∀ c ∈ valueStr d style (.int i), isQuote c = false ∧ c ≠ '%' ∧ c ≠ '\\' :=
  intStr_safe i

example : lexInt (intStr (-1203) ++ [' ', 'A']) = some (-1203, [' ', 'A']) :=
  C06_int_roundtrip (d := .sqlite) (style := .qmark) (-1203) [' ', 'A'] (by intro c h; simp at h; subst h; decide)

private theorem temporalKw_noPercent (d : Dialect) (v : TVal) : '%' ∉ temporalKw d v := by
  cases d <;> cases v <;> simp [temporalKw, kwDate, kwTime, kwTimestamp, kwInterval]

/-- **Dates, times, timestamps**: in every dialect and style the server receives `<type keyword> '<ISO text>'` with the
    text standard-quoted … -/
theorem C06_temporal_expand (d : Dialect) (style : Style) (v : TVal) (hv : ∀ td, v ≠ .delta td) :
    (temporalStr d style v).bind (expandPercent style) = some (temporalKw d v ++ stdQuote (temporalText v)) := by
  have hts : temporalStr d style v = some (temporalKw d v ++ quoteStrL style (temporalText v)) := by
    cases v with
    | delta td => exact absurd rfl (hv td)
    | _ => rfl
  rw [hts, Option.bind_some]
  by_cases hp : style.percent = true
  · have h1 := scanP_noPercent (temporalKw d v) (quoteStrL style (temporalText v)) (temporalKw_noPercent d v)
    have h2 := C06_literal_expand_in_context style hp (temporalText v) []
    simp only [List.append_nil, scanP, Option.map_some] at h2
    simp only [expandPercent, hp, if_true, h1, h2, Option.map_some, Option.bind_some, ← lits_append, litsOnly_lits]
  · have hp' : style.percent = false := by simpa using hp
    have : quoteStrL style (temporalText v) = stdQuote (temporalText v) := by simp [quoteStrL, hp']
    simp [expandPercent, hp', this]

/-- … and that ISO text denotes exactly the date / time / timestamp supplied (all field values). -/
theorem C06_date_readback (x : PDate) : parseDate (temporalText (.date x)) = some x := parseDate_dateStr x
theorem C06_time_readback (t : PTime) : parseTime (temporalText (.time t)) = some t := parseTime_isoTime t
theorem C06_timestamp_readback (x : PDate) (t : PTime) : parseTimestamp (temporalText (.datetime x t)) = some (x, t) :=
  parseTimestamp_timestampStr x t

/-- the unit words after an interval literal -/
def intervalUnit (d : Dialect) (td : PDelta) : Str :=
  if d = .mysql then (if td.us ≠ 0 then unitMyUs else unitMyS) else unitStd

/-- **Intervals** (PostgreSQL, Oracle, MySQL): `INTERVAL '%s' HOUR TO SECOND` is written without `quote_str`; the text
    `timedelta2str` produces contains only digits, `:`, `.`, `-`, so the server still receives one well-formed literal … -/
theorem C06_interval_expand (d : Dialect) (hd : d ≠ .sqlite) (style : Style) (td : PDelta) :
    (temporalStr d style (.delta td)).bind (expandPercent style)
      = some (kwInterval ++ stdQuote (timedelta2str td) ++ intervalUnit d td) := by
  have hq : '\'' ∉ timedelta2str td := fun m => (timedelta2str_safe td _ m).1 rfl
  have hpc : '%' ∉ timedelta2str td := fun m => (timedelta2str_safe td _ m).2.1 rfl
  have hstd : stdQuote (timedelta2str td) = '\'' :: (timedelta2str td ++ ['\'']) := by
    simp [stdQuote, replaceChar_of_not_mem _ _ _ hq]
  have htxt : temporalStr d style (.delta td) = some (kwInterval ++ stdQuote (timedelta2str td) ++ intervalUnit d td) := by
    cases d <;> simp_all [temporalStr, intervalUnit]
  rw [htxt, Option.bind_some]
  by_cases hp : style.percent = true
  · have hno : '%' ∉ kwInterval ++ stdQuote (timedelta2str td) ++ intervalUnit d td := by
      rw [hstd]
      have hu : '%' ∉ intervalUnit d td := by
        unfold intervalUnit; split <;> (try split) <;> simp [unitMyUs, unitMyS, unitStd]
      simp [kwInterval, hpc, hu]
    have := scanP_noPercent _ [] hno
    simp only [List.append_nil, scanP, Option.map_some] at this
    simp only [expandPercent, hp, if_true, this, Option.bind_some, litsOnly_lits]
  · have hp' : style.percent = false := by simpa using hp
    simp [expandPercent, hp']

/-- … which denotes exactly the supplied timedelta, to the microsecond, for every normalised timedelta of either sign. -/
theorem C06_interval_readback (td : PDelta) (hs : td.secs < 86400) (hu : td.us < 1000000) :
    parseInterval (timedelta2str td) = some td.micros := parseInterval_timedelta2str td hs hu

example : parseInterval (timedelta2str ⟨-1, 86399, 999999⟩) = some (-1) :=
  C06_interval_readback ⟨-1, 86399, 999999⟩ (by decide) (by decide)

/-! ### other literal kinds -/

/-- **Bytes**: `X'<hexlify(b)>'` is one blob literal denoting exactly the bytes `b`. -/
theorem C06_bytes_roundtrip (d : Dialect) (style : Style) (b : List Nat) (h : ∀ x ∈ b, x < 256) :
    lexBlob (valueStr d style (.bytes b)) = some (b, []) := by
  have hq : '\'' ∉ hexlify b := by
    induction b with
    | nil => simp [hexlify]
    | cons x b ih =>
      simp only [hexlify, List.mem_cons, not_or]
      exact ⟨fun e => hexDigit_ne_quote _ e.symm, fun e => hexDigit_ne_quote _ e.symm, ih (fun y hy => h y (by simp [hy]))⟩
  have h1 := lexBody_quote '\'' (hexlify b) [] (by simp)
  rw [replaceChar_of_not_mem _ _ _ hq] at h1
  simp [valueStr, lexBlob, lexQuoted, h1, unhexlify_hexlify b h]

/-- `None`, booleans: fixed keywords / digits, independent of any user data -/
theorem C06_none_bool (d : Dialect) (style : Style) :
    valueStr d style .none = ['n', 'u', 'l', 'l'] ∧
    valueStr d style (.bool true) = (if d = .postgres then ['t', 'r', 'u', 'e'] else ['1']) ∧
    valueStr d style (.bool false) = (if d = .postgres then ['f', 'a', 'l', 's', 'e'] else ['0']) := by
  cases d <;> simp [valueStr]

/-! ### constants and parameters denote the same database value (SQLite); `Param.eval` -/

private theorem read_quoted (s : Str) : sqliteRead (stdQuote s) = some (.text s) := by
  have h := lexQuoted_stdQuote s [] (by simp)
  simp only [List.append_nil] at h
  have e : stdQuote s = '\'' :: (replaceChar '\'' ['\'', '\''] s ++ ['\'']) := rfl
  rw [e] at h ⊢
  simp [sqliteRead, h]

/-- **A value written as a constant in the query and the same value bound as a parameter denote the same SQLite value** -
    for `None`, booleans, every integer, every string, all bytes, every date, datetime and time, under every paramstyle:
    reading the inline literal `SQLiteValue.__str__` renders (after the driver's `%` expansion) gives exactly what
    `converter.py2sql` hands to the driver for the parameter. -/
theorem C06_sqlite_const_eq_param (style : Style) (sv : SV) (hb : ∀ b, sv = .bytes b → ∀ x ∈ b, x < 256) :
    ((sqliteConstText style sv).bind (expandPercent style)).bind sqliteRead = some (sqliteBind sv) := by
  cases sv with
  | none =>
    simp only [sqliteConstText, valueStr, Option.bind_some]
    rw [expandPercent_noPercent _ _ (by decide)]; decide
  | bool b =>
    cases b <;> (simp only [sqliteConstText, valueStr, Option.bind_some]; rw [expandPercent_noPercent _ _ (by decide)]; decide)
  | int i =>
    simp only [sqliteConstText, valueStr, Option.bind_some]
    rw [expandPercent_noPercent _ _ (fun m => (intStr_safe i _ m).2.1 rfl), Option.bind_some]
    have hl := C06_int_roundtrip (d := .sqlite) (style := style) i [] (by simp)
    simp only [valueStr, List.append_nil] at hl
    obtain ⟨c, r, h, h1, h2, h3⟩ := intStr_head i
    rw [h] at hl ⊢
    simp [sqliteRead, h1, h2, h3, hl, sqliteBind]
  | str s =>
    simp only [sqliteConstText, valueStr, Option.bind_some, C06_literal_expand, read_quoted, sqliteBind]
  | bytes b =>
    have hr := C06_bytes_roundtrip .sqlite style b (hb b rfl)
    simp only [sqliteConstText, Option.bind_some]
    have hp : '%' ∉ valueStr .sqlite style (.bytes b) := by
      simp [valueStr, hexlify_no_percent]
    rw [expandPercent_noPercent _ _ hp, Option.bind_some]
    simp only [valueStr] at hr ⊢
    simp [sqliteRead, hr, sqliteBind]
  | date x =>
    have h := C06_temporal_expand .sqlite style (.date x) (by intro td; simp)
    simp only [sqliteConstText, h, temporalKw, if_true, List.nil_append, Option.bind_some, read_quoted, temporalText, sqliteBind]
  | datetime x t =>
    have h := C06_temporal_expand .sqlite style (.datetime x t) (by intro td; simp)
    simp only [sqliteConstText, h, temporalKw, if_true, List.nil_append, Option.bind_some, read_quoted, temporalText, sqliteBind]
  | time t =>
    have h := C06_temporal_expand .sqlite style (.time t) (by intro td; simp)
    simp only [sqliteConstText, h, temporalKw, if_true, List.nil_append, Option.bind_some, read_quoted, temporalText, sqliteBind]

/-- `Param.eval` picks exactly the addressed component: item `i` of a sequence, and component `j` of an entity's raw
    primary key … -/
theorem C06_param_eval_item (values : Nat → Option VarVal) (v i : Nat) (es : List Elem) (sv : SV)
    (hv : values v = some (.seq es)) (hi : es[i]? = some (.scalar sv)) :
    paramEvalRaw values v (some i) none = some sv := by
  simp [paramEvalRaw, hv, hi]

theorem C06_param_eval_pk (values : Nat → Option VarVal) (v i j : Nat) (es : List Elem) (pk : List SV) (sv : SV)
    (hv : values v = some (.seq es)) (hi : es[i]? = some (.entity pk)) (hj : pk[j]? = some sv) :
    paramEvalRaw values v (some i) (some j) = some sv := by
  simp [paramEvalRaw, hv, hi, hj]

/-- … and end to end: for every paramstyle, every list of parameter occurrences given by their paramkeys `(var, i, j)`
    (with repeats) and every variable assignment, the placeholder written at occurrence `pos` is bound to what
    `Param.eval` computes for the paramkey occurring there, after the SQLite converter. -/
theorem C06_params_eval (style : Style) (tbl : Nat → Nat × Option Nat × Option Nat) (values : Nat → Option VarVal)
    (occ : List Nat) (pos : Nat) (h : pos < occ.length) :
    (placeholders style occ)[pos]?.bind
        (fun ph => resolve ph pos (adapter style occ (fun k => (paramEvalRaw values (tbl k).1 (tbl k).2.1 (tbl k).2.2).map sqliteBind)))
      = some ((paramEvalRaw values (tbl occ[pos]).1 (tbl occ[pos]).2.1 (tbl occ[pos]).2.2).map sqliteBind) :=
  C06_params style occ _ pos h

example : paramEvalRaw (fun _ => some (.seq [.scalar (.int 7), .entity [.str ['a'], .int 3]])) 0 (some 1) (some 1) = some (.int 3) := by
  simp [paramEvalRaw]

/-! ### group_concat separators -/

/-- bridge: every site of sqltranslation.py that writes the separator into a GROUP_CONCAT node (six, regenerated on every
    run) guards it with `sep is not None` -/
theorem C06_bridge_group_concat_guards :
    PonyVerif.Gen.groupConcatSepGuards.all id = true ∧ PonyVerif.Gen.groupConcatSepGuards.length = 6 := by decide

/-- **The separator reaches the database as exactly the string supplied**: for every separator - the empty string and
    every hostile string included - and every list of rows, the database joins with the program's separator (or with the
    documented default `,` when the program supplies none); the separator text itself travels as a `quote_str` literal
    (`C06_literal_roundtrip`). -/
theorem C06_group_concat_sep (sep : Option Str) (xs : List Str) :
    dbGroupConcat (groupConcatArg true sep) xs = joinWith (sep.getD [',']) xs := by
  cases sep <;> simp [groupConcatArg, dbGroupConcat]

/-- with a truthiness guard the empty separator would be lost: `''.join(['a','b'])` would come back as `a,b` -/
theorem C06_group_concat_truthiness_guard_false :
    ¬ (∀ (sep : Option Str) (xs : List Str), dbGroupConcat (groupConcatArg false sep) xs = joinWith (sep.getD [',']) xs) := by
  intro h
  have := h (some []) [['a'], ['b']]
  revert this; decide

/-! ### JSON path text -/

/-- **A key segment is written from that key alone**: negative indexes elsewhere in the path (which switch SQLite's JSON1 paths
    to `[#-n]`) never touch the text of a program-supplied key, whatever path syntax the key contains. -/
theorem C06_json_path_key_segment (hashed : Bool) (s : Str) :
    renderPathElem hashed (.key s) = renderPathElem false (.key s) := by
  cases hashed <;> rfl

/-- the path text is the concatenation of the element segments (no rewriting of the assembled text) -/
theorem C06_json_path_append (hashed : Bool) (a b : List PathElem) :
    renderPathElems hashed (a ++ b) = renderPathElems hashed a ++ renderPathElems hashed b := by
  induction a with
  | nil => rfl
  | cons e a ih => simp [renderPathElems, ih]

/-- **A quoted key reads back as exactly the key supplied**, in front of any continuation of the path - for every key
    without a backslash (`[-`, `[#`, `"`, `.`, `$`, `[0]`, `#-1` … included). -/
theorem C06_json_path_quoted_key_roundtrip (s rest : Str) (h : '\\' ∉ s) :
    lexPathKey (renderQuotedKey s ++ rest) = some (s, rest) := by
  have body : lexPathKeyBody (replaceChar '\x22' ['\\', '\x22'] s ++ '\x22' :: rest) = some (s, rest) := by
    induction s with
    | nil => simp only [replaceChar, List.nil_append]; unfold lexPathKeyBody; simp
    | cons c s ih =>
      simp only [List.mem_cons, not_or] at h
      have ih' := ih h.2
      by_cases hc : c = '\x22'
      · subst hc; simp [replaceChar, lexPathKeyBody, ih']
      · have hb : c ≠ '\\' := fun e => h.1 e.symm
        simp only [replaceChar, hc, if_false, List.cons_append]
        unfold lexPathKeyBody; simp [hc, hb, ih']
  simp [renderQuotedKey, lexPathKey, body]

example : renderPathElem true (.key ['a', '[', '-', '1', ']']) = ['.', '\x22', 'a', '[', '-', '1', ']', '\x22'] := by decide

end PonyVerif.Props.C06
