import PonyVerif.Model.Rel
namespace PonyVerif.Props.C12
open PonyVerif.Model.Rel

theorem C12_placeholder : (Store.empty).n = 0 := rfl

end PonyVerif.Props.C12
