/-
  C12 — both ends of every relationship stay consistent.
  Property theorems only.  Model: PonyVerif/Model/Rel.lean (mirrors pony/orm/core.py: Attribute.__set__, update_reverse,
  Set.__set__, Set.reverse_add/reverse_remove, SetInstance.add/remove/clear, Entity.__init__, Entity._delete_ with cascade,
  and the undo lists of failing calls).  The invariant is proved for ARBITRARY schemas (any list of relationship
  declarations: one-to-one, many-to-one, many-to-many, symmetric, self relations, any required/cascade flags), arbitrary
  stores satisfying the invariant and arbitrary calls, successful or failing; hence for every reachable state.
-/
import PonyVerif.Lemmas.RelStep
import PonyVerif.Lemmas.RelLiveStep
import PonyVerif.Lemmas.RelTyped
namespace PonyVerif.Props.C12
open PonyVerif.Model.Rel

/-! ### the property -/

/-- the empty session satisfies the invariant -/
theorem C12_init (sch : Schema) : Inv sch Store.empty :=
  ⟨⟨fun _ _ _ h => absurd h (Nat.not_lt_zero _), fun _ _ _ h => absurd h (Nat.not_lt_zero _)⟩,
   fun _ _ _ h => absurd h (Nat.not_lt_zero _)⟩

/-- EVERY user call — assignment of a reference (incl. None), assignment of a collection, add, remove, clear, constructor
    call, delete (with cascade) — whether it succeeds or fails (and is undone), on ANY schema and ANY store, keeps the
    invariant "ids in range ∧ for every live p: p holds q under b → q holds p under b.reverse". -/
theorem C12_step (sch : Schema) (s : Store) (op : Op) (hI : Inv sch s) : Inv sch (step sch s op) := by
  unfold step stepO
  cases hr : run1 sch op { store := s } with
  | ok st => exact run1_ok_inv hr hI
  | err e st => exact inv_of_eqBelow hI (run1_err_restores hr)

/-- every state reachable from the empty session by ANY sequence of calls satisfies the invariant -/
theorem C12_reachable (sch : Schema) (ops : List Op) : Inv sch (run sch Store.empty ops) := by
  suffices h : ∀ s, Inv sch s → Inv sch (run sch s ops) from h _ (C12_init sch)
  induction ops with
  | nil => intro s hs; exact hs
  | cons op ops ih => intro s hs; exact ih _ (C12_step sch s op hs)

/-- a failing call changes nothing: the store after the undo has the same rows for all objects (relationship part of C13) -/
theorem C12_failed_call_restores (sch : Schema) (s : Store) (op : Op) (h : (stepO sch s op).err ≠ none) :
    EqBelow s.n (step sch s op) s := by
  unfold step stepO at *
  cases hr : run1 sch op { store := s } with
  | ok st => rw [hr] at h; exact absurd rfl h
  | err e st => exact run1_err_restores hr

/-- the property as stated, for two live objects of a reachable state: `q` is held by `p` under `b`
    exactly when `p` is held by `q` under the reverse attribute -/
theorem C12_both_ends (sch : Schema) (ops : List Op) (p q : ObjId) (b : Attr)
    (hp : p < (run sch Store.empty ops).n) (hq : q < (run sch Store.empty ops).n)
    (hpa : (run sch Store.empty ops).alive p = true) (hqa : (run sch Store.empty ops).alive q = true) :
    hasB sch (run sch Store.empty ops) p b q = true ↔ hasB sch (run sch Store.empty ops) q (sch.rev b) p = true := by
  have hI := C12_reachable sch ops
  constructor
  · exact hI.agree p b q hp hpa
  · intro h
    have := hI.agree q (sch.rev b) p hq hqa h
    rwa [Schema.rev_rev] at this

/-- one-to-many reading: `b ∈ a.coll ↔ b.ref = a` (`c` a collection attribute whose reverse is a reference attribute) -/
theorem C12_one_to_many (sch : Schema) (ops : List Op) (a b : ObjId) (c : Attr) (cd rd : Side)
    (hc : sch.side c = some cd) (hcd : cd.isColl = true) (hr : sch.side (sch.rev c) = some rd) (hrd : rd.isColl = false)
    (ha : a < (run sch Store.empty ops).n) (hb : b < (run sch Store.empty ops).n)
    (haa : (run sch Store.empty ops).alive a = true) (hba : (run sch Store.empty ops).alive b = true) :
    (run sch Store.empty ops).mem a c b = true ↔ (run sch Store.empty ops).ref b (sch.rev c) = some a := by
  have := C12_both_ends sch ops a b c ha hb haa hba
  rw [hasB_coll_eq hc hcd, hasB_ref_eq hr hrd] at this
  simpa using this

/-- one-to-one links are mutual -/
theorem C12_one_to_one (sch : Schema) (ops : List Op) (p q : ObjId) (b : Attr) (d rd : Side)
    (hb : sch.side b = some d) (hd : d.isColl = false) (hr : sch.side (sch.rev b) = some rd) (hrd : rd.isColl = false)
    (hp : p < (run sch Store.empty ops).n) (hq : q < (run sch Store.empty ops).n)
    (hpa : (run sch Store.empty ops).alive p = true) (hqa : (run sch Store.empty ops).alive q = true) :
    (run sch Store.empty ops).ref p b = some q ↔ (run sch Store.empty ops).ref q (sch.rev b) = some p := by
  have := C12_both_ends sch ops p q b hp hq hpa hqa
  rw [hasB_ref_eq hb hd, hasB_ref_eq hr hrd] at this
  simpa using this

/-- many-to-many and symmetric relations are symmetric (for a symmetric attribute `sch.rev c = c`) -/
theorem C12_many_to_many (sch : Schema) (ops : List Op) (p q : ObjId) (c : Attr) (cd rd : Side)
    (hc : sch.side c = some cd) (hcd : cd.isColl = true) (hr : sch.side (sch.rev c) = some rd) (hrd : rd.isColl = true)
    (hp : p < (run sch Store.empty ops).n) (hq : q < (run sch Store.empty ops).n)
    (hpa : (run sch Store.empty ops).alive p = true) (hqa : (run sch Store.empty ops).alive q = true) :
    (run sch Store.empty ops).mem p c q = true ↔ (run sch Store.empty ops).mem q (sch.rev c) p = true := by
  have := C12_both_ends sch ops p q c hp hq hpa hqa
  rwa [hasB_coll_eq hc hcd, hasB_coll_eq hr hrd] at this


/-! ### no live object references a deleted object -/

/-- the guard holds for every call of the history (at the state in which it is made) -/
def AllOK (sch : Schema) : Store → List Op → Prop
  | _, [] => True
  | s, op :: ops => StepOK sch s op ∧ AllOK sch (step sch s op) ops

instance (sch : Schema) (s : Store) (op : Op) : Decidable (StepOK sch s op) := by
  unfold StepOK; infer_instance

instance decAllOK (sch : Schema) : (s : Store) → (ops : List Op) → Decidable (AllOK sch s ops)
  | _, [] => isTrue trivial
  | s, op :: ops => by
    unfold AllOK
    exact @instDecidableAnd _ _ _ (decAllOK sch (step sch s op) ops)

/-- if every deleted object is clean (nobody live still points at it), no live object references a deleted object -/
theorem C12_live_of_clean (sch : Schema) (s : Store) (hI : Inv sch s) (hC : DeadClean sch s) : Live sch s :=
  live_of_clean hI.range hI.agree hC

/-- EVERY removing call (delete with cascade of any depth, remove, clear), successful or failing, keeps the deleted objects
    clean; so does every other call that deletes nothing and whose target and values are alive afterwards (`StepOK`) -/
theorem C12_clean_step (sch : Schema) (s : Store) (op : Op) (hI : Inv sch s) (hC : DeadClean sch s) (hok : StepOK sch s op) :
    DeadClean sch (step sch s op) :=
  clean_step sch s op hI hC hok

/-- after `obj.delete()` (any schema, any cascade) no live object references a deleted object, if none did before -/
theorem C12_delete_no_dangling (sch : Schema) (s : Store) (o : ObjId) (hI : Inv sch s) (hC : DeadClean sch s) :
    Live sch (step sch s (.delete o)) :=
  C12_live_of_clean sch _ (C12_step sch s _ hI) (C12_clean_step sch s _ hI hC (Or.inl rfl))

/-- in every state reached by a history all of whose calls satisfy the guard, no live object references a deleted object -/
theorem C12_no_dangling_reachable (sch : Schema) (ops : List Op) (h : AllOK sch Store.empty ops) :
    Live sch (run sch Store.empty ops) := by
  have g : ∀ (ops : List Op) (s : Store), Inv sch s → DeadClean sch s → AllOK sch s ops → Live sch (run sch s ops) := by
    intro ops
    induction ops with
    | nil => intro s hI hC _; exact C12_live_of_clean sch s hI hC
    | cons op ops ih =>
      intro s hI hC hok
      exact ih (step sch s op) (C12_step sch s op hI) (C12_clean_step sch s op hI hC hok.1) hok.2
  exact g ops _ (C12_init sch) (fun o ho => absurd ho (Nat.not_lt_zero _)) h

/-! ### typing of links (removes the side condition of `Live`) -/

/-- EVERY user call, successful or failing, on any schema keeps "every link of an existing object is held under an attribute
    declared on the object's entity" -/
theorem C12_typed_step (sch : Schema) (s : Store) (op : Op) (hI : Inv sch s) (hT : Typed sch s) : Typed sch (step sch s op) :=
  typed_step sch s op hI hT

/-- every reachable state is well typed -/
theorem C12_typed_reachable (sch : Schema) (ops : List Op) : Typed sch (run sch Store.empty ops) := by
  have g : ∀ (ops : List Op) (s : Store), Inv sch s → Typed sch s → Typed sch (run sch s ops) := by
    intro ops
    induction ops with
    | nil => intro s _ hT; exact hT
    | cons op ops ih => intro s hI hT; exact ih _ (C12_step sch s op hI) (C12_typed_step sch s op hI hT)
  exact g ops _ (C12_init sch) (fun p _ _ hp => absurd hp (Nat.not_lt_zero _))

/-- the no-dangling clause WITHOUT side condition: in every state reached by a history whose calls satisfy the guard, whatever a
    live object holds under any attribute is alive -/
theorem C12_no_dangling_reachable_all (sch : Schema) (ops : List Op) (h : AllOK sch Store.empty ops) :
    LiveAll sch (run sch Store.empty ops) :=
  liveAll_of_live (C12_reachable sch ops).agree (C12_reachable sch ops).range (C12_typed_reachable sch ops)
    (C12_no_dangling_reachable sch ops h)

/-- the UNGUARDED statement is false of the mirrored code even when every object passed is alive: a collection assignment
    whose cascade deletes the OWNER of the collection goes on and links the new items to the deleted owner
    (witness below; replayed on the real code by the engine).  The other member of this family — the cascade deletes an
    item that was to stay — was repaired in /repo (497b8cf) and is mirrored by `finalRow`. -/
def C12_no_dangling_full : Prop := ∀ (sch : Schema) (ops : List Op), Live sch (run sch Store.empty ops)

/-- `A.bs = Set(B, cascade_delete=True)` ↔ `B.a = Optional(A)`;  `B.x = Optional(A, cascade_delete=True)` ↔ `A.y = Optional(B)` -/
def witSchema : Schema :=
  [ { a := ⟨0, true, false, true⟩, b := ⟨1, false, false, false⟩, sym := false },
    { a := ⟨1, false, false, true⟩, b := ⟨0, false, false, false⟩, sym := false } ]

/-- `a = A(); b1 = B(a=a, x=a); b3 = B(); a.bs = [b3]`: removing b1 deletes it, its cascade deletes `a`; then `b3.a = a` -/
def witOps : List Op :=
  [ .create 0 [], .create 1 [(⟨0, true⟩, .ref (some 0)), (⟨1, false⟩, .ref (some 0))], .create 1 [],
    .setColl 0 ⟨0, false⟩ [2] ]

theorem C12_no_dangling_full_false : ¬ C12_no_dangling_full := by
  intro h
  have := h witSchema witOps 2 ⟨0, true⟩ 0 (by decide) (by decide) (by decide) (by decide)
  revert this
  decide

/-- regression: the repaired member of the family (`a.bs = [b2]`, removing b1 cascades to its kid b2) no longer leaves the
    deleted b2 in `a.bs` -/
example : (run [ { a := ⟨0, true, false, true⟩, b := ⟨1, false, false, false⟩, sym := false },
                 { a := ⟨1, true, false, true⟩, b := ⟨1, false, false, false⟩, sym := false } ] Store.empty
    [ .create 0 [], .create 1 [(⟨0, true⟩, .ref (some 0))], .create 1 [(⟨0, true⟩, .ref (some 0)), (⟨1, true⟩, .ref (some 1))],
      .setColl 0 ⟨0, false⟩ [2] ]).members 0 ⟨0, false⟩ = [] := by
  decide

/-! ### the statements are not vacuous -/

/-- `A.bs = Set(B)` (cascade, because `B.a` is Required) ↔ `B.a = Required(A)`;  `A.cs = Set(C)` ↔ `C.as = Set(A)`;
    `A.x = Optional(B, cascade_delete=True)` ↔ `B.y = Optional(A)`;  `A.spouse = Optional(A, reverse='spouse')` -/
def exSchema : Schema :=
  [ { a := ⟨0, true, false, true⟩, b := ⟨1, false, true, false⟩, sym := false },
    { a := ⟨0, true, false, false⟩, b := ⟨2, true, false, false⟩, sym := false },
    { a := ⟨0, false, false, true⟩, b := ⟨1, false, false, false⟩, sym := false },
    { a := ⟨0, false, false, false⟩, b := ⟨0, false, false, false⟩, sym := true } ]

/-- `a = A(); b = B(a=a); c = C(as=[a])`: non-empty links on both ends, found by the invariant -/
def exOps : List Op :=
  [ .create 0 [], .create 1 [(⟨0, true⟩, .ref (some 0))], .create 2 [(⟨1, true⟩, .coll [0])] ]

example : (run exSchema Store.empty exOps).mem 0 ⟨0, false⟩ 1 = true ∧ (run exSchema Store.empty exOps).ref 1 ⟨0, true⟩ = some 0 ∧
    (run exSchema Store.empty exOps).mem 0 ⟨1, false⟩ 2 = true ∧ (run exSchema Store.empty exOps).mem 2 ⟨1, true⟩ 0 = true := by
  decide

/-- a FAILING call: `b.a = None` on a Required attribute raises ValueError and changes nothing -/
example : (stepO exSchema (run exSchema Store.empty exOps) (.setRef 1 ⟨0, true⟩ none)).err = some .valueError ∧
    (step exSchema (run exSchema Store.empty exOps) (.setRef 1 ⟨0, true⟩ none)).ref 1 ⟨0, true⟩ = some 0 := by
  decide

/-- cascade: `a.bs.remove(b)` deletes `b`; `a.delete()` then also empties the many-to-many link on the other side -/
example : (run exSchema Store.empty (exOps ++ [.remove 0 ⟨0, false⟩ [1]])).alive 1 = false ∧
    (run exSchema Store.empty (exOps ++ [.delete 0])).mem 2 ⟨1, true⟩ 0 = false ∧
    (run exSchema Store.empty (exOps ++ [.delete 0])).alive 1 = false := by
  decide

/-- regression inputs of the three defects repaired in /repo (the model mirrors the repaired code):
    one-to-one cascade reassign `a.x = b1; a.x = b2` and the symmetric self link `p.spouse = p; p.spouse = q` -/
example : (run exSchema Store.empty [.create 0 [], .create 1 [(⟨0, true⟩, .ref (some 0))], .create 1 [(⟨0, true⟩, .ref (some 0))],
      .setRef 0 ⟨2, false⟩ (some 1), .setRef 0 ⟨2, false⟩ (some 2)]).ref 0 ⟨2, false⟩ = some 2 ∧
    (run exSchema Store.empty [.create 0 [], .create 0 [], .setRef 0 ⟨3, false⟩ (some 0), .setRef 0 ⟨3, false⟩ (some 1)]).ref 0 ⟨3, false⟩ = some 1 ∧
    (run exSchema Store.empty [.create 0 [], .create 0 [], .setRef 0 ⟨3, false⟩ (some 0), .setRef 0 ⟨3, false⟩ (some 1)]).ref 1 ⟨3, false⟩ = some 0 := by
  decide


/-- the guard of the no-dangling theorem is satisfiable by a history with creation, linking, a cascade delete and a remove -/
example : AllOK exSchema Store.empty (exOps ++ [.remove 0 ⟨1, false⟩ [2], .delete 0]) := by
  decide

end PonyVerif.Props.C12
