import PonyVerif.Lemmas.TxnProtocol
import PonyVerif.Lemmas.TxnEmit
import PonyVerif.Gen.TxnEntry
/-
  C17 — a session's writes are atomic under crashes and database errors.

  Theorems about `Model/TxnProtocol.lean`, for ALL traces of L (any length, any number of transactions, failed calls
  anywhere), all initial databases and all crash points.
-/
namespace PonyVerif.Props.C17
open PonyVerif.Model.TxnProtocol PonyVerif.Lemmas.TxnProtocol PonyVerif.Model.TxnEmit

/-! ## the property -/

/-- **All or nothing at every crash point.**  For every word `t` of L (started with no transaction open), every
    initial database `pre` and every number `k` of calls completed when the process dies: the database a new process
    reads is `pre` plus the first `j` committed transactions of the session, each applied as a whole — never a part
    of a transaction. -/
theorem C17_crash_all_or_nothing (p : Phase) (hp : p ≠ .txn) (pre : Store) (t : List Ev) (hL : accepts p t = true) (k : Nat) :
    ∃ j, j ≤ (txns p [] t).length ∧
      crash (run (Db.init pre) (t.take k)) = ((txns p [] t).take j).foldl applyTx pre := by
  have := crash_mem_boundaries t p [] (Db.init pre) (inv_init p hp pre) hL k
  exact (mem_boundaries _ _ _).1 this

/-- **All.**  When the word has been run to its end, the database holds every committed transaction of the session
    completely, whatever calls failed on the way. -/
theorem C17_session_end_all (p : Phase) (hp : p ≠ .txn) (pre : Store) (t : List Ev) (hL : accepts p t = true) :
    crash (run (Db.init pre) t) = (txns p [] t).foldl applyTx pre :=
  final_eq_all t p [] (Db.init pre) (inv_init p hp pre) hL

/-- **{pre, post}.**  A session that commits at most once (no explicit `commit()` in its body): at every crash point
    the database is the state before the session or the state after it. -/
theorem C17_pre_or_post (p : Phase) (hp : p ≠ .txn) (pre : Store) (t : List Ev) (hL : accepts p t = true)
    (h1 : (txns p [] t).length ≤ 1) (k : Nat) :
    crash (run (Db.init pre) (t.take k)) = pre ∨
    crash (run (Db.init pre) (t.take k)) = crash (run (Db.init pre) t) := by
  obtain ⟨j, hj, h⟩ := C17_crash_all_or_nothing p hp pre t hL k
  rw [C17_session_end_all p hp pre t hL, h]
  match hl : txns p [] t, h1 with
  | [], _ => left; simp
  | [tx], _ =>
    rw [hl] at hj
    cases j with
    | zero => left; simp
    | succ j =>
      have : j = 0 := by simp at hj; omega
      subst this; right; simp

/-- **Error at any statement, then Pony's error path.**  After any accepted prefix (a connection exists), a call that
    raises (not `connect`; not `close`, whose failure is not followed by a ROLLBACK), followed by `SessionCache.close(rollback=True)` — ROLLBACK, and `close` if the ROLLBACK
    raises too: the word is still in L, it is complete (no transaction left open), and the database is exactly what
    was committed before the failing call: the open transaction leaves nothing behind. -/
theorem C17_error_path (p q : Phase) (pre : Store) (pfx : List Ev) (e : Ev) (rollbackOk : Bool)
    (hq : runL p pfx = some q) (hconn : q ≠ .idle) (hfail : e.ok = false) (hclose : e.stmt ≠ .close)
    (he : next q e ≠ none) :
    runL q (e :: errorPath rollbackOk) = some (if rollbackOk then .auto else .idle) ∧
    (run (run (Db.init pre) pfx) (e :: errorPath rollbackOk)).committed = crash (run (Db.init pre) pfx) ∧
    (run (run (Db.init pre) pfx) (e :: errorPath rollbackOk)).pending = none := by
  obtain ⟨s, ok⟩ := e
  simp only at hfail; subst hfail
  generalize run (Db.init pre) pfx = d
  cases q <;> cases s <;> cases rollbackOk <;>
    simp [next, runL, errorPath, run, exec, crash] at * <;> (try cases hp : d.pending <;> simp [hp])

/-- **Raw statements are part of the same transaction.**  A write statement sent while the session's transaction is
    open (`db.execute`, `db.insert`, a generated INSERT/UPDATE/DELETE, an `executemany` — the alphabet does not
    distinguish them) keeps the word in L, so `C17_crash_all_or_nothing` covers it: it is committed or discarded
    together with the rest. -/
theorem C17_raw_write_same_transaction (p : Phase) (a b : List Ev) (ws : List RowWrite) (ok : Bool)
    (ha : runL p a = some .txn) (hab : accepts p (a ++ b) = true) :
    accepts p (a ++ ⟨.write ws, ok⟩ :: b) = true := by
  simp only [accepts, runL_append, ha, Option.bind_some, runL, next] at *
  exact hab

/-- **The BEGIN is what makes it atomic** (the model can exhibit a partial state): two write statements sent in
    autocommit mode are not a word of L, and a crash between them leaves a state that is neither `pre` nor `post`. -/
theorem C17_unprotected_writes_not_atomic :
    ∃ (t : List Ev) (pre : Store) (k : Nat), accepts .auto t = false ∧
      crash (run (Db.init pre) (t.take k)) ≠ pre ∧
      crash (run (Db.init pre) (t.take k)) ≠ crash (run (Db.init pre) t) :=
  ⟨[⟨.write [(1, some 1)], true⟩, ⟨.write [(2, some 2)], true⟩], [], 1, by decide⟩

/-- the hypotheses are satisfiable by a non-trivial word: a read in autocommit mode, a transaction with a failed
    statement in it, an explicit commit, a second transaction that is rolled back, release -/
example : accepts .idle
    [⟨.connect, true⟩, ⟨.read, true⟩, ⟨.begin, true⟩, ⟨.write [(1, some 5)], true⟩, ⟨.write [(2, some 6)], false⟩,
     ⟨.write [(2, some 7), (1, none)], true⟩, ⟨.commit, true⟩, ⟨.begin, true⟩, ⟨.write [(3, some 1)], true⟩,
     ⟨.rollback, true⟩, ⟨.rollback, true⟩] = true := by decide

example : txns .idle []
    [⟨.connect, true⟩, ⟨.begin, true⟩, ⟨.write [(1, some 5)], true⟩, ⟨.write [(2, some 6)], false⟩,
     ⟨.write [(2, some 7), (1, none)], true⟩, ⟨.commit, true⟩, ⟨.begin, true⟩, ⟨.write [(3, some 1)], true⟩,
     ⟨.rollback, true⟩] = [[[(1, some 5)], [(2, some 7), (1, none)]]] := by decide

/-! ## the producer side: what a Pony session emits (Model/TxnEmit.lean) -/

/-- **The obligations re-derived from the source hold** (bridge, re-checked against the regenerated `Gen/TxnEntry.lean` on
    every run): `SessionCache.flush` sets `cache.immediate = True` unconditionally before it saves anything; the
    many-to-many statements are sent from `SessionCache.flush` only; `_exec_sql` sets `cache.immediate` before it prepares
    the connection; and EVERY write entry point user code can reach directly (`db.execute`, `db.insert`,
    `Entity._save_created_/_save_updated_/_save_deleted_` through `obj.flush()`, `Query.delete(bulk=True)`) asks for a
    transaction on every path before it sends its statement. -/
theorem C17_entry_points_open_transaction :
    PonyVerif.Gen.TxnEntry.flushSetsImmediate = true ∧ PonyVerif.Gen.TxnEntry.m2mOnlyFromFlush = true ∧
    PonyVerif.Gen.TxnEntry.execSqlOrder = true ∧
    ∀ e : Entry, e.direct = true → PonyVerif.Gen.TxnEntry.opens e = true := by
  refine ⟨rfl, rfl, rfl, ?_⟩
  intro e
  cases e <;> first | (intro _; rfl) | (intro h; cases h)

/-- **A refused BEGIN leaves `in_transaction` False** (bridge to sqlite.py, rebuilt every run): `set_transaction_mode`
    executes `BEGIN IMMEDIATE TRANSACTION` before it sets `cache.in_transaction = True` - what `prep` of the emitter mirrors
    (inTx only after a successful BEGIN), so that a session which catches the error and goes on begins again. -/
theorem C17_begin_before_flag : PonyVerif.Gen.TxnEntry.beginBeforeInTransaction = true := rfl

/-- **Every session emits a word of L.**  For every table `opens` of entry points in which the directly reachable ones
    ask for a transaction (and a flush that sets `cache.immediate`): for every session mode (optimistic / immediate, ddl or not), pool state, program of
    queries / direct writes / flushes / commits / rollbacks with any statements and user try/excepts, every failure
    oracle and a raising or returning body: the calls sent form a complete word of L. -/
theorem C17_sessions_emit_L (opens : Entry → Bool) (hO : ∀ e, e.direct = true → opens e = true) (si ddl pool : Bool)
    (prog : List (Op × Bool)) (hwf : ∀ p ∈ prog, p.1.wf = true) (bodyRaises : Bool) (f : Nat → Bool) :
    let r := session opens true si ddl (A.start pool si) prog bodyRaises f
    accepts (phaseOf (A.start pool si)) r.evs = true ∧ complete (phaseOf (A.start pool si)) r.evs = true := by
  intro r
  have hI : PonyVerif.Lemmas.TxnEmit.Inv (A.start pool si) := ⟨fun h => by simp [A.start] at h, fun h => by simp [A.start] at h⟩
  have h := PonyVerif.Lemmas.TxnEmit.session_good opens hO si ddl (A.start pool si) prog bodyRaises f hI hwf
  have hrun : runL (phaseOf (A.start pool si)) r.evs = some (phaseOf r.a) := h.1.1
  have hne : phaseOf r.a ≠ .txn := by
    have : r.a.inTx = false := h.2
    simp [phaseOf, this]; split <;> simp
  refine ⟨by simp [accepts, hrun], ?_⟩
  unfold complete
  rw [hrun]
  cases hp : phaseOf r.a <;> first | rfl | exact absurd hp hne

/-- **Refinement: atomicity of the sessions Pony runs.**  With the entry-point table regenerated from the current source:
    for every session mode, pool state, program, failure oracle (fault points), raising or returning body, every initial
    database and every crash point `k` in the calls the session sends: the database holds the state before the session
    plus the first `j` of its committed transactions, each as a whole. -/
theorem C17_refinement (si ddl pool : Bool) (prog : List (Op × Bool)) (hwf : ∀ p ∈ prog, p.1.wf = true) (bodyRaises : Bool)
    (f : Nat → Bool) (pre : Store) (k : Nat) :
    let t := (session PonyVerif.Gen.TxnEntry.opens PonyVerif.Gen.TxnEntry.flushSetsImmediate si ddl (A.start pool si) prog bodyRaises f).evs
    let p := phaseOf (A.start pool si)
    ∃ j, j ≤ (txns p [] t).length ∧ crash (run (Db.init pre) (t.take k)) = ((txns p [] t).take j).foldl applyTx pre := by
  intro t p
  have hb := C17_entry_points_open_transaction
  have hL := (C17_sessions_emit_L PonyVerif.Gen.TxnEntry.opens hb.2.2.2 si ddl pool prog hwf bodyRaises f).1
  have hp : p ≠ .txn := by simp [p, phaseOf, A.start]; split <;> simp
  have ht : t = (session PonyVerif.Gen.TxnEntry.opens true si ddl (A.start pool si) prog bodyRaises f).evs := by
    simp only [t]; rw [hb.1]
  rw [ht]
  exact C17_crash_all_or_nothing p hp pre _ hL k

/-- **The obligation is what the proof needs** (non-vacuity): with an entry point that does not ask for a transaction the
    same model emits a trace outside L - `db.execute` as the first statement of an optimistic session. -/
theorem C17_entry_not_opening_breaks :
    accepts .idle (session (fun _ => false) true false false (A.start false false) [(.direct .dbExecute [(1, some 1)], false)] false
      (fun _ => false)).evs = false := by decide

/-- a non-trivial session: a query, a raw write, a flush with a many-to-many statement, a caught failing write, an explicit
    commit, more writes; the third call fails -/
example :
    (session PonyVerif.Gen.TxnEntry.opens true false false (A.start true false)
      [(.query, false), (.direct .dbExecute [(1, some 1)], true), (.flush [(.saveCreated, [(2, some 2)]), (.m2mAdd, [(3, some 3)])], false),
       (.commit [], false), (.direct .bulkDelete [(2, none)], false)] false (fun i => i == 2)).evs
    = [⟨.read, true⟩, ⟨.begin, true⟩, ⟨.write [(1, some 1)], false⟩, ⟨.write [(2, some 2)], true⟩, ⟨.write [(3, some 3)], true⟩,
       ⟨.commit, true⟩, ⟨.begin, true⟩, ⟨.write [(2, none)], true⟩, ⟨.commit, true⟩, ⟨.rollback, true⟩] := by decide

end PonyVerif.Props.C17
