import PonyVerif.Lemmas.TxnProtocol
/-
  C17 — a session's writes are atomic under crashes and database errors.

  Theorems about `Model/TxnProtocol.lean`, for ALL traces of L (any length, any number of transactions, failed calls
  anywhere), all initial databases and all crash points.
-/
namespace PonyVerif.Props.C17
open PonyVerif.Model.TxnProtocol PonyVerif.Lemmas.TxnProtocol

/-! ## the property -/

/-- **All or nothing at every crash point.**  For every word `t` of L (started with no transaction open), every
    initial database `pre` and every number `k` of calls completed when the process dies: the database a new process
    reads is `pre` plus the first `j` committed transactions of the session, each applied as a whole — never a part
    of a transaction. -/
theorem C17_crash_all_or_nothing (p : Phase) (hp : p ≠ .txn) (pre : Store) (t : List Ev) (hL : accepts p t = true) (k : Nat) :
    ∃ j, j ≤ (txns p [] t).length ∧
      crash (run (Db.init pre) (t.take k)) = ((txns p [] t).take j).foldl applyTx pre := by
  have := crash_mem_boundaries t p [] (Db.init pre) (inv_init p hp pre) hL k
  exact (mem_boundaries _ _ _).1 this

/-- **All.**  When the word has been run to its end, the database holds every committed transaction of the session
    completely, whatever calls failed on the way. -/
theorem C17_session_end_all (p : Phase) (hp : p ≠ .txn) (pre : Store) (t : List Ev) (hL : accepts p t = true) :
    crash (run (Db.init pre) t) = (txns p [] t).foldl applyTx pre :=
  final_eq_all t p [] (Db.init pre) (inv_init p hp pre) hL

/-- **{pre, post}.**  A session that commits at most once (no explicit `commit()` in its body): at every crash point
    the database is the state before the session or the state after it. -/
theorem C17_pre_or_post (p : Phase) (hp : p ≠ .txn) (pre : Store) (t : List Ev) (hL : accepts p t = true)
    (h1 : (txns p [] t).length ≤ 1) (k : Nat) :
    crash (run (Db.init pre) (t.take k)) = pre ∨
    crash (run (Db.init pre) (t.take k)) = crash (run (Db.init pre) t) := by
  obtain ⟨j, hj, h⟩ := C17_crash_all_or_nothing p hp pre t hL k
  rw [C17_session_end_all p hp pre t hL, h]
  match hl : txns p [] t, h1 with
  | [], _ => left; simp
  | [tx], _ =>
    rw [hl] at hj
    cases j with
    | zero => left; simp
    | succ j =>
      have : j = 0 := by simp at hj; omega
      subst this; right; simp

/-- **Error at any statement, then Pony's error path.**  After any accepted prefix (a connection exists), a call that
    raises (not `connect`; not `close`, whose failure is not followed by a ROLLBACK), followed by `SessionCache.close(rollback=True)` — ROLLBACK, and `close` if the ROLLBACK
    raises too: the word is still in L, it is complete (no transaction left open), and the database is exactly what
    was committed before the failing call: the open transaction leaves nothing behind. -/
theorem C17_error_path (p q : Phase) (pre : Store) (pfx : List Ev) (e : Ev) (rollbackOk : Bool)
    (hq : runL p pfx = some q) (hconn : q ≠ .idle) (hfail : e.ok = false) (hclose : e.stmt ≠ .close)
    (he : next q e ≠ none) :
    runL q (e :: errorPath rollbackOk) = some (if rollbackOk then .auto else .idle) ∧
    (run (run (Db.init pre) pfx) (e :: errorPath rollbackOk)).committed = crash (run (Db.init pre) pfx) ∧
    (run (run (Db.init pre) pfx) (e :: errorPath rollbackOk)).pending = none := by
  obtain ⟨s, ok⟩ := e
  simp only at hfail; subst hfail
  generalize run (Db.init pre) pfx = d
  cases q <;> cases s <;> cases rollbackOk <;>
    simp [next, runL, errorPath, run, exec, crash] at * <;> (try cases hp : d.pending <;> simp [hp])

/-- **Raw statements are part of the same transaction.**  A write statement sent while the session's transaction is
    open (`db.execute`, `db.insert`, a generated INSERT/UPDATE/DELETE, an `executemany` — the alphabet does not
    distinguish them) keeps the word in L, so `C17_crash_all_or_nothing` covers it: it is committed or discarded
    together with the rest. -/
theorem C17_raw_write_same_transaction (p : Phase) (a b : List Ev) (ws : List RowWrite) (ok : Bool)
    (ha : runL p a = some .txn) (hab : accepts p (a ++ b) = true) :
    accepts p (a ++ ⟨.write ws, ok⟩ :: b) = true := by
  simp only [accepts, runL_append, ha, Option.bind_some, runL, next] at *
  exact hab

/-- **The BEGIN is what makes it atomic** (the model can exhibit a partial state): two write statements sent in
    autocommit mode are not a word of L, and a crash between them leaves a state that is neither `pre` nor `post`. -/
theorem C17_unprotected_writes_not_atomic :
    ∃ (t : List Ev) (pre : Store) (k : Nat), accepts .auto t = false ∧
      crash (run (Db.init pre) (t.take k)) ≠ pre ∧
      crash (run (Db.init pre) (t.take k)) ≠ crash (run (Db.init pre) t) :=
  ⟨[⟨.write [(1, some 1)], true⟩, ⟨.write [(2, some 2)], true⟩], [], 1, by decide⟩

/-- the hypotheses are satisfiable by a non-trivial word: a read in autocommit mode, a transaction with a failed
    statement in it, an explicit commit, a second transaction that is rolled back, release -/
example : accepts .idle
    [⟨.connect, true⟩, ⟨.read, true⟩, ⟨.begin, true⟩, ⟨.write [(1, some 5)], true⟩, ⟨.write [(2, some 6)], false⟩,
     ⟨.write [(2, some 7), (1, none)], true⟩, ⟨.commit, true⟩, ⟨.begin, true⟩, ⟨.write [(3, some 1)], true⟩,
     ⟨.rollback, true⟩, ⟨.rollback, true⟩] = true := by decide

example : txns .idle []
    [⟨.connect, true⟩, ⟨.begin, true⟩, ⟨.write [(1, some 5)], true⟩, ⟨.write [(2, some 6)], false⟩,
     ⟨.write [(2, some 7), (1, none)], true⟩, ⟨.commit, true⟩, ⟨.begin, true⟩, ⟨.write [(3, some 1)], true⟩,
     ⟨.rollback, true⟩] = [[[(1, some 5)], [(2, some 7), (1, none)]]] := by decide

end PonyVerif.Props.C17
