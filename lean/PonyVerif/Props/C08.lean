/-
  C08 — validation enforces declared attribute constraints.
  Property theorems only.  The model (`Model/Validate.lean`) mirrors IntConverter.init/validate, RealConverter.validate,
  DecimalConverter.validate, StrConverter.init/validate, Attribute.validate and Required.validate; the engine
  `harness/engines/c08.py` runs model and real code on the same declarations and candidate values on every run.
  The right-hand sides below (`intDeclHolds`, `Num.le`, `strDeclHolds`, …) are the *declared* constraints, written
  independently of the code's control flow.
-/
import PonyVerif.Model.Validate
import PonyVerif.Gen.IntBounds
import PonyVerif.Py.Lemmas
namespace PonyVerif.Props.C08
open PonyVerif.Model.Validate PonyVerif.Py PonyVerif

/-! ### what an int declaration declares -/

/-- number of bits an int declaration denotes: `size` if given, else 32 unless `unsigned=None` was written -/
def effBits (size : Option Int) (unsigned : Option Bool) : Option Nat :=
  match size, unsigned with
  | some s, _ => some s.toNat
  | none, some _ => some 32
  | none, none => none

/-- `v` fits the declared size and signedness -/
def inRange (size : Option Int) (unsigned : Option Bool) (v : Int) : Prop :=
  match effBits size unsigned with
  | none => True
  | some n => if unsigned = some true then 0 ≤ v ∧ v < 2 ^ n else -(2 ^ (n - 1)) ≤ v ∧ v < 2 ^ (n - 1)

/-- all declared constraints of an int attribute hold for `v` -/
def intDeclHolds (o : IntOpts) (v : Int) : Prop :=
  inRange o.size o.unsigned v ∧ (∀ m, o.min = some m → m ≤ v) ∧ (∀ m, o.max = some m → v ≤ m)

/-- a declaration that `IntConverter.init` must let through: a legal size, no unsigned 64-bit without provider
    support, and declared bounds inside the size range -/
def intDeclConsistent (uint64 : Bool) (o : IntOpts) : Prop :=
  (∀ s, o.size = some s → s = 8 ∨ s = 16 ∨ s = 24 ∨ s = 32 ∨ s = 64) ∧
  ¬ (o.size = some 64 ∧ o.unsigned = some true ∧ uint64 = false) ∧
  (∀ m, o.min = some m → ∀ n, effBits o.size o.unsigned = some n →
      if o.unsigned = some true then 0 ≤ m else -(2 ^ (n - 1)) ≤ m) ∧
  (∀ m, o.max = some m → ∀ n, effBits o.size o.unsigned = some n →
      if o.unsigned = some true then m < 2 ^ n else m < 2 ^ (n - 1))

theorem sizeOk_cases {s : Int} (h : sizeOk s = true) : s = 8 ∨ s = 16 ∨ s = 24 ∨ s = 32 ∨ s = 64 := by
  simp [sizeOk] at h; omega

/-- the two bound tests of `IntConverter.validate` on the fields computed by `init` are exactly the declared
    constraints — for every integer, every size/unsigned/min/max combination `init` accepts -/
theorem C08_int_core (u64 : Bool) (o : IntOpts) (c : IntConv) (i : Int) (h : intInit u64 o = .ok c) :
    (ltOpt i c.minVal = false ∧ gtOpt i c.maxVal = false) ↔ intDeclHolds o i := by
  obtain ⟨size, uns, mn, mx⟩ := o
  rcases size with _ | s
  · rcases uns with _ | _ | _ <;> rcases mn with _ | mn <;> rcases mx with _ | mx <;>
      simp [intInit, lowestOf, highestOf] at h <;> (repeat' split at h) <;> (try simp at h) <;> (try subst c) <;>
      simp [intDeclHolds, inRange, effBits, ltOpt, gtOpt] <;> omega
  · by_cases hs : sizeOk s = true
    · rcases sizeOk_cases hs with rfl | rfl | rfl | rfl | rfl <;>
      rcases uns with _ | _ | _ <;> rcases mn with _ | mn <;> rcases mx with _ | mx <;>
        simp [intInit, lowestOf, highestOf, sizeOk] at h <;> (repeat' split at h) <;> (try simp at h) <;> (try subst c) <;>
        simp [intDeclHolds, inRange, effBits, ltOpt, gtOpt] <;> omega
    · simp [intInit, hs] at h

/-- `IntConverter.init` accepts a declaration iff it is consistent (legal size; bounds inside the size range) -/
theorem C08_int_init (u64 : Bool) (o : IntOpts) : (∃ c, intInit u64 o = .ok c) ↔ intDeclConsistent u64 o := by
  obtain ⟨size, uns, mn, mx⟩ := o
  rcases size with _ | s
  · rcases uns with _ | _ | _ <;> rcases mn with _ | mn <;> rcases mx with _ | mx <;>
      simp [intInit, lowestOf, highestOf, intDeclConsistent, effBits] <;> (repeat' split) <;> simp <;> omega
  · by_cases hs : sizeOk s = true
    · rcases sizeOk_cases hs with rfl | rfl | rfl | rfl | rfl <;>
      rcases uns with _ | _ | _ <;> rcases mn with _ | mn <;> rcases mx with _ | mx <;> cases u64 <;>
        simp [intInit, lowestOf, highestOf, sizeOk, intDeclConsistent, effBits] <;> (repeat' split) <;> simp <;> omega
    · have hs' : ¬ (s = 8 ∨ s = 16 ∨ s = 24 ∨ s = 32 ∨ s = 64) := by
        intro h; apply hs; rcases h with rfl | rfl | rfl | rfl | rfl <;> rfl
      simp [intInit, hs, intDeclConsistent]
      intro h; exact absurd h hs'

/-- **int attributes.** For every declaration `init` accepts, every candidate value (int, bool, str, anything else)
    and every `int()` parser: the value is accepted iff it denotes an integer that satisfies the declared size,
    signedness, min and max. -/
theorem C08_int (u64 : Bool) (o : IntOpts) (c : IntConv) (parse : List Char → Option Int) (v : Val)
    (h : intInit u64 o = .ok c) :
    accepted (intValidate parse c v) ↔ ∃ i, intOf parse v = .ok i ∧ intDeclHolds o i := by
  unfold intValidate accepted
  cases hi : intOf parse v with
  | error e => simp
  | ok i =>
    have hc := C08_int_core u64 o c i h
    simp only [Except.ok.injEq, exists_eq_left']
    rw [← hc]
    cases h1 : ltOpt i c.minVal <;> cases h2 : gtOpt i c.maxVal <;> simp

/-- the accepted value is the candidate itself (int, bool) or the integer the string denotes -/
theorem C08_int_value (parse : List Char → Option Int) (c : IntConv) (v r : Val)
    (h : intValidate parse c v = .ok r) : ∃ i, intOf parse v = .ok i ∧ r = intResult v i := by
  unfold intValidate at h
  cases hi : intOf parse v with
  | error e => simp [hi] at h
  | ok i =>
    simp only [hi] at h
    cases h1 : ltOpt i c.minVal <;> cases h2 : gtOpt i c.maxVal <;> simp [h1, h2] at h
    exact ⟨i, rfl, h.symm⟩

/-- `IntConverter.validate` is idempotent on accepted values -/
theorem C08_int_idem (parse : List Char → Option Int) (c : IntConv) (v r : Val)
    (h : intValidate parse c v = .ok r) : intValidate parse c r = .ok r := by
  obtain ⟨i, hi, hr⟩ := C08_int_value parse c v r h
  unfold intValidate at h ⊢
  simp only [hi] at h
  have hri : intOf parse r = .ok i := by
    subst hr
    cases v <;> simp_all [intOf, intResult]
  have hrr : intResult r i = r := by
    subst hr
    cases v <;> simp [intResult]
  simp only [hri, hrr]
  cases h1 : ltOpt i c.minVal <;> cases h2 : gtOpt i c.maxVal <;> simp [h1, h2] at h ⊢

/-! ### bridges to the code regenerated from IntConverter.init / validate on every run (Gen/IntBounds.lean) -/

def encOI : Option Int → PyVal
  | none => .none
  | some i => .int i
def encOB : Option Bool → PyVal
  | none => .none
  | some b => .bool b

/-- `IntConverter.init` after the legality checks of `size` (the part regenerated from the source) -/
def intInitTailT (o : IntOpts) : Except String IntConv :=
  let uns : Bool := o.unsigned == some true
  let size : Option Int := if o.unsigned.isSome && o.size.isNone then some 32 else o.size
  let lowest := lowestOf size uns
  let highest := highestOf size uns
  if (match highest, o.max with | some h, some m => decide (m > h) | _, _ => false) then .error (boundErr o.unsigned) else
  if (match lowest, o.min with | some l, some m => decide (m < l) | _, _ => false) then .error (boundErr o.unsigned) else
  .ok { minVal := match o.min with | Option.none => lowest | some m => some m,
        maxVal := match o.max with | Option.none => highest | some m => some m,
        size := size, unsigned := o.unsigned }

theorem intInit_eq_tail (u : Bool) (o : IntOpts) :
    intInit u o = if (match o.size with | some s => !sizeOk s | Option.none => false) then .error "TypeError" else
                  if o.size == some 64 && (o.unsigned == some true) && !u then .error "TypeError" else intInitTailT o := rfl

def encConv (c : IntConv) : PyVal := .list [encOI c.minVal, encOI c.maxVal, encOI c.size, encOB c.unsigned]

/-- the Python-side reading of the model's outcome (the exception text is not translated: only "raises ValueError") -/
def encRes : Except String IntConv → PyM PyVal
  | .ok c => .ok (encConv c)
  | .error _ => .error (.raised "ValueError" "")

theorem encRes_ite (c : Prop) [Decidable c] (a b : Except String IntConv) :
    encRes (if c then a else b) = if c then encRes a else encRes b := by
  split <;> rfl

/-- **bridge (regenerated every run)**: the tail of `IntConverter.init` taken from the source — default size, lowest/highest,
    the two range tests of the declared bounds, min_val/max_val — computes the hand model, for every legal size, every
    `unsigned` (False/True/None) and all integer or absent min/max -/
theorem C08_bridge_int_init_tail (o : IntOpts) (hs : ∀ s, o.size = some s → sizeOk s = true) :
    Gen.intInitTail (encOI o.size) (encOB o.unsigned) (encOI o.min) (encOI o.max) = encRes (intInitTailT o) := by
  obtain ⟨size, uns, mn, mx⟩ := o
  rcases size with _ | s
  · rcases uns with _ | _ | _ <;> rcases mn with _ | mn <;> rcases mx with _ | mx <;>
      simp [Gen.intInitTail, intInitTailT, encOI, encOB, encConv, encRes, lowestOf, highestOf, PyVal.pow, PyVal.asInt?, bind, Except.bind, pure, Except.pure, throw, throwThe, MonadExceptOf.throw] <;>
      (try (split <;> (try simp_all) <;> (try (split <;> simp_all)) <;> (try omega)))
  · rcases sizeOk_cases (hs s rfl) with rfl | rfl | rfl | rfl | rfl <;>
    rcases uns with _ | _ | _ <;> rcases mn with _ | mn <;> rcases mx with _ | mx <;>
      simp [Gen.intInitTail, intInitTailT, encOI, encOB, encConv, encRes, lowestOf, highestOf, PyVal.pow, PyVal.asInt?, bind, Except.bind, pure, Except.pure, throw, throwThe, MonadExceptOf.throw] <;>
      (try (split <;> (try simp_all) <;> (try (split <;> simp_all)) <;> (try omega)))

/-- **bridge (regenerated every run)**: the two bound tests of `IntConverter.validate` taken from the source are `ltOpt`/`gtOpt`,
    for all integers and all present or absent converter bounds -/
theorem C08_bridge_int_validate_tail (i : Int) (mn mx : Option Int) :
    Gen.intValidateTail (.int i) (encOI mn) (encOI mx) =
      if ltOpt i mn then .error (.raised "ValueError" "") else if gtOpt i mx then .error (.raised "ValueError" "") else .ok (.int i) := by
  rcases mn with _ | mn <;> rcases mx with _ | mx <;>
    simp [Gen.intValidateTail, encOI, ltOpt, gtOpt, bind, Except.bind, pure, Except.pure, throw, throwThe, MonadExceptOf.throw] <;>
    (repeat' split) <;> (try simp_all) <;> (try omega)

theorem encOI_inj {a b : Option Int} (h : encOI a = encOI b) : a = b := by
  cases a <;> cases b <;> simp_all [encOI]

/-- **the regenerated code enforces the declaration**: whatever converter fields the regenerated `init` tail computes for a
    declaration with a legal size, the regenerated `validate` tail accepts an integer `i` with them iff `i` satisfies the
    declared size, signedness, min and max — for all integers and all declarations.  (No hand model in the statement.) -/
theorem C08_int_generated (o : IntOpts) (hs : ∀ s, o.size = some s → sizeOk s = true) (mn mx : Option Int) (sz un : PyVal) (i : Int)
    (hinit : Gen.intInitTail (encOI o.size) (encOB o.unsigned) (encOI o.min) (encOI o.max) = .ok (.list [encOI mn, encOI mx, sz, un])) :
    Gen.intValidateTail (.int i) (encOI mn) (encOI mx) = .ok (.int i) ↔ intDeclHolds o i := by
  rw [C08_bridge_int_init_tail o hs] at hinit
  cases ht : intInitTailT o with
  | error e => rw [ht] at hinit; simp [encRes] at hinit
  | ok c =>
    rw [ht] at hinit
    simp only [encRes, encConv, Except.ok.injEq, PyVal.list.injEq, List.cons.injEq] at hinit
    have h1 : c.minVal = mn := encOI_inj hinit.1
    have h2 : c.maxVal = mx := encOI_inj hinit.2.1
    have hinit' : intInit true o = .ok c := by
      rw [intInit_eq_tail, ht]
      have hb : (match o.size with | some s => !sizeOk s | Option.none => false) = false := by
        cases hsz : o.size with
        | none => rfl
        | some s => simp [hs s hsz]
      simp [hb]
    have core := C08_int_core true o c i hinit'
    rw [h1, h2] at core
    rw [C08_bridge_int_validate_tail, ← core]
    cases ltOpt i mn <;> cases gtOpt i mx <;> simp

example : Gen.intInitTail (.int 8) (.bool false) (.int 0) .none = .ok (.list [.int 0, .int 127, .int 8, .bool false]) := by
  simp [Gen.intInitTail, PyVal.pow, PyVal.asInt?, bind, Except.bind, pure, Except.pure]
example : Gen.intValidateTail (.int (-5)) (.int 0) (.int 127) = .error (.raised "ValueError" "") := by
  simp [Gen.intValidateTail, bind, Except.bind, throw, throwThe, MonadExceptOf.throw]

/-! ### float -/

theorem Num.not_lt_iff_le (x m : Num) (hx : x.isNan = false) (hm : m.isNan = false) : x.lt m = false ↔ m.le x := by
  cases x <;> cases m <;> simp_all [Num.lt, Num.le, Num.isNan]

/-- the declared bounds of a float / Decimal attribute hold for `x` -/
def numDeclHolds (c : NumConv) (x : Num) : Prop :=
  (∀ m, c.minVal = some m → m.le x) ∧ (∀ m, c.maxVal = some m → x.le m)

theorem Num.leB_iff_le (a b : Num) : a.leB b = true ↔ a.le b := by
  cases a <;> cases b <;> simp [Num.leB, Num.le]

theorem numLtOpt_false_iff (x : Num) (b : Option Num) : numLtOpt x b = false ↔ ∀ m, b = some m → m.le x := by
  cases b with
  | none => simp [numLtOpt]
  | some m => simp [numLtOpt, Num.leB_iff_le]

theorem numGtOpt_false_iff (x : Num) (b : Option Num) : numGtOpt x b = false ↔ ∀ m, b = some m → x.le m := by
  cases b with
  | none => simp [numGtOpt]
  | some m => simp [numGtOpt, Num.leB_iff_le]

/-- **float attributes.** For every declaration and every candidate (NaN, ±inf and NaN bounds included):
    accepted iff `float(v)` exists and `min ≤ x ≤ max` as exact numbers; NaN satisfies no bound
    (`not val >= min` / `not val <= max`, the fix of 626bc5b). -/
theorem C08_float (toFloat : Val → Except String Num) (c : NumConv) (v : Val) :
    accepted (realValidate toFloat c v) ↔ ∃ x, toFloat v = .ok x ∧ numDeclHolds c x := by
  unfold realValidate accepted numDeclHolds
  cases hx : toFloat v with
  | error e => simp
  | ok x =>
    simp only [Except.ok.injEq, exists_eq_left']
    rw [← numLtOpt_false_iff x c.minVal, ← numGtOpt_false_iff x c.maxVal]
    cases h1 : numLtOpt x c.minVal <;> cases h2 : numGtOpt x c.maxVal <;> simp

/-- in particular NaN is rejected as soon as a bound is declared -/
theorem C08_float_nan_rejected (toFloat : Val → Except String Num) (c : NumConv) (v : Val)
    (hv : toFloat v = .ok .nan) (hb : c.minVal.isSome ∨ c.maxVal.isSome) : ¬ accepted (realValidate toFloat c v) := by
  rw [C08_float]
  rintro ⟨x, hx, h1, h2⟩
  rw [hv] at hx; injection hx with hx; subst hx
  rcases hb with hb | hb
  · obtain ⟨m, hm⟩ := Option.isSome_iff_exists.mp hb
    have := h1 m hm; cases m <;> simp [Num.le] at this
  · obtain ⟨m, hm⟩ := Option.isSome_iff_exists.mp hb
    have := h2 m hm; cases m <;> simp [Num.le] at this

/-- the accepted value is `float(val)` -/
theorem C08_float_value (toFloat : Val → Except String Num) (c : NumConv) (v r : Val)
    (h : realValidate toFloat c v = .ok r) : ∃ x, toFloat v = .ok x ∧ r = .flt x := by
  unfold realValidate at h
  cases hx : toFloat v with
  | error e => simp [hx] at h
  | ok x =>
    simp only [hx] at h
    cases h1 : numLtOpt x c.minVal <;> cases h2 : numGtOpt x c.maxVal <;> simp [h1, h2] at h
    exact ⟨x, rfl, h.symm⟩

/-- `RealConverter.validate` is idempotent on accepted values (`float(x) == x` for a float `x`) -/
theorem C08_float_idem (toFloat : Val → Except String Num) (c : NumConv) (v r : Val)
    (hf : ∀ x, toFloat (.flt x) = .ok x) (h : realValidate toFloat c v = .ok r) : realValidate toFloat c r = .ok r := by
  obtain ⟨x, hx, rfl⟩ := C08_float_value toFloat c v r h
  unfold realValidate at h ⊢
  simp only [hx] at h
  simp only [hf]
  exact h

/-! ### Decimal -/

theorem decLtOpt_ok_false_iff (x : Num) (b : Option Num) :
    decLtOpt x b = .ok false ↔ ∀ m, b = some m → x.isNan = false ∧ m.isNan = false ∧ m.le x := by
  cases b with
  | none => simp [decLtOpt]
  | some m =>
    simp only [decLtOpt, decLt, Option.some.injEq, forall_eq']
    cases hx : x.isNan <;> cases hm : m.isNan <;> simp [Num.not_lt_iff_le x m, hx, hm]

theorem decGtOpt_ok_false_iff (x : Num) (b : Option Num) :
    decGtOpt x b = .ok false ↔ ∀ m, b = some m → x.isNan = false ∧ m.isNan = false ∧ x.le m := by
  cases b with
  | none => simp [decGtOpt]
  | some m =>
    simp only [decGtOpt, decLt, Option.some.injEq, forall_eq']
    cases hx : x.isNan <;> cases hm : m.isNan <;> simp [Num.not_lt_iff_le m x, hx, hm]

/-- **Decimal attributes.** Accepted iff `Decimal(val)` succeeds and the declared bounds hold; a NaN operand makes a
    declared bound unsatisfiable (the comparison raises), without bounds every Decimal is accepted. -/
theorem C08_decimal (toDec : Val → Except String Num) (c : NumConv) (v : Val) :
    accepted (decValidate toDec c v) ↔
      ∃ x, toDec v = .ok x ∧ (∀ m, c.minVal = some m → x.isNan = false ∧ m.isNan = false ∧ m.le x) ∧
                             (∀ m, c.maxVal = some m → x.isNan = false ∧ m.isNan = false ∧ x.le m) := by
  unfold decValidate accepted
  cases hx : toDec v with
  | error e => simp
  | ok x =>
    simp only [Except.ok.injEq, exists_eq_left']
    rw [← decLtOpt_ok_false_iff, ← decGtOpt_ok_false_iff]
    rcases h1 : decLtOpt x c.minVal with e | b
    · simp
    · cases b
      · rcases h2 : decGtOpt x c.maxVal with e | b
        · simp
        · cases b <;> simp
      · simp

theorem C08_decimal_value (toDec : Val → Except String Num) (c : NumConv) (v r : Val)
    (h : decValidate toDec c v = .ok r) : ∃ x, toDec v = .ok x ∧ r = .dec x := by
  unfold decValidate at h
  cases hx : toDec v with
  | error e => simp [hx] at h
  | ok x =>
    simp only [hx] at h
    rcases h1 : decLtOpt x c.minVal with e | b
    · simp [h1] at h
    · cases b
      · rcases h2 : decGtOpt x c.maxVal with e | b
        · simp [h1, h2] at h
        · cases b
          · simp [h1, h2] at h; exact ⟨x, rfl, h.symm⟩
          · simp [h1, h2] at h
      · simp [h1] at h

theorem C08_decimal_idem (toDec : Val → Except String Num) (c : NumConv) (v r : Val)
    (hf : ∀ x, toDec (.dec x) = .ok x) (h : decValidate toDec c v = .ok r) : decValidate toDec c r = .ok r := by
  obtain ⟨x, hx, rfl⟩ := C08_decimal_value toDec c v r h
  unfold decValidate at h ⊢
  simp only [hx] at h
  simp only [hf]
  exact h

/-! ### str -/

/-- the declared constraints of a str attribute hold for the (already normalised) text `t`;
    a max length of 0 means "no limit" throughout the code (`if max_len and …`, column type TEXT) -/
def strDeclHolds (c : StrConv) (t : List Char) : Prop :=
  ∀ m, c.maxLen = some m → m ≠ 0 → (t.length : Int) ≤ m

/-- the documented normalisation: whitespace is stripped from both ends unless `autostrip=False` -/
def strNorm (c : StrConv) (s : List Char) : List Char := if c.autostrip then strip s else s

theorem tooLong_false_iff (c : StrConv) (t : List Char) : tooLong c.maxLen t = false ↔ strDeclHolds c t := by
  unfold strDeclHolds tooLong
  cases c.maxLen with
  | none => simp
  | some m =>
    by_cases h0 : m = 0
    · simp [h0]
    · simp [h0]

theorem strValidate_str (c : StrConv) (s : List Char) :
    strValidate c (.str s) = if tooLong c.maxLen (strNorm c s) then .error "ValueError" else .ok (.str (strNorm c s)) := rfl

/-- **str attributes.** Accepted iff the value is a str whose normalised text is within the declared length;
    the accepted value is the normalised text. -/
theorem C08_str (c : StrConv) (v : Val) :
    accepted (strValidate c v) ↔ ∃ s, v = .str s ∧ strDeclHolds c (strNorm c s) := by
  cases v with
  | str s =>
    simp only [Val.str.injEq, exists_eq_left']
    rw [strValidate_str, ← tooLong_false_iff]
    unfold accepted
    cases tooLong c.maxLen (strNorm c s) <;> simp
  | _ => simp [strValidate, accepted]

theorem C08_str_value (c : StrConv) (v r : Val) (h : strValidate c v = .ok r) :
    ∃ s, v = .str s ∧ r = .str (strNorm c s) := by
  cases v with
  | str s =>
    rw [strValidate_str] at h
    cases ht : tooLong c.maxLen (strNorm c s) <;> simp [ht] at h
    exact ⟨s, rfl, h.symm⟩
  | _ => simp [strValidate] at h

theorem dropWhile_eq_self_of_head {p : Char → Bool} : ∀ {l : List Char}, (∀ c, l.head? = some c → p c = false) → l.dropWhile p = l
  | [], _ => rfl
  | c :: l, h => by simp [List.dropWhile, h c rfl]

theorem head_dropWhile {p : Char → Bool} : ∀ (l : List Char) (c : Char), (l.dropWhile p).head? = some c → p c = false
  | [], c, h => by simp at h
  | a :: l, c, h => by
    by_cases ha : p a = true
    · simp [List.dropWhile, ha] at h; exact head_dropWhile l c h
    · simp [List.dropWhile, ha] at h; subst h; simpa using ha

theorem mem_takeWhile_sat {p : Char → Bool} : ∀ (l : List Char) (c : Char), c ∈ l.takeWhile p → p c = true
  | [], c, h => by simp at h
  | a :: l, c, h => by
    by_cases ha : p a = true
    · simp [List.takeWhile, ha] at h
      rcases h with rfl | h
      · exact ha
      · exact mem_takeWhile_sat l c h
    · simp [List.takeWhile, ha] at h

theorem rstrip_idem (s : List Char) : rstrip (rstrip s) = rstrip s := by
  unfold rstrip
  rw [List.reverse_reverse, dropWhile_eq_self_of_head (head_dropWhile _)]

/-- the first character of `rstrip l` is the first character of `l`, when `l` does not start with whitespace -/
theorem head_rstrip (l : List Char) (c : Char) (hl : ∀ c, l.head? = some c → isPySpace c = false)
    (h : (rstrip l).head? = some c) : isPySpace c = false := by
  -- rstrip l is a prefix of l
  have hp : ∃ t, l = rstrip l ++ t := by
    unfold rstrip
    refine ⟨(l.reverse.takeWhile isPySpace).reverse, ?_⟩
    rw [← List.reverse_append, List.takeWhile_append_dropWhile, List.reverse_reverse]
  obtain ⟨t, ht⟩ := hp
  cases hr : rstrip l with
  | nil => rw [hr] at h; simp at h
  | cons a r =>
    rw [hr] at h ht; simp at h; subst h
    apply hl; rw [ht]; rfl

/-- `strip` is idempotent -/
theorem C08_strip_idem (s : List Char) : strip (strip s) = strip s := by
  unfold strip
  have h1 : (rstrip (s.dropWhile isPySpace)).dropWhile isPySpace = rstrip (s.dropWhile isPySpace) :=
    dropWhile_eq_self_of_head (fun c hc => head_rstrip _ c (head_dropWhile _) hc)
  rw [h1, rstrip_idem]

/-- `strip s` is `s` without a whitespace-only prefix and suffix, and starts and ends with a non-whitespace character -/
theorem C08_strip_spec (s : List Char) :
    (∃ pre post, s = pre ++ strip s ++ post ∧ (∀ c ∈ pre, isPySpace c = true) ∧ (∀ c ∈ post, isPySpace c = true)) ∧
    (∀ c, (strip s).head? = some c → isPySpace c = false) ∧
    (∀ c, (strip s).getLast? = some c → isPySpace c = false) := by
  refine ⟨⟨s.takeWhile isPySpace, ((s.dropWhile isPySpace).reverse.takeWhile isPySpace).reverse, ?_, ?_, ?_⟩, ?_, ?_⟩
  · unfold strip rstrip
    rw [List.append_assoc, ← List.reverse_append, List.takeWhile_append_dropWhile, List.reverse_reverse,
      List.takeWhile_append_dropWhile]
  · intro c hc; exact mem_takeWhile_sat _ c hc
  · intro c hc; rw [List.mem_reverse] at hc; exact mem_takeWhile_sat _ c hc
  · intro c hc; exact head_rstrip _ c (head_dropWhile _) hc
  · intro c hc
    unfold strip rstrip at hc
    rw [List.getLast?_reverse] at hc
    exact head_dropWhile _ c hc

/-- `StrConverter.validate` is idempotent on accepted values -/
theorem C08_str_idem (c : StrConv) (v r : Val) (h : strValidate c v = .ok r) : strValidate c r = .ok r := by
  obtain ⟨s, rfl, rfl⟩ := C08_str_value c v r h
  have hn : strNorm c (strNorm c s) = strNorm c s := by
    unfold strNorm; split
    · exact C08_strip_idem s
    · rfl
  rw [strValidate_str] at h ⊢
  rw [hn]
  exact h

/-! ### Attribute.validate / Required.validate -/

/-- **None.** `None` is accepted iff the attribute is optional and nullable, or required with a value the database
    supplies (`auto`, `volatile`, `sql_default`) -/
theorem C08_attr_none (a : AttrOpts) (conv : Val → Res) (check : Val → Bool) :
    accepted (validate a conv check .none) ↔ (a.required = false ∧ a.nullable = true) ∨ (a.required = true ∧ a.noneOk = true) := by
  obtain ⟨req, nul, nok, d, hc⟩ := a
  cases req <;> cases nul <;> cases nok <;> simp [validate, requiredValidate, attrValidate, accepted]

/-- a proper candidate (not None, not the DEFAULT marker) -/
def proper (v : Val) : Prop := v ≠ .none ∧ v ≠ .dflt

theorem attrValidate_proper (a : AttrOpts) (conv : Val → Res) (check : Val → Bool) (v : Val) (hv : proper v) :
    attrValidate a conv check v = convChecked a conv check v := by
  cases v <;> simp_all [proper, attrValidate]

theorem validate_proper (a : AttrOpts) (conv : Val → Res) (check : Val → Bool) (v : Val) (hv : proper v) :
    validate a conv check v =
      match conv v with
      | .error e => .error e
      | .ok r => if a.hasCheck && !check r then .error "ValueError"
                 else if a.required && (r == .str [] || (r == .none && !a.noneOk)) then .error "ValueError" else .ok r := by
  unfold validate requiredValidate
  rw [attrValidate_proper a conv check v hv]
  unfold convChecked
  obtain ⟨req, nul, nok, d, hc⟩ := a
  cases conv v with
  | error e => cases req <;> rfl
  | ok r =>
    cases req <;> cases hc <;> cases hk : check r <;> simp [hk]

/-- **values.** A proper candidate is accepted iff the converter accepts it, the custom check (if any) holds for the
    converted value, and — for a required attribute — the converted value is not the empty string.
    The accepted value is the converted value. -/
theorem C08_attr_value (a : AttrOpts) (conv : Val → Res) (check : Val → Bool) (v r : Val) (hv : proper v) :
    validate a conv check v = .ok r ↔
      conv v = .ok r ∧ (a.hasCheck = true → check r = true) ∧ (a.required = true → r ≠ .str [] ∧ (r = .none → a.noneOk = true)) := by
  rw [validate_proper a conv check v hv]
  obtain ⟨req, nul, nok, d, hc⟩ := a
  cases hcv : conv v with
  | error e => simp
  | ok r' =>
    simp only [Except.ok.injEq]
    constructor
    · intro h
      cases hc <;> cases hk : check r' <;> cases req <;> simp [hk] at h <;> (try (subst h; simp [hk]))
      all_goals (
        by_cases h1 : r' = Val.str []
        · simp [h1] at h
        · by_cases h2 : r' = Val.none ∧ nok = false
          · simp [h2] at h
          · simp [h1, h2] at h
            subst h
            refine ⟨rfl, by simp [hk], fun _ => ⟨h1, ?_⟩⟩
            intro hn; cases nok <;> simp_all)
    · rintro ⟨rfl, hk, hr⟩
      cases hc <;> cases req <;> simp_all

/-- **idempotence.** Validation of an accepted value returns it unchanged, whenever the converter is idempotent and
    never returns `None`/DEFAULT (true of every converter above), and the py_check is a function of the value. -/
theorem C08_attr_idem (a : AttrOpts) (conv : Val → Res) (check : Val → Bool) (v r : Val) (hv : proper v)
    (hconv : ∀ w s, conv w = .ok s → conv s = .ok s ∧ proper s)
    (h : validate a conv check v = .ok r) : validate a conv check r = .ok r := by
  have h' := (C08_attr_value a conv check v r hv).mp h
  obtain ⟨hc, hk, hr⟩ := h'
  obtain ⟨hcr, hpr⟩ := hconv v r hc
  exact (C08_attr_value a conv check r r hpr).mpr ⟨hcr, hk, hr⟩

/-- a missing keyword (`DEFAULT`) behaves as the declared default: no default → `None` is what the object holds
    (rejected for a required attribute unless the database supplies the value) -/
theorem C08_attr_default (a : AttrOpts) (conv : Val → Res) (check : Val → Bool) :
    validate a conv check .dflt =
      match a.default with
      | none => if a.required && !a.noneOk then .error "ValueError" else .ok .none
      | some w => if a.required then
                    (match convChecked a conv check w with
                     | .error e => .error e
                     | .ok r => if r == .str [] || (r == .none && !a.noneOk) then .error "ValueError" else .ok r)
                  else convChecked a conv check w := by
  obtain ⟨req, nul, nok, d, hc⟩ := a
  cases d <;> cases req <;> cases nok <;> simp [validate, requiredValidate, attrValidate] <;> rfl

/-- **the same holds at every entry point**: creation, assignment, `set()` and lookups by attribute value accept exactly
    the same values and hold / search for exactly the same normalised value -/
theorem C08_entry_points (a : AttrOpts) (conv : Val → Res) (check : Val → Bool) (old v : Val) :
    create a conv check (some v) = validate a conv check v ∧
    assign a conv check old v = validate a conv check v ∧
    setKw a conv check old v = validate a conv check v ∧
    lookupKey a conv check v = validate a conv check v ∧
    create a conv check none = validate a conv check .dflt := ⟨rfl, rfl, rfl, rfl, rfl⟩

/-- **headline, int.** `Required/Optional(int, size=…, unsigned=…, min=…, max=…, py_check=…)`: for all integers `i`,
    at every entry point, `i` is accepted iff it satisfies the declared size, signedness, min, max and the custom check. -/
theorem C08_int_attribute (u64 : Bool) (o : IntOpts) (c : IntConv) (parse : List Char → Option Int)
    (a : AttrOpts) (check : Val → Bool) (i : Int) (h : intInit u64 o = .ok c) :
    accepted (validate a (intValidate parse c) check (.int i)) ↔
      intDeclHolds o i ∧ (a.hasCheck = true → check (.int i) = true) := by
  have hint := C08_int u64 o c parse (.int i) h
  constructor
  · rintro ⟨r, hr⟩
    have := (C08_attr_value a _ check (.int i) r ⟨by simp, by simp⟩).mp hr
    obtain ⟨h1, h2, _⟩ := this
    obtain ⟨j, hj, hd⟩ := hint.mp ⟨r, h1⟩
    obtain ⟨k, hk, hrk⟩ := C08_int_value parse c _ r h1
    simp [intOf] at hj hk; subst hj; subst hk
    simp [intResult] at hrk; subst hrk
    exact ⟨hd, h2⟩
  · rintro ⟨hd, hk⟩
    obtain ⟨r, hr⟩ := hint.mpr ⟨i, rfl, hd⟩
    obtain ⟨k, hk', hrk⟩ := C08_int_value parse c _ r hr
    simp [intOf] at hk'; subst hk'
    simp [intResult] at hrk; subst hrk
    exact ⟨.int i, (C08_attr_value a _ check (.int i) (.int i) ⟨by simp, by simp⟩).mpr ⟨hr, hk, by intro _; simp⟩⟩

/-! ### primary keys; values read from the database -/

/-- **primary key.** `obj.pk = v` and `obj.set(pk=v)` accept a value iff it passes the attribute's validation (all declared
    constraints, C08_attr_value) AND equals the key the object already has; a constraint violation is reported before the
    "cannot change" error -/
theorem C08_pk_assign (a : AttrOpts) (conv : Val → Res) (check : Val → Bool) (old v r : Val) :
    assignPk a conv check old v = .ok r ↔ (∃ r', validate a conv check v = .ok r' ∧ keyOf r' = keyOf old) ∧ r = old := by
  unfold assignPk
  cases hv : validate a conv check v with
  | error e => simp
  | ok r' =>
    by_cases hk : keyOf r' = keyOf old
    · simp [hk]; constructor <;> (intro h; exact h.symm)
    · simp [hk]

theorem C08_pk_assign_error_order (a : AttrOpts) (conv : Val → Res) (check : Val → Bool) (old v : Val) (e : String)
    (h : validate a conv check v = .error e) : assignPk a conv check old v = .error e := by
  simp [assignPk, h]

/-- **values read from the database are not validated** (the counterpart of the property: constraints are enforced at the
    entry points only): whatever the declaration (bounds, size, nullability, required-ness, py_check), an integer the
    column holds is returned as it is, a text likewise, and NULL is returned as None -/
theorem C08_from_db_unconstrained (a : AttrOpts) (parse : List Char → Option Int) (i : Int) (s : List Char) :
    validateDb a (intSql2py parse) (.int i) = .ok (.int i) ∧
    validateDb a strSql2py (.str s) = .ok (.str s) ∧
    validateDb a (intSql2py parse) .none = .ok .none ∧ validateDb a strSql2py .none = .ok .none := by
  refine ⟨rfl, rfl, rfl, rfl⟩

example : assignPk { required := true, nullable := false, noneOk := false, default := none, hasCheck := false }
    (intValidate (fun _ => none) { minVal := some 0, maxVal := some 127, size := some 8, unsigned := some false }) (fun _ => true) (.int 5) (.int 7) = .error "TypeError" := by rfl
example : assignPk { required := true, nullable := false, noneOk := false, default := none, hasCheck := false }
    (intValidate (fun _ => none) { minVal := some 0, maxVal := some 127, size := some 8, unsigned := some false }) (fun _ => true) (.int 5) (.int (-7)) = .error "ValueError" := by rfl

/-! ### temporal attributes: the documented normalisation -/

/-- **date attributes normalise.** Whatever is accepted, the value a date attribute holds is a plain date — in particular a
    datetime is cut to its date (never stored as a datetime), for every datetime; strings go through `str2date` -/
theorem C08_date_normalises (str2date : List Char → TRes) (hparse : ∀ s r, str2date s = .ok r → r.isDate = true) (v r : TVal)
    (h : dateValidate str2date v = .ok r) : r.isDate = true := by
  cases v <;> simp [dateValidate] at h
  · subst h; rfl
  · subst h; rfl
  · exact hparse _ _ h

theorem C08_date_of_datetime (str2date : List Char → TRes) (y m d h mi s us : Nat) :
    dateValidate str2date (.datetime y m d h mi s us) = .ok (.date y m d) := rfl

/-- a date attribute accepts exactly dates, datetimes and the strings `str2date` parses -/
theorem C08_date_accepts (str2date : List Char → TRes) (v : TVal) :
    (∃ r, dateValidate str2date v = .ok r) ↔
      (∃ y m d, v = .date y m d) ∨ (∃ y m d h mi s us, v = .datetime y m d h mi s us) ∨ (∃ s r, v = .str s ∧ str2date s = .ok r) := by
  cases v <;> simp [dateValidate]

theorem C08_date_idem (str2date : List Char → TRes) (hparse : ∀ s r, str2date s = .ok r → r.isDate = true) (v r : TVal)
    (h : dateValidate str2date v = .ok r) : dateValidate str2date r = .ok r := by
  have hd := C08_date_normalises str2date hparse v r h
  cases r <;> simp [TVal.isDate] at hd
  rfl

/-- **datetime attributes** accept a datetime or a parsable string and nothing else: a plain date is a TypeError
    (the subclass relation is not symmetric) -/
theorem C08_datetime_accepts (p : Nat) (str2datetime : List Char → TRes) (v : TVal) :
    (∃ r, datetimeValidateC p str2datetime v = .ok r) ↔
      (∃ y m d h mi s us, v = .datetime y m d h mi s us) ∨ (∃ s r, v = .str s ∧ str2datetime s = .ok r) := by
  cases v <;> simp [datetimeValidateC]
  rename_i s
  cases str2datetime s <;> simp

theorem C08_time_accepts (p : Nat) (str2time : List Char → TRes) (v : TVal) :
    (∃ r, timeValidateC p str2time v = .ok r) ↔ (∃ h mi s us, v = .time h mi s us) ∨ (∃ s r, v = .str s ∧ str2time s = .ok r) := by
  cases v <;> simp [timeValidateC]
  rename_i s
  cases str2time s <;> simp

/-- the accepted time / datetime is the candidate with its microseconds rounded to the declared precision, all other fields kept -/
theorem C08_time_value (p h mi s us : Nat) (str2time : List Char → TRes) :
    timeValidateC p str2time (.time h mi s us) = .ok (.time h mi s (PonyVerif.Model.Store.roundedUs us p)) := rfl
theorem C08_datetime_value (p y m d h mi s us : Nat) (f : List Char → TRes) :
    datetimeValidateC p f (.datetime y m d h mi s us) = .ok (.datetime y m d h mi s (PonyVerif.Model.Store.roundedUs us p)) := rfl

theorem roundedUs_idem' (us p : Nat) : PonyVerif.Model.Store.roundedUs (PonyVerif.Model.Store.roundedUs us p) p = PonyVerif.Model.Store.roundedUs us p := by
  have closed : ∀ u, PonyVerif.Model.Store.roundedUs u p = if p = 0 then 0 else if p < 6 then u / 10 ^ (6 - p) * 10 ^ (6 - p) else u := by
    intro u
    unfold PonyVerif.Model.Store.roundedUs PonyVerif.Model.Store.roundMicrosT
    by_cases h0 : p = 0
    · simp [h0]; by_cases h : 0 = u <;> simp [h] <;> omega
    · by_cases h6 : p < 6
      · simp only [h0, h6, if_false, if_true]
        by_cases h : u / 10 ^ (6 - p) * 10 ^ (6 - p) = u <;> simp [h]
      · simp [h0, h6]
  rw [closed (PonyVerif.Model.Store.roundedUs us p), closed us]
  split
  · rfl
  · split
    · rw [Nat.mul_div_cancel _ (Nat.pow_pos (by decide))]
    · rfl

/-- validation of temporal values is idempotent (a value read back and validated again is unchanged) -/
theorem C08_time_idem (p h mi s us : Nat) (f : List Char → TRes) (r : TVal)
    (hr : timeValidateC p f (.time h mi s us) = .ok r) : timeValidateC p f r = .ok r := by
  simp only [timeValidateC, roundTimeT, Except.ok.injEq] at hr
  subst hr
  simp [timeValidateC, roundTimeT, roundedUs_idem']

theorem C08_datetime_idem (p y m d h mi s us : Nat) (f : List Char → TRes) (r : TVal)
    (hr : datetimeValidateC p f (.datetime y m d h mi s us) = .ok r) : datetimeValidateC p f r = .ok r := by
  simp only [datetimeValidateC, roundTimeT, Except.ok.injEq] at hr
  subst hr
  simp [datetimeValidateC, roundTimeT, roundedUs_idem']

example : dateValidate (fun _ => .error "ValueError") (.datetime 2020 1 2 10 30 15 0) = .ok (.date 2020 1 2) := rfl
example : datetimeValidateC 6 (fun _ => .error "ValueError") (.date 2020 1 2) = .error "TypeError" := rfl
example : timeValidateC 3 (fun _ => .error "ValueError") (.time 1 2 3 999999) = .ok (.time 1 2 3 999000) := by rfl

/-! ### raw key values given for relationship attributes -/

/-- **relationship attributes.** A raw key value is accepted for a relationship attribute exactly when the root key attribute's
    own validation accepts it, and is normalised the same way — whatever the number of entities (0, 1, 2, …) whose primary key
    is itself a relationship lies between them -/
theorem C08_raw_key_levels (f : Val → Res) (n : Nat) (v : Val) : rawKeyValidate f n v = f v := by
  induction n with
  | zero => rfl
  | succ n ih => simpa [rawKeyValidate] using ih

/-- composite keys: the raw tuple is accepted iff it has one value per key column and every column's root attribute accepts its
    value; the result is the list of the normalised values -/
theorem C08_raw_key_composite (fs : List (Val → Res)) (vs rs : List Val) :
    rawKeyValidateComposite fs vs = .ok rs ↔
      fs.length = vs.length ∧ rs.length = vs.length ∧ ∀ i (h1 : i < fs.length) (h2 : i < vs.length) (h3 : i < rs.length), fs[i] vs[i] = .ok rs[i] := by
  induction fs generalizing vs rs with
  | nil =>
    cases vs with
    | nil => cases rs <;> simp [rawKeyValidateComposite]
    | cons v vs => simp [rawKeyValidateComposite]
  | cons f fs ih =>
    cases vs with
    | nil => simp [rawKeyValidateComposite]
    | cons v vs =>
      simp only [rawKeyValidateComposite]
      cases hf : f v with
      | error e =>
        constructor
        · intro h; cases h
        · rintro ⟨_, hl, h⟩
          cases rs with
          | nil => simp at hl
          | cons r rs' => have := h 0 (by simp) (by simp) (by simp); simp [hf] at this
      | ok r =>
        cases hrest : rawKeyValidateComposite fs vs with
        | error e =>
          constructor
          · intro h; cases h
          rintro ⟨hl1, hl2, h⟩
          cases rs with
          | nil => simp at hl2
          | cons r' rs' =>
            have := (ih vs rs').mpr ⟨by simpa using hl1, by simpa using hl2, fun i h1 h2 h3 => by
              have := h (i + 1) (by simp; omega) (by simp; omega) (by simp; omega); simpa using this⟩
            rw [hrest] at this; cases this
        | ok rs0 =>
          have ih' := ih vs rs0
          simp only [Except.ok.injEq]
          constructor
          · intro h; subst h
            obtain ⟨a, b, c⟩ := ih'.mp hrest
            refine ⟨by simp [a], by simp [b], ?_⟩
            intro i h1 h2 h3
            cases i with
            | zero => simpa using hf
            | succ i => simpa using c i (by simpa using h1) (by simpa using h2) (by simpa using h3)
          · rintro ⟨hl1, hl2, h⟩
            cases rs with
            | nil => simp at hl2
            | cons r' rs' =>
              have h0 := h 0 (by simp) (by simp) (by simp)
              simp [hf] at h0
              have := (ih vs rs').mpr ⟨by simpa using hl1, by simpa using hl2, fun i h1 h2 h3 => by
                have := h (i + 1) (by simp; omega) (by simp; omega) (by simp; omega); simpa using this⟩
              rw [hrest] at this
              injection this with this
              rw [h0, this]

example : rawKeyValidate (intValidate (fun _ => none) { minVal := some 1, maxVal := some 1000, size := some 32, unsigned := some false }) 2 (.int 0) = .error "ValueError" := by rfl

/-! ### non-vacuity: concrete declarations and values -/
example : intInit false { size := some 8, min := some 0 } = .ok { minVal := some 0, maxVal := some 127, size := some 8, unsigned := some false } := by rfl
example : intValidate (fun _ => none) { minVal := some 0, maxVal := some 127, size := some 8, unsigned := some false } (.int (-5)) = .error "ValueError" := by rfl
example : intDeclHolds { size := some 8, min := some 0 } 127 := by
  refine ⟨?_, ?_, ?_⟩ <;> simp [inRange, effBits]
example : ¬ intDeclHolds { size := some 8, min := some 0 } (-5) := by
  intro h; have := h.2.1 0 rfl; omega
example : intInit false { size := some 8, unsigned := some true, max := some 256 } = .error "ValueError" := by rfl
example : strValidate { maxLen := some 3, autostrip := true } (.str [' ', 'a', 'b', 'c', '\n']) = .ok (.str ['a', 'b', 'c']) := by rfl
example : strValidate { maxLen := some 3, autostrip := false } (.str [' ', 'a', 'b', 'c']) = .error "ValueError" := by rfl
example : validate { required := true, nullable := false, noneOk := false, default := none, hasCheck := false }
    (strValidate { maxLen := none, autostrip := true }) (fun _ => true) (.str [' ', ' ']) = .error "ValueError" := by rfl

end PonyVerif.Props.C08
