/-
  C02 — the same query over the same data gives the same answer on every dialect.
  Property theorems only (engine Q).  The backends are MODELLED: `Model.Q.eval` gives SQLite / MySQL (booleans are 0/1 integers)
  and PostgreSQL (a separate boolean type; integer/boolean mixes are rejected) their documented semantics; only SQLite can be
  executed in the sandbox (the evaluator is validated against it on every run by engine c01).  The theorems are corollaries of
  `tr_ok` (Lemmas/TranslateMain.lean) instantiated per dialect: each dialect's WHERE clause selects exactly the rows the Python
  reading selects, hence the same rows as every other dialect, and never hits a type error of the backend.
-/
import PonyVerif.Lemmas.TranslateMain
import PonyVerif.Props.C01
import PonyVerif.Lemmas.TupleCmp
import PonyVerif.Model.QTemporal
import PonyVerif.Lemmas.Subquery
import PonyVerif.Lemmas.QWindow
import PonyVerif.Gen.Limit
import PonyVerif.Py.Lemmas
namespace PonyVerif.Props.C02
open PonyVerif.Model.Q PonyVerif.Props.C01

/-- **C02_dialects** — for any two dialects, every schema, row, parameters and expression of the fragment (on both dialects):
    both translations evaluate without a backend type error and select the row on one dialect iff on the other. -/
theorem C02_dialects (d1 d2 : Dialect) (sch : Schema) (L : LikeFn) (env : PEnv) (e : Expr) (cs1 cs2 : SqlList)
    (hwt : WT sch env) (hL1 : LikeOK L d1) (hL2 : LikeOK L d2)
    (hf1 : frag sch d1 e = true) (hf2 : frag sch d2 e = true)
    (h1 : conditions sch d1 e = .ok cs1) (h2 : conditions sch d2 e = .ok cs2) :
    ∃ k1 k2, evalCond L d1 (senv d1 env) (.and cs1) = some k1 ∧ evalCond L d2 (senv d2 env) (.and cs2) = some k2 ∧
      (k1 = .tt ↔ k2 = .tt) := by
  obtain ⟨k1, e1, i1⟩ := C01_cond sch d1 L env e cs1 hwt hL1 hf1 h1
  obtain ⟨k2, e2, i2⟩ := C01_cond sch d2 L env e cs2 hwt hL2 hf2 h2
  exact ⟨k1, k2, e1, e2, i1.trans i2.symm⟩

/-- **C02_pg_sqlite**, **C02_mysql_sqlite** — the two instances the property names -/
theorem C02_pg_sqlite (sch : Schema) (L : LikeFn) (env : PEnv) (e : Expr) (cs1 cs2 : SqlList)
    (hwt : WT sch env) (hL1 : LikeOK L .pg) (hL2 : LikeOK L .sqlite)
    (hf1 : frag sch .pg e = true) (hf2 : frag sch .sqlite e = true)
    (h1 : conditions sch .pg e = .ok cs1) (h2 : conditions sch .sqlite e = .ok cs2) :
    ∃ k1 k2, evalCond L .pg (senv .pg env) (.and cs1) = some k1 ∧ evalCond L .sqlite (senv .sqlite env) (.and cs2) = some k2 ∧
      (k1 = .tt ↔ k2 = .tt) :=
  C02_dialects .pg .sqlite sch L env e cs1 cs2 hwt hL1 hL2 hf1 hf2 h1 h2

theorem C02_mysql_sqlite (sch : Schema) (L : LikeFn) (env : PEnv) (e : Expr) (cs1 cs2 : SqlList)
    (hwt : WT sch env) (hL1 : LikeOK L .mysql) (hL2 : LikeOK L .sqlite)
    (hf1 : frag sch .mysql e = true) (hf2 : frag sch .sqlite e = true)
    (h1 : conditions sch .mysql e = .ok cs1) (h2 : conditions sch .sqlite e = .ok cs2) :
    ∃ k1 k2, evalCond L .mysql (senv .mysql env) (.and cs1) = some k1 ∧ evalCond L .sqlite (senv .sqlite env) (.and cs2) = some k2 ∧
      (k1 = .tt ↔ k2 = .tt) :=
  C02_dialects .mysql .sqlite sch L env e cs1 cs2 hwt hL1 hL2 hf1 hf2 h1 h2

/-- **C02_exact** — without truth tests of possibly missing values the three-valued outcomes are equal on all dialects -/
theorem C02_exact (d1 d2 : Dialect) (sch : Schema) (L : LikeFn) (env : PEnv) (e : Expr) (cs1 cs2 : SqlList)
    (hwt : WT sch env) (hL1 : LikeOK L d1) (hL2 : LikeOK L d2)
    (hf1 : frag sch d1 e = true) (hf2 : frag sch d2 e = true) (hx : exact sch e = true)
    (h1 : conditions sch d1 e = .ok cs1) (h2 : conditions sch d2 e = .ok cs2) :
    evalCond L d1 (senv d1 env) (.and cs1) = evalCond L d2 (senv d2 env) (.and cs2) := by
  rw [C01_cond_exact sch d1 L env e cs1 hwt hL1 hf1 hx h1, C01_cond_exact sch d2 L env e cs2 hwt hL2 hf2 hx h2]

/-- **C02_proj** — a projected value expression evaluates to the encoding of one and the same Python value on both dialects -/
theorem C02_proj (d1 d2 : Dialect) (sch : Schema) (L : LikeFn) (env : PEnv) (e : Expr) (s1 s2 : Sql)
    (hwt : WT sch env) (hL1 : LikeOK L d1) (hL2 : LikeOK L d2)
    (hf1 : frag sch d1 e = true) (hf2 : frag sch d2 e = true) (hs : valueSorted e = true)
    (h1 : projection sch d1 e = .ok s1) (h2 : projection sch d2 e = .ok s2) :
    ∃ v, eval L d1 (senv d1 env) s1 = some (encV d1 v) ∧ eval L d2 (senv d2 env) s2 = some (encV d2 v) := by
  obtain ⟨v1, p1, e1⟩ := C01_proj sch d1 L env e s1 hwt hL1 hf1 hs h1
  obtain ⟨v2, p2, e2⟩ := C01_proj sch d2 L env e s2 hwt hL2 hf2 hs h2
  have : v1 = v2 := by rw [p1] at p2; injection p2
  subst this
  exact ⟨v1, e1, e2⟩

/-- **C02_checker_sound** — what the engine establishes on every run: when the verified checker accepts the conditions the REAL
    translators of two dialects emitted for the same expression, the two statements select the same rows of every database (and
    neither hits a type error of its backend). -/
theorem C02_checker_sound (d1 d2 : Dialect) (sch : Schema) (L : LikeFn) (e : Expr) (real1 real2 : SqlList)
    (h1 : checkConditions sch d1 e real1 = true) (h2 : checkConditions sch d2 e real2 = true)
    (hL1 : LikeOK L d1) (hL2 : LikeOK L d2) (env : PEnv) (hwt : WT sch env) :
    ∃ k1 k2, evalCond L d1 (senv d1 env) (.and real1) = some k1 ∧ evalCond L d2 (senv d2 env) (.and real2) = some k2 ∧
      (k1 = .tt ↔ k2 = .tt) := by
  obtain ⟨k1, e1, i1⟩ := C01_checker_sound sch d1 L e real1 h1 hL1 env hwt
  obtain ⟨k2, e2, i2⟩ := C01_checker_sound sch d2 L e real2 h2 hL2 env hwt
  exact ⟨k1, k2, e1, e2, i1.trans i2.symm⟩

/-- **C02_exists_dialects** — correlated `exists(e for e in p.es if cond)`: when the checker accepts the inner conditions the real
    translators of two dialects emitted, the two `EXISTS (…)` sub-selects agree for every parent and every child table. -/
theorem C02_exists_dialects (d1 d2 : Dialect) (sch : Schema) (L : LikeFn) (e : Expr) (c1 c2 : SqlList)
    (h1 : checkConditions sch d1 e c1 = true) (h2 : checkConditions sch d2 e c2 = true) (hL1 : LikeOK L d1) (hL2 : LikeOK L d2)
    (pk : Int) (children : List Child) (hwt : ChildrenWT sch children) :
    sqlExists L d1 pk c1 children = sqlExists L d2 pk c2 children ∧ sqlCountWhere L d1 pk c1 children = sqlCountWhere L d2 pk c2 children := by
  rw [C01_exists_collection sch d1 L e c1 h1 hL1 pk children hwt, C01_exists_collection sch d2 L e c2 h2 hL2 pk children hwt,
    C01_count_collection sch d1 L e c1 h1 hL1 pk children hwt, C01_count_collection sch d2 L e c2 h2 hL2 pk children hwt]
  exact ⟨rfl, rfl⟩

/-- **C02_join_dialects** — conditions navigating through a to-one reference: accepted on two dialects, both inner joins return the
    same rows. -/
theorem C02_join_dialects (d1 d2 : Dialect) (sch : Schema) (L : LikeFn) (e : Expr) (c1 c2 : SqlList)
    (h1 : checkConditions sch d1 e c1 = true) (h2 : checkConditions sch d2 e c2 = true) (hL1 : LikeOK L d1) (hL2 : LikeOK L d2)
    (rows : List JRow) (hwt : ∀ r ∈ rows, ∀ p, r.parent = some p → WT sch (mergeEnv r.child p)) :
    sqlJoin L d1 c1 rows = sqlJoin L d2 c2 rows := by
  rw [C01_join sch d1 L e c1 h1 hL1 rows hwt, C01_join sch d2 L e c2 h2 hL2 rows hwt]

/-! ### ordering comparison of tuples: the expansion for dialects without row values -/

/-- the row-value comparison `(a1, …, an) OP (b1, …, bn)` of PostgreSQL / MySQL (documented semantics: lexicographic) -/
def rowValueCmp (op : CmpOp) (vs : List (Int × Int)) : Bool := pyTupleCmp op vs

/-- **C02_tuple_expansion** — for EVERY number of components n >= 1, every ordering operator and all operands that evaluate to
    integers: the OR/AND expansion `CmpMonad.getsql` emits for SQLite / Oracle evaluates to the lexicographic comparison, i.e. to
    Python's tuple comparison and to the row-value comparison PostgreSQL / MySQL receive. -/
theorem C02_tuple_expansion (L : LikeFn) (d : Dialect) (env : SEnv) (op : CmpOp) (hop : op.isOrdering = true)
    (ps : List (Sql × Sql)) (vs : List (Int × Int)) (hne : ps ≠ []) (hev : OperandsEval L d env ps vs) :
    evalCond L d env (expandTuple op ps) = some (K.ofBool (pyTupleCmp op vs)) ∧ pyTupleCmp op vs = rowValueCmp op vs := by
  have hvs : vs ≠ [] := by
    intro h; subst h
    cases ps with
    | nil => exact hne rfl
    | cons p ps => cases p; simp [OperandsEval] at hev
  have := expandFrom_eval L d env op ps vs .nil true (evalAnd_nil L d env) (fun _ => rfl) hev hne
  simp only [expandTuple, evalCond_or, this, Bool.true_and, lexCmp_eq_py op hop vs hvs, rowValueCmp, and_self]

/-- **C02_tuple_checker_sound** — what the engine runs on the real SQLite AST: if it is structurally the expansion of the comparison,
    it computes the lexicographic order on every row. -/
theorem C02_tuple_checker_sound (L : LikeFn) (d : Dialect) (env : SEnv) (op : CmpOp) (hop : op.isOrdering = true)
    (ps : List (Sql × Sql)) (vs : List (Int × Int)) (hne : ps ≠ []) (hev : OperandsEval L d env ps vs)
    (real : Sql) (hc : Sql.beq (expandTuple op ps) real = true) :
    evalCond L d env real = some (K.ofBool (rowValueCmp op vs)) := by
  rw [← Sql.beq_eq _ _ hc]
  exact (C02_tuple_expansion L d env op hop ps vs hne hev).1

/-- three components, the first decides: `(1, 5, 0) <= (2, 0, 0)` -/
example : pyTupleCmp .le [(1, 2), (5, 0), (0, 0)] = true := by decide
/-- the clause that a lost `a1 = b1` guard would wrongly satisfy: `(3, 1, 0) <= (2, 1, 5)` is false -/
example : pyTupleCmp .le [(3, 2), (1, 1), (0, 5)] = false := by decide

/-! ### `count()` over a collection path ending in an optional (composite) reference: the SQLite derived table -/

/-- **C02_count_distinct_guarded** — SQLite has no multi-column COUNT(DISTINCT a, b): with the translator's inner conditions
    (`a IS NOT NULL AND b IS NOT NULL`) kept in the derived table, `SELECT COUNT(*) FROM (SELECT DISTINCT a, b …)` is, for every list of
    (possibly missing) reference values, the number of distinct PRESENT values — what COUNT(DISTINCT (a, b)) of PostgreSQL,
    COUNT(DISTINCT a, b) of MySQL and Python's `len({x for x in … if x is not None})` give. -/
theorem C02_count_distinct_guarded {α} [DecidableEq α] (vals : List (Option α)) :
    sqlCountDistinctRows true vals = pyCountDistinct vals := by
  simp only [sqlCountDistinctRows, if_true, pyCountDistinct, filter_isSome_eq_map, dedupL_map_some, List.length_map]

/-- without the guard the all-NULL row value of the members whose reference is missing counts as one more distinct value -/
theorem C02_count_distinct_unguarded_witness :
    sqlCountDistinctRows false [some (1, 2), none, some (1, 2)] = 2 ∧ pyCountDistinct [some (1, 2), none, some (1, 2)] = 1 := by decide

/-! ### date / time constants on SQLite: inline literal vs bound parameter -/

/-- **C02_sqlite_inline_eq_param** — for every date, datetime and time value (any microseconds, midnight included) and every
    paramstyle: the literal `SQLiteValue.__str__` writes into the statement is the quoted text of exactly the string a bound
    parameter / a stored value of the same Python value has; SQLite compares these columns as text, so `e.at OP <inline constant>`
    and `e.at OP <parameter>` see the same operand. -/
theorem C02_sqlite_inline_eq_param (style : PonyVerif.Model.SqlText.Style) (v : PonyVerif.Model.SqlText.TVal) (p : PonyVerif.Model.SqlText.Str)
    (hp : sqliteParamText v = some p) :
    PonyVerif.Model.SqlText.temporalStr .sqlite style v = some (PonyVerif.Model.SqlText.quoteStrL style p) := by
  cases v <;> simp_all [sqliteParamText, PonyVerif.Model.SqlText.temporalStr, PonyVerif.Model.SqlText.temporalKw, PonyVerif.Model.SqlText.temporalText]

/-- the hypothesis is satisfiable: a datetime with zero microseconds has a parameter text (`timestampStr`, always six fractional digits) -/
example : ∃ p, sqliteParamText (.datetime ⟨2020, 1, 1⟩ ⟨10, 0, 0, 0⟩) = some p := ⟨_, rfl⟩

/-! ### the typing guards of the fragment are not removable on PostgreSQL -/

def sch1 : Schema where
  attr n := if n = "b" then some (.bool, false) else none
  par _ := none

/-- `b = True` -/
def env1 : PEnv where
  col n := if n = "b" then some (.bool true) else none
  par _ := .int 0

/-- `-e.b > -2`  (Python: `-True > -2` is true) -/
def e1 : Expr := .cmp .gt (.neg (.attr "b")) (.cInt (-2))

/-- SQLite: `-("e"."b") > -2` -/
def sqliteCond : Sql := .cmp .gt (.neg (.column "b")) (.value (.int (-2)))
/-- PostgreSQL: `(-("e"."b"))::int > -2` — `NumericMixin.__neg__` keeps the type bool and casts only afterwards -/
def pgCond : Sql := .cmp .gt (.toInt (.neg (.column "b"))) (.value (.int (-2)))

/-- **Witness**: unary minus of a bool attribute.  SQLite (booleans are integers) selects the row, as Python does; the statement
    PostgreSQL receives applies `-` to a boolean, which the modelled PostgreSQL rejects (documented: no such operator) — outside
    the fragment (`frag` requires an int operand for unary minus).  Unconfirmable offline. -/
theorem C02_pg_neg_bool_witness :
    conditions sch1 .sqlite e1 = .ok (.cons sqliteCond .nil) ∧ conditions sch1 .pg e1 = .ok (.cons pgCond .nil) ∧
    evalCond likeExec .sqlite (senv .sqlite env1) (.and (.cons sqliteCond .nil)) = some .tt ∧
    evalCond likeExec .pg (senv .pg env1) (.and (.cons pgCond .nil)) = none ∧
    pySelected env1 e1 = true := by
  refine ⟨by rfl, by rfl, by decide, by decide, by decide⟩

/-- the statement of `C02_dialects` without the restriction to the fragment (LIKE-free expressions) -/
def C02_full : Prop :=
  ∀ (d1 d2 : Dialect) (sch : Schema) (L : LikeFn) (env : PEnv) (e : Expr) (cs1 cs2 : SqlList),
    WT sch env → hasLike e = false → conditions sch d1 e = .ok cs1 → conditions sch d2 e = .ok cs2 →
    ∃ k1 k2, evalCond L d1 (senv d1 env) (.and cs1) = some k1 ∧ evalCond L d2 (senv d2 env) (.and cs2) = some k2 ∧
      (k1 = .tt ↔ k2 = .tt)

theorem wt1 : WT sch1 env1 := by
  constructor
  · intro n t nl h
    simp only [sch1] at h
    by_cases h1 : n = "b"
    · subst h1; simp at h; obtain ⟨rfl, rfl⟩ := h; simp [env1, hasTy]
    · simp [h1] at h
  · intro n t h; simp [sch1] at h

theorem C02_full_false : ¬ C02_full := by
  intro h
  obtain ⟨c1, c2, _, v2, _⟩ := C02_pg_neg_bool_witness
  obtain ⟨k1, k2, _, a2, _⟩ := h .sqlite .pg sch1 likeExec env1 e1 _ _ wt1 (by decide) c1 c2
  rw [v2] at a2; cases a2

/-- the PostgreSQL special case repaired in a3f48ae (`NOT COALESCE(x, false)` for a possibly missing bool expression) is now inside
    the fragment: `not (e.nb if e.b else e.nb)` -/
example : frag { attr := fun n => if n = "b" then some (.bool, false) else if n = "nb" then some (.bool, true) else none, par := fun _ => none } .pg
    (.not (.ite (.attr "b") (.attr "nb") (.attr "nb"))) = true := by decide

/-! ### ROUND 8: the LIMIT / OFFSET clause of composed windows (Model/QWindow.lean) -/

section Window
open PonyVerif.Model.Limit PonyVerif.Py PonyVerif.Gen

/-- **C02_window_dialects** — for every chain of windows (limit-then-slice, slice-then-limit, page of a limited query, any number
    of levels; all bounds natural numbers or omitted), every ordered result `R` (shorter than MySQL's 2^64-1) and EVERY dialect:
    the clause written for the combined (limit, offset) is accepted by that dialect's backend and returns exactly the Python
    reading — the windows applied one after another to the list.  Hence all dialects return the same rows. -/
theorem C02_window_dialects (d : WDialect) (ws : List (Option Nat × Option Nat)) (R : List α) (hR : R.length ≤ mysqlMax) :
    clauseWindow d (limitClause d (combineAll ws)) R = some (windowAll ws R) := by
  rw [show combineAll ws = ((combineAll ws).1, (combineAll ws).2) from rfl, clauseWindow_limitClause d _ _ R hR]
  simp only [combineAll, windowAll]
  rw [window_foldl]; rfl

theorem C02_window_agree (d1 d2 : WDialect) (ws : List (Option Nat × Option Nat)) (R : List α) (hR : R.length ≤ mysqlMax) :
    clauseWindow d1 (limitClause d1 (combineAll ws)) R = clauseWindow d2 (limitClause d2 (combineAll ws)) R := by
  rw [C02_window_dialects d1 ws R hR, C02_window_dialects d2 ws R hR]

/-- a NEGATIVE limit (what `limit - offset2` without the clamp at 0 writes: `q.limit(3)` iterated by a query sliced `[5:7]` gives
    `LIMIT -2 OFFSET 5`) does not mean the same thing everywhere: SQLite returns every row from the offset, PostgreSQL and MySQL
    reject the statement; the Python window is empty.  So the numbers must be non-negative or the dialect's own "unbounded". -/
theorem C02_negative_limit_witness :
    let R := [1, 2, 3, 4, 5, 6, 7, 8, 9, 10]
    windowAll [(some 3, none), (some 2, some 5)] R = [] ∧
    clauseWindow .sqlite (.limit (some (-2)) (some 5)) R = some [6, 7, 8, 9, 10] ∧
    clauseWindow .pg (.limit (some (-2)) (some 5)) R = none ∧
    clauseWindow .mysql (.limit (some (-2)) (some 5)) R = none ∧
    limitClause .sqlite (combineAll [(some 3, none), (some 2, some 5)]) = .limit (some 0) none := by
  refine ⟨by decide, by decide, by decide, by decide, by decide⟩

/-- Oracle's statement must restrict a zero limit too: without any ROWNUM wrapper (what OraBuilder.SELECT wrote for `LIMIT 0`
    before the proposed repair) every row comes back -/
theorem C02_oracle_zero_limit_witness :
    clauseWindow .oracle (limitClause .oracle (some 0, none)) [1, 2, 3] = some [] ∧
    clauseWindow .oracle .absent [1, 2, 3] = some [1, 2, 3] := by
  refine ⟨by decide, by decide⟩

/-- encoding of an optional natural number as a Python value -/
def encN : Option Nat → PyVal
  | none => .none
  | some n => .int n

/-- **C02_bridge_combine** (source tie; `Gen.combineLimitAndOffset` is regenerated from /repo on every run) — on natural-number or
    omitted bounds the REAL combine_limit_and_offset returns the pair `combineT` computes: natural numbers or None, never a
    negative limit. -/
theorem C02_bridge_combine (l o l2 o2 : Option Nat) :
    combineLimitAndOffset (encN l) (encN o) (encN l2) (encN o2)
      = .ok (.list [encN (combineT l o l2 o2).1, encN (combineT l o l2 o2).2]) := by
  cases l <;> cases o <;> cases l2 <;> cases o2 <;>
    simp [combineLimitAndOffset, combineT, encN, bind, Except.bind, pure, Except.pure] <;>
    (repeat' split) <;> (try simp_all) <;> (try omega)

end Window

end PonyVerif.Props.C02
