import PonyVerif.Model.PyPrint
namespace PonyVerif.Props.C04
open PonyVerif.Model.PyPrint

theorem C04_strip_append (a b : List Piece) : strip (a ++ b) = strip a ++ strip b := by
  induction a with
  | nil => rfl
  | cons p t ih => cases p <;> simp [strip, ih]

end PonyVerif.Props.C04
