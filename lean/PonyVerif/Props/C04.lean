/-
  C04 — outer-scope expressions inside a query are evaluated exactly as Python would; regenerating source text from an
  expression tree and compiling it again never changes its meaning.

  Property theorems only.  Model: `Model/PyPrint.lean` (PythonTranslator as written: `prE`/`toks`, `codePrio`; the
  reference parser `pE`/`parseFuel` of the Python expression grammar).  Proof: `Lemmas/PyPrint*.lean`.
-/
import PonyVerif.Lemmas.PyPrint7
import PonyVerif.Lemmas.PreTrans
import PonyVerif.Lemmas.PreTransCov
import PonyVerif.Gen.C04Src
import PonyVerif.Lemmas.Scope
namespace PonyVerif.Props.C04
open PonyVerif.Model.PyPrint

/-! ### the text means the tree -/

/-- For EVERY expression of the modelled grammar (boolean operators, `not`, comparison chains incl. `in`/`is`, all binary
    operators, unary sign, power, conditional expression, lambda with defaults / *args / **kwargs, attribute, call with
    positional / starred / keyword / double-starred arguments, subscripts with slices and tuples, list / tuple / dict
    displays, folded negative constants, f-strings as atoms) that satisfies `Ok` (a starred element of a list or tuple
    display is a `bitwise_or`; displays hold no keyword items; a tuple subscript is not empty), and for every fuel from
    `cost e + 20` on: tokenising the text `PythonTranslator` writes and parsing it with the Python grammar gives back
    the expression (`norm`: a folded negative constant reads back as unary minus, an f-string as one atom). -/
theorem C04_roundtrip (e : Expr) (h : Ok e) (fuel : Nat) (hf : cost e + 20 ≤ fuel) :
    parseFuel fuel (toks e) = some (norm e) :=
  roundtrip e h fuel hf

/-- the same for the very function the driver runs on every case of the tie (`parse`, fuel `400 * tokens + 400`): no fuel
    parameter is left in the statement -/
theorem C04_roundtrip_parse (e : Expr) (h : Ok e) : parse (toks e) = some (norm e) :=
  roundtrip_parse e h

/-- same, in a context: at every grammar level that admits the priority the code assigns, followed by any token that
    does not continue an expression of that level, the parser consumes exactly the printed expression -/
theorem C04_roundtrip_in_context (e : Expr) (h : Ok e) (lvl : Nat) (rest : List Tok) (fuel : Nat)
    (hl : codePrio e ≤ lvl) (h2 : 2 ≤ lvl) (h16 : lvl ≤ 16) (hs : Stops lvl rest) (hf : cost e + 20 ≤ fuel) :
    pE fuel lvl (toks e ++ rest) = some (norm e, rest) :=
  (goals_expr e h).2 lvl rest fuel hl h2 h16 hs hf

/-- hypotheses are satisfiable on the expressions the property names: `x == (a if c else b) + 1` -/
example : Ok (.compare (.name "x") .eq (.bin .add (.ifExp (.name "a") (.name "c") (.name "b")) (.const "1")) .nil) := by
  simp [Ok, OkCmp]
/-- `(-1) ** y` with the folded constant, `d[k,]`, `f(*a, k=b)`, `[*a, b]` -/
example : Ok (.bin .pow (.negConst "1") (.name "y")) := by simp [Ok]
example : Ok (.subscriptT (.name "d") (.cons (.ie (.name "k")) .nil)) := by simp [Ok, OkIdxs, OkIdx, Idxs.isNil]
example : Ok (.call (.name "f") (.star (.name "a") (.kw "k" (.name "b") .nil))) := by simp [Ok, OkArgs]
example : Ok (.list (.star (.name "a") (.pos (.name "b") .nil))) := by simp [Ok, OkItems, codePrio]

/-- the unguarded statement -/
def C04_roundtrip_full : Prop :=
  ∀ (e : Expr) (fuel : Nat), cost e + 20 ≤ fuel → parseFuel fuel (toks e) = some (norm e)

/-- the text written for `[*(a or b)]` is `[*a or b]`, which the grammar rejects (`'*' bitwise_or` in a display):
    a loud SyntaxError at re-compilation, not a changed meaning; replayed on the real code on every run -/
def starWitness : Expr := .list (.star (.boolOp true (.name "a") (.name "b") .nil) .nil)

theorem C04_roundtrip_full_false : ¬ C04_roundtrip_full := by
  intro h
  have h1 := h starWitness 402 (by simp [starWitness, cost, costArgs, costEs])
  have h2 : toks starWitness = [.lbrk, .bin .mult, .name "a", .kOr, .name "b", .rbrk] := by
    simp [starWitness, toks, prE, prArgs, prEs, codePrio, strip]
  rw [h2] at h1
  revert h1
  simp [parseFuel, pE.eq_def, pItems.eq_def, pPost.eq_def, pBin.eq_def]

/-- what the property needs without any guard — printed text that compiles at all compiles to the same tree.
    Not proved (it needs the converse direction of the parser: rejection of every text outside `Ok`); on the real code
    it is what oracle (2) checks with CPython's own parser on every run. -/
def C04_no_changed_meaning_full : Prop :=
  ∀ (e : Expr) (fuel : Nat) (x : Expr), parseFuel fuel (toks e) = some x → x = norm e

/-! ### every child is parenthesised whenever Python's grammar requires it -/

/-- positions of a child whose text the code may wrap in parentheses -/
inductive Pos
  | boolOperand (isOr : Bool) | notOperand | cmpOperand | binLeft (op : BinOp) | binRight (op : BinOp) | unaryOperand
  | ifBody | ifTest | ifElse | lambdaBody | primaryOperand

/-- the highest level the Python grammar admits there (reference grammar: disjunction 14, conjunction 13, inversion 12,
    comparison 11, bitwise_or 10 … term 5, factor 4, power 3, primary 2; `expression` 16) -/
def Pos.grammarMax : Pos → Nat
  | .boolOperand true => 13 | .boolOperand false => 12
  | .notOperand => 12 | .cmpOperand => 10
  | .binLeft .pow => 2 | .binRight .pow => 4
  | .binLeft op => op.prio | .binRight op => op.prio - 1
  | .unaryOperand => 4
  | .ifBody => 14 | .ifTest => 14 | .ifElse => 16 | .lambdaBody => 16
  | .primaryOperand => 2

/-- what the code does there: the decorator's `child.priority >= p`, or `primary_src`'s `priority > 2` -/
def Pos.printed (pos : Pos) (c : Expr) : List Tok :=
  match pos with
  | .boolOperand isOr => wrapT (if isOr then 14 else 13) c
  | .notOperand => wrapT 12 c
  | .cmpOperand => wrapT 11 c
  | .binLeft op => wrapT op.prio c
  | .binRight op => wrapT op.prio c
  | .unaryOperand => wrapT 4 c
  | .ifBody => wrapT 15 c | .ifTest => wrapT 15 c | .ifElse => wrapT 15 c
  | .lambdaBody => wrapT 16 c
  | .primaryOperand => primT c

/-- at every position, for every child: if its priority is above what the grammar admits there, the code writes it in
    parentheses -/
theorem C04_parens (pos : Pos) (c : Expr) (h : pos.grammarMax < codePrio c) :
    pos.printed c = .lpar :: (toks c ++ [.rpar]) := by
  have h16 := codePrio_le c
  cases pos with
  | boolOperand o => cases o <;> simp_all [Pos.printed, Pos.grammarMax, wrapT] <;> omega
  | binLeft op => cases op <;> simp_all [Pos.printed, Pos.grammarMax, wrapT, BinOp.prio] <;> omega
  | binRight op => cases op <;> simp_all [Pos.printed, Pos.grammarMax, wrapT, BinOp.prio] <;> omega
  | primaryOperand => simp_all [Pos.printed, Pos.grammarMax, primT]
  | _ => simp_all [Pos.printed, Pos.grammarMax, wrapT] <;> omega

/-- the printed form of every node that has such positions is built from `Pos.printed` of its children -/
theorem C04_shape_boolOp (o : Bool) (a b : Expr) :
    toks (.boolOp o a b .nil) = (Pos.boolOperand o).printed a ++ (if o then Tok.kOr else Tok.kAnd) :: (Pos.boolOperand o).printed b := by
  simp [toks_boolOp, Pos.printed, tEs_nil]
theorem C04_shape_not (e : Expr) : toks (.not e) = .kNot :: Pos.notOperand.printed e := by
  simp [toks_not, Pos.printed]
theorem C04_shape_compare (l : Expr) (op : CmpOp) (r : Expr) :
    toks (.compare l op r .nil) = Pos.cmpOperand.printed l ++ .cmp op :: Pos.cmpOperand.printed r := by
  simp [toks_compare, Pos.printed, tCmp_nil]
theorem C04_shape_bin (op : BinOp) (l r : Expr) :
    toks (.bin op l r) = (Pos.binLeft op).printed l ++ .bin op :: (Pos.binRight op).printed r := by
  simp [toks_bin, Pos.printed]
theorem C04_shape_unary (op : UnOp) (e : Expr) : toks (.unary op e) = op.tok :: Pos.unaryOperand.printed e := by
  simp [toks_unary, Pos.printed]
theorem C04_shape_ifExp (b t o : Expr) :
    toks (.ifExp b t o) = Pos.ifBody.printed b ++ .kIf :: (Pos.ifTest.printed t ++ .kElse :: Pos.ifElse.printed o) := by
  simp [toks_ifExp, Pos.printed]
theorem C04_shape_lambda (ps : Params) (b : Expr) :
    toks (.lambda ps b) = .kLambda :: (tParams ps ++ .colon :: Pos.lambdaBody.printed b) := by
  simp [toks_lambda, Pos.printed]
theorem C04_shape_attr (e : Expr) (a : String) : toks (.attr e a) = Pos.primaryOperand.printed e ++ [.dot, .name a] := by
  simp [toks_attr, Pos.printed]
theorem C04_shape_call (f : Expr) (a : Args) :
    toks (.call f a) = Pos.primaryOperand.printed f ++ .lpar :: (tArgs a ++ [.rpar]) := by
  simp [toks_call, Pos.printed]
theorem C04_shape_subscript (e : Expr) (i : Idx) :
    toks (.subscript e i) = Pos.primaryOperand.printed e ++ .lbrk :: (tIdx i ++ [.rbrk]) := by
  simp [toks_subscript, Pos.printed]

/-- the two defects this check found in the printer and that are fixed in /repo, as theorems about the code as it is now:
    a folded negative constant under `**` and under a trailer is parenthesised; `d[k,]` keeps its comma -/
theorem C04_negative_constant_pow (s : String) (y : Expr) (hy : codePrio y < 3) :
    toks (.bin .pow (.negConst s) y) = [.lpar, .bin .sub, .const s, .rpar, .bin .pow] ++ toks y := by
  have h1 : codePrio (.negConst s) ≥ 3 := by simp [codePrio]
  have h2 : ¬ codePrio y ≥ 3 := by omega
  rw [toks_bin]
  simp only [wrapT, BinOp.prio, h1, h2, if_true, if_false, toks_negConst]
  simp
theorem C04_negative_constant_attr (s a : String) :
    toks (.attr (.negConst s) a) = [.lpar, .bin .sub, .const s, .rpar, .dot, .name a] := by
  simp [toks_attr, primT, codePrio, toks_negConst]
theorem C04_one_tuple_subscript (d k : String) :
    toks (.subscriptT (.name d) (.cons (.ie (.name k)) .nil)) = [.name d, .lbrk, .name k, .comma, .rbrk] := by
  simp [toks_subscriptT_cons, primT, codePrio, toks_name, tIdx_ie, tIdxs_nil]

/-! ### which parts of a query are evaluated in the caller's scope (PreTranslator, `Model/PreTrans.lean`) -/

open PonyVerif.Model.PreTrans in
/-- `sf` says whether `PreTranslator.postStarred` marks `*expr` external whatever `expr` is (`Gen.C04Src.starredForced`, read from
    the source on every run; the driver runs the model with that value).  For every tree (names and constants being leaves; no
    `Starred` node when `sf` is true — `WF sf`) and every set of names bound by the query:
    a node that PreTranslator marks external — and only such nodes are compiled and evaluated in the caller's scope — reads no
    name bound by the query and holds no lambda. -/
theorem C04_external_sound (sf : Bool) (ctx : List String) (n : Node) (hw : WF sf n = true) (he : (classify sf ctx n).ext = true) :
    usesBound ctx n = false :=
  ext_sound sf ctx n hw he

open PonyVerif.Model.PreTrans in
/-- The first sentence of the property, over the model of PreTranslator: for EVERY tree whose node labels are distinct and EVERY
    set of names bound by the query, every occurrence of a name the query does not bind (`freeLeaves`: lambda parameters and
    query variables excluded) lies inside a member of `PreTranslator(...).externals` — the set that is compiled, evaluated in the
    caller's scope and passed as parameters — after the replacement of direct children and after the demotion pass. -/
theorem C04_external_coverage (sf : Bool) (ctx : List String) (n : Node) (hnd : (labsOf n).Nodup) (l : Nat)
    (hl : l ∈ freeLeaves ctx n) : l ∈ coverSet (externals sf ctx n) n :=
  coverage sf ctx n hnd l hl

open PonyVerif.Model.PreTrans in
/-- non-vacuous: `(a, p.x + b)` with `p` bound — the tuple is not external, `a` and `b` are free and both are members -/
example :
    let t : Node := .mk .tuple 0 [] (.cons (.mk .nameLoad 1 ["a"] .nil) (.cons (.mk .other 2 []
      (.cons (.mk .other 3 [] (.cons (.mk .nameLoad 4 ["p"] .nil) .nil)) (.cons (.mk .nameLoad 5 ["b"] .nil) .nil))) .nil))
    (labsOf t).Nodup ∧ freeLeaves ["p"] t = [1, 5] ∧ externals false ["p"] t = [1, 5] ∧ externals true ["p"] t = [1, 5] := by decide

/-- the source as it is now: `postStarred` follows its operand (fix 'C04-starred-external-only-if-value-is'); breaks if it reverts -/
theorem C04_bridge_starred : PonyVerif.Gen.C04Src.starredForced = false := by decide

open PonyVerif.Model.PreTrans in
/-- with the current source no guard on `Starred` is left: for every tree (names and constants being leaves) and every binding
    set, a node the model - run with the flag read from the source, as the driver runs it - marks external reads no bound name
    and holds no lambda -/
theorem C04_external_sound_now (ctx : List String) (n : Node) (hw : WF false n = true)
    (he : (classify PonyVerif.Gen.C04Src.starredForced ctx n).ext = true) : usesBound ctx n = false := by
  rw [C04_bridge_starred] at he
  exact ext_sound false ctx n hw he

open PonyVerif.Model.PreTrans in
/-- a tree with a `Starred` node meets the hypothesis now -/
example : WF false (.mk .other 0 [] (.cons (.mk .nameLoad 1 ["f"] .nil) (.cons (.mk .starred 2 [] (.cons (.mk .nameLoad 3 ["a"] .nil) .nil)) .nil))) = true := by
  decide

open PonyVerif.Model.PreTrans in
/-- `a + f(b)` with `p` bound: the whole expression is external, and it is the one member of the externals -/
example : externals false ["p"] (.mk .other 0 [] (.cons (.mk .nameLoad 1 ["a"] .nil) (.cons (.mk .other 2 []
    (.cons (.mk .nameLoad 3 ["f"] .nil) (.cons (.mk .nameLoad 4 ["b"] .nil) .nil))) .nil))) = [0] := by decide

open PonyVerif.Model.PreTrans in
/-- without the guard the statement is false: `postStarred` sets `external = True` whatever the operand is, so `*p` with the
    query variable `p` is external (on the real code the evaluation then raises NameError — loud; replayed every run) -/
theorem C04_external_sound_full_false :
    ¬ (∀ (ctx : List String) (n : Node), (classify true ctx n).ext = true → usesBound ctx n = false) := by
  intro h
  have := h ["p"] (.mk .starred 0 [] (.cons (.mk .nameLoad 1 ["p"] .nil) .nil)) (by decide)
  revert this; decide

/-! ### in which scope a name of the query is looked up (`get_globals_and_locals`, `extract_vars`, `eval`; `Model/Scope.lean`) -/

open PonyVerif.Model.Scope in
/-- a generator query, whoever calls select()/get()/exists()/left_join()/delete()/count()… with it and whatever that frame's locals and
    globals bind: a free variable of the generator has the value of the generator's own frame -/
theorem C04_scope_generator_own (s : Scopes) (n : String) (v : Int) (he : s.explicitGlobals = none) (hc : s.cells = [])
    (h : s.ownLocals.lookup n = some v) : resolve .generator s n = some v :=
  generator_own s n v he hc h

open PonyVerif.Model.Scope in
/-- … and a name the generator loads as a global has the value it has in the module the generator was written in -/
theorem C04_scope_generator_global (s : Scopes) (n : String) (he : s.explicitGlobals = none) (hc : s.cells = [])
    (hg : n ∈ s.globalNames) (hl : s.ownLocals.lookup n = none) : resolve .generator s n = s.ownGlobals.lookup n :=
  generator_global s n he hc hg hl

open PonyVerif.Model.Scope in
/-- a lambda query / filter: a closure cell wins over everything … -/
theorem C04_scope_function_cell (s : Scopes) (n : String) (v : Int) (h : s.cells.lookup n = some v) :
    resolve .function s n = some v :=
  function_cell s n v h

open PonyVerif.Model.Scope in
/-- … and a name it loads as a global has the value of the lambda's own module -/
theorem C04_scope_function_global (s : Scopes) (n : String) (he : s.explicitGlobals = none) (hg : n ∈ s.globalNames)
    (hl : s.cells.lookup n = none) : resolve .function s n = s.ownGlobals.lookup n :=
  function_global s n he hg hl

open PonyVerif.Model.Scope in
/-- the text of a query is evaluated in the frame that hands it over: its locals, then its globals -/
theorem C04_scope_text (s : Scopes) (n : String) (he : s.explicitGlobals = none) (hc : s.cells = []) :
    resolve .text s n = (s.callerLocals.lookup n).orElse (fun _ => s.callerGlobals.lookup n) :=
  text_caller s n he hc

open PonyVerif.Model.Scope in
/-- a name the query's code does not mention (what `raw_sql('$x')` looks up) comes from the calling frame's locals -/
theorem C04_scope_unmentioned (s : Scopes) (n : String) (he : s.explicitGlobals = none) (hg : n ∉ s.globalNames)
    (hl : s.ownLocals.lookup n = none) (hc : s.cells.lookup n = none) :
    resolve .generator s n = (s.callerLocals.lookup n).orElse (fun _ => s.ownGlobals.lookup n) :=
  unmentioned_name s n he hg hl hc

open PonyVerif.Model.Scope in
/-- with explicit dictionaries the generator's own frame still wins over the given locals -/
theorem C04_scope_explicit_generator_own (s : Scopes) (g : Env) (n : String) (v : Int) (he : s.explicitGlobals = some g)
    (hc : s.cells = []) (h : s.ownLocals.lookup n = some v) : resolve .generator s n = some v :=
  explicit_generator_own s g n v he hc h

open PonyVerif.Model.Scope in
/-- the helper/caller example of the seeded change c04-2: creator binds limit = 4, the caller limit = 9 -/
example : resolve .generator ⟨[("limit", 9)], [], [("limit", 4)], [], [], [], none, none⟩ "limit" = some 4 := by decide

/-! ### bridges to the current source (`Gen/C04Src.lean` is regenerated from pony/orm/asttranslation.py on every run) -/

open PonyVerif.Gen

/-- name of the `post…` method `ASTTranslator.dispatch` selects for a binary operator -/
def binMethod : BinOp → String
  | .bitOr => "postBitOr" | .bitXor => "postBitXor" | .bitAnd => "postBitAnd" | .lshift => "postLShift" | .rshift => "postRShift"
  | .add => "postAdd" | .sub => "postSub" | .mult => "postMult" | .div => "postDiv" | .floorDiv => "postFloorDiv"
  | .mod => "postMod" | .pow => "postPow"

/-- the `@priority(p)` numbers of the source are the model's -/
theorem C04_bridge_binop (op : BinOp) : C04Src.decorated.lookup (binMethod op) = some op.prio := by
  cases op <;> decide

theorem C04_bridge_decorated (a b c : Expr) (m : Exprs) (t : CmpTail) (o : CmpOp) (u : UnOp) (ps : Params) :
    C04Src.decorated.lookup "postOr" = some (codePrio (.boolOp true a b m)) ∧
    C04Src.decorated.lookup "postAnd" = some (codePrio (.boolOp false a b m)) ∧
    C04Src.decorated.lookup "postNot" = some (codePrio (.not a)) ∧
    C04Src.decorated.lookup "postCompare" = some (codePrio (.compare a o b t)) ∧
    C04Src.decorated.lookup "postUSub" = some (codePrio (.unary u a)) ∧
    C04Src.decorated.lookup "postUAdd" = some (codePrio (.unary u a)) ∧
    C04Src.decorated.lookup "postIfExp" = some (codePrio (.ifExp a b c)) ∧
    C04Src.decorated.lookup "postLambda" = some (codePrio (.lambda ps a)) := by
  simp only [codePrio]; decide

/-- priorities set by hand, the one of a folded negative constant, and the nodes that set none (f-strings) -/
theorem C04_bridge_manual (e : Expr) (s : String) (as : Args) (i : Idx) (is : Idxs) (k : KVs) (ps : FParts) :
    C04Src.manual.lookup "postAttribute" = some (codePrio (.attr e s)) ∧
    C04Src.manual.lookup "postCall" = some (codePrio (.call e as)) ∧
    C04Src.manual.lookup "postSubscript" = some (codePrio (.subscript e i)) ∧
    C04Src.manual.lookup "postSubscript" = some (codePrio (.subscriptT e is)) ∧
    C04Src.manual.lookup "postConstant" = some (codePrio (.const s)) ∧
    C04Src.negConstPrio = codePrio (.negConst s) ∧
    C04Src.manual.lookup "postName" = some (codePrio (.name s)) ∧
    C04Src.manual.lookup "postList" = some (codePrio (.list as)) ∧
    C04Src.manual.lookup "postTuple" = some (codePrio (.tuple as)) ∧
    C04Src.manual.lookup "postDict" = some (codePrio (.dict k)) ∧
    C04Src.manual.lookup "postJoinedStr" = none ∧ C04Src.decorated.lookup "postJoinedStr" = none ∧
    C04Src.manual.lookup "postFormattedValue" = none ∧ C04Src.decorated.lookup "postFormattedValue" = none ∧
    codePrio (.fstr ps) = 0 := by
  simp only [codePrio]; decide

/-- the two parenthesisation rules: the decorator compares with `>=`, `primary_src` with `> 2` -/
theorem C04_bridge_rules (p : Nat) (c : Expr) :
    C04Src.decoratorRule = "GtE" ∧
    wrapT p c = (if codePrio c ≥ p then .lpar :: (toks c ++ [.rpar]) else toks c) ∧
    primT c = (if codePrio c > C04Src.primaryThreshold then .lpar :: (toks c ++ [.rpar]) else toks c) := by
  refine ⟨by decide, rfl, rfl⟩

/-- `nonexternalizable_types` of the source is the model's demotion set -/
def kindClass : PonyVerif.Model.PreTrans.Kind → String
  | .keyword => "keyword" | .starred => "Starred" | .slice => "Slice" | .listD => "List" | .tuple => "Tuple"
  | .dictD => "Dict" | .nameLoad => "Name" | .const => "Constant" | .lambda => "Lambda" | .other => "expr"

theorem C04_bridge_nonexternalizable (k : PonyVerif.Model.PreTrans.Kind) :
    PonyVerif.Model.PreTrans.nonExternalizable k = C04Src.nonexternalizable.contains (kindClass k) := by
  cases k <;> decide

/-! ### parameters of queries built over queries: the key `(filter_num, src, code_key)` never collides between levels -/

/-- the filter numbers of a chain of levels: level 0 has number `n`, every further level (a query over the previous one, or a
    `.filter` / `.where` / `.order_by` refinement) takes the previous number + 1 — `prev_query._filter_num + 1`,
    `query._filter_num + 1` -/
def levelNums (n : Nat) : Nat → List Nat
  | 0 => [n]
  | k + 1 => n :: levelNums (n + 1) k

theorem levelNums_lb (n k : Nat) : ∀ x ∈ levelNums n k, n ≤ x := by
  induction k generalizing n with
  | zero => simp [levelNums]
  | succ k ih =>
    intro x hx
    simp only [levelNums, List.mem_cons] at hx
    rcases hx with rfl | hx
    · exact Nat.le_refl _
    · exact Nat.le_of_succ_le (ih (n + 1) x hx)

/-- for every start and every number of levels the numbers are pairwise different: two levels that share ONE code object (a helper
    applied repeatedly, a loop, recursion) and the same source text still own different parameter keys, so every level's
    outer-scope value reaches the database -/
theorem C04_filter_nums_distinct (n k : Nat) : (levelNums n k).Nodup := by
  induction k generalizing n with
  | zero => simp [levelNums]
  | succ k ih =>
    simp only [levelNums, List.nodup_cons]
    refine ⟨?_, ih (n + 1)⟩
    intro h
    have := levelNums_lb (n + 1) k n h
    omega

example : levelNums 0 3 = [0, 1, 2, 3] := by decide

/-- the source numbers levels exactly so; a change of either expression breaks this (fail closed) -/
theorem C04_bridge_filter_num :
    C04Src.nestedFilterNum = "prev_query._filter_num + 1" ∧ C04Src.refinedFilterNum = "query._filter_num + 1" := by decide

end PonyVerif.Props.C04
