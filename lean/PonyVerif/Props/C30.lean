/-
  C30 — raw SQL parameter substitution is faithful.  Property theorems only.
  Model: `PonyVerif/Model/RawSql.lean` (hand model of `adapt_sql` over a token list, its cache, `parse_raw_sql`,
  Python's `sql % args`); tie: `harness/engines/c30.py`.
-/
import PonyVerif.Lemmas.RawSql
import PonyVerif.Model.RawScan
import PonyVerif.Lemmas.RawScan
namespace PonyVerif.Props.C30
open PonyVerif.Model.RawSql

/-! ### the loop computes the declarative reading -/

/-- what `adapt_sql` should return, read off the token list:
    * without `$`-expressions: the text verbatim (no `%` doubling), `$$ ↦ $`, arguments `None`;
    * otherwise: the chunks in order — text through `text()` (`% ↦ %%` exactly for format/pyformat), `$$ ↦ $`, the k-th
      expression ↦ the k-th placeholder of the style — and the expression texts, unmodified, in order
      (`(e1, e2, …,)` or `{'p1': e1, 'p2': e2, …}`) -/
def spec (style : Style) (toks : List Tok) : Adapted :=
  if exprsOf toks = [] then { sql := undollar toks, source := .none }
  else { sql := (pieces style 0 toks).flatten,
         source := if style.keyed then .dict (enumK 0 (exprsOf toks)) else .tuple (exprsOf toks) }

/-- for ALL paramstyles and ALL token lists: placeholders appear in order, the k-th placeholder is bound to the k-th
    expression (text unmodified), `$$ ↦ $`, every other character is passed through (`% ↦ %%` for format/pyformat exactly
    when parameters exist) -/
theorem C30_adapt (style : Style) (toks : List Tok) : adaptCold style toks = spec style toks := by
  unfold adaptCold spec
  have hinit : StOk style { result := [], args := [], kwargs := [] } [] := by
    unfold StOk; split <;> simp [enumK]
  obtain ⟨hres, hok⟩ := fold_ok style toks _ [] hinit
  simp only [List.nil_append, List.length_nil] at hres hok
  generalize toks.foldl (step style) { result := [], args := [], kwargs := [] } = st at hres hok
  unfold StOk at hok
  cases hk : style.keyed
  · simp only [hk, Bool.false_eq_true, if_false] at hok
    obtain ⟨h1, h2⟩ := hok
    cases hex : exprsOf toks with
    | nil => simp [h1, h2, hex]
    | cons e es => simp [h1, h2, hex, hres]
  · simp only [hk, if_true] at hok
    obtain ⟨h1, h2⟩ := hok
    cases hex : exprsOf toks with
    | nil => simp [h1, h2, hex, enumK]
    | cons e es => simp [h1, h2, hex, hres, enumK]

example : adaptCold .numeric [.text ['a', '%', ' '], .expr ['x', '.', 'y'] false, .dollar, .expr ['(', 'a', '%', '2', ')'] true] =
    { sql := ['a', '%', ' ', ':', '1', '$', ':', '2'], source := .tuple [['x', '.', 'y'], ['(', 'a', '%', '2', ')']] } := by
  rw [C30_adapt]; simp [spec, exprsOf, pieces, placeholder, pre, Style.percent, Style.keyed, natDigits, digit]

example : adaptCold .pyformat [.text ['a', '%', ' '], .expr ['(', '\'', '%', '\'', ')'] false] =
    { sql := ['a', '%', '%', ' ', '%', '(', 'p', '1', ')', 's'], source := .dict [(1, ['(', '\'', '%', '\'', ')'])] } := by
  rw [C30_adapt]
  simp [spec, exprsOf, pieces, placeholder, pre, Style.percent, Style.keyed, keyText, natDigits, digit, dbl, enumK]

/-- without parameters the statement is the text as written with `$$ ↦ $` — for every style, no `%` doubling -/
theorem C30_no_params (style : Style) (toks : List Tok) (h : exprsOf toks = []) :
    (adaptCold style toks).source = .none ∧ (adaptCold style toks).sql = (pieces .qmark 0 toks).flatten := by
  rw [C30_adapt]; unfold spec; rw [if_pos h]
  refine ⟨rfl, ?_⟩
  simp only [undollar]
  induction toks with
  | nil => rfl
  | cons t r ih =>
    cases t with
    | text t => simp only [exprsOf] at h; simp [undollarTok, pieces, pre, Style.percent, ih h]
    | dollar => simp only [exprsOf] at h; simp [undollarTok, pieces, ih h]
    | expr e s => simp [exprsOf] at h

/-- the number of placeholders equals the number of expressions, and the k-th one is numbered k (numeric / named / pyformat) -/
theorem C30_bound_in_order (style : Style) (toks : List Tok) (h : exprsOf toks ≠ []) :
    (adaptCold style toks).source =
      (if style.keyed then Source.dict (enumK 0 (exprsOf toks)) else Source.tuple (exprsOf toks)) := by
  rw [C30_adapt]; unfold spec; rw [if_neg h]

/-! ### the DB-API round trip for format / pyformat: `adapted_sql % arguments` -/

/-- the statement the database finally sees: every literal character as written, `$$ ↦ $`, and in place of the k-th
    expression the value it evaluates to in the caller's scope (`ρ e`) -/
def meaning {V : Type} (ρ : List Char → V) : List Tok → List (Out V)
  | [] => []
  | .text t :: r => t.map Out.ch ++ meaning ρ r
  | .dollar :: r => Out.ch '$' :: meaning ρ r
  | .expr e _ :: r => Out.val (ρ e) :: meaning ρ r

private theorem expandFormat_ch {V : Type} (c : Char) (hc : c ≠ '%') (rest : List Char) (vs : List V) :
    expandFormat (c :: rest) vs = (expandFormat rest vs).map (Out.ch c :: ·) := by
  cases rest with
  | nil => cases hv : vs.isEmpty <;> simp [expandFormat, hc, hv]
  | cons c2 r2 => simp [expandFormat, hc]

private theorem expandFormat_dbl {V : Type} (t rest : List Char) (vs : List V) :
    expandFormat (dbl t ++ rest) vs = (expandFormat rest vs).map (t.map Out.ch ++ ·) := by
  induction t with
  | nil => simp [dbl]
  | cons c r ih =>
    by_cases hc : c = '%'
    · subst hc
      simp only [dbl, if_true, List.cons_append, expandFormat, ih, Option.map_map, List.map_cons]
      rfl
    · simp only [dbl, hc, if_false, List.cons_append]
      rw [expandFormat_ch c hc, ih, Option.map_map]
      rfl

private theorem expandFormat_ps {V : Type} (rest : List Char) (v : V) (vs : List V) :
    expandFormat ('%' :: 's' :: rest) (v :: vs) = (expandFormat rest vs).map (Out.val v :: ·) := by
  simp [expandFormat]

private theorem roundtrip_format_aux {V : Type} (ρ : List Char → V) (toks : List Tok) (k : Nat) :
    expandFormat (pieces .format k toks).flatten ((exprsOf toks).map ρ) = some (meaning ρ toks) := by
  induction toks generalizing k with
  | nil => simp [pieces, exprsOf, meaning, expandFormat]
  | cons t r ih =>
    cases t with
    | text t =>
      simp only [pieces, List.flatten_cons, pre, Style.percent, if_true, exprsOf, meaning, expandFormat_dbl, ih]
      rfl
    | dollar =>
      simp only [pieces, List.flatten_cons, exprsOf, meaning, List.cons_append, List.nil_append]
      rw [expandFormat_ch '$' (by decide), ih]; rfl
    | expr e s =>
      simp only [pieces, placeholder, List.flatten_cons, exprsOf, meaning, List.map_cons, List.cons_append, List.nil_append]
      rw [expandFormat_ps, ih]; rfl

/-- `format` (MySQL): for every token list with parameters and every scope ρ, `adapted_sql % arguments` is the statement
    as written with `$$ ↦ $` and the k-th expression replaced by its value — the `%`-doubling is undone exactly -/
theorem C30_roundtrip_format {V : Type} (ρ : List Char → V) (toks : List Tok) (h : exprsOf toks ≠ []) :
    ∃ es, (adaptCold .format toks).source = .tuple es ∧
      expandFormat (adaptCold .format toks).sql (es.map ρ) = some (meaning ρ toks) := by
  refine ⟨exprsOf toks, ?_, ?_⟩
  · rw [C30_bound_in_order _ _ h]; rfl
  · rw [C30_adapt]; unfold spec; rw [if_neg h]
    exact roundtrip_format_aux ρ toks 0

example : exprsOf [.text ['a', '%'], .expr ['x'] false] ≠ [] := by decide

private theorem expandPy_dbl {V : Type} (lookup : Nat → Option V) (t rest : List Char) :
    expandPyformat lookup .normal (dbl t ++ rest) = (expandPyformat lookup .normal rest).map (t.map Out.ch ++ ·) := by
  induction t with
  | nil => simp [dbl]
  | cons c r ih =>
    by_cases hc : c = '%'
    · subst hc
      simp only [dbl, if_true, List.cons_append, expandPyformat, ih, Option.map_map, List.map_cons]
      rfl
    · simp only [dbl, hc, if_false, List.cons_append, expandPyformat, ih, Option.map_map, List.map_cons]
      rfl

private theorem expandPy_key {V : Type} (lookup : Nat → Option V) (ds acc rest : List Char) (h : ∀ c ∈ ds, c ≠ ')') :
    expandPyformat lookup (.key acc) (ds ++ ')' :: rest) = expandPyformat lookup (.close (acc ++ ds)) rest := by
  induction ds generalizing acc with
  | nil => simp [expandPyformat]
  | cons c r ih =>
    have hc : c ≠ ')' := h c List.mem_cons_self
    simp only [List.cons_append, expandPyformat, hc, if_false]
    rw [ih _ (fun c' hc' => h c' (List.mem_cons_of_mem _ hc'))]
    simp

private theorem expandPy_placeholder {V : Type} (lookup : Nat → Option V) (k : Nat) (rest : List Char) :
    expandPyformat lookup .normal (placeholder .pyformat k ++ rest) =
      match lookup k with
      | some v => (expandPyformat lookup .normal rest).map (Out.val v :: ·)
      | none => none := by
  have hkey : ∀ c ∈ keyText k, c ≠ ')' := by
    intro c hc
    simp only [keyText, List.mem_cons] at hc
    rcases hc with rfl | hc
    · decide
    · exact natDigits_no_paren k c hc
  have e1 : placeholder .pyformat k ++ rest = '%' :: '(' :: (keyText k ++ ')' :: 's' :: rest) := by simp [placeholder]
  have e2 : ∀ X, expandPyformat lookup .normal ('%' :: '(' :: X) = expandPyformat lookup (.key []) X := by
    intro X; simp [expandPyformat]
  rw [e1, e2, expandPy_key lookup (keyText k) [] ('s' :: rest) hkey]
  simp only [List.nil_append, keyText, expandPyformat, if_true, parseNat_natDigits]
  cases lookup k <;> rfl

private theorem lookup_enumK {V : Type} (ρ : List Char → V) (es : List (List Char)) (k j : Nat) (e : List Char)
    (h : es[j]? = some e) :
    ((enumK k es).find? (fun kv => kv.1 == k + j + 1)).map (fun kv => ρ kv.2) = some (ρ e) := by
  induction es generalizing k j with
  | nil => simp at h
  | cons a r ih =>
    cases j with
    | zero =>
      simp only [List.getElem?_cons_zero, Option.some.injEq] at h
      subst h
      simp [enumK]
    | succ j =>
      simp only [List.getElem?_cons_succ] at h
      have := ih (k + 1) j h
      simp only [enumK, List.find?_cons]
      have hne : (k + 1 == k + (j + 1) + 1) = false := by simp
      simp only [hne]
      have e2 : k + 1 + j + 1 = k + (j + 1) + 1 := by omega
      rw [e2] at this
      exact this

/-- `args[key]` for the dict the code builds, values being the evaluated expressions -/
def dictLookup {V : Type} (ρ : List Char → V) (items : List (Nat × List Char)) (k : Nat) : Option V :=
  (items.find? (fun kv => kv.1 == k)).map (fun kv => ρ kv.2)

private theorem roundtrip_py_aux {V : Type} (ρ : List Char → V) (all : List (List Char)) (toks : List Tok) (k : Nat)
    (hall : ∀ j e, (exprsOf toks)[j]? = some e → all[k + j]? = some e) :
    expandPyformat (dictLookup ρ (enumK 0 all)) .normal (pieces .pyformat k toks).flatten = some (meaning ρ toks) := by
  induction toks generalizing k with
  | nil => simp [pieces, meaning, expandPyformat]
  | cons t r ih =>
    cases t with
    | text t =>
      simp only [pieces, List.flatten_cons, pre, Style.percent, if_true, meaning, expandPy_dbl]
      rw [ih k (by intro j e h; exact hall j e (by simpa [exprsOf] using h))]; rfl
    | dollar =>
      simp only [pieces, List.flatten_cons, meaning]
      have := expandPy_dbl (dictLookup ρ (enumK 0 all)) ['$'] (pieces Style.pyformat k r).flatten
      simp only [dbl, show ('$' = '%') = False by decide, if_false] at this
      rw [this, ih k (by intro j e h; exact hall j e (by simpa [exprsOf] using h))]; rfl
    | expr e s =>
      simp only [pieces, List.flatten_cons, meaning]
      rw [expandPy_placeholder]
      have hk : all[k]? = some e := by simpa using hall 0 e (by simp [exprsOf])
      have hl : dictLookup ρ (enumK 0 all) (k + 1) = some (ρ e) := by
        have := lookup_enumK ρ all 0 k e hk
        simpa [dictLookup] using this
      rw [hl]
      simp only
      rw [ih (k + 1) (by
        intro j e' h
        have := hall (j + 1) e' (by simpa [exprsOf] using h)
        have e2 : k + 1 + j = k + (j + 1) := by omega
        rw [e2]; exact this)]
      rfl

/-- `pyformat` (PostgreSQL): the same round trip through `adapted_sql % {'p1': v1, …}` -/
theorem C30_roundtrip_pyformat {V : Type} (ρ : List Char → V) (toks : List Tok) (h : exprsOf toks ≠ []) :
    ∃ items, (adaptCold .pyformat toks).source = .dict items ∧
      expandPyformat (dictLookup ρ items) .normal (adaptCold .pyformat toks).sql = some (meaning ρ toks) := by
  refine ⟨enumK 0 (exprsOf toks), ?_, ?_⟩
  · rw [C30_bound_in_order _ _ h]; rfl
  · rw [C30_adapt]; unfold spec; rw [if_neg h]
    exact roundtrip_py_aux ρ (exprsOf toks) toks 0 (by intro j e hj; simpa using hj)

/-! ### the scanner: which token list a statement denotes (all strings) -/

private theorem dropWhile_head {α : Type} (p : α → Bool) (l : List α) (a : α) (r : List α)
    (h : l.dropWhile p = a :: r) : p a = false := by
  have hne : l.dropWhile p ≠ [] := by rw [h]; simp
  have := List.head_dropWhile_not p hne
  simpa [h] using this

private theorem cutSemi_render (e : List Char) :
    (cutSemi e).1 ++ (if (cutSemi e).2 then [';'] else []) = e := by
  unfold cutSemi
  split
  · rename_i h
    have hne : e ≠ [] := by intro h0; rw [h0] at h; simp at h
    have hl : e.getLast hne = ';' := by
      have := List.getLast?_eq_some_getLast hne
      rw [this] at h; exact Option.some.inj h
    simpa [hl] using List.dropLast_concat_getLast hne
  · simp

private theorem map_ok {α β : Type} (x : Except ScanErr α) (f : α → β) (b : β) (h : x.map f = .ok b) :
    ∃ a, x = .ok a ∧ b = f a := by
  cases x with
  | error e => simp [Except.map] at h
  | ok a => exact ⟨a, rfl, by simpa [Except.map] using h.symm⟩

private theorem scan_render (fuel : Nat) :
    ∀ (s : List Char) (toks : List Tok), s.length < fuel → scan fuel s = .ok toks → render toks = s := by
  induction fuel with
  | zero => intro s toks h; omega
  | succ n ih =>
    intro s toks hlen h
    have hsplit : s.takeWhile (· != '$') ++ s.dropWhile (· != '$') = s := List.takeWhile_append_dropWhile
    simp only [scan] at h
    cases hd : s.dropWhile (· != '$') with
    | nil =>
      rw [hd] at h hsplit
      simp only [Except.ok.injEq] at h
      subst h
      simpa [render, renderTok] using hsplit
    | cons d r1 =>
      have hdol : d = '$' := by simpa using dropWhile_head _ s d r1 hd
      rw [hd] at h hsplit
      cases r1 with
      | nil => simp at h
      | cons c r =>
        have hl : s.length = (s.takeWhile (· != '$')).length + (r.length + 2) := by
          have := congrArg List.length hsplit
          simp only [List.length_append, List.length_cons] at this
          omega
        simp only at h
        by_cases hc : c = '$'
        · simp only [hc, if_true] at h
          obtain ⟨toks', h1, h2⟩ := map_ok _ _ _ h
          have := ih r toks' (by omega) h1
          subst h2
          refine Eq.trans ?_ hsplit
          rw [hdol, hc]
          simp only [render, List.map_cons, renderTok, List.flatten_cons] at this ⊢
          rw [this]; simp
        · simp only [hc, if_false] at h
          cases hp : parseExpr (c :: r) with
          | none => simp [hp] at h
          | some k =>
            simp only [hp] at h
            obtain ⟨toks', h1, h2⟩ := map_ok _ _ _ h
            have hdl : (List.drop k (c :: r)).length < n := by
              simp only [List.length_drop, List.length_cons]; omega
            have := ih _ toks' hdl h1
            subst h2
            have hcs := cutSemi_render (List.take k (c :: r))
            have htd := List.take_append_drop k (c :: r)
            refine Eq.trans ?_ hsplit
            rw [hdol]
            simp only [render, List.map_cons, renderTok, List.flatten_cons] at this ⊢
            rw [this]
            simp only [List.cons_append]
            congr 1
            congr 1
            rw [hcs, htd]

/-- the scanner loses nothing and invents nothing: for EVERY statement the scanner accepts, the tokens it finds render
    back to exactly that statement (every character is literal text, part of a `$$`, or part of a `$`-expression) -/
theorem C30_scan_render (s : List Char) (toks : List Tok) (h : scanSql s = .ok toks) : render toks = s :=
  scan_render (s.length + 1) s toks (by omega) h

/-- string level: whenever `adapt_sql` accepts a statement `s`, its result is the declarative reading of a token list
    that renders to `s` — for all statements and all five styles -/
theorem C30_adapt_string (style : Style) (s : List Char) (a : Adapted) (h : adaptString style s = .ok a) :
    ∃ toks, render toks = s ∧ a = spec style toks := by
  unfold adaptString at h
  obtain ⟨toks, h1, h2⟩ := map_ok _ _ _ h
  exact ⟨toks, C30_scan_render s toks h1, by rw [h2, C30_adapt]⟩

private theorem scanRaw_agrees (fuel : Nat) :
    ∀ s : List Char, scanRawLoop fuel s = (scan fuel s).map parseRaw := by
  induction fuel with
  | zero => intro s; rfl
  | succ n ih =>
    intro s
    simp only [scanRawLoop, scan]
    cases hd : s.dropWhile (· != '$') with
    | nil => rfl
    | cons d r1 =>
      cases r1 with
      | nil => rfl
      | cons c r =>
        simp only
        by_cases hc : c = '$'
        · simp only [hc, if_true, ih r]
          cases scan n r <;> rfl
        · simp only [hc, if_false]
          cases hp : parseExpr (c :: r) with
          | none => rfl
          | some k =>
            simp only [ih]
            cases scan n (List.drop k (c :: r)) <;> rfl

/-- one grammar, two implementations: for EVERY non-empty text the loop of `parse_raw_sql` (ormtypes.py) finds exactly the
    tokens the loop of `adapt_sql` (core.py) finds — same text chunks, same `$$`, same expression texts in the same
    order — and fails exactly when it fails -/
theorem C30_two_scanners_agree (s : List Char) (h : s ≠ []) : scanRaw s = (scanSql s).map parseRaw := by
  unfold scanRaw scanSql
  have : s.isEmpty = false := by cases s <;> simp_all
  simp only [this, Bool.false_eq_true, if_false]
  exact scanRaw_agrees _ s

example : scanSql ['a', '$', 'x', '.', 'y', ';', '$', '$', '$', '(', '\'', ')', '\'', ')'] =
    .ok [.text ['a'], .expr ['x', '.', 'y'] true, .text [], .dollar, .text [], .expr ['(', '\'', ')', '\'', ')'] false, .text []] := by
  rfl

/-! ### the converse: a well-formed token list is found again in its rendering -/

/-- the expression text `e` (closed by `;` iff `semi`) followed by the rest `R` of the statement is cut exactly after
    itself by `parse_expr` -/
def ExprOk (e : List Char) (semi : Bool) (R : List Char) : Prop :=
  e ≠ [] ∧
  parseExpr ((e ++ (if semi then [';'] else [])) ++ R) = some (e.length + (if semi then 1 else 0)) ∧
  (semi = false → e.getLast? ≠ some ';')

/-- the token lists the scanner produces: text (without `$`, possibly empty) around every `$$` / `$`-expression, each
    expression being cut off correctly by `parse_expr` in front of what follows it -/
inductive WF : List Tok → Prop
  | last (t : List Char) : '$' ∉ t → WF [.text t]
  | dollar (t : List Char) (rest : List Tok) : '$' ∉ t → WF rest → WF (.text t :: .dollar :: rest)
  | expr (t e : List Char) (semi : Bool) (rest : List Tok) :
      '$' ∉ t → ExprOk e semi (render rest) → WF rest → WF (.text t :: .expr e semi :: rest)

private theorem split_at_dollar (t r : List Char) (h : '$' ∉ t) :
    (t ++ '$' :: r).takeWhile (· != '$') = t ∧ (t ++ '$' :: r).dropWhile (· != '$') = '$' :: r := by
  induction t with
  | nil => simp
  | cons c t ih =>
    have hc : c ≠ '$' := fun e => h (by rw [e]; exact List.mem_cons_self)
    have ht : '$' ∉ t := fun e => h (List.mem_cons_of_mem _ e)
    obtain ⟨i1, i2⟩ := ih ht
    simp [hc, i1, i2]

private theorem split_no_dollar (t : List Char) (h : '$' ∉ t) :
    t.takeWhile (· != '$') = t ∧ t.dropWhile (· != '$') = [] := by
  induction t with
  | nil => simp
  | cons c t ih =>
    have hc : c ≠ '$' := fun e => h (by rw [e]; exact List.mem_cons_self)
    have ht : '$' ∉ t := fun e => h (List.mem_cons_of_mem _ e)
    obtain ⟨i1, i2⟩ := ih ht
    simp [hc, i1, i2]

private theorem parseExpr_head (c : Char) (r : List Char) (n : Nat) (h : parseExpr (c :: r) = some n) : c ≠ '$' := by
  intro hc
  subst hc
  simp [parseExpr, isIdStart] at h

private theorem cutSemi_of (e : List Char) (semi : Bool) (h : semi = false → e.getLast? ≠ some ';') :
    cutSemi (e ++ (if semi then [';'] else [])) = (e, semi) := by
  cases semi with
  | true => simp [cutSemi]
  | false => simp [cutSemi, h rfl]

private theorem scan_of_render (toks : List Tok) (h : WF toks) :
    ∀ fuel, (render toks).length < fuel → scan fuel (render toks) = .ok toks := by
  induction h with
  | last t ht =>
    intro fuel hf
    cases fuel with
    | zero => omega
    | succ n =>
      have hr : render [Tok.text t] = t := by simp [render, renderTok]
      obtain ⟨s1, s2⟩ := split_no_dollar t ht
      rw [hr]; simp only [scan, s1, s2]
  | dollar t rest ht _ ih =>
    intro fuel hf
    cases fuel with
    | zero => omega
    | succ n =>
      have hr : render (Tok.text t :: Tok.dollar :: rest) = t ++ '$' :: '$' :: render rest := by
        simp [render, renderTok]
      obtain ⟨s1, s2⟩ := split_at_dollar t ('$' :: render rest) ht
      rw [hr] at hf ⊢
      have hlen : (render rest).length < n := by simp only [List.length_append, List.length_cons] at hf; omega
      simp only [scan, s1, s2, if_true, ih n hlen]
      rfl
  | expr t e semi rest ht hok _ ih =>
    intro fuel hf
    cases fuel with
    | zero => omega
    | succ n =>
      obtain ⟨hne, hpe, hsemi⟩ := hok
      have hr : render (Tok.text t :: Tok.expr e semi :: rest) =
          t ++ '$' :: ((e ++ (if semi then [';'] else [])) ++ render rest) := by
        simp [render, renderTok]
      obtain ⟨s1, s2⟩ := split_at_dollar t ((e ++ (if semi then [';'] else [])) ++ render rest) ht
      rw [hr] at hf ⊢
      cases hcr : (e ++ (if semi then [';'] else [])) ++ render rest with
      | nil => cases e with
        | nil => exact absurd rfl hne
        | cons a b => simp at hcr
      | cons c r =>
        rw [hcr] at hpe s1 s2 hf
        have hc : c ≠ '$' := parseExpr_head c r _ hpe
        have hlenE : (e ++ (if semi then [';'] else [])).length = e.length + (if semi then 1 else 0) := by
          cases semi <;> simp
        have htake : List.take (e.length + (if semi then 1 else 0)) (c :: r) = e ++ (if semi then [';'] else []) := by
          rw [← hcr]; exact List.take_left' hlenE
        have hdrop : List.drop (e.length + (if semi then 1 else 0)) (c :: r) = render rest := by
          rw [← hcr]; exact List.drop_left' hlenE
        have hlen : (render rest).length < n := by
          have : (c :: r).length = (e ++ (if semi then [';'] else [])).length + (render rest).length := by
            rw [← hcr, List.length_append]
          simp only [List.length_append, List.length_cons] at hf this
          omega
        simp only [scan, s1, s2, hc, if_false, hpe, htake, hdrop, cutSemi_of e semi hsemi, ih n hlen]
        rfl

/-- the converse of `C30_scan_render`, for ALL well-formed token lists: scanning the rendering of the list gives the
    list back — the token model and the string are the same thing (rendering is injective on well-formed lists) -/
theorem C30_scan_of_render (toks : List Tok) (h : WF toks) : scanSql (render toks) = .ok toks :=
  scan_of_render toks h _ (by omega)

theorem C30_render_injective (a b : List Tok) (ha : WF a) (hb : WF b) (h : render a = render b) : a = b := by
  have h1 := C30_scan_of_render a ha
  have h2 := C30_scan_of_render b hb
  rw [h] at h1
  rw [h1] at h2
  exact Except.ok.inj h2

/-- non-vacuity and the common case: a plain name followed by a character that cannot continue an expression
    (not a word character, not white space, none of `; . ( [`) is cut off exactly after the name -/
theorem C30_name_ok (c : Char) (w : List Char) (d : Char) (R : List Char)
    (hc : isIdStart c = true) (hw : ∀ x ∈ w, isWord x = true)
    (hd : isWord d = false ∧ isSpace d = false ∧ d ≠ ';' ∧ d ≠ '.' ∧ d ≠ '(' ∧ d ≠ '[') :
    ExprOk (c :: w) false (d :: R) := by
  have hspan : ∀ (w : List Char), (∀ x ∈ w, isWord x = true) → spanLen isWord (w ++ d :: R) = w.length := by
    intro w hw
    induction w with
    | nil => simp [spanLen, hd.1]
    | cons a w ih =>
      have ha := hw a List.mem_cons_self
      simp [spanLen, ha, ih (fun x hx => hw x (List.mem_cons_of_mem _ hx))]
  refine ⟨by simp, ?_, ?_⟩
  · simp only [Bool.false_eq_true, if_false, List.append_nil, List.cons_append, parseExpr, hc, if_true, hspan w hw]
    have hdrop : List.drop (1 + w.length) (c :: (w ++ d :: R)) = d :: R := by
      have : c :: (w ++ d :: R) = (c :: w) ++ d :: R := rfl
      rw [this]; exact List.drop_left' (by simp; omega)
    rw [hdrop]
    simp [exprTail, spanLen, hd.2.1, hd.2.2.1, hd.2.2.2.1, hd.2.2.2.2.1, hd.2.2.2.2.2]
    omega
  · intro _
    have : ∀ x ∈ c :: w, x ≠ ';' := by
      intro x hx
      rcases List.mem_cons.mp hx with rfl | hx
      · intro e; rw [e] at hc; simp [isIdStart] at hc
      · intro e; have := hw x hx; rw [e] at this; simp [isWord] at this
    intro hl
    have hm : (';' : Char) ∈ c :: w := List.mem_of_getLast? hl
    exact this ';' hm rfl

example : WF [.text ['a', '='], .expr ['x', '1'] false, .text [',', ' '], .dollar, .text []] :=
  .expr _ _ _ _ (by decide) (C30_name_ok 'x' ['1'] ',' _ (by decide) (by decide) (by decide))
    (.dollar _ _ (by decide) (.last _ (by decide)))

/-! ### everything the scanner returns is well-formed: the image of the scanner is exactly `WF` -/

private theorem mem_takeWhile {α : Type} (p : α → Bool) (l : List α) (x : α) (h : x ∈ l.takeWhile p) : p x = true := by
  induction l with
  | nil => simp at h
  | cons a r ih =>
    simp only [List.takeWhile] at h
    cases hp : p a
    · simp [hp] at h
    · simp only [hp, List.mem_cons] at h
      rcases h with rfl | h
      · exact hp
      · exact ih h

private theorem text_no_dollar (s : List Char) : '$' ∉ s.takeWhile (· != '$') := by
  intro h
  have := mem_takeWhile (· != '$') s '$' h
  simp at this

private theorem cutSemi_snd (e : List Char) (h : (cutSemi e).2 = false) : (cutSemi e).1.getLast? ≠ some ';' := by
  unfold cutSemi at h ⊢
  split
  · rename_i hl; simp [hl] at h
  · rename_i hl; exact hl

private theorem scan_wf (fuel : Nat) :
    ∀ (s : List Char) (toks : List Tok), s.length < fuel → scan fuel s = .ok toks → WF toks := by
  induction fuel with
  | zero => intro s toks h; omega
  | succ n ih =>
    intro s toks hlen h
    have hsplit : s.takeWhile (· != '$') ++ s.dropWhile (· != '$') = s := List.takeWhile_append_dropWhile
    have ht := text_no_dollar s
    simp only [scan] at h
    cases hd : s.dropWhile (· != '$') with
    | nil =>
      rw [hd] at h
      simp only [Except.ok.injEq] at h
      subst h
      exact WF.last _ ht
    | cons d r1 =>
      rw [hd] at h hsplit
      cases r1 with
      | nil => simp at h
      | cons c r =>
        have hl : s.length = (s.takeWhile (· != '$')).length + (r.length + 2) := by
          have := congrArg List.length hsplit
          simp only [List.length_append, List.length_cons] at this
          omega
        simp only at h
        by_cases hc : c = '$'
        · simp only [hc, if_true] at h
          obtain ⟨toks', h1, h2⟩ := map_ok _ _ _ h
          subst h2
          exact WF.dollar _ _ ht (ih r toks' (by omega) h1)
        · simp only [hc, if_false] at h
          cases hp : parseExpr (c :: r) with
          | none => simp [hp] at h
          | some k =>
            simp only [hp] at h
            obtain ⟨toks', h1, h2⟩ := map_ok _ _ _ h
            subst h2
            obtain ⟨hk1, hk2, c0, r0, hcr, hstart⟩ := parseExpr_le (c :: r) k hp
            have hdl : (List.drop k (c :: r)).length < n := by
              simp only [List.length_drop, List.length_cons]; omega
            have hrender := scan_render n _ toks' hdl h1
            have hcs := cutSemi_render (List.take k (c :: r))
            have htd := List.take_append_drop k (c :: r)
            have htl : (List.take k (c :: r)).length = k := by simp only [List.length_take]; omega
            refine WF.expr _ _ _ _ ht ⟨?_, ?_, ?_⟩ (ih _ toks' hdl h1)
            · -- the expression text is not empty: it starts with the identifier character or `(` the scanner saw
              intro he
              have h0 : (if (cutSemi (List.take k (c :: r))).2 = true then [';'] else []) = List.take k (c :: r) := by
                rw [he] at hcs; simpa using hcs
              have hc0 : c = c0 := by injection hcr
              cases hsemi : (cutSemi (List.take k (c :: r))).2
              · rw [hsemi] at h0
                have : (List.take k (c :: r)).length = 0 := by rw [← h0]; rfl
                omega
              · rw [hsemi] at h0
                have hk : k = 1 := by
                  have := congrArg List.length h0
                  simp only [if_true, List.length_singleton] at this
                  omega
                subst hk
                simp only [List.take_succ_cons, List.take_zero, if_true, List.cons.injEq, and_true] at h0
                rcases hstart with hs | hs
                · rw [← hc0, ← h0] at hs; simp [isIdStart] at hs
                · rw [← hc0, ← h0] at hs; simp at hs
            · rw [hrender, hcs, htd, hp]
              have hlen2 := congrArg List.length hcs
              rw [htl, List.length_append] at hlen2
              have hif : (if (cutSemi (List.take k (c :: r))).2 = true then [';'] else []).length =
                  (if (cutSemi (List.take k (c :: r))).2 = true then 1 else 0) := by split <;> rfl
              rw [hif] at hlen2
              exact congrArg some hlen2.symm
            · exact cutSemi_snd _

/-- the converse of `C30_scan_of_render`'s hypothesis: EVERY token list the scanner returns, for every statement, is
    well-formed.  Together: a statement is accepted iff it is the rendering of a well-formed token list, and that list
    is unique (`C30_scanner_exact`). -/
theorem C30_scan_wf (s : List Char) (toks : List Tok) (h : scanSql s = .ok toks) : WF toks :=
  scan_wf (s.length + 1) s toks (by omega) h

theorem C30_scanner_exact (s : List Char) (toks : List Tok) :
    scanSql s = .ok toks ↔ (WF toks ∧ render toks = s) := by
  constructor
  · intro h; exact ⟨C30_scan_wf s toks h, C30_scan_render s toks h⟩
  · rintro ⟨hw, rfl⟩; exact C30_scan_of_render toks hw

/-! ### cache transparency, for all histories -/

/-- every entry of the cache is the cold adaptation of its own key -/
def CInv (c : ACache) : Prop := ∀ kv ∈ c, kv.2 = adaptCold kv.1.2 kv.1.1

private theorem adaptC_inv (c : ACache) (h : CInv c) (toks : List Tok) (style : Style) :
    (adaptC c toks style).1 = adaptCold style toks ∧ CInv (adaptC c toks style).2 := by
  unfold adaptC adaptWith
  cases hl : List.lookup (toks, style) c with
  | some r =>
    have := h _ (lookup_mem (toks, style) r c hl)
    exact ⟨this, h⟩
  | none =>
    refine ⟨rfl, ?_⟩
    intro kv hkv
    rcases List.mem_cons.mp hkv with rfl | h'
    · rfl
    · exact h kv h'

/-- the outcome does not depend on statements adapted earlier in the process: after ANY history of `adapt_sql` calls
    (any statements, any styles), every call returns what it returns on a cold cache -/
theorem C30_cache_transparent (history : List (List Tok × Style)) :
    run [] history = history.map (fun q => adaptCold q.2 q.1) := by
  suffices h : ∀ c, CInv c → runWith storeKeyNow c history = history.map (fun q => adaptCold q.2 q.1) from
    h [] (by intro kv h; cases h)
  induction history with
  | nil => intro c _; rfl
  | cons q rest ih =>
    intro c hc
    obtain ⟨toks, style⟩ := q
    obtain ⟨h1, h2⟩ := adaptC_inv c hc toks style
    simp only [runWith, List.map_cons]
    have e : adaptWith storeKeyNow c toks style = adaptC c toks style := rfl
    rw [e, h1, ih _ h2]

/-- the statement is sensitive to the store key: with the key used before de506b3 (the `%`-doubled text) the second of
    these two statements gets the first one's adaptation -/
theorem C30_old_store_key_not_transparent :
    ∃ history, runWith storeKeyOld [] history ≠ history.map (fun q => adaptCold q.2 q.1) :=
  ⟨[([.text ['\'', '%', '\'', ','], .expr ['x'] false], .format),
    ([.text ['\'', '%', '%', '\'', ','], .expr ['x'] false], .format)], by decide⟩

/-! ### `raw_sql()` fragments in queries: the translator cache never binds a value through another type's converter -/

/-- for ALL histories of query executions against one database (any fragments, any parameter types, any order): every
    run binds its values through the converters of ITS OWN parameter types — the answer of a run does not depend on which
    types the same fragment was executed with before -/
theorem C30_rawsql_converters_own (history : List (List Tok × List PyType)) :
    runQueries qkeyAsCoded [] history = history.map (·.2) := by
  suffices h : ∀ c : List (QKey × List PyType), (∀ kv ∈ c, kv.2 = kv.1.2) →
      runQueries qkeyAsCoded c history = history.map (·.2) from h [] (by intro kv h; cases h)
  induction history with
  | nil => intro c _; rfl
  | cons q rest ih =>
    intro c hc
    obtain ⟨toks, types⟩ := q
    simp only [runQueries, queryWith, List.map_cons]
    cases hl : List.lookup (qkeyAsCoded toks types) c with
    | some conv =>
      have := hc _ (lookup_mem _ conv c hl)
      simp only [qkeyAsCoded] at this
      simp only [this, ih c hc]
    | none =>
      simp only
      rw [ih _ (by
        intro kv hkv
        rcases List.mem_cons.mp hkv with rfl | h'
        · rfl
        · exact hc kv h')]

/-- … and the statement is sensitive to the key: if the key forgot the parameter types, the second of these two runs of
    the same fragment (first an int, then a Decimal) would be bound through the int converter -/
theorem C30_rawsql_key_without_types_wrong :
    ∃ history, runQueries qkeyWithoutTypes [] history ≠ history.map (·.2) :=
  ⟨[([.text ['a', '='], .expr ['x'] false], [.int]), ([.text ['a', '='], .expr ['x'] false], [.decimal])], by decide⟩

/-! ### `raw_sql()` fragments -/

/-- `parse_raw_sql`: the expression texts in order; in the SQL AST the strings are passed verbatim (`$$ ↦ $`) and the
    i-th expression is parameter number i, in order, for every token list -/
theorem C30_raw_sql (toks : List Tok) (k : Nat) :
    (parseRaw toks).2 = exprsOf toks ∧
    (rawAst k (parseRaw toks).1).filterMap (fun a => match a with | .param i => some i | .str _ => none) =
      List.range' k (exprsOf toks).length ∧
    (rawAst k (parseRaw toks).1).filterMap (fun a => match a with | .str s => some s | .param _ => none) =
      toks.filterMap (fun t => match t with | .text t => some t | .dollar => some ['$'] | .expr _ _ => none) := by
  refine ⟨?_, ?_, ?_⟩
  · simp only [parseRaw]
    induction toks with
    | nil => rfl
    | cons t r ih => cases t <;> simp [exprsOf, ih]
  · simp only [parseRaw]
    induction toks generalizing k with
    | nil => rfl
    | cons t r ih => cases t <;> simp [rawItem, rawAst, exprsOf, ih, List.range'_succ]
  · simp only [parseRaw]
    induction toks generalizing k with
    | nil => rfl
    | cons t r ih => cases t <;> simp [rawItem, rawAst, ih]

/-- the k-th OCCURRENCE of a `$`-expression in a fragment is parameter number k — also when expression texts repeat —
    so it is bound to the value `RawSQL.__init__` evaluated for that occurrence; numbering by distinct text instead would
    bind the `y` of `$x … $x … $y` to the second value (an `x`) -/
theorem C30_raw_sql_by_occurrence (e1 e2 : List Char) (h : e1 ≠ e2) :
    rawAst 0 [.param e1, .str [' '], .param e1, .str [' '], .param e2] =
      [.param 0, .str [' '], .param 1, .str [' '], .param 2] ∧
    rawAstByText [] [.param e1, .str [' '], .param e1, .str [' '], .param e2] =
      [.param 0, .str [' '], .param 0, .str [' '], .param 1] := by
  constructor
  · rfl
  · have h' : (e1 == e2) = false := by simpa using h
    simp [rawAstByText, h', List.idxOf, List.findIdx, List.findIdx.go]

end PonyVerif.Props.C30
