/-
  C16 — flush emits writes in an order the database accepts.

  Property theorems about the executable model `Model/SaveOrder.lean` (mirror of `Entity._save_`,
  `Entity._save_principal_objects_` and the body of `SessionCache.flush`), for ARBITRARY status vectors, reference
  graphs and queues (no well-formedness assumed unless stated).
-/
import PonyVerif.Lemmas.SaveOrder
import PonyVerif.Gen.FlushShape
import PonyVerif.Lemmas.DeleteQueue
namespace PonyVerif.Props.C16
open PonyVerif.Model.SaveOrder

/-- `x` holds, in an attribute whose value its INSERT / UPDATE statement writes, a reference to the object `y` that is
    still unsaved (`created`) when the flush starts -/
def Edge (g : Graph) (status : List Status) (x y : Nat) : Prop := EdgeS g status x y

/-- the statement the flush has to emit for `x` -/
def stmt (status : List Status) (x : Nat) : Write := stmtOf (statusOf status x) x

/-- `a` is executed strictly before `b` -/
def Before (a b : Write) (ws : List Write) : Prop := ∃ l1 l2 l3, ws = l1 ++ a :: l2 ++ b :: l3

/-- the queue lists only objects that have something to save (what `objects_to_save` contains in a live session) -/
def QueueWellFormed (status : List Status) (q : List (Option Nat)) : Prop :=
  ∀ x, some x ∈ q → Pending (statusOf status x)

private theorem saveOrder_ok {status : List Status} {g : Graph} {q : List (Option Nat)} {ws : List Write}
    (h : saveOrder status g q = .ok ws) :
    Trace g { status := status, out := [] } { status := (match saveQueue g (fuelFor status) q { status := status, out := [] } with | .ok s => s.status | .error _ => []), out := ws } ws
    ∧ ∀ x, some x ∈ q → Pending (statusOf status x) ∧ stmt status x ∈ ws := by
  unfold saveOrder at h
  cases hr : saveQueue g (fuelFor status) q { status := status, out := [] } with
  | error e => simp [hr] at h
  | ok s =>
    simp [hr] at h
    obtain ⟨ws', ho, T, hq⟩ := run_trace (pre := []) (by simp) hr
    simp at ho
    have : ws' = ws := by rw [← ho, h]
    subst this
    refine ⟨?_, hq⟩
    have hs : s = { status := s.status, out := ws' } := by cases s; simp_all
    rw [← hs]; exact T

/-! ### (1) topological order, each object exactly once -/

/-- If the flush succeeds, every referenced unsaved object is INSERTed strictly before the statement of the
    referencing object (INSERT of a created object, UPDATE of a modified one): the order immediate FK enforcement needs. -/
theorem C16_topological (status : List Status) (g : Graph) (q : List (Option Nat)) (ws : List Write)
    (h : saveOrder status g q = .ok ws) (x y : Nat) (hxy : Edge g status x y) (hx : stmt status x ∈ ws) :
    Before (.insert y) (stmt status x) ws := by
  obtain ⟨T, _⟩ := saveOrder_ok h
  obtain ⟨ws1, ws2, hsplit⟩ := List.append_of_mem hx
  obtain ⟨r, hr, ht, hc⟩ := hxy
  have := T.ordered ws1 _ ws2 hsplit x rfl r hr (ht ▸ hc)
  rw [ht] at this
  obtain ⟨l1, l2, h1⟩ := List.append_of_mem this
  exact ⟨l1, l2, ws2, by rw [hsplit, h1]⟩

/-- a concrete non-trivial instance: 0 → 1 → 2 (all created), queued in the "wrong" order 0,1,2, plus a modified
    object 3 whose dirty attribute points to 0 -/
example : saveOrder [.created, .created, .created, .modified] [[⟨1, true⟩], [⟨2, true⟩], [], [⟨0, true⟩, ⟨2, false⟩]]
    [some 3, some 0, some 1, some 2] = .ok [.insert 2, .insert 1, .insert 0, .update 3] := by rfl

/-- every object of the queue is written exactly once, and nothing else is written -/
theorem C16_each_once (status : List Status) (g : Graph) (q : List (Option Nat)) (ws : List Write)
    (h : saveOrder status g q = .ok ws) :
    ws.Nodup
    ∧ (∀ w ∈ ws, ∃ x, Pending (statusOf status x) ∧ w = stmt status x)
    ∧ (∀ x, some x ∈ q → ws.filter (fun w => w.obj? == some x) = [stmt status x]) := by
  obtain ⟨T, hq⟩ := saveOrder_ok h
  refine ⟨T.nodup, ?_, ?_⟩
  · intro w hw
    obtain ⟨y, hy, hp, _⟩ := T.writes w hw
    exact ⟨y, hp, hy⟩
  · intro x hx
    apply filter_unique T.nodup (hq x hx).2
    · intro b hb hpb
      obtain ⟨y, hy, _, _⟩ := T.writes b hb
      have : y = x := by
        rw [hy, stmtOf_obj] at hpb; simpa using hpb
      subst this; exact hy
    · simp [stmt, stmtOf_obj]

/-- a successful flush implies the queue was well formed (an entry with nothing to save hits `assert False`) -/
theorem C16_ok_queue_wellformed (status : List Status) (g : Graph) (q : List (Option Nat)) (ws : List Write)
    (h : saveOrder status g q = .ok ws) : QueueWellFormed status q :=
  fun x hx => ((saveOrder_ok h).2 x hx).1

/-! ### deletions keep the order of the queue -/

/-- DELETE statements are emitted in the order in which `Entity._delete_` queued the objects: a `marked_to_delete`
    object is never written through the recursion (only created objects are), so if `x` is queued before the first
    occurrence of `y`, `DELETE x` is executed strictly before `DELETE y` - for every graph and whatever else is queued
    around and between them.  (The flush adds nothing to, and takes nothing from, the cascade order of `_delete_`.) -/
theorem C16_deletes_in_queue_order (status : List Status) (g : Graph) (pre post : List (Option Nat)) (x y : Nat)
    (ws : List Write) (hx : statusOf status x = .markedToDelete) (hy : statusOf status y = .markedToDelete)
    (hxy : x ≠ y) (hpre : some y ∉ pre) (hpost : some y ∈ post)
    (h : saveOrder status g (pre ++ some x :: post) = .ok ws) : Before (.delete x) (.delete y) ws := by
  unfold saveOrder at h
  have hq : pre ++ some x :: post = (pre ++ [some x]) ++ post := by simp
  rw [hq, saveQueue_append] at h
  cases hA : saveQueue g (fuelFor status) (pre ++ [some x]) { status := status, out := [] } with
  | error e => simp [hA] at h
  | ok s2 =>
    simp only [hA] at h
    cases hB : saveQueue g (fuelFor status) post s2 with
    | error e => simp [hB] at h
    | ok s =>
      simp [hB] at h
      subst h
      obtain ⟨st2, hall2⟩ := saveQueue_spec g _ _ _ _ hA
      obtain ⟨st3, hall3⟩ := saveQueue_spec g _ _ _ _ hB
      obtain ⟨ws2, T2⟩ := st2.trace
      obtain ⟨ws3, T3⟩ := st3.trace
      obtain ⟨wsA, TA⟩ := (st2.trans st3).trace
      have ho2 : s2.out = ws2 := by simpa using T2.out_eq
      have hoA : s.out = wsA := by simpa using TA.out_eq
      -- y is still to be deleted after the first part
      have hy2 : statusOf s2.status y = .markedToDelete :=
        saveQueue_keepsDeletes g _ _ _ _ hA y hy (by
          intro hm; rcases List.mem_append.mp hm with hm | hm
          · exact hpre hm
          · simp at hm; exact hxy hm.symm)
      -- DELETE x has been executed by then
      have hdx : Write.delete x ∈ s2.out := by
        have hw := hall2 x (by simp)
        rw [written_iff] at hw
        obtain ⟨w, hw, hwx⟩ := hw
        obtain ⟨z, hz, _, _⟩ := T2.writes w (ho2 ▸ hw)
        simp only at hz
        have : z = x := by rw [hz, stmtOf_obj] at hwx; simpa using hwx
        subst this
        rw [hx] at hz
        have hz' : w = Write.delete z := hz
        rw [← hz']; exact hw
      -- DELETE y has not
      have hdy2 : Write.delete y ∉ s2.out := by
        intro hm
        obtain ⟨z, hz, hpz, hsz⟩ := T2.writes _ (ho2 ▸ hm)
        simp only at hz hpz hsz
        have : z = y := by
          have := congrArg Write.obj? hz
          rw [stmtOf_obj] at this; simpa [Write.obj?] using this.symm
        subst this
        rw [hy] at hsz
        rw [hsz] at hy2; simp [savedOf] at hy2
      -- and it is executed in the second part
      have hdy : Write.delete y ∈ s.out := by
        have hw := hall3 y hpost
        rw [written_iff] at hw
        obtain ⟨w, hw, hwy⟩ := hw
        obtain ⟨z, hz, _, _⟩ := TA.writes w (hoA ▸ hw)
        simp only at hz
        have : z = y := by rw [hz, stmtOf_obj] at hwy; simpa using hwy
        subst this
        rw [hy] at hz
        have hz' : w = Write.delete z := hz
        rw [← hz']; exact hw
      rw [T3.out_eq] at hdy ⊢
      rcases List.mem_append.mp hdy with hm | hm
      · exact absurd hm hdy2
      · obtain ⟨l1, l2, e1⟩ := List.append_of_mem hdx
        obtain ⟨m1, m2, e2⟩ := List.append_of_mem hm
        exact ⟨l1, l2 ++ m1, m2, by rw [e1, e2]; simp⟩

/-- parent 0 with two cascade children 1, 2 queued first by `_delete_`, an unrelated new object in between -/
example : saveOrder [.markedToDelete, .markedToDelete, .markedToDelete, .created] [[], [⟨0, false⟩], [⟨0, false⟩], []]
    [some 1, some 3, some 2, some 0] = .ok [.delete 1, .insert 3, .delete 2, .delete 0] := by rfl

/-! ### termination and the possible errors -/

private theorem saveOrder_err {status : List Status} {g : Graph} {q : List (Option Nat)} {e : Err}
    (h : saveOrder status g q = .error e) :
    e ≠ .outOfFuel
    ∧ (∀ y, e = .badStatus y → some y ∈ q ∧ ¬ Pending (statusOf status y))
    ∧ (∀ c, e = .cycle c → ∃ y, Relation.TransGen (Edge g status) y y) := by
  unfold saveOrder at h
  cases hr : saveQueue g (fuelFor status) q { status := status, out := [] } with
  | ok s => simp [hr] at h
  | error e' =>
    simp [hr] at h; subst h
    obtain ⟨h1, h2, h3⟩ := saveQueue_err g _ q _ e' (by simp [fuelFor]) hr
    exact ⟨h1, fun y hy => ⟨(h2 y hy).1, (h2 y hy).2.1⟩, h3⟩

/-- The recursion of `_save_` / `_save_principal_objects_` terminates: the fuel `number of objects + 1` is never
    exhausted, whatever the graph (the `dependent_objects` check stops every descent after at most that many levels). -/
theorem C16_terminates (status : List Status) (g : Graph) (q : List (Option Nat)) :
    saveOrder status g q ≠ .error .outOfFuel := by
  intro h; exact (saveOrder_err h).1 rfl

/-- on a well-formed queue the only possible failure is `UnresolvableCyclicDependency` -/
theorem C16_only_cycle_error (status : List Status) (g : Graph) (q : List (Option Nat)) (e : Err)
    (hq : QueueWellFormed status q) (h : saveOrder status g q = .error e) : ∃ c, e = .cycle c := by
  obtain ⟨h1, h2, _⟩ := saveOrder_err h
  cases e with
  | cycle c => exact ⟨c, rfl⟩
  | badStatus y => exact absurd (hq y (h2 y rfl).1) (h2 y rfl).2
  | outOfFuel => exact absurd rfl h1

/-! ### (2) cycles -/

/-- soundness of the error: when the flush raises `UnresolvableCyclicDependency`, the unsaved objects really contain a
    reference cycle (every object on it is `created`) -/
theorem C16_cycle_sound (status : List Status) (g : Graph) (q : List (Option Nat)) (c : List Nat)
    (h : saveOrder status g q = .error (.cycle c)) :
    ∃ y, statusOf status y = .created ∧ Relation.TransGen (Edge g status) y y := by
  obtain ⟨y, p⟩ := (saveOrder_err h).2.2 c rfl
  refine ⟨y, ?_, p⟩
  cases p with
  | single e => obtain ⟨_, _, _, hc⟩ := e; exact hc
  | tail _ e => obtain ⟨_, _, _, hc⟩ := e; exact hc

private theorem idx_before {ws : List Write} (hn : ws.Nodup) {a b : Write} (h : Before a b ws) :
    List.idxOf a ws < List.idxOf b ws := by
  obtain ⟨l1, l2, l3, rfl⟩ := h
  have ha1 : a ∉ l1 := by
    intro ha
    have := (List.nodup_append.mp (List.nodup_append.mp hn).1).2.2 a ha a (by simp)
    exact this rfl
  have hb : b ∉ l1 ++ a :: l2 := by
    intro hb
    have := (List.nodup_append.mp hn).2.2 b hb b (by simp)
    exact this rfl
  have h1 : List.idxOf a (l1 ++ a :: l2 ++ b :: l3) = l1.length := by
    rw [List.append_assoc, List.idxOf_append]; simp [ha1]
  have h2 : List.idxOf b (l1 ++ a :: l2 ++ b :: l3) = (l1 ++ a :: l2).length := by
    rw [List.idxOf_append]; simp only [hb, if_false, List.idxOf_cons_self]; omega
  rw [h1, h2]; simp

/-- completeness: a reference cycle among unsaved objects that can be reached from the queue makes the flush fail -/
theorem C16_cycle_fails (status : List Status) (g : Graph) (q : List (Option Nat)) (x y : Nat)
    (hx : some x ∈ q) (hreach : x = y ∨ Relation.TransGen (Edge g status) x y)
    (hcyc : Relation.TransGen (Edge g status) y y) : ∀ ws, saveOrder status g q ≠ .ok ws := by
  intro ws h
  obtain ⟨T, hq⟩ := saveOrder_ok h
  have hn := T.nodup
  -- along a path whose start is written, the index strictly decreases and the end is written
  have step : ∀ a b, Relation.TransGen (Edge g status) a b → stmt status a ∈ ws →
      stmt status b ∈ ws ∧ List.idxOf (stmt status b) ws < List.idxOf (stmt status a) ws := by
    intro a b p
    induction p with
    | @single b e =>
      intro ha
      have hb := C16_topological status g q ws h a b e ha
      have hcb : statusOf status b = .created := by obtain ⟨_, _, _, hc⟩ := e; exact hc
      have hsb : stmt status b = .insert b := by simp [stmt, hcb, stmtOf]
      rw [hsb]
      refine ⟨?_, idx_before hn hb⟩
      obtain ⟨l1, l2, l3, rfl⟩ := hb; simp
    | @tail b c _ e ih =>
      intro ha
      obtain ⟨hb, hlt⟩ := ih ha
      have hc := C16_topological status g q ws h b c e hb
      have hcc : statusOf status c = .created := by obtain ⟨_, _, _, hc⟩ := e; exact hc
      have hsc : stmt status c = .insert c := by simp [stmt, hcc, stmtOf]
      rw [hsc]
      refine ⟨?_, Nat.lt_trans (idx_before hn hc) hlt⟩
      obtain ⟨l1, l2, l3, rfl⟩ := hc; simp
  have hy : stmt status y ∈ ws := by
    rcases hreach with rfl | p
    · exact (hq x hx).2
    · exact (step x y p (hq x hx).2).1
  exact Nat.lt_irrefl _ (step y y hcyc hy).2

/-- In a live session every created object sits in `objects_to_save`; then the flush raises
    `UnresolvableCyclicDependency` exactly when the unsaved objects contain a reference cycle. -/
theorem C16_cycle_iff (status : List Status) (g : Graph) (q : List (Option Nat))
    (hq : QueueWellFormed status q) (hall : ∀ y, statusOf status y = .created → some y ∈ q) :
    (∃ c, saveOrder status g q = .error (.cycle c)) ↔ ∃ y, Relation.TransGen (Edge g status) y y := by
  constructor
  · rintro ⟨c, h⟩
    obtain ⟨y, _, p⟩ := C16_cycle_sound status g q c h
    exact ⟨y, p⟩
  · rintro ⟨y, p⟩
    have hcy : statusOf status y = .created := by
      cases p with
      | single e => obtain ⟨_, _, _, hc⟩ := e; exact hc
      | tail _ e => obtain ⟨_, _, _, hc⟩ := e; exact hc
    have hfail := C16_cycle_fails status g q y y (hall y hcy) (Or.inl rfl) p
    cases hr : saveOrder status g q with
    | ok ws => exact absurd hr (hfail ws)
    | error e =>
      obtain ⟨c, rfl⟩ := C16_only_cycle_error status g q e hq hr
      exact ⟨c, rfl⟩

/-- the hypotheses of `C16_cycle_iff` are satisfiable with a cycle (two created objects referencing each other through
    attributes, e.g. `A.b = Optional(B)` with its column on `A` and `B.pa = Optional(A)`): the model reports the chain -/
example : saveOrder [.created, .created] [[⟨1, true⟩], [⟨0, true⟩]] [some 0, some 1] = .error (.cycle [0, 1]) := by rfl

/-- ... and a modified object never closes a cycle (its row exists): loaded 0 gets a reference to new 1 which refers back -/
example : saveOrder [.modified, .created] [[⟨1, true⟩], [⟨0, true⟩]] [some 0, some 1] = .ok [.insert 1, .update 0] := by rfl

/-! ### (3) many-to-many link rows -/

/-- the statements of one `SessionCache.flush`: link rows are removed before, and added after, all object writes; the
    object writes in between are exactly what `saveOrder` emits -/
theorem C16_m2m_bracket (ss : Session) (out : List Write) (h : flush ss = .ok out) :
    ∃ mid, out = ss.removed.map (fun p => Write.unlink p.1 p.2) ++ mid ++ ss.added.map (fun p => Write.link p.1 p.2)
      ∧ (∀ w ∈ mid, ∃ x, Pending (statusOf ss.status x) ∧ w = stmt ss.status x)
      ∧ (∀ x, some x ∈ ss.queue → stmt ss.status x ∈ mid)
      ∧ (∀ x y, Edge ss.refs ss.status x y → stmt ss.status x ∈ mid → Before (.insert y) (stmt ss.status x) mid) := by
  unfold flush at h
  simp only at h
  cases hr : saveQueue ss.refs (fuelFor ss.status) ss.queue
      { status := ss.status, out := ss.removed.map (fun p => Write.unlink p.1 p.2) } with
  | error e => simp [hr] at h
  | ok s =>
    simp [hr] at h
    obtain ⟨ws, ho, T, hq⟩ := run_trace (by intro w hw; simp at hw; obtain ⟨a, b, _, rfl⟩ := hw; rfl) hr
    refine ⟨ws, by rw [← h, ho], ?_, fun x hx => (hq x hx).2, ?_⟩
    · intro w hw
      obtain ⟨y, hy, hp, _⟩ := T.writes w hw
      exact ⟨y, hp, hy⟩
    · intro x y hxy hx
      obtain ⟨ws1, ws2, hsplit⟩ := List.append_of_mem hx
      obtain ⟨r, hr, ht, hc⟩ := hxy
      have := T.ordered ws1 _ ws2 hsplit x rfl r hr (ht ▸ hc)
      rw [ht] at this
      obtain ⟨l1, l2, h1⟩ := List.append_of_mem this
      exact ⟨l1, l2, ws2, by rw [hsplit, h1]⟩

/-! ### bridge to the source: the control skeleton re-derived from /repo on every run (Gen/FlushShape.lean) -/

def statusOfName : String → Option Status
  | "created" => some .created
  | "modified" => some .modified
  | "marked_to_delete" => some .markedToDelete
  | "inserted" => some .inserted
  | "updated" => some .updated
  | "deleted" => some .deleted
  | _ => none

/-- the status a writer method leaves, according to the source -/
def sourceSavedOf (name : String) : Option Status :=
  match PonyVerif.Gen.FlushShape.saveDispatch.lookup name with
  | some m => (PonyVerif.Gen.FlushShape.savedStatus.lookup m).bind statusOfName
  | none => none

/-- The skeleton of `SessionCache.flush`, `Entity._save_`, `Entity._save_principal_objects_` extracted from the current
    source is the one the model mirrors:
    (a) inside `flush_disabled`: before-save hooks, `_calc_modified_m2m`, `remove_m2m`, the `_save_` loop over
        `cache.objects_to_save` skipping `None`, `add_m2m` - in this order (`flush = unlinks ++ saveQueue ++ links`);
    (b) `_save_` descends into principals exactly for created / modified objects and dispatches created / modified /
        marked_to_delete to writers that leave the statuses `savedOf` gives;
    (c) the queue bookkeeping after the write is pop-if-last / set-None / `_save_pos_ = None` (`clearSlot`);
    (d) `_save_principal_objects_`: fresh list or cycle test, append, all column attributes of a created object /
        the `_wbits_` ones of a modified object, skip non-relations, recurse into values whose status is 'created'
        (`save`, `saveRefs`, `attrsToCheck`, `inDep`); `dependent_objects` never shrinks. -/
theorem C16_bridge_source_shape :
    PonyVerif.Gen.FlushShape.flushPhases = ["_before_save_", "_calc_modified_m2m", "remove_m2m", "_save_", "add_m2m"]
    ∧ PonyVerif.Gen.FlushShape.saveQueueLoop = ["cache.objects_to_save", "obj is not None"]
    ∧ PonyVerif.Gen.FlushShape.flushEmptiesQueue = true
    ∧ PonyVerif.Gen.FlushShape.savePrincipalFor = ["created", "modified"]
    ∧ (∀ n ∈ ["created", "modified", "marked_to_delete"], sourceSavedOf n = (statusOfName n).map savedOf)
    ∧ PonyVerif.Gen.FlushShape.saveDispatch.map Prod.fst = ["created", "modified", "marked_to_delete"]
    ∧ PonyVerif.Gen.FlushShape.slotTail =
        ["objects_to_save = cache.objects_to_save", "save_pos = obj._save_pos_",
         "if save_pos == len(objects_to_save) - 1: ;     objects_to_save.pop() ; else: ;     objects_to_save[save_pos] = None",
         "obj._save_pos_ = None"]
    ∧ PonyVerif.Gen.FlushShape.principalSteps =
        ["fresh-if:dependent_objects is None => dependent_objects = []",
         "cycle-if:obj in dependent_objects => throw UnresolvableCyclicDependency",
         "dependent_objects.append(obj)",
         "status = obj._status_",
         "attrs-if:status == 'created' => attrs = obj._attrs_with_columns_",
         "attrs-if:status == 'modified' => attrs = obj._attrs_with_bit_(obj._attrs_with_columns_, obj._wbits_)",
         "attrs-else:assert False",
         "for:attr in attrs",
         "  if:not attr.reverse => continue",
         "  val = obj._vals_[attr]",
         "  if:val is not None and val._status_ == 'created' => val._save_(dependent_objects)"]
    ∧ PonyVerif.Gen.FlushShape.dependentObjectsShrinks = false := by
  refine ⟨rfl, rfl, rfl, rfl, ?_, rfl, rfl, rfl, rfl⟩
  intro n hn
  simp at hn
  rcases hn with rfl | rfl | rfl <;> rfl

/-! ### the real queue bookkeeping (slots set to `None` / popped while the list is iterated) -/

/-- `saveOrderS` runs the queue exactly as the code does: `for` by index over the list that `_save_` mutates
    (`objects_to_save[save_pos] = None`, `pop()` for the last slot, `_save_pos_ = None`).  Whenever slots and
    `_save_pos_` values agree when the flush starts (`PosInv`; no other assumption on statuses, graph or queue),
    it emits exactly the statements of `saveOrder`, or fails with the same error: every theorem of this file about
    `saveOrder` holds for the real bookkeeping. -/
theorem C16_slots_refine (status : List Status) (g : Graph) (qs : Slots) (hinv : PosInv qs) :
    (saveOrderS status g qs).map Prod.fst = saveOrder status g qs.queue := by
  have R : SlotRel qs.queue 0 ({ status := status, out := [] }, qs) :=
    ⟨hinv, Nat.le_refl _, fun j x _ => by simp [written]⟩
  have h := loopS_refines g (fuelFor status) qs.queue qs.queue.length 0 _ R (by simp)
  simp only [List.drop_zero] at h
  unfold saveOrderS saveOrder
  rw [← h]
  cases loopS g (fuelFor status) qs.queue.length 0 ({ status := status, out := [] }, qs) with
  | error e => rfl
  | ok r => rfl

/-- the queue [3, hole, 0, 1, 2] with positions; 0 → 1 → 2: saving 3 first saves 0, 1, 2 through the recursion; their
    slots are at the end and are popped one after the other, slot 0 is set to `None`; the loop ends on the shortened list; statements and final bookkeeping: -/
example : saveOrderS [.created, .created, .created, .modified] [[⟨1, true⟩], [⟨2, true⟩], [], [⟨0, true⟩]]
      { queue := [some 3, none, some 0, some 1, some 2], pos := [some 2, some 3, some 4, some 0] }
    = .ok ([.insert 2, .insert 1, .insert 0, .update 3], { queue := [none, none], pos := [none, none, none, none] }) := by rfl

example : PosInv { queue := [some 3, none, some 0, some 1, some 2], pos := [some 2, some 3, some 4, some 0] } := by
  constructor
  · intro x p h
    match x with
    | 0 | 1 | 2 | 3 => simp [posOf] at h; subst h; rfl
    | x + 4 => simp [posOf] at h
  · intro j x h
    match j with
    | 0 | 2 | 3 | 4 => simp [Holds] at h; subst h; rfl
    | 1 => simp [Holds] at h
    | j + 5 => simp [Holds] at h

/-! ### second clause: a failing flush commits nothing; a successful one commits everything at once -/

private theorem execAll_immediate : ∀ (ws : List Write) (c : Conn), c.immediate = true →
    (execAll c ws).committed = c.committed ∧ (execAll c ws).pending = c.pending ++ ws
      ∧ (execAll c ws).immediate = true ∧ (execAll c ws).inTxn = (c.inTxn || !ws.isEmpty) := by
  intro ws
  induction ws with
  | nil => intro c h; simp [execAll, h]
  | cons w ws ih =>
    intro c h
    have hs : execStmt c w = { c with immediate := true, inTxn := true, pending := c.pending ++ [w] } := by
      simp [execStmt, h]
    have := ih (execStmt c w) (by rw [hs])
    simp only [execAll, List.foldl_cons] at this ⊢
    rw [hs] at this ⊢
    simpa using this

/-- No statement of a flush is executed outside a transaction: whatever the connection state (transaction open or
    not, `immediate` set or not) and whatever statements the flush sends - link-table statements first included - the
    durable state does not change before a commit. -/
theorem C16_flush_statements_in_transaction (c : Conn) (ws : List Write) :
    (flushConn true c ws).committed = c.committed ∧ (flushConn true c ws).pending = c.pending ++ ws := by
  have h := execAll_immediate ws { c with immediate := c.immediate || true } (by simp)
  simp only at h
  unfold flushConn
  simp only
  generalize execAll { c with immediate := c.immediate || true } ws = c1 at h
  by_cases hi : c1.inTxn = true <;> simp [hi, h.1, h.2.1]

/-- "When the references form a cycle that cannot be ordered, flush raises an error and the session's writes are not
    committed": for every connection state, every session and every list of statements executed before the raise,
    `flush_and_commit` with a failing flush re-raises the error and leaves the database exactly as it was; nothing stays
    pending. (With `C16_cycle_iff`: this is what happens exactly when the created objects contain a cycle.) -/
theorem C16_failed_flush_commits_nothing (c : Conn) (ss : Session) (executed : List Write) (e : Err)
    (h : flush ss = .error e) :
    (flushAndCommit c ss executed).2 = .error e
    ∧ (flushAndCommit c ss executed).1.committed = c.committed
    ∧ (flushAndCommit c ss executed).1.pending = []
    ∧ (flushAndCommit c ss executed).1.inTxn = false := by
  have hk := (C16_flush_statements_in_transaction c executed).1
  refine ⟨?_, ?_, ?_, ?_⟩ <;> simp [flushAndCommit, h, rollbackConn, hk]

/-- a successful flush + commit makes the earlier uncommitted statements of the session and the whole statement list of
    the flush durable together (`c.inTxn = false → c.pending = []` is the only assumption: nothing is pending without a
    transaction) -/
theorem C16_commit_applies_flush_atomically (c : Conn) (ss : Session) (executed ws : List Write)
    (hc : c.inTxn = false → c.pending = []) (h : flush ss = .ok ws) :
    (flushAndCommit c ss executed).2 = .ok ()
    ∧ (flushAndCommit c ss executed).1.committed = c.committed ++ c.pending ++ ws
    ∧ (flushAndCommit c ss executed).1.inTxn = false := by
  have hx := execAll_immediate ws { c with immediate := c.immediate || true } (by simp)
  simp only at hx
  have goal : (commitConn (flushConn true c ws)).committed = c.committed ++ c.pending ++ ws := by
    unfold commitConn flushConn
    simp only
    generalize execAll { c with immediate := c.immediate || true } ws = c1 at hx
    obtain ⟨h1, h2, _, h4⟩ := hx
    by_cases hi : c1.inTxn = true
    · simp [hi, h1, h2, List.append_assoc]
    · have hi' : c1.inTxn = false := by simpa using hi
      rw [hi'] at h4
      have h5 : c.inTxn = false ∧ ws.isEmpty = true := by
        cases hc' : c.inTxn <;> cases hw : ws.isEmpty <;> simp [hc', hw] at h4 ⊢
      have hws : ws = [] := by simpa using h5.2
      simp [hi', h1, hc h5.1, hws]
  refine ⟨?_, ?_, ?_⟩
  · simp [flushAndCommit, h]
  · simp only [flushAndCommit, h]; exact goal
  · simp [flushAndCommit, h, commitConn]

/-- the line `cache.immediate = True` of `SessionCache.flush` is what the clause rests on: without it, in an optimistic
    session with no transaction open, a flush that starts with a link-table statement (which passes no
    `start_transaction`) makes that statement durable although the flush then fails and the session is rolled back -/
theorem C16_immediate_line_needed :
    ∃ (c : Conn) (ws : List Write), (rollbackConn (flushConn false c ws)).committed ≠ c.committed :=
  ⟨{ inTxn := false, immediate := false, committed := [], pending := [] }, [.unlink 1 2, .insert 3], by decide⟩

/-- the `start_transaction` argument of the writer that emits a statement, according to the source -/
def sourceStartFlag (w : Write) : Option Bool :=
  let writer := match w with
    | .insert _ => "_save_created_" | .update _ => "_save_updated_" | .delete _ => "_save_deleted_"
    | .unlink _ _ => "remove_m2m" | .link _ _ => "add_m2m"
  match PonyVerif.Gen.FlushShape.startTransactionArgs.lookup writer with
  | some "True" => some true
  | some "absent" => some false
  | _ => none

/-- The transaction skeleton extracted from the current source is the one `execStmt` / `flushConn` / `commitConn` /
    `flushAndCommit` mirror: `flush` saves and sets `cache.immediate` before anything else and restores it only when no
    transaction was opened; `_exec_sql` raises the flag for `start_transaction`, prepares the connection (BEGIN when
    `immediate and not in_transaction`), executes, records `in_transaction`; every writer passes the flag `startFlag` says;
    `flush_and_commit` is try-flush / except-rollback-raise / commit; commit commits an open transaction and sets
    `immediate`; SQLite's `set_transaction_mode` begins a transaction exactly under `cache.immediate`. -/
theorem C16_bridge_transaction_shape :
    PonyVerif.Gen.FlushShape.flushBeforeTry = ["if cache.noflush_counter: ;     return", "prev_immediate = cache.immediate", "cache.immediate = True"]
    ∧ PonyVerif.Gen.FlushShape.flushFinally = ["if not cache.in_transaction: ;     cache.immediate = prev_immediate"]
    ∧ (∀ w : Write, sourceStartFlag w = some (startFlag w))
    ∧ PonyVerif.Gen.FlushShape.execSqlFlagLines = ["if start_transaction: ;     cache.immediate = True", "if cache.immediate: ;     cache.in_transaction = True"]
    ∧ PonyVerif.Gen.FlushShape.execSqlOrder = ["flag", "prepare", "execute", "in_transaction"]
    ∧ PonyVerif.Gen.FlushShape.prepareBeginTests = ["cache.immediate and (not cache.in_transaction)"]
    ∧ PonyVerif.Gen.FlushShape.flushAndCommit =
        ["try: ;     cache.flush() ; except: ;     cache.rollback() ;     raise",
         "try: ;     cache.commit() ; except: ;     transact_reraise(CommitException, [sys.exc_info()])"]
    ∧ PonyVerif.Gen.FlushShape.commitSteps =
        ["if cache.in_transaction: ;     assert cache.connection is not None ;     cache.database.provider.commit(cache.connection, cache)",
         "cache.immediate = True"]
    ∧ PonyVerif.Gen.FlushShape.sqliteBegin = ["cache.immediate", "sql = 'BEGIN IMMEDIATE TRANSACTION'", "cache.in_transaction = True"] := by
  refine ⟨rfl, rfl, ?_, rfl, rfl, rfl, rfl, rfl, rfl⟩
  intro w; cases w <;> rfl

/-! ### the emitted order is accepted by a backend that enforces foreign keys immediately -/

/-- an end of a new link row is either inserted by this flush or a row that stays -/
def LinkEndOk (ss : Session) (rows0 : List Nat) (e : Nat) : Prop :=
  (statusOf ss.status e = .created ∧ some e ∈ ss.queue) ∨ Stable ss.status rows0 e

/-- Session hypotheses (what Pony's object layer maintains): every reference a pending statement carries points to a
    still-unsaved object or to a row that exists (`rows0`) and is not being deleted; same for the ends of new link rows.
    Then the database model with immediate parent-must-exist checks (`applyWrites`) accepts the whole statement list of
    the flush — INSERTs, UPDATEs, link rows — in the emitted order. -/
theorem C16_fk_accepts (ss : Session) (rows0 : List Nat) (out : List Write)
    (hrefs : ∀ x, ∀ r ∈ attrsToCheck ss.refs (statusOf ss.status x) x,
      statusOf ss.status r.target = .created ∨ Stable ss.status rows0 r.target)
    (hlinks : ∀ p ∈ ss.added, LinkEndOk ss rows0 p.1 ∧ LinkEndOk ss rows0 p.2)
    (h : flush ss = .ok out) : (applyWrites ss.refs rows0 out).isSome = true := by
  unfold flush at h
  simp only at h
  cases hr : saveQueue ss.refs (fuelFor ss.status) ss.queue
      { status := ss.status, out := ss.removed.map (fun p => Write.unlink p.1 p.2) } with
  | error e => simp [hr] at h
  | ok s =>
    simp [hr] at h
    obtain ⟨ws, ho, T, hq⟩ := run_trace (by intro w hw; simp at hw; obtain ⟨a, b, _, rfl⟩ := hw; rfl) hr
    obtain ⟨rows', hrows, hinv⟩ := applyWrites_trace (rows0 := rows0) T hrefs ws [] rows0 (by simp)
      (by intro y hy; rcases hy with hy | hy
          · exact hy.1
          · simp at hy)
    have hends : ∀ e, LinkEndOk ss rows0 e → e ∈ rows' := by
      intro e he
      rcases he with ⟨hc, hqe⟩ | hs
      · apply hinv e; right
        have := (hq e hqe).2
        rw [hc] at this; exact this
      · exact hinv e (Or.inl hs)
    rw [← h, ho, applyWrites_append, applyWrites_append, applyWrites_unlinks]
    simp only [Option.bind_some, hrows]
    rw [applyWrites_links _ _ _ (fun p hp => ⟨hends _ (hlinks p hp).1, hends _ (hlinks p hp).2⟩)]
    rfl

/-- the hypotheses are satisfiable: new 0 refers to new 1 and to the existing row 3; existing row 2 is deleted;
    a link row between 0 and 3 is added, one between 2 and 3 removed -/
example : (applyWrites [[⟨1, true⟩, ⟨3, true⟩], [], [], []] [2, 3]
    [.unlink 2 3, .insert 1, .insert 0, .delete 2, .link 0 3]).isSome = true := by rfl

/-- the same statements with the two INSERTs swapped are refused by the database model -/
example : (applyWrites [[⟨1, true⟩, ⟨3, true⟩], [], [], []] [2, 3]
    [.unlink 2 3, .insert 0, .insert 1, .delete 2, .link 0 3]).isSome = false := by rfl

example : flush { status := [.created, .other, .markedToDelete], refs := [[⟨1, true⟩], [], []], queue := [some 0, none, some 2],
                  removed := [(2, 1)], added := [(0, 1)] }
    = .ok [.unlink 2 1, .insert 0, .delete 2, .link 0 1] := by rfl

/-! ### the order `Entity._delete_` produces (Model/DeleteQueue.lean over property C15's Model/Cascade.lean) -/

section DeleteOrder
open PonyVerif.Model.Cascade PonyVerif.Model.DeleteQueue

/-- The queue-instrumented `_delete_` IS the `_delete_` of Model/Cascade.lean (which property C15 ties to the real code)
    once the order is forgotten: same store, same error, for every schema, class table, store, fuel and call stack. -/
theorem C16_delete_queue_refines_cascade (sch : Schema) (ct : ClassTable) (guard : Bool) (fuel : Nat) (P : List ObjId)
    (o : ObjId) (q : Q) : er (deleteQ sch ct guard fuel P o q) = delete sch ct guard fuel P o q.store :=
  deleteQ_erase sch ct guard fuel P o q

/-- Every successful `obj._delete_()` appends to the queue exactly the objects it kills - each one once, all of them
    alive before and dead after, nothing else, and never an object that was already dead: no deletion is queued twice
    (the defect fixed by fixes/C16-delete-self-member-double-queued.diff cannot come back in the model). -/
theorem C16_delete_queues_each_object_once (sch : Schema) (ct : ClassTable) (guard : Bool) (fuel : Nat) (P : List ObjId)
    (o : ObjId) (q q' : Q) (h : deleteQ sch ct guard fuel P o q = .ok q') :
    ∃ mid, q'.order = q.order ++ mid ∧ mid.Nodup
      ∧ (∀ x, x ∈ mid ↔ (q.store.alive x = true ∧ q'.store.alive x = false))
      ∧ (∀ x, q.store.alive x = false → q'.store.alive x = false) := by
  obtain ⟨mid, e⟩ := deleteQ_ext sch ct guard fuel P o q q' h
  refine ⟨mid, e.order_eq, e.nodup, ?_, ?_⟩
  · intro x
    constructor
    · intro hx; exact ⟨e.were_alive x hx, by rw [e.alive_eq]; simp [hx]⟩
    · rintro ⟨h1, h2⟩
      rw [e.alive_eq, h1] at h2
      simpa using h2
  · intro x hx; rw [e.alive_eq, hx]; rfl

/-! the two recorded delete-order findings as theorems about the combined model (death order of `_delete_` ->
    DELETE statements in that order (`C16_deletes_in_queue_order`) -> the committed rows under the ON DELETE clauses) -/

/-- FULL statement for Pony's own schema: for every well-formed session and every sequence of `obj.delete()` calls, the
    DELETE statements in death order are accepted under the ON DELETE clauses Pony declares -/
def C16_delete_order_accepted_full : Prop :=
  ∀ (sch : Schema) (s : Store) (dels : List ObjId), checkAgree sch s = true → checkNoDangling sch s = true →
    (execDeletes sch (commit sch s) (deleteAllQ sch sch.classTable false dels ⟨s, []⟩).1.order).isSome = true

/-- E1.r0 = Required(E0) (column) <-> E0.s0 = Optional(E1);  E0.r1 = Optional(E1) (column) <-> E1.s1 = Optional(E0, cascade_delete=True) -/
def cycSchema : Schema :=
  [{ a := ⟨1, false, true, false, true⟩, b := ⟨0, false, false, false, false⟩, sym := false },
   { a := ⟨0, false, false, false, true⟩, b := ⟨1, false, false, true, false⟩, sym := false }]

/-- a = E0() [object 0], b = E1(r0=a, s1=a) [object 1] -/
def cycStore : Store where
  n := 2
  ent o := o
  alive o := decide (o < 2)
  ref o a := if o = 1 ∧ a = ⟨0, false⟩ then some 0 else if o = 0 ∧ a = ⟨0, true⟩ then some 1
             else if o = 0 ∧ a = ⟨1, false⟩ then some 1 else if o = 1 ∧ a = ⟨1, true⟩ then some 0 else none
  mem _ _ _ := false

/-- known finding `pony-schema:DELETE-refused:reference-cycle-between-deleted-rows:...` (C15:
    commit-failed:required-reference-inside-cascade-closure): `b.delete()` queues the cascade target `a` first, and
    `DELETE a` is refused although `DELETE b` first would be accepted.  The engine replays this witness on the real code on
    every run (corpus pony-schema-delete-cycle-known.json). -/
theorem C16_delete_order_accepted_full_false : ¬ C16_delete_order_accepted_full := by
  intro h
  have := h cycSchema cycStore [1] (by decide) (by decide)
  revert this
  decide

example : (deleteAllQ cycSchema cycSchema.classTable false [1] ⟨cycStore, []⟩).1.order = [0, 1] := by decide
example : (execDeletes cycSchema (commit cycSchema cycStore) [1, 0]).isSome = true := by decide

/-- FULL statement for a schema without ON DELETE clauses (plain immediate foreign keys) -/
def C16_strict_delete_order_accepted_full : Prop :=
  ∀ (sch : Schema) (s : Store) (dels : List ObjId), checkAgree sch s = true → checkNoDangling sch s = true →
    (execDeletesStrict sch (commit sch s) (deleteAllQ sch sch.classTable false dels ⟨s, []⟩).1.order).isSome = true

/-- B.a = Optional(A) (column) <-> A.bs = Set(B) -/
def optSchema : Schema := [{ a := ⟨1, false, false, false, true⟩, b := ⟨0, true, false, false, false⟩, sym := false }]

/-- a = A() [object 0], b = B(a=a) [object 1] -/
def optStore : Store where
  n := 2
  ent o := o
  alive o := decide (o < 2)
  ref o a := if o = 1 ∧ a = ⟨0, false⟩ then some 0 else none
  mem o a x := decide (o = 0 ∧ a = ⟨0, true⟩ ∧ x = 1)

/-- known finding `strict-schema:DELETE-refused:delete-order-relies-on-ON-DELETE`: `a.delete(); b.delete()` queues a
    before b (b's pending `UPDATE ... SET a = NULL` is cancelled by its own deletion); a schema without ON DELETE SET
    NULL refuses `DELETE a`.  Replayed on the real code on every run (corpus strict-delete-order-known.json). -/
theorem C16_strict_delete_order_accepted_full_false : ¬ C16_strict_delete_order_accepted_full := by
  intro h
  have := h optSchema optStore [0, 1] (by decide) (by decide)
  revert this
  decide

/-- ... while Pony's own DDL (ON DELETE SET NULL on B.a) accepts the same order -/
example : (execDeletes optSchema (commit optSchema optStore) (deleteAllQ optSchema optSchema.classTable false [0, 1] ⟨optStore, []⟩).1.order).isSome = true := by
  decide

end DeleteOrder

end PonyVerif.Props.C16
