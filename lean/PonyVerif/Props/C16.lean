/-
  C16 — flush emits writes in an order the database accepts.  (thin first version)
-/
import PonyVerif.Model.SaveOrder
namespace PonyVerif.Props.C16
open PonyVerif.Model.SaveOrder

/-- many-to-many link rows are removed before and added after all object writes -/
theorem C16_m2m_bracket (ss : Session) (ws : List Write) (h : flush ss = .ok ws) :
    ∃ mid, ws = ss.removed.map (fun p => Write.unlink p.1 p.2) ++ mid ++ ss.added.map (fun p => Write.link p.1 p.2) := by
  sorry
end PonyVerif.Props.C16
