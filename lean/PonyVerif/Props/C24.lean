/-
  C24 — query methods agree with list semantics of the full ordered result.
  Property theorems only.  `Gen.*` are regenerated from /repo on every run; the bridge theorems are the
  obligations that break when `combine_limit_and_offset`, `Query.__getitem__` or `Query.page` change.
-/
import PonyVerif.Gen.Limit
import PonyVerif.Gen.QueryShape
import PonyVerif.Py.Lemmas
import PonyVerif.Lemmas.Limit
import PonyVerif.Lemmas.Aggr
import PonyVerif.Model.QResult
namespace PonyVerif.Props.C24
open PonyVerif.Py PonyVerif.Gen PonyVerif.Model.Limit PonyVerif.Model.Aggr

/-- encoding of an optional non-negative integer as a Python value -/
def encN : Option Nat → PyVal
  | none => .none
  | some n => .int n

def encPair (p : Option Nat × Option Nat) : PyVal := .list [encN p.1, encN p.2]

/-- the keyword-argument call `_fetch` receives for a (limit, offset) computed by `__getitem__` -/
def fetchCall (start stop : Option Nat) : PyVal :=
  let s := start.getD 0
  match stop with
  | none => if s = 0 then .call "query._fetch" []
            else .call "query._fetch" [.list [.str "limit", .none], .list [.str "offset", .int s]]
  | some e => if s ≥ e then .call "query._fetch" [.list [.str "limit", .int 0]]
              else .call "query._fetch" [.list [.str "limit", .int (e - s : Nat)], .list [.str "offset", .int s]]

/-! ### bridges: the generated definitions compute the typed mirrors -/

theorem C24_bridge_combine (l o l2 o2 : Option Nat) :
    combineLimitAndOffset (encN l) (encN o) (encN l2) (encN o2) = .ok (encPair (combineT l o l2 o2)) := by
  cases l <;> cases o <;> cases l2 <;> cases o2 <;>
    simp [combineLimitAndOffset, combineT, encN, encPair, bind, Except.bind, pure, Except.pure] <;>
    (repeat' split) <;> (try simp_all) <;> (try omega)

/-- the (limit, offset) denoted by the call `__getitem__` makes -/
def fetchArgs : PyVal → Option (Option Nat × Option Nat)
  | .call "query._fetch" [] => some (none, none)
  | .call "query._fetch" [.list [.str "limit", .none], .list [.str "offset", .int s]] => some (none, some s.toNat)
  | .call "query._fetch" [.list [.str "limit", .int l]] => some (some l.toNat, none)
  | .call "query._fetch" [.list [.str "limit", .int l], .list [.str "offset", .int s]] => some (some l.toNat, some s.toNat)
  | _ => none

theorem C24_bridge_getitem (step : PyVal) (hstep : step = .none ∨ step = .int 1) (start stop : Option Nat) :
    queryGetitem (.bool true) step (encN start) (encN stop) = .ok (fetchCall start stop) := by
  rcases hstep with rfl | rfl <;> cases start <;> cases stop <;>
    simp [queryGetitem, fetchCall, encN, bind, Except.bind, pure, Except.pure] <;>
    (repeat' split) <;> (try simp_all) <;> (try omega)

theorem C24_fetchCall_args (start stop : Option Nat) : fetchArgs (fetchCall start stop) = some (getitemT start stop) := by
  cases start <;> cases stop <;> simp [fetchCall, getitemT] <;> (repeat' split) <;> simp_all [fetchArgs] <;> omega

theorem C24_bridge_page (n k : Nat) (hn : 1 ≤ n) :
    queryPage (.int n) (.int k) = .ok (.call "query._fetch" [.int k, .int ((n - 1) * k : Nat), .list [.str "lazy", .bool true]]) := by
  have h : ((n - 1 : Nat) : Int) = (n : Int) - 1 := by omega
  simp [queryPage, bind, Except.bind, pure, Except.pure, h]

/-! ### list semantics -/

/-- composing two LIMIT/OFFSET windows (a limited subquery iterated by a limited query, or `limit` after `limit`)
    is the window Pony computes with `combine_limit_and_offset` — for every result list and all bounds. -/
theorem C24_combine (R : List α) (l1 o1 l2 o2 : Option Nat) :
    window (combineT l1 o1 l2 o2) R = window (l2, o2) (window (l1, o1) R) := by
  apply List.ext_getElem?; intro i
  unfold combineT
  simp only [window_getElem?]
  cases l1 <;> cases o1 <;> cases l2 <;> cases o2 <;> simp <;> (repeat' split) <;> (try simp_all [Nat.add_assoc]) <;> (try omega)

/-- `q[a:b]` returns Python's `R[a:b]` for all non-negative bounds. -/
theorem C24_getitem (R : List α) (a b : Option Nat) : window (getitemT a b) R = pySlice R a b := by
  apply List.ext_getElem?; intro i
  unfold getitemT
  cases a <;> cases b <;> simp <;> (repeat' split) <;> simp_all [window_getElem?, pySlice_getElem?] <;>
    (repeat' split) <;> (try simp_all) <;> (try omega)

/-- `q.page(n, k)` returns `R[(n-1)*k : n*k]` for every page number ≥ 1. -/
theorem C24_page (R : List α) (n k : Nat) (hn : 1 ≤ n) :
    window (pageT n k) R = pySlice R (some ((n - 1) * k)) (some (n * k)) := by
  apply List.ext_getElem?; intro i
  obtain ⟨m, rfl⟩ : ∃ m, n = m + 1 := ⟨n - 1, by omega⟩
  simp [pageT, window_getElem?, pySlice_getElem?, Nat.add_mul]

theorem C24_get (R : List α) : getViaLimit R = getSpec R := by
  match R with
  | [] => rfl
  | [x] => rfl
  | x :: y :: rest => simp [getViaLimit, getSpec, window]

theorem C24_exists (R : List α) : existsViaLimit R = !R.isEmpty := by
  cases R <;> simp [existsViaLimit, window]

theorem C24_first (R : List α) : firstViaLimit R = R.head? := by
  cases R <;> simp [firstViaLimit, window]

/-- ordering a result (any comparison function, merge sort) only permutes it. -/
theorem C24_order_permutes (R : List α) (le : α → α → Bool) : (R.mergeSort le).Perm R :=
  List.mergeSort_perm R le


/-! ### aggregates, DISTINCT, first(), bulk delete — list semantics of the full result `R` / the projected column -/

/-- `distinct()` returns every value of the result exactly once (set semantics), and is the identity on a result without duplicates. -/
theorem C24_distinct (col : List Int) :
    (dedup col).Nodup ∧ (∀ x, x ∈ dedup col ↔ x ∈ col) ∧ (col.Nodup → dedup col = col) :=
  ⟨nodup_dedup col, mem_dedup col, dedup_of_nodup col⟩

/-- `distinct()` is idempotent. -/
theorem C24_distinct_idem (col : List Int) : dedup (dedup col) = dedup col :=
  dedup_of_nodup _ (nodup_dedup col)

/-- `count(distinct=False)` is Python's `len` of the non-missing values; `count()` / `count(distinct=True)` on a scalar
    projection is `len(set(...))`; the three flags are told apart exactly by the default `None ↦ True`. -/
theorem C24_count (col : List (Option Int)) :
    ponyCount col (some false) = (nonNull col).length ∧
    ponyCount col (some true) = (dedup (nonNull col)).length ∧
    ponyCount col none = ponyCount col (some true) := by
  simp [ponyCount, sqlCount, operand]

/-- the default and the explicit `distinct=False` count differ as soon as a value repeats (so they must not share a cache entry). -/
theorem C24_count_flags_differ (col : List (Option Int)) (h : ¬ (nonNull col).Nodup) :
    ponyCount col none < ponyCount col (some false) := by
  simp only [ponyCount, sqlCount, operand, Option.getD]
  simp
  have hsub : ∀ l : List Int, (dedup l).length ≤ l.length := by
    intro l; induction l with
    | nil => simp [dedup]
    | cons y ys ih => unfold dedup; split <;> simp <;> omega
  have hlt : ∀ l : List Int, ¬ l.Nodup → (dedup l).length < l.length := by
    intro l; induction l with
    | nil => intro h; simp at h
    | cons y ys ih =>
      intro hn
      unfold dedup
      split
      · have := hsub ys; simp; omega
      · rename_i hy
        have : ¬ ys.Nodup := by
          intro hys; exact hn (List.nodup_cons.mpr ⟨fun hm => hy ((mem_dedup ys y).mpr hm), hys⟩)
        have := ih this; simp; omega
  exact hlt _ h

/-- `sum()` is Python's `sum` over the non-missing values (0 for none); with `distinct=True` over the set of values. -/
theorem C24_sum (col : List (Option Int)) :
    ponySum col false = (nonNull col).sum ∧ ponySum col true = (dedup (nonNull col)).sum := by
  constructor <;> (simp only [ponySum, sqlSum, operand]; split <;> simp_all)

/-- `min()` / `max()` are Python's `min` / `max` over the non-missing values, `None` when there is none. -/
theorem C24_min_max (col : List (Option Int)) :
    (sqlMin col = none ↔ nonNull col = []) ∧ (sqlMax col = none ↔ nonNull col = []) ∧
    (∀ m, sqlMin col = some m → m ∈ nonNull col ∧ ∀ x ∈ nonNull col, m ≤ x) ∧
    (∀ m, sqlMax col = some m → m ∈ nonNull col ∧ ∀ x ∈ nonNull col, x ≤ m) := by
  refine ⟨by simp [sqlMin], by simp [sqlMax], ?_, ?_⟩
  · intro m h
    exact List.min?_eq_some_iff.mp (by simpa [sqlMin] using h)
  · intro m h
    exact List.max?_eq_some_iff.mp (by simpa [sqlMax] using h)

/-- `first()` returns the first element of the ordered result, `None` for an empty one. -/
theorem C24_first_ordered (R : List α) (le : α → α → Bool) : firstOrdered R le = (R.mergeSort le).head? := by
  unfold firstOrdered; cases R.mergeSort le <;> simp

/-- bulk delete removes exactly the rows the query selects, keeps all others (in order), and reports how many it removed. -/
theorem C24_bulk_delete (rows : List α) (sel : α → Bool) :
    (∀ r, r ∈ (bulkDelete rows sel).1 ↔ (r ∈ rows ∧ sel r = false)) ∧
    (bulkDelete rows sel).2 + (bulkDelete rows sel).1.length = rows.length := by
  constructor
  · intro r; simp [bulkDelete]
  · simp only [bulkDelete]
    induction rows with
    | nil => simp
    | cons x xs ih => cases h : sel x <;> simp [List.filter, h] <;> omega

example : ponyCount [some 3, none, some 3, some 5] none = 2 ∧ ponyCount [some 3, none, some 3, some 5] (some false) = 3 := by decide
example : ponySum [some 3, none, some 3] true = 3 ∧ ponySum [none] false = 0 := by decide

/-! ### avg, group_concat, random(), chained filter / order_by -/

/-- `avg()` is `None` exactly when there is no non-missing value; otherwise it is the quotient of Python's `sum` and `len`
    of the operand (the non-missing values, or their set with `distinct=True`), and the divisor is never 0. -/
theorem C24_avg (col : List (Option Int)) (d : Bool) :
    (sqlAvg col d = none ↔ operand col d = []) ∧
    (∀ s n, sqlAvg col d = some (s, n) → s = (operand col d).sum ∧ n = (operand col d).length ∧ 0 < n) := by
  unfold sqlAvg
  cases hl : operand col d with
  | nil => simp
  | cons x xs =>
    simp only [reduceCtorEq, true_and, Option.some.injEq, Prod.mk.injEq]
    intro s n h
    refine ⟨h.1.symm, h.2.symm, ?_⟩
    have := h.2; simp at this; omega

/-- `group_concat(sep)` is `None` for no non-missing value, else `sep.join` of the non-missing values in result order. -/
theorem C24_group_concat (col : List (Option String)) (sep : String) :
    (groupConcat col sep = none ↔ col.filterMap id = []) ∧
    (col.filterMap id ≠ [] → groupConcat col sep = some (sep.intercalate (col.filterMap id))) := by
  unfold groupConcat
  cases hl : col.filterMap id with
  | nil => simp
  | cons x xs => simp

/-- `random(n)`: a list is an acceptable outcome exactly when it is the first `n` rows of some permutation of the
    full result — i.e. `min n |R|` rows drawn without replacement. -/
theorem C24_random (R res : List Int) (n : Nat) :
    isSample R res n = true ↔ ∃ p : List Int, p.Perm R ∧ res = p.take n := by
  simp only [isSample, Bool.and_eq_true, beq_iff_eq, subBag_iff]
  constructor
  · rintro ⟨hlen, rest, hp⟩
    refine ⟨res ++ rest, hp, ?_⟩
    have hl : res.length + rest.length = R.length := by simpa using hp.length_eq
    by_cases hn : n ≤ R.length
    · have : res.length = n := by omega
      rw [← this]; simp
    · have h1 : res.length = R.length := by omega
      have : rest = [] := List.eq_nil_of_length_eq_zero (by omega)
      subst this
      simp only [List.append_nil]
      exact (List.take_of_length_le (by omega)).symm
  · rintro ⟨p, hp, rfl⟩
    refine ⟨by simp [hp.length_eq], p.drop n, ?_⟩
    simpa using hp

/-- chained `filter`/`where` calls select what the conjunction selects, in the same order. -/
theorem C24_filter_chain (R : List α) (p q : α → Bool) :
    (R.filter p).filter q = R.filter (fun x => p x && q x) := by
  simp [List.filter_filter, Bool.and_comm]

/-- `q.order_by(a).order_by(b)` (the newer criterion is PREPENDED by Pony) returns a permutation of the result that is
    sorted by `b` and, among rows with equal `b`, by `a` — the SQL meaning of `ORDER BY b, a`, and Python's
    `sorted(sorted(R, key=a), key=b)`. -/
theorem C24_order_chain (R : List α) (a b : α → Int) :
    (orderChain R a b).Perm R ∧ LexSorted a b (orderChain R a b) := by
  unfold orderChain LexSorted
  refine ⟨(List.mergeSort_perm _ _).trans (List.mergeSort_perm _ _), ?_⟩
  let T := R.mergeSort (byKey a)
  let S := T.mergeSort (byKey b)
  have hT : T.Pairwise (fun x y => byKey a x y = true) := List.pairwise_mergeSort (byKey_trans a) (byKey_total a) R
  have hS : S.Pairwise (fun x y => byKey b x y = true) := List.pairwise_mergeSort (byKey_trans b) (byKey_total b) T
  have hperm : S.Perm T := List.mergeSort_perm T (byKey b)
  -- every class of rows with equal `b` keeps the order it had in `T`
  have hclass : ∀ v : Int, S.filter (fun x => b x == v) = T.filter (fun x => b x == v) := by
    intro v
    let pv : α → Bool := fun x => b x == v
    have hsub : List.Sublist (T.filter pv) T := List.filter_sublist
    have hpw : (T.filter pv).Pairwise (fun x y => byKey b x y = true) :=
      pairwise_of_all_eq (v := v) (fun x hx => by simpa [pv] using (List.mem_filter.mp hx).2)
    have h1 : List.Sublist (T.filter pv) S := List.sublist_mergeSort (byKey_trans b) (byKey_total b) hpw hsub
    have h2 : List.Sublist (T.filter pv) (S.filter pv) := by
      have := h1.filter pv
      simpa [List.filter_filter] using this
    have hlen : (S.filter pv).length = (T.filter pv).length := (hperm.filter pv).length_eq
    exact (h2.eq_of_length hlen.symm).symm
  rw [List.pairwise_iff_forall_sublist]
  intro x y hxy
  have hb : b x ≤ b y := by
    have := (List.pairwise_iff_forall_sublist.mp hS) hxy
    simpa [byKey] using this
  rcases Int.lt_or_eq_of_le hb with hlt | heq
  · exact Or.inl hlt
  · refine Or.inr ⟨heq, ?_⟩
    have hf : List.Sublist [x, y] (S.filter (fun z => b z == b x)) := by
      have := hxy.filter (fun z => b z == b x)
      simpa [heq] using this
    rw [hclass (b x)] at hf
    have hA : (T.filter (fun z => b z == b x)).Pairwise (fun x y => byKey a x y = true) := hT.sublist List.filter_sublist
    have := (List.pairwise_iff_forall_sublist.mp hA) hf
    simpa [byKey] using this

/-- when the two keys together identify a row, `ORDER BY b, a` has exactly one answer: whatever permutation of `R` is
    sorted that way (what the database returns) IS the double stable sort. -/
theorem C24_order_chain_unique (R S : List α) (a b : α → Int)
    (hinj : ∀ x ∈ R, ∀ y ∈ R, a x = a y → b x = b y → x = y)
    (hperm : S.Perm R) (hsorted : LexSorted a b S) : S = orderChain R a b := by
  have h := C24_order_chain R a b
  refine List.Perm.eq_of_pairwise (le := fun x y => b x < b y ∨ (b x = b y ∧ a x ≤ a y)) ?_ hsorted h.2 (hperm.trans h.1.symm)
  intro x y hx hy h1 h2
  have hxR : x ∈ R := hperm.subset hx
  have hyR : y ∈ R := h.1.subset hy
  apply hinj x hxR y hyR <;> omega

example : isSample [1, 2, 2, 3] [2, 2] 2 = true ∧ isSample [1, 2, 3] [2, 2] 2 = false ∧ isSample [1, 2] [2, 1] 5 = true := by decide
example : sqlAvg [some 3, none, some 3, some 6] false = some (12, 3) ∧ sqlAvg [some 3, none, some 3, some 6] true = some (9, 2) ∧ sqlAvg [none] false = none := by decide
example : ∀ x ∈ [((2 : Int), (1 : Int)), (1, 1), (2, 0)], ∀ y ∈ [((2 : Int), (1 : Int)), (1, 1), (2, 0)], x.1 = y.1 → x.2 = y.2 → x = y := by decide

/-! ### source shape of the query methods (regenerated by harness/gen_c24.py on every run) -/

/-- what `Model/Limit.lean` and `Model/Aggr.lean` were written against: `get` fetches `[:2]` and raises for more than one row,
    `exists` / `first` fetch `[:1]`, `first` orders an unordered query and switches DISTINCT off, `random(limit)` is
    `order_by('random()')[:limit]`, only a NULL SUM becomes 0, a newer `order_by` criterion is prepended, and the subquery of a
    grouped bulk delete keeps WHERE, GROUP BY and HAVING -/
def expectedShape : PonyVerif.Gen.QueryShape.Shape :=
  { getStop := .num 2, getMultipleAbove := 1, existsStop := .num 1, firstStop := .num 1, firstOrdersUnordered := true,
    firstWithoutDistinct := true, randomStop := .name "limit", randomOrder := "random()", nullSumIsZero := true,
    orderByPrepends := true, deleteSubqueryWhere := true, deleteSubqueryGroupBy := true, deleteSubqueryHaving := true,
    deleteShortFormGuarded := true, subqueryMarksOwner := true, resultFetchesWindow := true }

/-- the source still has the shape the models mirror (breaks when `Query.get/exists/first/random/_aggregate`,
    `order_by_*`, `construct_delete_sql_ast` or the `used_from_subquery` marking of `resolve_name` change) -/
theorem C24_bridge_query_shape : PonyVerif.Gen.QueryShape.shape = expectedShape := by decide

/-- the prefix lengths of the model are the ones in the source: with the regenerated bounds, `get` on a prefix of that
    length distinguishes none / one / several for every result, `exists` and `first` need exactly one row. -/
theorem C24_prefix_lengths_suffice (R : List α) :
    (match PonyVerif.Gen.QueryShape.shape.getStop with
     | .num n => (match window (some n, none) R with | [] => GetResult.none | [x] => .one x | _ => .multiple) = getSpec R
     | .name _ => False) ∧
    (match PonyVerif.Gen.QueryShape.shape.existsStop with
     | .num n => (!(window (some n, none) R).isEmpty) = !R.isEmpty
     | .name _ => False) ∧
    (match PonyVerif.Gen.QueryShape.shape.firstStop with
     | .num n => (window (some n, none) R).head? = R.head?
     | .name _ => False) := by
  have hs : PonyVerif.Gen.QueryShape.shape = expectedShape := C24_bridge_query_shape
  rw [hs]
  refine ⟨?_, ?_, ?_⟩
  · exact C24_get R
  · exact C24_exists R
  · exact C24_first R

/-- a prefix of length 1 would NOT be enough for `get` (the slip `query[:1]`): two rows would be reported as one. -/
theorem C24_get_needs_two : ∃ R : List Nat,
    (match window (some 1, none) R with | [] => GetResult.none | [x] => .one x | _ => .multiple) ≠ getSpec R :=
  ⟨[1, 2], by decide⟩

/-! ### the list-like result object -/
section QResult
open PonyVerif.Model.QResult

/-- Every sequence of list-like method calls on a `QueryResult` (len, indexing, slicing, `in`, `index`, iteration,
    `reversed`, `==`, in-place `reverse()`), in any order, returns what the same calls return on the Python list of
    its window — whether the result was created lazily (`limit`, `page`) or fetched at once, and whichever call
    happened to materialise it. -/
theorem C24_result_is_list [DecidableEq α] (R : List α) (r : QRes α) (ops : List (Op α)) :
    run R r ops = runList (force R r) ops := by
  induction ops generalizing r with
  | nil => rfl
  | cons op ops ih =>
    simp only [run, runList, step]
    rw [ih]
    rfl

/-- `q.limit(l, offset=o)` behaves as the list `R[o:][:l]` -/
theorem C24_lazy_result [DecidableEq α] (R : List α) (l o : Option Nat) (ops : List (Op α)) :
    run R (lazy l o) ops = runList (window (l, o) R) ops :=
  C24_result_is_list R (lazy l o) ops

/-- a lazy result is indistinguishable from the eagerly fetched one -/
theorem C24_lazy_eq_eager [DecidableEq α] (R : List α) (l o : Option Nat) (ops : List (Op α)) :
    run R (lazy l o) ops = run R (eager R l o) ops := by
  rw [C24_result_is_list, C24_result_is_list]; rfl

/-- `q.page(n, k)` as an object behaves as the Python list `R[(n-1)*k : n*k]` -/
theorem C24_page_result [DecidableEq α] (R : List α) (n k : Nat) (hn : 1 ≤ n) (ops : List (Op α)) :
    run R (lazy (pageT n k).1 (pageT n k).2) ops = runList (pySlice R (some ((n - 1) * k)) (some (n * k))) ops := by
  rw [C24_lazy_result]
  show runList (window (pageT n k) R) ops = _
  rw [C24_page R n k hn]

/-- `q[a:b]` as an object behaves as the Python list `R[a:b]` -/
theorem C24_slice_result [DecidableEq α] (R : List α) (a b : Option Nat) (ops : List (Op α)) :
    run R (eager R (getitemT a b).1 (getitemT a b).2) ops = runList (pySlice R a b) ops := by
  rw [C24_result_is_list]
  show runList (window (getitemT a b) R) ops = _
  rw [C24_getitem]

/-- forgetting the offset when a lazy result is forced (`_actual_fetch(self._limit)`) is observable: page 2 of three
    rows shows the first row instead of the second. -/
theorem C24_force_needs_offset : ∃ (R : List Nat) (r : QRes Nat), forceNoOffset R r ≠ force R r :=
  ⟨[1, 2, 3], lazy (some 1) (some 1), by decide⟩

/-- the source forces every result with `(self._limit, self._offset)` -/
theorem C24_bridge_result_fetch : PonyVerif.Gen.QueryShape.shape.resultFetchesWindow = true := by
  rw [C24_bridge_query_shape]; rfl

example : run [10, 20, 30, 40, 50] (lazy (some 3) (some 1)) [Op.len, .get 0, .reverse, .get 0, .mem 50, .slice (some 1) none, .get 7]
    = [Out.nat 3, .item 20, .unit, .item 40, .bool false, .items [30, 20], .error "IndexError"] := by decide

end QResult

/-! ### non-vacuity: concrete instances -/
example : window (combineT (some 5) (some 1) (some 2) (some 3)) [0,1,2,3,4,5,6,7,8,9] = [4, 5] := by decide
example : window (getitemT (some 2) (some 5)) [0,1,2,3,4,5,6] = [2,3,4] := by decide
example : window (pageT 2 3) [0,1,2,3,4,5,6,7] = [3,4,5] := by decide

end PonyVerif.Props.C24
