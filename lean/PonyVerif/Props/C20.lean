/-
  C20 — optimistic concurrency control prevents lost updates.  Property theorems only.

  The model (PonyVerif/Model/Occ.lean) mirrors `Attribute.__get__/__set__`, `Entity._db_set_`, `_save_updated_`,
  `_update_dbvals_`, `_construct_optimistic_criteria_`, `SessionCache.flush/commit/rollback` and the SQLite provider's
  transaction lock.  A schedule is an ARBITRARY list of (session, action) steps, one SQL statement per step, for any
  number of sessions, objects and attributes; every theorem quantifies over all schedules (proofs by induction over the
  schedule through the invariant `Inv`, PonyVerif/Lemmas/Occ.lean).

  Ghost fields used to state the property: `obs a` = the value the application got from `obj.a` (a value that came from
  the database: the session had not assigned `a` itself) or the value the session itself last wrote to the database for
  `a`; `written a` = the application assigned `a` in this session.
-/
import PonyVerif.Lemmas.Occ
import PonyVerif.Gen.OccTable
namespace PonyVerif.Props.C20
open PonyVerif.Model.Occ

/-- the state after an arbitrary interleaving, started from any committed rows with no session open -/
def after (cfg : Cfg) (store0 : Obj → Attr → Val) (sched : List (Sid × Action)) : State :=
  run cfg (State.init cfg store0) sched

theorem C20_invariant (cfg : Cfg) (store0 : Obj → Attr → Val) (sched : List (Sid × Action)) :
    Inv cfg (after cfg store0 sched) :=
  Inv_run cfg sched _ (Inv_init cfg store0)

/-- **C20 (row seen by the writer).** Whenever, after any schedule, a step of optimistic session `s` applies an UPDATE
    of object `o` that is not locked for update, then for EVERY attribute `a` of the entity that is not excluded from
    optimistic checks and for which `s` holds an observation `v` (it read `v`, or wrote `v` itself), the row that the
    UPDATE matched had `a = v`. -/
theorem C20_view (cfg : Cfg) (store0 : Obj → Attr → Val) (sched : List (Sid × Action)) (s : Sid) (act : Action) (o : Obj)
    (happ : (step cfg (after cfg store0 sched) s act).2.upd = some o)
    (hopt : cfg.sessOpt s = true) (hfu : ((after cfg store0 sched).sess s).forUpd o = false)
    (a : Attr) (v : Val) (ha : a ∈ cfg.attrs) (hao : cfg.attrOpt a = true)
    (hobs : (((after cfg store0 sched).sess s).objs o).obs a = some v) :
    view (after cfg store0 sched) s o a = v := by
  have hinv := C20_invariant cfg store0 sched
  have hwh := (step_applied cfg _ s act o happ).2
  have hO := ((hinv.1 s).1 o a).2.2.2.1 v hobs
  have := hwh a ha hopt hfu hO.2.1 hao
  rw [hO.2.2] at this
  exact (Option.some.inj this).symm

/-- **C20 (the property as stated).** … and if `s` did not itself overwrite `a`, the COMMITTED value of `a` at the
    moment of the update is the value `s` read. -/
theorem C20 (cfg : Cfg) (store0 : Obj → Attr → Val) (sched : List (Sid × Action)) (s : Sid) (act : Action) (o : Obj)
    (happ : (step cfg (after cfg store0 sched) s act).2.upd = some o)
    (hopt : cfg.sessOpt s = true) (hfu : ((after cfg store0 sched).sess s).forUpd o = false)
    (a : Attr) (v : Val) (ha : a ∈ cfg.attrs) (hao : cfg.attrOpt a = true)
    (hobs : (((after cfg store0 sched).sess s).objs o).obs a = some v)
    (hnw : (((after cfg store0 sched).sess s).objs o).written a = false) :
    (after cfg store0 sched).store o a = v := by
  have hv := C20_view cfg store0 sched s act o happ hopt hfu a v ha hao hobs
  have hinv := C20_invariant cfg store0 sched
  have hW := (hinv.1 s).2.2 o a
  cases hl : lookupPend ((after cfg store0 sched).sess s).pend o a with
  | none => simpa [view, hl] using hv
  | some w => have := hW (by simp [hl]); simp [hnw] at this

/-- an observation is what Pony's own bookkeeping holds: read bit set and `_dbvals_` equal to the observed value -/
theorem C20_observation_is_tracked (cfg : Cfg) (store0 : Obj → Attr → Val) (sched : List (Sid × Action)) (s : Sid) (o : Obj)
    (a : Attr) (v : Val) (hobs : (((after cfg store0 sched).sess s).objs o).obs a = some v) :
    (((after cfg store0 sched).sess s).objs o).rbits a = true ∧ (((after cfg store0 sched).sess s).objs o).dbvals a = some v
    ∧ cfg.volatile a = false :=
  let h := ((C20_invariant cfg store0 sched).1 s).1 o a
  ⟨(h.2.2.2.1 v hobs).2.1, (h.2.2.2.1 v hobs).2.2, (h.2.2.2.1 v hobs).1⟩

/-- the ghost `obs` is what the application received: when `obj.a` returns `v` and the session holds no unflushed
    assignment to `a` (so `v` comes from the database), `v` is the recorded observation -/
theorem C20_read_is_observed (cfg : Cfg) (σ : State) (s : Sid) (o : Obj) (a : Attr) (v : Val)
    (hres : (step cfg σ s (.read o a)).2.res = .ok (some v)) (hw : ((σ.sess s).objs o).wbits a = false)
    (hvol : cfg.volatile a = false) : (((step cfg σ s (.read o a)).1.sess s).objs o).obs a = some v :=
  read_obs cfg σ s o a v hres hw hvol

/-- … and when `E.get(id=o, a=v)` finds the object (through the identity map — `attr.__get__` — or through SQL followed by
    `_set_rbits`) the application has learnt `o.a = v`: `v` is the recorded observation -/
theorem C20_find_is_observed (cfg : Cfg) (σ : State) (s : Sid) (o : Obj) (a : Attr) (v : Val)
    (hres : (step cfg σ s (.find o a v)).2.res = .ok (some 1)) (hw : ((σ.sess s).objs o).wbits a = false)
    (hvol : cfg.volatile a = false) (ha : a ∈ cfg.attrs) :
    (((step cfg σ s (.find o a v)).1.sess s).objs o).obs a = some v :=
  find_obs cfg σ s o a v hres hw hvol ha

/-- … and a keyword lookup answered from the identity map (`_find_in_cache_`: `val != attr.__get__(obj)`) reads the attribute
    of the cached object even when the criterion does NOT match (the lookup returns None / False): the cached value `x` is
    the recorded observation, so a later UPDATE of the object is checked against it (C20_view) -/
theorem C20_lookup_in_cache_is_observed (cfg : Cfg) (σ : State) (s : Sid) (o : Obj) (a : Attr) (v x r : Val)
    (hp : ((σ.sess s).objs o).present = true) (hx : ((σ.sess s).objs o).vals a = some x)
    (hres : (step cfg σ s (.find o a v)).2.res = .ok (some r)) (hw : ((σ.sess s).objs o).wbits a = false)
    (hvol : cfg.volatile a = false) :
    (((step cfg σ s (.find o a v)).1.sess s).objs o).obs a = some x ∧ r = (if x = v then 1 else 0) :=
  find_cached_obs cfg σ s o a v x r hp hx hres hw hvol

/-- … and every object returned by `select(x for x in E if x.a == v)` when the query is really executed (not answered from
    the session's query-result cache: each row of the table the connection sees with `a = v`; optionally `.for_update()`)
    gets `v` recorded as the observation of `a` (`_fetch_objects(..., used_attrs)` →
    `_set_rbits`), after any schedule -/
theorem C20_select_is_observed (cfg : Cfg) (store0 : Obj → Attr → Val) (sched : List (Sid × Action)) (s : Sid) (a : Attr)
    (v : Val) (fu : Bool) (m : Option Val) (o : Obj)
    (hres : (step cfg (after cfg store0 sched) s (.select a v fu)).2.res = .ok m)
    (ho : o ∈ cfg.objs) (hview : view (after cfg store0 sched) s o a = v)
    (hw : (((after cfg store0 sched).sess s).objs o).wbits a = false) (hvol : cfg.volatile a = false) (ha : a ∈ cfg.attrs)
    (hmiss : cachedQ ((after cfg store0 sched).sess s) a v fu = none) :
    (((step cfg (after cfg store0 sched) s (.select a v fu)).1.sess s).objs o).obs a = some v :=
  select_obs cfg _ s a v fu m o (C20_invariant cfg store0 sched) hres ho hview hw hvol ha hmiss

/-- NOT PROVED (kept as a statement): a query answered from `cache.query_results` returns objects whose observation was
    recorded when the query was first executed and has not changed since (the cache is dropped by every flush of
    modifications and by commit).  It needs one more invariant over all steps (cached key ↦ observation of its objects);
    the differential run exercises the hit path on every run. -/
def C20_select_cached_full : Prop :=
  ∀ (cfg : Cfg) (store0 : Obj → Attr → Val) (sched : List (Sid × Action)) (s : Sid) (a : Attr) (v : Val) (fu : Bool) (l : List Obj) (o : Obj),
    lookupQ ((after cfg store0 sched).sess s).qcache a v fu = some l → o ∈ l →
    (((after cfg store0 sched).sess s).objs o).wbits a = false → cfg.volatile a = false → a ∈ cfg.attrs →
    (((after cfg store0 sched).sess s).objs o).obs a = some v

/-- the ghost `written` records every assignment `obj.a = v` -/
theorem C20_write_is_recorded (cfg : Cfg) (σ : State) (s : Sid) (o : Obj) (a : Attr) (v : Val)
    (hres : (step cfg σ s (.write o a v)).2.res = .ok none) :
    (((step cfg σ s (.write o a v)).1.sess s).objs o).written a = true
    ∧ (((step cfg σ s (.write o a v)).1.sess s).objs o).vals a = some v := by
  simp only [step] at hres ⊢
  split
  · rename_i hc; simp [hc] at hres
  · simp [State.withSess, ObjSt.write]

/-- **C20_fail_commits_nothing.** A step that raises OptimisticCheckError / UnrepeatableReadError applies no UPDATE,
    leaves the committed rows as they were, discards the whole session cache with all its uncommitted writes (rollback)
    and releases the write lock. -/
theorem C20_fail_commits_nothing (cfg : Cfg) (store0 : Obj → Attr → Val) (sched : List (Sid × Action)) (s : Sid) (act : Action)
    (hfail : (step cfg (after cfg store0 sched) s act).2.res.failed = true) :
    (step cfg (after cfg store0 sched) s act).1.store = (after cfg store0 sched).store
    ∧ (step cfg (after cfg store0 sched) s act).1.sess s = Sess.fresh cfg s
    ∧ ((step cfg (after cfg store0 sched) s act).1.sess s).pend = []
    ∧ (step cfg (after cfg store0 sched) s act).1.lock ≠ some s := by
  have hinv := C20_invariant cfg store0 sched
  have hinv' := Inv_step cfg _ s act hinv
  have hfr := step_failed cfg _ s act hfail
  refine ⟨?_, hfr, by rw [hfr]; rfl, ?_⟩
  · rcases step_store cfg (after cfg store0 sched) s act with h | h
    · exact h
    · rw [h.2.2.1] at hfail; simp [Res.failed] at hfail
  · intro hl
    have := (hinv'.2 s).mpr hl
    rw [hfr] at this
    simp [Sess.fresh] at this

/-- committed rows change only in the COMMIT step of a session in a transaction whose flush completed without
    error, and become exactly what that session's connection saw (its applied UPDATEs over the previous rows) -/
theorem C20_only_commit_changes_rows (cfg : Cfg) (σ : State) (s : Sid) (act : Action) :
    (step cfg σ s act).1.store = σ.store ∨
    ((σ.sess s).toSave = [] ∧ (σ.sess s).inTxn = true ∧ (step cfg σ s act).2.res = .ok none ∧
      (step cfg σ s act).1.store = fun o a => view σ s o a) :=
  step_store cfg σ s act

/-- SQLite serialises writers: at most one session is inside a transaction, and it is the lock holder -/
theorem C20_single_writer (cfg : Cfg) (store0 : Obj → Attr → Val) (sched : List (Sid × Action)) (s t : Sid)
    (hs : ((after cfg store0 sched).sess s).inTxn = true) (ht : ((after cfg store0 sched).sess t).inTxn = true) : s = t := by
  have hinv := C20_invariant cfg store0 sched
  have h1 := (hinv.2 s).mp hs
  have h2 := (hinv.2 t).mp ht
  rw [h1] at h2
  exact Option.some.inj h2

/-- uncommitted writes exist only inside a transaction -/
theorem C20_pending_only_in_txn (cfg : Cfg) (store0 : Obj → Attr → Val) (sched : List (Sid × Action)) (s : Sid)
    (hs : ((after cfg store0 sched).sess s).inTxn = false) : ((after cfg store0 sched).sess s).pend = [] :=
  ((C20_invariant cfg store0 sched).1 s).2.1 hs

/-- **C20_no_lost_update.** If the value an optimistic session `s` holds for `(o, a)` — what it read before writing, or
    what it last wrote — is no longer what its connection sees (another session committed a different value since),
    then the flush of `o` (by `flush()`, `commit()`, leaving the session, or the auto-flush before a query) applies
    nothing: it waits for the write lock or raises OptimisticCheckError, and the committed rows stay as they are. -/
theorem C20_no_lost_update (cfg : Cfg) (store0 : Obj → Attr → Val) (sched : List (Sid × Action)) (s : Sid) (o : Obj)
    (rest : List Obj) (a : Attr) (v : Val) (act : Action) (hact : act = .flush ∨ act = .commit ∨ act = .close)
    (hopt : cfg.sessOpt s = true) (hts : ((after cfg store0 sched).sess s).toSave = o :: rest)
    (hfu : ((after cfg store0 sched).sess s).forUpd o = false) (ha : a ∈ cfg.attrs) (hao : cfg.attrOpt a = true)
    (hobs : (((after cfg store0 sched).sess s).objs o).obs a = some v)
    (hne : view (after cfg store0 sched) s o a ≠ v)
    (hw : wAttrs cfg (((after cfg store0 sched).sess s).objs o) ≠ []) :
    ((step cfg (after cfg store0 sched) s act).2.res = .blocked ∨ (step cfg (after cfg store0 sched) s act).2.res = .optimisticCheckError)
    ∧ (step cfg (after cfg store0 sched) s act).2.upd = none
    ∧ (step cfg (after cfg store0 sched) s act).1.store = (after cfg store0 sched).store := by
  have hinv := C20_invariant cfg store0 sched
  have hO := ((hinv.1 s).1 o a).2.2.2.1 v hobs
  have key := fun done => saveHead_refused cfg (after cfg store0 sched) s o rest done a v hinv hopt hfu ha hao hO.2.1 hO.2.2 hne hw
  have hst := fun done => saveHead_store cfg (after cfg store0 sched) s o rest done
  rcases hact with rfl | rfl | rfl <;> simp only [step, hts] <;> exact ⟨(key _).1, (key _).2, hst _⟩

/-- … in particular when the committed value differs and `s` has not yet written `(o, a)` in its open transaction -/
theorem C20_no_lost_update_committed (cfg : Cfg) (store0 : Obj → Attr → Val) (sched : List (Sid × Action)) (s : Sid) (o : Obj)
    (rest : List Obj) (a : Attr) (v : Val) (act : Action) (hact : act = .flush ∨ act = .commit ∨ act = .close)
    (hopt : cfg.sessOpt s = true) (hts : ((after cfg store0 sched).sess s).toSave = o :: rest)
    (hfu : ((after cfg store0 sched).sess s).forUpd o = false) (ha : a ∈ cfg.attrs) (hao : cfg.attrOpt a = true)
    (hobs : (((after cfg store0 sched).sess s).objs o).obs a = some v)
    (hpend : lookupPend ((after cfg store0 sched).sess s).pend o a = none)
    (hne : (after cfg store0 sched).store o a ≠ v)
    (hw : wAttrs cfg (((after cfg store0 sched).sess s).objs o) ≠ []) :
    (step cfg (after cfg store0 sched) s act).2.upd = none
    ∧ (step cfg (after cfg store0 sched) s act).1.store = (after cfg store0 sched).store :=
  (C20_no_lost_update cfg store0 sched s o rest a v act hact hopt hts hfu ha hao hobs (by simpa [view, hpend] using hne) hw).2

/-- `obj._dbvals_[attr]` in `_construct_optimistic_criteria_` and `obj._vals_[attr]` in `_save_updated_` never raise KeyError -/
theorem C20_flush_no_keyError (cfg : Cfg) (store0 : Obj → Attr → Val) (sched : List (Sid × Action)) (s : Sid) (act : Action)
    (hact : act = .flush ∨ act = .commit ∨ act = .close) :
    (step cfg (after cfg store0 sched) s act).2.res ≠ .keyError := by
  have hinv := C20_invariant cfg store0 sched
  rcases hact with rfl | rfl | rfl <;> simp only [step]
  · split
    · simp [okOut]
    · apply saveHead_no_keyError cfg _ s _ _ _ hinv; split <;> simp
  · split
    · exact saveHead_no_keyError cfg _ s _ _ _ hinv (by simp)
    · split <;> simp [okOut]
  · split
    · exact saveHead_no_keyError cfg _ s _ _ _ hinv (by simp)
    · simp [okOut]

theorem pick_state (cfg : Cfg) (progs : Sid → List Action) (r : Runner) (s : Sid) :
    (pick cfg progs r s).1.st = r.st ∨ ∃ act, (pick cfg progs r s).1.st = (step cfg r.st s act).1 := by
  unfold pick
  cases (progs s)[r.pcs s]? with
  | none => left; rfl
  | some act => right; exact ⟨act, rfl⟩

/-- programs of whole operations driven by thread picks (what the differential test executes) are schedules:
    every state they reach is a state after some statement-granularity schedule -/
theorem C20_picks_are_schedules (cfg : Cfg) (progs : Sid → List Action) (store0 : Obj → Attr → Val) (picks : List Sid) :
    ∀ r : Runner, (∃ sched, r.st = after cfg store0 sched) →
      ∃ sched, (picks.foldl (fun r s => (pick cfg progs r s).1) r).st = after cfg store0 sched := by
  induction picks with
  | nil => intro r h; exact h
  | cons s rest ih =>
    intro r ⟨sched, hs⟩
    apply ih
    rcases pick_state cfg progs r s with h | ⟨act, h⟩
    · exact ⟨sched, h.trans hs⟩
    · refine ⟨sched ++ [(s, act)], ?_⟩
      simp only [after] at hs ⊢
      have hrun : ∀ (l : List (Sid × Action)) (σ : State), run cfg σ (l ++ [(s, act)]) = (step cfg (run cfg σ l) s act).1 := by
        intro l
        induction l with
        | nil => intro σ; rfl
        | cons e l ihl => intro σ; obtain ⟨s', a'⟩ := e; simp only [List.cons_append, run]; exact ihl _
      rw [hrun, ← hs]; exact h

/-! ### bridges: the model's per-attribute primitives compute the tables probed from the REAL code on this run
  (`PonyVerif.Gen.OccTable` is regenerated by harness/gen_c20.py from /repo before every build; a source change that
  alters how `__get__`, `__set__`, `_db_set_`, `_save_updated_`/`_update_dbvals_`, `_construct_optimistic_criteria_` treat an
  attribute's read bit, write bit, `_vals_` or `_dbvals_` entry breaks the corresponding theorem) -/

section Bridge
open PonyVerif.Gen.OccTable

def cfgProbe (vol opt sopt : Bool) : Cfg :=
  { attrs := [0], lazy := fun _ => false, volatile := fun _ => vol, attrOpt := fun _ => opt, sessOpt := fun _ => sopt }

def objProbe (r w : Bool) (vals dbvals : Option Val) : ObjSt :=
  { present := true, status := .loaded, dbvals := fun _ => dbvals, vals := fun _ => vals, rbits := fun _ => r,
    wbits := fun _ => w, obs := fun _ => none, written := fun _ => w }

def modelGet (w vol : Bool) : Bool := ((objProbe false w (some 3) (some 3)).read (cfgProbe vol true true) 0).rbits 0

def modelSet (r w : Bool) : Bool × Bool :=
  let os := (objProbe r w (some 3) (some 3)).write 0 5
  (os.rbits 0, os.wbits 0)

def modelDbSet (loaded same r w : Bool) : Nat :=
  let os := objProbe r w (if w then some 5 else if loaded then some 3 else none) (if loaded then some 3 else none)
  let new : Val := if same then 3 else 7
  match os.dbSet (fun _ => new) [0] with
  | none => 0
  | some os' => 1 + (if os'.dbvals 0 == some new then 2 else 0) + (if os'.vals 0 == some new then 1 else 0)

def modelSave (r w vol : Bool) : Bool × Bool × Bool × Nat :=
  let os := (objProbe r w (some (if w then 5 else 3)) (some 3)).afterSave (cfgProbe vol true true)
  (os.rbits 0, os.wbits 0, (os.vals 0).isSome, match os.dbvals 0 with | none => 0 | some v => if w && v == 5 then 1 else 2)

/-- the INTENDED meaning of the declaration: int → checked, float → not checked, `optimistic=` overrides -/
def declaredOpt : Nat → Bool
  | 0 => true | 1 => false | 2 => true | _ => false

def modelCrit (kind : Nat) (r : Bool) : Bool :=
  (optCols (cfgProbe false (declaredOpt kind) true) (objProbe r false (some 3) (some 3))).contains 0

def modelExempt (sopt fu : Bool) : Bool :=
  (critCols (cfgProbe false true sopt) 0 fu (objProbe true false (some 3) (some 3))).contains 0

/-- `ObjSt.read` = the real `Attribute.__get__` on the read bit, for every (write bit, volatile), whether or not another
    attribute of the object is assigned -/
theorem C20_bridge_get : getRows.length = 8 ∧ ∀ p ∈ getRows, modelGet p.1.1 p.1.2.1 = p.2 := by decide

/-- the read mark of a query criterion (`markOne`, which applies `ObjSt.read`) = the real `EntityMeta._set_rbits`: the bit is
    set unless the attribute is assigned or volatile, and the read bit of another attribute is kept -/
theorem C20_bridge_set_rbits : markRowsT.length = 8 ∧ ∀ p ∈ markRowsT, (modelGet p.1.1 p.1.2.1, p.1.2.2) = p.2 := by decide

/-- `ObjSt.write` = the real `Attribute.__set__` on both bits -/
theorem C20_bridge_set : setRows.length = 4 ∧ ∀ p ∈ setRows, modelSet p.1.1 p.1.2 = p.2 := by decide

/-- `ObjSt.dbSet` = the real `Entity._db_set_`: UnrepeatableReadError exactly for a changed attribute with its read bit set;
    otherwise `_dbvals_` takes the new value and `_vals_` too unless the write bit is set -/
theorem C20_bridge_dbSet : dbSetRows.length = 10 ∧
    ∀ p ∈ dbSetRows, modelDbSet p.1.1 p.1.2.1 p.1.2.2.1 p.1.2.2.2 = p.2 := by decide

/-- `ObjSt.afterSave` = the real end of `_save_updated_` + `_update_dbvals_(False, …)` after a real flush, for every
    (read bit, write bit, volatile) and for None as well as non-None values (None is not special after an UPDATE) -/
theorem C20_bridge_save : saveRows.length = 12 ∧
    ∀ p ∈ saveRows, modelSave p.1.1 p.1.2.1 p.1.2.2.1 = p.2 := by decide

/-- `optCols` = the real `_construct_optimistic_criteria_` for int / float / float optimistic=True / int optimistic=False -/
theorem C20_bridge_criteria : critRows.length = 8 ∧ ∀ p ∈ critRows, modelCrit p.1.1 p.1.2 = p.2 := by decide

/-- `critCols` = the real exemptions of `_save_updated_`: no criteria for a non-optimistic session or a for_update object -/
theorem C20_bridge_exempt : exemptRows.length = 4 ∧ ∀ p ∈ exemptRows, modelExempt p.1.1 p.1.2 = p.2 := by decide

/-- session-level flags of the model after `get[_for_update]; select; [assign; flush]` and after a following `commit` -/
def modelSess (sopt fu wrote : Bool) : (Bool × Bool × Bool × Nat) × (Bool × Bool × Bool × Nat) :=
  let cfg : Cfg := { attrs := [0, 1], lazy := fun _ => false, volatile := fun _ => false, attrOpt := fun _ => true,
                     sessOpt := fun _ => sopt, objs := [1] }
  let pre : List (Sid × Action) := [(0, .get 1 fu), (0, .select 0 1 false)] ++ (if wrote then [(0, .write 1 1 9), (0, .flush)] else [])
  let f := fun (σ : State) => ((σ.sess 0).immediate, (σ.sess 0).inTxn, (σ.sess 0).forUpd 1, (σ.sess 0).qcache.length)
  (f (after cfg (fun _ _ => 1) pre), f (after cfg (fun _ _ => 1) (pre ++ [(0, .commit)])))

/-- the session-level bookkeeping of the model (`Sess.fresh`, `ensureTxn`, `prepFlush`/`saveHead`, `selectInDb`'s result
    cache, `commitTxn`) = the real `SessionCache.__init__`, `prepare_connection_for_query_execution`, `flush`, `commit` on
    `immediate`, `in_transaction`, `for_update` and `query_results`, for optimistic / non-optimistic sessions, with and
    without get_for_update, with and without a flushed modification -/
theorem C20_bridge_session : sessRows.length = 8 ∧ ∀ p ∈ sessRows, modelSess p.1.1 p.1.2.1 p.1.2.2 = p.2 := by decide

/-- a keyword lookup answered by the model from the identity map: (found, read bit of the criterion attribute) -/
def modelFindCached (matching : Bool) : Bool × Bool :=
  let cfg : Cfg := { attrs := [0], lazy := fun _ => false, volatile := fun _ => false, attrOpt := fun _ => true, sessOpt := fun _ => true }
  let σ := after cfg (fun _ _ => 3) [(0, .get 1 false)]
  let r := step cfg σ 0 (.find 1 0 (if matching then 3 else 999))
  (r.2.res == .ok (some 1), ((r.1.sess 0).objs 1).rbits 0)

/-- the model's `.find` on a cached object = the real `get(pk, a=v)` AND `exists(pk, a=v)` answered by `_find_in_cache_`:
    found iff the criterion matches, and the criterion attribute is marked as read in BOTH cases -/
theorem C20_bridge_lookup_in_cache : findRows.length = 4 ∧ ∀ p ∈ findRows, modelFindCached p.1.1 = p.2 := by decide

/-- the INTENDED meaning of the db_session options: the transaction starts at once for immediate / ddl / serializable /
    non-optimistic sessions; optimistic checks are on unless `optimistic=False` or `serializable=True` — in particular
    `immediate=True` and `ddl=True` do NOT switch them off -/
def declaredSession (imm ddl ser opt : Bool) : Bool × Bool := (imm || ddl || ser || !opt, opt && !ser)

/-- how the tie configures the model for a session opened with these options -/
def cfgOfOptions (imm ddl ser opt : Bool) : Cfg :=
  { attrs := [0], lazy := fun _ => false, volatile := fun _ => false, attrOpt := fun _ => true,
    sessOpt := fun _ => opt && !ser, sessImm := fun _ => imm || ddl }

/-- the real `DBSessionContextManager.__init__` (probed for all 16 option combinations, decorator and context-manager form)
    computes the declared flags, and the model's fresh session starts with exactly these: `cache.immediate` and the
    optimistic switch used by `critCols` -/
theorem C20_bridge_session_options : optRows.length = 16 ∧
    ∀ p ∈ optRows, declaredSession p.1.1 p.1.2.1 p.1.2.2.1 p.1.2.2.2 = p.2
      ∧ ((Sess.fresh (cfgOfOptions p.1.1 p.1.2.1 p.1.2.2.1 p.1.2.2.2) 0).immediate,
         (cfgOfOptions p.1.1 p.1.2.1 p.1.2.2.1 p.1.2.2.2).sessOpt 0) = p.2 := by decide

end Bridge

/-! ### the hypotheses are satisfiable, the conclusions are not vacuous, the exclusions are necessary (concrete schedules) -/

def cfgAll : Cfg := { attrs := [0, 1], lazy := fun _ => false, volatile := fun _ => false, attrOpt := fun _ => true, sessOpt := fun _ => true }
def cfgExcl : Cfg := { cfgAll with attrOpt := fun a => a != 0 }
def ones : Obj → Attr → Val := fun _ _ => 1

/-- session 0 and session 1 both read attribute 0 of object 1 (value 1) and both assign it; session 0 commits first -/
def lostUpdate : List (Sid × Action) :=
  [(0, .get 1 false), (1, .get 1 false), (0, .read 1 0), (1, .read 1 0), (0, .write 1 0 50), (1, .write 1 0 60), (0, .close), (0, .close)]

/-- session 1 reads attribute 0 and assigns attribute 1; meanwhile session 0 changes attribute 0 and commits -/
def staleRead : List (Sid × Action) :=
  [(1, .get 1 false), (1, .read 1 0), (1, .write 1 1 61), (0, .get 1 false), (0, .write 1 0 50), (0, .close), (0, .close)]

/-- session 1 reads attribute 0 and assigns attribute 1, nobody interferes -/
def quiet : List (Sid × Action) := [(1, .get 1 false), (1, .read 1 0), (1, .write 1 1 61)]

-- C20: an applied UPDATE with an observation of an attribute the session did not overwrite
example : (step cfgAll (after cfgAll ones quiet) 1 .close).2.upd = some 1
    ∧ (((after cfgAll ones quiet).sess 1).objs 1).obs 0 = some 1
    ∧ (((after cfgAll ones quiet).sess 1).objs 1).written 0 = false
    ∧ (after cfgAll ones quiet).store 1 0 = 1 := by decide

-- C20_no_lost_update: the second writer is refused, the first writer's value stays
example : ((after cfgAll ones lostUpdate).sess 1).toSave = [1]
    ∧ (((after cfgAll ones lostUpdate).sess 1).objs 1).obs 0 = some 1
    ∧ view (after cfgAll ones lostUpdate) 1 1 0 = 50
    ∧ wAttrs cfgAll (((after cfgAll ones lostUpdate).sess 1).objs 1) = [0]
    ∧ (step cfgAll (after cfgAll ones lostUpdate) 1 .close).2.res = .optimisticCheckError
    ∧ (step cfgAll (after cfgAll ones lostUpdate) 1 .close).1.store 1 0 = 50 := by decide

-- the stale read is refused as well (the session wrote a different attribute)
example : (step cfgAll (after cfgAll ones staleRead) 1 .close).2.res = .optimisticCheckError
    ∧ (step cfgAll (after cfgAll ones staleRead) 1 .close).2.res.failed = true
    ∧ (step cfgAll (after cfgAll ones staleRead) 1 .close).1.store 1 1 = 1 := by decide

-- the exclusion is real: with attribute 0 excluded from optimistic checks the same schedule loses session 0's update
example : (step cfgExcl (after cfgExcl ones lostUpdate) 1 .close).2.upd = some 1
    ∧ (after cfgExcl ones lostUpdate).store 1 0 = 50
    ∧ (after cfgExcl ones (lostUpdate ++ [(1, .close), (1, .close)])).store 1 0 = 60 := by decide

-- a search criterion counts as a read: found through SQL, observed, and the stale UPDATE is refused
example : (step cfgAll (after cfgAll ones []) 1 (.find 1 0 1)).2.res = .ok (some 1)
    ∧ (((after cfgAll ones [(1, .find 1 0 1)]).sess 1).objs 1).obs 0 = some 1
    ∧ (step cfgAll (after cfgAll ones [(1, .find 1 0 1), (1, .write 1 1 61), (0, .get 1 false), (0, .write 1 0 50), (0, .close), (0, .close)]) 1 .close).2.res
        = .optimisticCheckError := by decide

-- a query criterion counts as a read of every returned object: both rows observed, the stale UPDATE of row 2 is refused
def cfgTab : Cfg := { cfgAll with objs := [1, 2] }
example : (step cfgTab (after cfgTab ones []) 1 (.select 0 1 false)).2.res = .ok (some 6)
    ∧ (((after cfgTab ones [(1, .select 0 1 false)]).sess 1).objs 2).obs 0 = some 1
    ∧ (step cfgTab (after cfgTab ones [(1, .select 0 1 false), (1, .write 2 1 61), (0, .get 2 false), (0, .write 2 0 50),
        (0, .close), (0, .close)]) 1 .close).2.res = .optimisticCheckError := by decide

-- the session's query-result cache: the same query again is answered without SQL (row 1 no longer matches in the database,
-- it is still returned, and the stale UPDATE is still refused); a flush of modifications drops the cache
example : (step cfgTab (after cfgTab ones [(1, .select 0 1 false), (0, .get 1 false), (0, .write 1 0 50), (0, .close), (0, .close)]) 1
      (.select 0 1 false)).2.res = .ok (some 6)
    ∧ (step cfgTab (after cfgTab ones [(1, .select 0 1 false), (0, .get 1 false), (0, .write 1 0 50), (0, .close), (0, .close),
        (1, .select 0 1 false), (1, .write 1 1 61)]) 1 .close).2.res = .optimisticCheckError
    ∧ ((after cfgTab ones [(1, .select 0 1 false), (1, .write 2 1 61), (1, .flush)]).sess 1).qcache = [] := by decide

-- Query.for_update: the rows are locked (another writer waits); the exemption ends at commit, after which a stale UPDATE is refused
example : (step cfgTab (after cfgTab ones [(1, .select 0 1 true), (0, .get 1 false), (0, .write 1 0 50)]) 0 .flush).2.res = .blocked
    ∧ (step cfgTab (after cfgTab ones [(1, .select 0 1 true), (1, .commit), (0, .get 1 false), (0, .write 1 0 50), (0, .close),
        (0, .close), (1, .write 1 1 61)]) 1 .close).2.res = .optimisticCheckError := by decide

-- db_session(immediate=True) keeps the optimistic checks: read, commit() inside the session, a concurrent update, then a write
-- from the cached object is refused; with optimistic=False the same history is applied unchecked
def cfgImm : Cfg := { cfgAll with sessImm := fun s => s == 1 }
def cfgNonOpt : Cfg := { cfgAll with sessOpt := fun s => s != 1 }
def immHistory : List (Sid × Action) :=
  [(1, .get 1 false), (1, .read 1 0), (1, .commit), (0, .get 1 false), (0, .write 1 0 50), (0, .close), (0, .close), (1, .write 1 1 61)]
example : ((after cfgImm ones [(1, .get 1 false)]).sess 1).inTxn = true
    ∧ (step cfgImm (after cfgImm ones immHistory) 1 .close).2.res = .optimisticCheckError
    ∧ (step cfgNonOpt (after cfgNonOpt ones immHistory) 1 .close).2.upd = some 1 := by decide

-- a lookup with a NON-matching criterion answered from the cache counts as a read: get(id=1, a=5) on a cached row with a = 1
-- returns None, marks `a`, and after a concurrent change of `a` the UPDATE of another attribute is refused
example : (step cfgAll (after cfgAll ones [(1, .get 1 false)]) 1 (.find 1 0 5)).2.res = .ok (some 0)
    ∧ (((after cfgAll ones [(1, .get 1 false), (1, .find 1 0 5)]).sess 1).objs 1).obs 0 = some 1
    ∧ (step cfgAll (after cfgAll ones [(1, .get 1 false), (1, .find 1 0 5), (1, .write 1 1 61), (0, .get 1 false), (0, .write 1 0 5),
        (0, .close), (0, .close)]) 1 .close).2.res = .optimisticCheckError := by decide

-- a session with two transactions: what it read in the first is still checked by the UPDATE of the second
example : (step cfgAll (after cfgAll ones [(1, .get 1 false), (1, .read 1 0), (1, .write 1 1 61), (1, .commit), (1, .commit),
      (0, .get 1 false), (0, .write 1 0 50), (0, .close), (0, .close), (1, .write 1 1 62)]) 1 .close).2.res = .optimisticCheckError := by decide

-- a writer that finds the write lock taken waits (SQLite serialises writers)
example : (step cfgAll (after cfgAll ones [(0, .get 1 false), (1, .get 1 false), (0, .write 1 0 50), (1, .write 1 1 60), (0, .flush)]) 1 .flush).2.res
    = .blocked := by decide

end PonyVerif.Props.C20
