/-
  C20 — optimistic concurrency control prevents lost updates.  Property theorems only.
-/
import PonyVerif.Model.Occ
namespace PonyVerif.Props.C20
open PonyVerif.Model.Occ

theorem C20_placeholder (cfg : Cfg) (σ : State) : run cfg σ [] = σ := rfl

end PonyVerif.Props.C20
