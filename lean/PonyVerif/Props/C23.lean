/-
  C23 — the loading strategy never changes the data a program observes.  Property theorems only.
  Model: `PonyVerif/Model/Loading.lean` (committed database; session with per-attribute loaded flags and partially / fully
  loaded collections; loading primitives that only copy from the database; reads defined THROUGH loading with the shortcuts of
  `Attribute.get`, `SetInstance.is_empty / count / __contains__ / __len__ / copy`); tie: `harness/engines/c23.py`.
-/
import PonyVerif.Lemmas.Loading
namespace PonyVerif.Props.C23
open PonyVerif.Model.Loading

/-- one loading action (load of one attribute, of whole objects, of a batch of seeds, a prefetch, a batch collection load, a
    probe) keeps the session coherent with the unchanged database, from ANY coherent session -/
theorem C23_load_preserves (db : Db) (s : Sess) (h : Coherent db s) (l : Load) : Coherent db (applyLoad db s l) :=
  coh_applyLoad h l

/-- a read of a coherent session returns the database's answer — whatever is or is not loaded (every branch of the
    shortcut logic) — and leaves the session coherent -/
theorem C23_read (db : Db) (s : Sess) (h : Coherent db s) (r : Read) :
    (read db s r).2.1 = dbAnswer db r ∧ Coherent db (read db s r).1 :=
  read_correct h r

/-- MAIN: for every database, every coherent session state and EVERY program of reads with loading actions interleaved anywhere
    (induction over the program): the answers are the database's answers to the reads — the loading actions are invisible -/
theorem C23_observe (db : Db) (steps : List Step) : ∀ s, Coherent db s → run db s steps = (reads steps).map (dbAnswer db) := by
  induction steps with
  | nil => intro s _; rfl
  | cons st rest ih =>
    intro s h
    cases st with
    | read r =>
      obtain ⟨h1, h2⟩ := read_correct h r
      simp only [run, reads, List.map_cons, h1]
      rw [ih _ h2]
    | load l =>
      simp only [run, reads]
      exact ih _ (coh_applyLoad h l)

/-- the statement of the property: two executions of the same reads from a fresh session over the same database, with ANY
    loading actions L, L' (none, lazy single-attribute loads, whole-object and seed-batch loads, prefetches, collection batches,
    probes — in any order, anywhere) observe exactly the same values, related objects and collection contents -/
theorem C23 (db : Db) (p p' : List Step) (hsame : reads p = reads p') : run db Sess.init p = run db Sess.init p' := by
  rw [C23_observe db p _ (coh_init db), C23_observe db p' _ (coh_init db), hsame]

/-- `observe (apply L w) = observe w`: a block of loading actions in front of a program changes nothing -/
theorem C23_apply (db : Db) (s : Sess) (h : Coherent db s) (L : List Load) (prog : List Read) :
    run db (L.foldl (applyLoad db) s) (prog.map Step.read) = run db s (prog.map Step.read) := by
  have hL : Coherent db (L.foldl (applyLoad db) s) := by
    induction L generalizing s with
    | nil => exact h
    | cons l rest ih => exact ih _ (coh_applyLoad h l)
  rw [C23_observe db _ _ hL, C23_observe db _ _ h]

/-- the hypotheses are satisfiable by a non-trivial state: after loading part of a collection and one attribute the
    session is coherent and non-empty, and the shortcut branches are taken -/
example :
    let db : Db := { objs := [1, 2, 3], val := fun o a => if a = 0 then some (o : Int) else none, coll := fun o _ => if o = 1 then [2, 3] else [] }
    run db Sess.init [.load (.items 1 7 [3]), .read (.isEmpty 1 7), .read (.contains 1 7 2), .read (.count 1 7), .load (.coll 1 7),
                      .read (.items 1 7), .read (.attr 2 0), .read (.isEmpty 2 7), .read (.len 2 7)]
      = [.bool false, .bool true, .nat 2, .rows [2, 3], .val (some 2), .bool true, .nat 0] := by
  decide

/-- without coherence the statement fails: a session holding a value the database does not hold answers with it (this is why
    C21 — repeated reads — needs its own check under concurrent writers) -/
theorem C23_needs_unchanged_db :
    ∃ (db : Db) (s : Sess), run db s [.read (.attr 1 0)] ≠ [dbAnswer db (.attr 1 0)] :=
  ⟨{ objs := [1], val := fun _ _ => some 5, coll := fun _ _ => [] },
   { vals := fun _ _ => some (some 4), sets := fun _ _ => none }, by decide⟩

end PonyVerif.Props.C23
