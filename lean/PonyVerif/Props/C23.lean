/-
  C23 — the loading strategy never changes the data a program observes.  Property theorems only.
  Model: `PonyVerif/Model/Loading.lean` (committed database; session with per-attribute loaded flags and partially / fully
  loaded collections; loading primitives that only copy from the database; reads defined THROUGH loading with the shortcuts of
  `Attribute.get`, `SetInstance.is_empty / count / __contains__ / __len__ / copy`); tie: `harness/engines/c23.py`.
-/
import PonyVerif.Lemmas.Loading
import PonyVerif.Gen.LoadDecisions
namespace PonyVerif.Props.C23
open PonyVerif.Model.Loading
open PonyVerif.Gen

/-- one loading action (load of one attribute, of whole objects, of a batch of seeds, a prefetch, a batch collection load, a
    probe) keeps the session coherent with the unchanged database, from ANY coherent session -/
theorem C23_load_preserves (db : Db) (s : Sess) (h : Coherent db s) (l : Load) : Coherent db (applyLoad db s l) :=
  coh_applyLoad h l

/-- a read of a coherent session returns the database's answer — whatever is or is not loaded (every branch of the
    shortcut logic) — and leaves the session coherent -/
theorem C23_read (db : Db) (s : Sess) (h : Coherent db s) (r : Read) :
    (read db s r).2.1 = dbAnswer db r ∧ Coherent db (read db s r).1 :=
  read_correct h r

/-- MAIN: for every database, every coherent session state and EVERY program of reads with loading actions interleaved anywhere
    (induction over the program): the answers are the database's answers to the reads — the loading actions are invisible -/
theorem C23_observe (db : Db) (steps : List Step) : ∀ s, Coherent db s → run db s steps = (reads steps).map (dbAnswer db) := by
  induction steps with
  | nil => intro s _; rfl
  | cons st rest ih =>
    intro s h
    cases st with
    | read r =>
      obtain ⟨h1, h2⟩ := read_correct h r
      simp only [run, reads, List.map_cons, h1]
      rw [ih _ h2]
    | load l =>
      simp only [run, reads]
      exact ih _ (coh_applyLoad h l)

/-- the statement of the property: two executions of the same reads from a fresh session over the same database, with ANY
    loading actions L, L' (none, lazy single-attribute loads, whole-object and seed-batch loads, prefetches, collection batches,
    probes — in any order, anywhere) observe exactly the same values, related objects and collection contents -/
theorem C23 (db : Db) (p p' : List Step) (hsame : reads p = reads p') : run db Sess.init p = run db Sess.init p' := by
  rw [C23_observe db p _ (coh_init db), C23_observe db p' _ (coh_init db), hsame]

/-- `observe (apply L w) = observe w`: a block of loading actions in front of a program changes nothing -/
theorem C23_apply (db : Db) (s : Sess) (h : Coherent db s) (L : List Load) (prog : List Read) :
    run db (L.foldl (applyLoad db) s) (prog.map Step.read) = run db s (prog.map Step.read) := by
  have hL : Coherent db (L.foldl (applyLoad db) s) := by
    induction L generalizing s with
    | nil => exact h
    | cons l rest ih => exact ih _ (coh_applyLoad h l)
  rw [C23_observe db _ _ hL, C23_observe db _ _ h]

/-! ### Pony's concrete loaders -/

/-- every concrete loader — full rows of an object and the other seeds of its entity (`Entity._load_`, `_load_many_`, `_prefetch_load_all_`,
    `_fetch_objects` of a query), a lazy attribute (`Attribute.load`), a one-to-many collection for one owner or an nplus1 / prefetch batch
    of owners, a many-to-many collection likewise — is a sequence of copying primitives, so it keeps the session coherent -/
theorem C23_loader_preserves (db : Db) (sch : Schema) (s : Sess) (h : Coherent db s) (l : Loader) : Coherent db (applyLoader db sch s l) :=
  coh_applyLoader sch h l

/-- MAIN, with the concrete loaders: for every database, mapping, coherent session and EVERY program of reads with concrete loaders
    interleaved anywhere, the VALUES answered are the database's — only whether a read is served from the session or has to load differs -/
theorem C23_loaders_observe (db : Db) (sch : Schema) (steps : List LStep) :
    ∀ s, Coherent db s → (lrun db sch s steps).map (·.1) = (lreads steps).map (dbAnswer db) := by
  induction steps with
  | nil => intro s _; rfl
  | cons st rest ih =>
    intro s h
    cases st with
    | read r =>
      obtain ⟨h1, h2⟩ := read_correct h r
      simp only [lrun, lreads, List.map_cons, h1]
      rw [ih _ h2]
    | load l =>
      simp only [lrun, lreads]
      exact ih _ (coh_applyLoader sch h l)

/-- two programs with the same reads and ANY concrete loaders (eager rows, seed batches, lazy loads, prefetched or batch-loaded
    collections) observe the same values from a fresh session -/
theorem C23_strategies (db : Db) (sch : Schema) (p p' : List LStep) (hsame : lreads p = lreads p') :
    (lrun db sch Sess.init p).map (·.1) = (lrun db sch Sess.init p').map (·.1) := by
  rw [C23_loaders_observe db sch p _ (coh_init db), C23_loaders_observe db sch p' _ (coh_init db), hsame]

/-- what a row loader establishes: afterwards every fetched attribute of every object of the batch is answered from the session
    (no further query), whatever was loaded before -/
theorem C23_rows_loaded (db : Db) (sch : Schema) (s : Sess) (os : List Oid) (o : Oid) (a : Attr) (ho : o ∈ os) (ha : a ∈ sch.rowAttrs o) :
    (read db (applyLoader db sch s (.rows os)) (.attr o a)).2.2 = .cached := by
  have hv : (applyLoader db sch s (.rows os)).vals o a ≠ none := by
    apply vals_set_foldl db _ ((sch.rowAttrs o).map (fun a => (o, a))) o a
    · simp only [expand, List.mem_flatten, List.mem_map]
      exact ⟨rowLoads db sch o (sch.rowAttrs o), ⟨o, ho, rfl⟩, by simp [rowLoads]⟩
    · exact List.mem_map.mpr ⟨a, ha, rfl⟩
  simp only [Model.Loading.read]
  cases hs : (applyLoader db sch s (.rows os)).vals o a with
  | none => exact absurd hs hv
  | some v => rfl

/-- the same for a lazy attribute load -/
theorem C23_lazy_loaded (db : Db) (sch : Schema) (s : Sess) (o : Oid) (a : Attr) :
    (read db (applyLoader db sch s (.lazyAttr o a)) (.attr o a)).2.2 = .cached := by
  have hv : (applyLoader db sch s (.lazyAttr o a)).vals o a ≠ none := by
    apply vals_set_foldl db _ [(o, a)] o a
    · simp [expand, rowLoads]
    · simp
  simp only [Model.Loading.read]
  cases hs : (applyLoader db sch s (.lazyAttr o a)).vals o a with
  | none => exact absurd hs hv
  | some v => rfl

/-- a fully loaded collection answers every collection read from the session -/
theorem cached_of_full (db : Db) (s : Sess) (w : Oid) (c : Attr) (h : FullLoaded s w c) (i : Oid) :
    (read db s (.isEmpty w c)).2.2 = .cached ∧ (read db s (.count w c)).2.2 = .cached ∧ (read db s (.contains w c i)).2.2 = .cached ∧
    (read db s (.items w c)).2.2 = .cached ∧ (read db s (.len w c)).2.2 = .cached := by
  obtain ⟨sd, h1, h2, h3⟩ := h
  refine ⟨?_, ?_, ?_, ?_, ?_⟩
  · simp [Model.Loading.read, h1, h2]
  · cases hc : sd.count with
    | none => exact absurd hc h3
    | some n => simp [Model.Loading.read, h1, hc]
  · simp only [Model.Loading.read, getSet, h1, Option.getD_some, h2]
    by_cases hi : i ∈ sd.items <;> simp [hi]
  · simp [Model.Loading.read, h1, h2]
  · simp [Model.Loading.read, h1, h2]

/-- what a collection loader establishes, for a one-to-many collection (single owner, nplus1 batch, prefetch batch) and for a many-to-many
    one: afterwards is_empty / count / contains / iteration / len of EVERY owner of the batch are answered from the session -/
theorem C23_collection_loaded (db : Db) (sch : Schema) (s : Sess) (owners : List Oid) (c : Attr) (w : Oid) (hw : w ∈ owners) (i : Oid) (m2m : Bool) :
    let s' := applyLoader db sch s (if m2m then .collLinks owners c else .collRows owners c)
    (read db s' (.isEmpty w c)).2.2 = .cached ∧ (read db s' (.count w c)).2.2 = .cached ∧ (read db s' (.contains w c i)).2.2 = .cached ∧
    (read db s' (.items w c)).2.2 = .cached ∧ (read db s' (.len w c)).2.2 = .cached := by
  intro s'
  apply cached_of_full
  cases m2m with
  | true =>
    apply full_set_foldl
    simp only [if_true, expand, List.mem_flatten, List.mem_map]
    exact ⟨_, ⟨w, hw, rfl⟩, List.mem_cons_self⟩
  | false =>
    apply full_set_foldl
    simp only [Bool.false_eq_true, if_false, expand, List.mem_append, List.mem_map]
    exact Or.inr ⟨w, hw, rfl⟩

/-- in a database whose references and collections agree (foreign keys), the reverse side effect of loading a row adds exactly the
    loaded object: `db_reverse_add` never has to be filtered -/
theorem C23_reverse_add_exact (db : Db) (sch : Schema) (o : Oid) (a r : Attr) (t : Int)
    (hwf : ∀ o a r t, sch.revColl a = some r → db.val o a = some t → o ∈ db.coll t.toNat r)
    (hr : sch.revColl a = some r) (hv : db.val o a = some t) :
    [o].filter (fun i => decide (i ∈ db.coll t.toNat r)) = [o] := by
  simp [hwf o a r t hr hv]

example :
    let db : Db := { objs := [1, 2, 3], val := fun o a => if a = 0 then some (o : Int) else if a = 1 ∧ o ≠ 1 then some 1 else none,
                     coll := fun o c => if o = 1 ∧ c = 5 then [2, 3] else [] }
    let sch : Schema := { rowAttrs := fun _ => [0, 1], revColl := fun a => if a = 1 then some 5 else none, revOne := fun _ => none, revM2M := fun c => c }
    lrun db sch Sess.init [.read (.isEmpty 1 5), .load (.rows [2]), .read (.contains 1 5 2), .read (.attr 2 0), .load (.collRows [1] 5),
                           .read (.items 1 5), .read (.attr 3 1), .read (.count 1 5)]
      = [(.bool false, .loaded), (.bool true, .cached), (.val (some 2), .cached), (.rows [2, 3], .cached), (.val (some 1), .cached), (.nat 2, .cached)] := by
  decide

/-! ### the model's reads take the decisions of the SOURCE (guards regenerated by harness/gen_c23.py) -/
/-- `SetInstance.is_empty`: the model answers from the session exactly when the if / elif chain of the source does, with the same answer -/
theorem C23_is_empty_follows_source (db : Db) (s : Sess) (o : Oid) (c : Attr) :
    match LoadDecisions.isEmptyShortcut (s.sets o c).isSome (getSet s o c).full (!(getSet s o c).items.isEmpty) (getSet s o c).count.isSome
            ((getSet s o c).count == some 0) with
    | some b => (Model.Loading.read db s (.isEmpty o c)).2 = (.bool b, .cached)
    | none => (Model.Loading.read db s (.isEmpty o c)).2.2 = .loaded := by
  cases hs : s.sets o c with
  | none =>
    simp only [LoadDecisions.isEmptyShortcut, Option.isSome_none, Bool.not_false, if_true, Model.Loading.read, hs]
    cases canon db (db.coll o c) <;> rfl
  | some sd =>
    cases hf : sd.full with
    | true => simp [LoadDecisions.isEmptyShortcut, Model.Loading.read, hs, getSet, hf]
    | false =>
      cases hi : sd.items with
      | cons x xs => simp [LoadDecisions.isEmptyShortcut, Model.Loading.read, hs, getSet, hf, hi]
      | nil =>
        cases hc : sd.count with
        | some n => simp [LoadDecisions.isEmptyShortcut, Model.Loading.read, hs, getSet, hf, hi, hc]
        | none =>
          simp only [LoadDecisions.isEmptyShortcut, Model.Loading.read, hs, getSet, Option.getD_some, hf, hi, hc, Option.isSome_some, Option.isSome_none,
            Bool.not_true, Bool.false_eq_true, if_false, List.isEmpty_nil, Bool.not_false]
          cases canon db (db.coll o c) <;> rfl

/-- `count`, `__len__` / iteration, `Attribute.get`: cached exactly when the source's guard says so -/
theorem C23_count_len_attr_follow_source (db : Db) (s : Sess) (o : Oid) (c a : Attr) :
    ((Model.Loading.read db s (.count o c)).2.2 = .cached ↔ LoadDecisions.countCached (s.sets o c).isSome (getSet s o c).count.isSome = true) ∧
    ((Model.Loading.read db s (.len o c)).2.2 = .loaded ↔ LoadDecisions.collNeedsLoad (s.sets o c).isSome (getSet s o c).full = true) ∧
    ((Model.Loading.read db s (.items o c)).2.2 = .loaded ↔ LoadDecisions.collNeedsLoad (s.sets o c).isSome (getSet s o c).full = true) ∧
    ((Model.Loading.read db s (.attr o a)).2.2 = .cached ↔ LoadDecisions.attrCached (s.vals o a).isSome = true) := by
  refine ⟨?_, ?_, ?_, ?_⟩
  · cases hs : s.sets o c with
    | none => simp [Model.Loading.read, hs, LoadDecisions.countCached]
    | some sd => cases hc : sd.count <;> simp [Model.Loading.read, hs, hc, getSet, LoadDecisions.countCached]
  · cases hs : s.sets o c with
    | none => simp [Model.Loading.read, hs, LoadDecisions.collNeedsLoad]
    | some sd => cases hf : sd.full <;> simp [Model.Loading.read, hs, hf, getSet, LoadDecisions.collNeedsLoad]
  · cases hs : s.sets o c with
    | none => simp [Model.Loading.read, hs, LoadDecisions.collNeedsLoad]
    | some sd => cases hf : sd.full <;> simp [Model.Loading.read, hs, hf, getSet, LoadDecisions.collNeedsLoad]
  · cases hv : s.vals o a <;> simp [Model.Loading.read, hv, LoadDecisions.attrCached]

/-- `__contains__` (collection side): the three early returns of the source, in the source's order -/
theorem C23_contains_follows_source (db : Db) (s : Sess) (o : Oid) (c : Attr) (i : Oid) :
    match LoadDecisions.containsShortcut (s.sets o c).isSome (decide (i ∈ (getSet s o c).items)) (getSet s o c).full (decide (i ∈ (getSet s o c).absent)) with
    | some b => (Model.Loading.read db s (.contains o c i)).2 = (.bool b, .cached)
    | none => (Model.Loading.read db s (.contains o c i)).2.2 = .loaded := by
  cases hs : s.sets o c with
  | none =>
    simp only [LoadDecisions.containsShortcut, Option.isSome_none, Bool.not_false, if_true, Model.Loading.read, getSet, hs, Option.getD_none, SetData.empty,
      List.not_mem_nil, if_false, Bool.false_eq_true]
    split <;> rfl
  | some sd =>
    simp only [LoadDecisions.containsShortcut, Option.isSome_some, Bool.not_true, Bool.false_eq_true, if_false, Model.Loading.read, getSet, hs, Option.getD_some]
    by_cases h1 : i ∈ sd.items
    · simp [h1]
    · cases hf : sd.full with
      | true => simp [h1, hf]
      | false =>
        by_cases h3 : i ∈ sd.absent
        · simp [h1, hf, h3]
        · simp only [h1, hf, h3, decide_false, Bool.false_eq_true, if_false, Bool.and_false]
          split <;> rfl

/-- the batch merge of `Set.load` as it is in the source: the phantom check of a member subtracts that member's OWN pending additions,
    the merge adds the rows that are neither known nor pending removals, every member ends fully loaded with `count = len`
    (the three facts `mergeLinks` / `loadColl` mirror; regenerated — a slip such as c23-3 breaks this theorem) -/
theorem C23_batch_merge_follows_source :
    LoadDecisions.phantomUsesOwnAdded = true ∧ LoadDecisions.mergeSkipsKnownAndRemoved = true ∧ LoadDecisions.batchMarksFull = true := by decide

/-! ### in-place changes of loaded container values -/

/-- the binding of each loading path as it is in the source -/
def boundNow : LoadPath → Bool
  | .eagerRow => LoadDecisions.rowSetBindsObj
  | .lazyAccess => LoadDecisions.dbSetBindsObj

/-- when every loading path binds the loaded value to its object, what a program reads after an in-place change and what the commit
    writes do not depend on HOW the value was loaded (eager row, prefetch, query naming the attribute, lazy access): for every content, every change -/
theorem C23_inplace_change_independent_of_loading (boundOn : LoadPath → Bool) (hb : ∀ p, boundOn p = true) (p p' : LoadPath)
    (dbContent : List Int) (f : List Int → List Int) :
    mutate (loadVia boundOn p dbContent) f = mutate (loadVia boundOn p' dbContent) f ∧
    committed dbContent (mutate (loadVia boundOn p dbContent) f) = f dbContent := by
  simp [mutate, loadVia, committed, hb]

/-- a path that forgets the object is observable: the value read in the session is the changed one, the commit writes nothing -/
theorem C23_unbound_load_loses_change :
    ∃ (boundOn : LoadPath → Bool) (c : List Int) (f : List Int → List Int),
      committed c (mutate (loadVia boundOn .lazyAccess c) f) ≠ committed c (mutate (loadVia boundOn .eagerRow c) f) :=
  ⟨fun p => p != .lazyAccess, [1], fun l => 2 :: l, by decide⟩

/-- the code as it is binds on both paths (`dbval2val(dbval, obj)` in `Attribute.db_set` and `Entity._db_set_`; regenerated) -/
theorem C23_loaded_values_bound : ∀ p, boundNow p = true := by
  intro p; cases p <;> decide

/-! ### batch loading into collections with pending changes -/

/-- a session's partial knowledge of a collection with pending changes is consistent with the link rows: every known item is a row or
    one of the member's own unflushed additions, additions are known items, removed items are not known -/
def PendingOk (rows : List Oid) (p : Pending) : Prop :=
  (∀ i ∈ p.items, i ∈ rows ∨ i ∈ p.added) ∧ (∀ i ∈ p.added, i ∈ p.items) ∧ (∀ i ∈ p.removed, i ∉ p.items ∧ i ∈ rows)

/-- for EVERY member of a many-to-many batch load whose pending state is consistent: merging the link rows with the member's OWN
    additions subtracted in the phantom check never raises, and the collection then holds exactly the database rows with the member's own
    pending changes applied — whatever the other members of the batch have pending (they do not occur in the statement): batched and
    one-by-one loading agree -/
theorem C23_batch_merge (rows : List Oid) (p : Pending) (h : PendingOk rows p) :
    ∃ l, mergeLinks rows p p.added = .ok l ∧ ∀ i, i ∈ l ↔ i ∈ expectedItems rows p := by
  obtain ⟨h1, h2, h3⟩ := h
  have hnil : p.items.filter (fun i => decide (i ∉ rows) && decide (i ∉ p.added)) = [] := by
    apply List.filter_eq_nil_iff.mpr
    intro i hi
    rcases h1 i hi with hr | ha
    · simp [hr]
    · simp [ha]
  refine ⟨p.items ++ rows.filter (fun i => decide (i ∉ p.items) && decide (i ∉ p.removed)), by simp only [mergeLinks, hnil], ?_⟩
  intro i
  simp only [expectedItems, List.mem_append, List.mem_filter, Bool.and_eq_true, decide_eq_true_eq]
  constructor
  · rintro (hi | ⟨hr, _, hrem⟩)
    · rcases h1 i hi with hr | ha
      · exact Or.inl ⟨hr, fun hrm => (h3 i hrm).1 hi⟩
      · by_cases hr : i ∈ rows
        · exact Or.inl ⟨hr, fun hrm => (h3 i hrm).1 hi⟩
        · exact Or.inr ⟨ha, hr⟩
    · exact Or.inl ⟨hr, hrem⟩
  · rintro (⟨hr, hrem⟩ | ⟨ha, _⟩)
    · by_cases hi : i ∈ p.items
      · exact Or.inl hi
      · exact Or.inr ⟨hr, hi, hrem⟩
    · exact Or.inl (h2 i ha)

/-- the phantom check must use the MEMBER's own additions: with the additions of the collection that triggered the load (a loop-variable
    slip) a sibling holding an unflushed addition is reported as a phantom — the batch raises where one-by-one loading answers -/
theorem C23_batch_merge_needs_own_added :
    ∃ (rows : List Oid) (p : Pending) (other : List Oid), PendingOk rows p ∧ (∃ ph, mergeLinks rows p other = .error ph) :=
  ⟨[1, 2], ⟨[3], [3], []⟩, [], ⟨by decide, by decide, by decide⟩, ⟨3, by simp [mergeLinks]⟩⟩

example : mergeLinks [1, 2] ⟨[1, 3], [3], [2]⟩ [3] = .ok [1, 3] ∧ PendingOk [1, 2] ⟨[1, 3], [3], [2]⟩ := by
  refine ⟨by simp [mergeLinks], by decide, by decide, by decide⟩

/-- the hypotheses are satisfiable by a non-trivial state: after loading part of a collection and one attribute the
    session is coherent and non-empty, and the shortcut branches are taken -/
example :
    let db : Db := { objs := [1, 2, 3], val := fun o a => if a = 0 then some (o : Int) else none, coll := fun o _ => if o = 1 then [2, 3] else [] }
    run db Sess.init [.load (.items 1 7 [3]), .read (.isEmpty 1 7), .read (.contains 1 7 2), .read (.count 1 7), .load (.coll 1 7),
                      .read (.items 1 7), .read (.attr 2 0), .read (.isEmpty 2 7), .read (.len 2 7)]
      = [.bool false, .bool true, .nat 2, .rows [2, 3], .val (some 2), .bool true, .nat 0] := by
  decide

/-- without coherence the statement fails: a session holding a value the database does not hold answers with it (this is why
    C21 — repeated reads — needs its own check under concurrent writers) -/
theorem C23_needs_unchanged_db :
    ∃ (db : Db) (s : Sess), run db s [.read (.attr 1 0)] ≠ [dbAnswer db (.attr 1 0)] :=
  ⟨{ objs := [1], val := fun _ _ => some 5, coll := fun _ _ => [] },
   { vals := fun _ _ => some (some 4), sets := fun _ _ => none }, by decide⟩

end PonyVerif.Props.C23
