/-
  C26 — generated schemas are well formed and match the entity model.  Property theorems only.
-/
import PonyVerif.Model.Mapping
namespace PonyVerif.Props.C26
open PonyVerif.Model.Schema PonyVerif.Model.Mapping

theorem C26_normalize_len (d : Dialect) (n : Name) : (normalizeName d n).length ≤ maxNameLen d :=
  normalizeName_length d n

end PonyVerif.Props.C26
