/-
  C26 — generated schemas are well formed and match the entity model.  Property theorems only.

  `runOps d {} ops`   : any list of registry operations on the model of pony/orm/dbschema.py (Model/Schema.lean)
  `generate d D`      : the model of `Database.generate_mapping` on any list of entity declarations (Model/Mapping.lean)
  Both are tied to /repo on every run by harness/engines/c26.py.
-/
import PonyVerif.Model.Mapping
import PonyVerif.Gen.SchemaParams
namespace PonyVerif.Props.C26
open PonyVerif.Model.Schema PonyVerif.Model.Mapping

/-! ### statements -/

/-- names are pairwise distinct per name space: tables; columns within each table; tables, named indexes and named
    foreign keys together (they share `schema.names`) -/
def Distinct (s : Schema) : Prop :=
  (tableNames s).Nodup ∧ (∀ t, ((tableCols s t).map (·.name)).Nodup) ∧ (objNames s).Nodup

/-- every name of the schema -/
def allNames (s : Schema) : List Name :=
  tableNames s ++ s.columns.map (·.name) ++ s.indexes.filterMap (·.name) ++ s.fks.filterMap (·.name)

def fits (d : Dialect) (n : Name) : Bool := n.length ≤ maxNameLen d

/-- names with the given provenance respect the dialect's limit -/
def srcFit (d : Dialect) (p : Src → Bool) (s : Schema) : Bool :=
  s.tables.all (fun t => !p t.src || fits d t.name) &&
  s.columns.all (fun c => !p c.src || fits d c.name) &&
  s.indexes.all (fun i => !p i.src || (match i.name with | some n => fits d n | none => true)) &&
  s.fks.all (fun f => !p f.src || (match f.name with | some n => fits d n | none => true))

/-- names given verbatim by the user (`_table_`, `column=`, `table=`, `index=`, `fk_name=` …) fit -/
def explicitFit (d : Dialect) (s : Schema) : Bool := srcFit d (· == .explicit) s
/-- names to which Pony appends a suffix *after* normalisation (`<m2m table>_<n>`, `<column>_2`) fit -/
def suffixedFit (d : Dialect) (s : Schema) : Bool := srcFit d (· == .suffixed) s

def AllFit (d : Dialect) (s : Schema) : Prop := ∀ n ∈ allNames s, n.length ≤ maxNameLen d

/-! ### names -/

/-- `normalize_name` never returns more than `max_name_len` characters (all dialects, all names) -/
theorem C26_normalize_len (d : Dialect) (n : Name) : (normalizeName d n).length ≤ maxNameLen d :=
  normalizeName_length d n

/-- every provider default name fits (index, foreign key, entity table, m2m table, columns, m2m columns) -/
theorem C26_default_names_len (d : Dialect) (a b c : Name) (cols : List Name) (p u m : Bool) :
    (defaultIndexName d a cols p u m).length ≤ maxNameLen d ∧ (defaultFkName d a cols).length ≤ maxNameLen d ∧
    (defaultEntityTableName d a).length ≤ maxNameLen d ∧ (defaultM2mTableName d a b c u).length ≤ maxNameLen d ∧
    (∀ x ∈ defaultColumnNames d a (some cols), x.length ≤ maxNameLen d) ∧
    (∀ x ∈ defaultM2mColumnNames d a cols, x.length ≤ maxNameLen d) := by
  refine ⟨normalizeName_length _ _, normalizeName_length _ _, normalizeName_length _ _, normalizeName_length _ _, ?_, ?_⟩
  · intro x hx
    unfold defaultColumnNames at hx
    split at hx
    · simp at hx; subst hx; exact normalizeName_length _ _
    · simp at hx; subst hx; exact normalizeName_length _ _
    · simp only [List.mem_map] at hx
      obtain ⟨_, _, rfl⟩ := hx; exact normalizeName_length _ _
  · intro x hx
    unfold defaultM2mColumnNames at hx
    split at hx
    · simp at hx; subst hx; exact normalizeName_length _ _
    · simp only [List.mem_map] at hx
      obtain ⟨_, _, rfl⟩ := hx; exact normalizeName_length _ _

/-- the provenance-carrying default-name functions of the mapping model compute the provider functions -/
theorem C26_default_column_names_agree (d : Dialect) (a : Name) (r : Option (List Name)) :
    names (defaultColumnTNames d a r) = defaultColumnNames d a r ∧
    ∀ e pk, names (defaultM2mColumnTNames d e pk) = defaultM2mColumnNames d e pk := by
  constructor
  · unfold defaultColumnTNames defaultColumnNames names
    split <;> simp [TName.norm, List.map_map, Function.comp_def]
  · intro e pk
    unfold defaultM2mColumnTNames defaultM2mColumnNames names
    split <;> simp [TName.norm, List.map_map, Function.comp_def]

/-! ### bridge to the constants and templates extracted from the source on every run (Gen/SchemaParams.lean) -/

def dialectName : Dialect → String
  | .sqlite => "sqlite" | .postgres => "postgres" | .mysql => "mysql" | .oracle => "oracle"

/-- the case folding of the model's `normalizeName`, by name -/
def foldOf : Dialect → String
  | .sqlite => "keep" | .postgres => "lower" | .mysql => "lower" | .oracle => "upper"

def applyFold (f : String) (n : Name) : Name :=
  if f = "lower" then lower n else if f = "upper" then upper n else n

/-- the model's per-dialect parameters are the ones in the current source: `max_name_len` of each provider class, the
    form of each `normalize_name` (`name[:max_name_len]` followed by nothing / `.lower()` / `.upper()`), and
    `named_foreign_keys` of each schema class -/
theorem C26_bridge_params (d : Dialect) :
    PonyVerif.Gen.SchemaParams.maxNameLen (dialectName d) = some (maxNameLen d) ∧
    PonyVerif.Gen.SchemaParams.fold (dialectName d) = some (foldOf d) ∧
    PonyVerif.Gen.SchemaParams.namedForeignKeys (dialectName d) = some (namedForeignKeys d) ∧
    ∀ n, normalizeName d n = applyFold (foldOf d) (n.take (maxNameLen d)) := by
  cases d <;> simp [PonyVerif.Gen.SchemaParams.maxNameLen, PonyVerif.Gen.SchemaParams.fold,
    PonyVerif.Gen.SchemaParams.namedForeignKeys, dialectName, foldOf, maxNameLen, namedForeignKeys, normalizeName, applyFold]

/-- the literal fragments of the name templates in the source are the ones the model concatenates -/
theorem C26_bridge_templates :
    PonyVerif.Gen.SchemaParams.indexTemplates = ["pk_%s", "unq_%(tname)s__%(cnames)s", "idx_%(tname)s", "idx_%(tname)s__%(cnames)s", "_"] ∧
    PonyVerif.Gen.SchemaParams.fkTemplates = ["fk_%s__%s", "__"] ∧
    PonyVerif.Gen.SchemaParams.columnTemplates = ["_", "_", "_", "_"] ∧
    PonyVerif.Gen.SchemaParams.m2mColumnSuffixes = ["_2"] ∧
    PonyVerif.Gen.SchemaParams.tableSuffixTemplates = ["_%d"] ∧
    sPk = "pk_".toList ∧ sUnq = "unq_".toList ∧ sIdx = "idx_".toList ∧ sFk = "fk_".toList ∧ sU = "_".toList ∧
    sUU = "__".toList ∧ sU2 = "_2".toList := by
  refine ⟨rfl, rfl, rfl, rfl, rfl, ?_, ?_, ?_, ?_, ?_, ?_, ?_⟩ <;> decide

/-- the flag updates `flagColumns` mirrors are the statements currently in `DBIndex.__init__` (source text, extracted on
    every run): `is_pk`, `is_pk_part` and `is_unique` are each OR-ed with their previous value -/
theorem C26_bridge_index_flags :
    PonyVerif.Gen.SchemaParams.indexFlagUpdates =
      ["column.is_pk = column.is_pk or (len(columns) == 1 and is_pk)",
       "column.is_pk_part = column.is_pk_part or bool(is_pk)",
       "column.is_unique = column.is_unique or (is_unique and len(columns) == 1)"] := rfl

/-! ### distinctness -/

theorem tableCols_nodup {s : Schema} (h : Inv s) (t : Name) : ((tableCols s t).map (·.name)).Nodup := by
  have hk := h.colsNodup
  unfold colKeys at hk
  unfold tableCols
  generalize s.columns = l at hk
  induction l with
  | nil => simp
  | cons c l ih =>
    simp only [List.map_cons, List.nodup_cons] at hk
    obtain ⟨hnot, hrest⟩ := hk
    simp only [List.filter_cons]
    split
    · rename_i hc
      simp only [List.map_cons, List.nodup_cons]
      refine ⟨?_, ih hrest⟩
      intro hmem
      simp only [List.mem_map, List.mem_filter] at hmem
      obtain ⟨c', ⟨hc'l, hc't⟩, hname⟩ := hmem
      apply hnot
      simp only [List.mem_map]
      refine ⟨c', hc'l, ?_⟩
      have h1 : c'.table = t := by simpa using hc't
      have h2 : c.table = t := by simpa using hc
      simp [h1, h2, hname]
    · exact ih hrest

theorem distinct_of_inv {s : Schema} (h : Inv s) : Distinct s :=
  ⟨h.tablesNodup, tableCols_nodup h, objNames_nodup h⟩

/-- REGISTRIES, all operation lists: whatever sequence of add_table / add_column / add_index / add_foreign_key calls
    the registries accept, the resulting names are pairwise distinct per name space and `schema.names` is exactly the
    list of tables and named constraints -/
theorem C26_registry_distinct (d : Dialect) (ops : List Op) (s : Schema) (h : runOps d {} ops = .ok s) :
    Distinct s ∧ s.names.Perm (objNames s) := by
  have hi := (runOps_inv inv_empty (lenInv_empty d) h).1
  exact ⟨distinct_of_inv hi, List.perm_iff_count.mpr hi.namesCount⟩

/-- REGISTRIES, all operation lists: the names the registries derive themselves (default index and foreign-key
    names) fit the dialect's limit -/
theorem C26_registry_len (d : Dialect) (ops : List Op) (s : Schema) (h : runOps d {} ops = .ok s) :
    (∀ i ∈ s.indexes, ∀ n, i.name = some n → i.src = .norm → n.length ≤ maxNameLen d) ∧
    (∀ f ∈ s.fks, ∀ n, f.name = some n → f.src = .norm → n.length ≤ maxNameLen d) := by
  have hl := (runOps_inv inv_empty (lenInv_empty d) h).2
  exact ⟨fun i hi n hn hs => (hl.indexes i hi n hn hs).1, fun f hf n hn hs => (hl.fks f hf n hn hs).1⟩

theorem generate_inv {d : Dialect} {D : Decls} {s : Schema} (h : generate d D = .ok s) : Inv s ∧ LenInv d s := by
  unfold generate at h
  split at h
  · rename_i st _
    cases h
    exact ⟨st.schema.2.1, st.schema.2.2.1⟩
  · cases h

/-- MAPPING, all declaration lists: if `generate_mapping` accepts the declarations, table names are pairwise
    distinct, column names are pairwise distinct within each table, and table / index / foreign-key names are pairwise
    distinct schema-wide -/
theorem C26_names (d : Dialect) (D : Decls) (s : Schema) (h : generate d D = .ok s) : Distinct s :=
  distinct_of_inv (generate_inv h).1

/-! ### length -/

theorem allFit_of {d : Dialect} {s : Schema} (hl : LenInv d s) (he : explicitFit d s = true) (hs : suffixedFit d s = true) :
    AllFit d s := by
  simp only [explicitFit, suffixedFit, srcFit, Bool.and_eq_true, List.all_eq_true, Bool.or_eq_true, Bool.not_eq_true',
    beq_eq_false_iff_ne, ne_eq, fits, decide_eq_true_eq] at he hs
  obtain ⟨⟨⟨het, hec⟩, hei⟩, hef⟩ := he
  obtain ⟨⟨⟨hst, hsc⟩, hsi⟩, hsf⟩ := hs
  intro n hn
  simp only [allNames, tableNames, List.mem_append, List.mem_map, List.mem_filterMap] at hn
  rcases hn with ((⟨t, ht, rfl⟩ | ⟨c, hc, rfl⟩) | ⟨i, hi, hin⟩) | ⟨f, hf, hfn⟩
  · cases hsrc : t.src with
    | norm => exact (hl.tables t ht hsrc).1
    | explicit => rcases het t ht with h | h; exact absurd hsrc h; exact h
    | suffixed => rcases hst t ht with h | h; exact absurd hsrc h; exact h
  · cases hsrc : c.src with
    | norm => exact (hl.columns c hc hsrc).1
    | explicit => rcases hec c hc with h | h; exact absurd hsrc h; exact h
    | suffixed => rcases hsc c hc with h | h; exact absurd hsrc h; exact h
  · cases hsrc : i.src with
    | norm => exact (hl.indexes i hi n hin hsrc).1
    | explicit => rcases hei i hi with h | h; exact absurd hsrc h; simpa [hin] using h
    | suffixed => rcases hsi i hi with h | h; exact absurd hsrc h; simpa [hin] using h
  · cases hsrc : f.src with
    | norm => exact (hl.fks f hf n hfn hsrc).1
    | explicit => rcases hef f hf with h | h; exact absurd hsrc h; simpa [hfn] using h
    | suffixed => rcases hsf f hf with h | h; exact absurd hsrc h; simpa [hfn] using h

/-- the statement one would like: if the user-given names fit, every name of an accepted mapping fits -/
def C26_len_full : Prop :=
  ∀ (d : Dialect) (D : Decls) (s : Schema), generate d D = .ok s → explicitFit d s = true → AllFit d s

/-- MAPPING, all declaration lists (guarded): every name of an accepted mapping is within `max_name_len`, provided
    the user-given names are and the names Pony builds by appending `_<n>` / `_2` after normalisation are -/
theorem C26_len_partial (d : Dialect) (D : Decls) (s : Schema) (h : generate d D = .ok s)
    (he : explicitFit d s = true) (hs : suffixedFit d s = true) : AllFit d s :=
  allFit_of (generate_inv h).2 he hs

/-- the names that can break the limit are only the explicit and the suffixed ones: every name produced by
    `normalize_name` (tag `norm`) fits, and is in lower case on PostgreSQL and MySQL -/
theorem C26_len_derived (d : Dialect) (D : Decls) (s : Schema) (h : generate d D = .ok s) : LenInv d s :=
  (generate_inv h).2

def allFitB (d : Dialect) (s : Schema) : Bool := (allNames s).all (fits d)

theorem allFitB_iff (d : Dialect) (s : Schema) : allFitB d s = true ↔ AllFit d s := by
  simp [allFitB, AllFit, fits]

/-- witness: one entity whose name has 29 characters with a symmetric many-to-many attribute (custom foreign-key
    names, otherwise the truncated default foreign-key names collide and the mapping is rejected):
    `class Aaaa…a(db.Entity): x = Set('Aaaa…a', reverse='x', fk_name='f1', reverse_fk_name='f2')` on Oracle.
    The second link column is `<normalised column>_2`, 31 characters. -/
def n29 : Name := 'A' :: List.replicate 28 'a'
def lenWitness : Decls :=
  [{ name := n29, root := n29, table := none,
     attrs := [{ name := ['i', 'd'], kind := .pk, auto := true, unique := some true },
               { name := ['x'], kind := .set, target := some n29, reverse := some ['x'],
                 fkName := some ['f', '1'], reverseFkName := some ['f', '2'] }],
     pkAttrs := [['i', 'd']],
     indexes := [{ attrs := [(n29, ['i', 'd'])], isPk := true, isUnique := true }] }]

def lenWitnessCheck : Bool :=
  match generate .oracle lenWitness with
  | .ok s => explicitFit .oracle s && !allFitB .oracle s
  | .error _ => false

/-- the unguarded statement is false for the code as it is: Pony appends `_2` after normalisation -/
theorem C26_len_full_false : ¬ C26_len_full := by
  intro h
  have hw : lenWitnessCheck = true := by decide
  unfold lenWitnessCheck at hw
  split at hw
  · rename_i s hs
    simp only [Bool.and_eq_true, Bool.not_eq_true'] at hw
    have := (allFitB_iff _ _).mpr (h .oracle lenWitness s hs hw.1)
    rw [hw.2] at this
    cases this
  · cases hw

/-! ### letter case -/

/-- names are pairwise distinct even when compared case-insensitively (how SQLite and MySQL compare identifiers) -/
def DistinctCI (s : Schema) : Prop :=
  ((tableNames s).map lower).Nodup ∧ (∀ t, ((tableCols s t).map (fun c => lower c.name)).Nodup) ∧ ((objNames s).map lower).Nodup

/-- the statement one would like for SQLite -/
def C26_case_full : Prop := ∀ (D : Decls) (s : Schema), generate .sqlite D = .ok s → DistinctCI s

/-- witness: `class Alpha(db.Entity): Name = Required(str); name = Required(str)` -/
def caseWitness : Decls :=
  [{ name := ['A'], root := ['A'], table := none,
     attrs := [{ name := ['i', 'd'], kind := .pk, auto := true, unique := some true },
               { name := ['N', 'a', 'm', 'e'], kind := .required, isString := true },
               { name := ['n', 'a', 'm', 'e'], kind := .required, isString := true }],
     pkAttrs := [['i', 'd']],
     indexes := [{ attrs := [(['A'], ['i', 'd'])], isPk := true, isUnique := true }] }]

def caseWitnessCols : List Name :=
  match generate .sqlite caseWitness with
  | .ok s => (tableCols s ['A']).map (fun c => lower c.name)
  | .error _ => []

/-- the unguarded statement is false: the registries compare names case-sensitively, `normalize_name` of the SQLite
    provider does not fold case, so `Name` and `name` are both accepted as columns of one table -/
theorem C26_case_full_false : ¬ C26_case_full := by
  intro h
  have hw : caseWitnessCols = [['i', 'd'], ['n', 'a', 'm', 'e'], ['n', 'a', 'm', 'e']] := by decide
  unfold caseWitnessCols at hw
  split at hw
  · rename_i s hs
    have := (h caseWitness s hs).2.1 ['A']
    rw [hw] at this
    simp at this
  · cases hw

theorem map_lower_eq {l : List Name} (h : ∀ n ∈ l, lower n = n) : l.map lower = l := by
  induction l with
  | nil => rfl
  | cons a l ih =>
    simp only [List.map_cons]
    rw [h a (by simp), ih (fun n hn => h n (by simp [hn]))]

/-- MAPPING, all declaration lists (guarded): if every name of the accepted mapping is in lower case, the names
    are pairwise distinct case-insensitively -/
theorem C26_case_partial (d : Dialect) (D : Decls) (s : Schema) (h : generate d D = .ok s)
    (hl : ∀ n ∈ allNames s, lower n = n) : DistinctCI s := by
  obtain ⟨h1, h2, h3⟩ := C26_names d D s h
  refine ⟨?_, ?_, ?_⟩
  · rw [map_lower_eq]; exact h1
    intro n hn; exact hl n (by simp [allNames, hn])
  · intro t
    have : (tableCols s t).map (fun c => lower c.name) = ((tableCols s t).map (·.name)).map lower := by
      simp [List.map_map, Function.comp_def]
    rw [this, map_lower_eq]; exact h2 t
    intro n hn
    apply hl
    simp only [List.mem_map, tableCols, List.mem_filter] at hn
    obtain ⟨c, ⟨hc, _⟩, rfl⟩ := hn
    simp only [allNames, List.mem_append, List.mem_map]
    exact Or.inl (Or.inl (Or.inr ⟨c, hc, rfl⟩))
  · rw [map_lower_eq]; exact h3
    intro n hn
    apply hl
    simp only [objNames, List.mem_append] at hn
    simp only [allNames, tableNames, List.mem_append]
    rcases hn with (hn | hn) | hn
    · exact Or.inl (Or.inl (Or.inl hn))
    · exact Or.inl (Or.inr hn)
    · exact Or.inr hn

/-- on PostgreSQL and MySQL every name produced by `normalize_name` is already in lower case, so the guard of
    `C26_case_partial` only constrains the user-given and the suffixed names -/
theorem C26_norm_lowercase (d : Dialect) (hd : lowerCasing d = true) (D : Decls) (s : Schema) (h : generate d D = .ok s) :
    (∀ t ∈ s.tables, t.src = .norm → lower t.name = t.name) ∧ (∀ c ∈ s.columns, c.src = .norm → lower c.name = c.name) ∧
    (∀ i ∈ s.indexes, ∀ n, i.name = some n → i.src = .norm → lower n = n) ∧
    (∀ f ∈ s.fks, ∀ n, f.name = some n → f.src = .norm → lower n = n) := by
  have hl := (generate_inv h).2
  exact ⟨fun t ht hs => (hl.tables t ht hs).2 hd, fun c hc hs => (hl.columns c hc hs).2 hd,
         fun i hi n hn hs => (hl.indexes i hi n hn hs).2 hd, fun f hf n hn hs => (hl.fks f hf n hn hs).2 hd⟩

/-! ### the schema matches the entity model -/

/-- MAPPING, all declaration lists: for every attribute, every column `generate_mapping` passed to `add_column`
    (logged in `placed`: table, entity, attribute, column names, `not attr.nullable`) is in the final schema exactly
    once, in that table, with that NOT NULL flag — later registry operations never remove, rename or re-flag it.
    The engine compares the log with `attr.columns` / `attr.nullable` of the real attributes on every run. -/
theorem C26_columns (d : Dialect) (D : Decls) (st : St d) (_h : generateSt d D = .ok st) :
    ∀ p ∈ st.placed, ∀ c ∈ p.cols,
      HasCol st.schema.1 p.table c p.notNull ∧
      (st.schema.1.columns.filter (fun col => col.table == p.table && col.name == c)).length = 1 := by
  intro p hp c hc
  have hh := st.placedOk p hp c hc
  refine ⟨hh, ?_⟩
  obtain ⟨col, hcol, ht, hn, _⟩ := hh
  have := col_unique st.schema.2.1 hcol
  rw [ht, hn] at this
  exact this

/-- MAPPING, all declaration lists: every foreign key `generate_mapping` registered for a relationship attribute
    (logged in `linked`) is in the final schema with the same child columns, parent table and parent columns -/
theorem C26_foreign_keys (d : Dialect) (D : Decls) (st : St d) (_h : generateSt d D = .ok st) :
    ∀ p ∈ st.linked, HasFk st.schema.1 p.child p.cols p.parent p.parentCols :=
  st.linkedOk

/-- MAPPING, all declaration lists: every index `generate_mapping` registered (logged in `indexed`: the primary key
    of each entity table and of each link table, every declared unique / composite key, composite index and attribute
    index) is in the final schema on exactly the logged column list of the logged table, with the logged primary-key
    kind (`True` / `'auto'`) and, for a non-primary index, the logged uniqueness -/
theorem C26_indexes (d : Dialect) (D : Decls) (st : St d) (_h : generateSt d D = .ok st) :
    ∀ p ∈ st.indexed, HasIdx st.schema.1 p.table p.cols p.isPk p.unique :=
  st.indexedOk

/-- REGISTRIES (all operation lists) and MAPPING (all declaration lists): the column of every single-column unique
    index - a unique attribute, a single-column primary key - carries the `is_unique` flag, whatever indexes, composite
    keys or foreign keys were registered over the same column before or afterwards. `Column.get_sql` renders UNIQUE
    from this flag only, so the constraint cannot get lost in the CREATE TABLE text. -/
theorem C26_unique_flag (d : Dialect) :
    (∀ (ops : List Op) (s : Schema), runOps d {} ops = .ok s → FlagInv s) ∧
    (∀ (D : Decls) (st : St d), generateSt d D = .ok st → FlagInv st.schema.1) :=
  ⟨fun _ _ h => runOps_flagInv flagInv_empty h, fun _ st _ => st.schema.2.2.2⟩

def flagWitness : List Op :=
  [.addTable ['t'] none, .addColumn ['t'] ['a'] true, .addColumn ['t'] ['b'] false,
   .addIndex ['t'] .none [['a']] .no (some true) false, .addIndex ['t'] .none [['a'], ['b']] .no none false]

/-- non-vacuous: a unique index on `a`, then a composite index over `a, b`: the column `a` is still flagged -/
example : (match runOps .sqlite {} flagWitness with
           | .ok s => s.columns.map (·.isUnique) | .error _ => []) = [true, false] := by decide

/-- `generate` is the schema component of `generateSt` -/
theorem C26_generate_state (d : Dialect) (D : Decls) (s : Schema) :
    generate d D = .ok s ↔ ∃ st, generateSt d D = .ok st ∧ st.schema.1 = s := by
  unfold generate
  cases hg : generateSt d D with
  | ok st =>
    simp only [Except.ok.injEq]
    constructor
    · intro h; exact ⟨st, rfl, h⟩
    · rintro ⟨st', h1, h2⟩; cases h1; exact h2
  | error e =>
    simp only
    constructor
    · intro h; cases h
    · rintro ⟨st', h1, _⟩; cases h1

def logSizes (d : Dialect) (D : Decls) : Nat × Nat × Nat :=
  match generateSt d D with
  | .ok st => (st.placed.length, st.linked.length, st.indexed.length)
  | .error _ => (0, 0, 0)

/-- the logs are not empty: three attributes with columns in `caseWitness`; two link-table foreign keys in `lenWitness` -/
example : logSizes .sqlite caseWitness = (3, 0, 1) ∧ logSizes .oracle lenWitness = (2, 2, 2) := by decide

/-! ### creation order -/

/-- ORDER, all accepted mappings: `order_tables_to_create` terminates with a permutation of the tables (no table
    lost, none twice), and every table is created after each of its parent tables unless the table has an infinite
    chain of ancestors, i.e. lies on or depends on a cycle of foreign keys -/
theorem C26_order (d : Dialect) (D : Decls) (s : Schema) (h : generate d D = .ok s) :
    (orderTablesToCreate s).Perm (tableNames s) ∧
    ∀ pre c post, orderTablesToCreate s = pre ++ c :: post → ∀ p ∈ parents s c, p ∈ pre ∨ ¬ Acc (ParentRel s) c :=
  orderTables_spec (generate_inv h).1

/-- the same for any list of registry operations -/
theorem C26_order_registry (d : Dialect) (ops : List Op) (s : Schema) (h : runOps d {} ops = .ok s) :
    (orderTablesToCreate s).Perm (tableNames s) ∧ GoodOrder s (orderTablesToCreate s) :=
  orderTables_spec (runOps_inv inv_empty (lenInv_empty d) h).1

/-- ORDER, acyclic case: when the foreign keys form no cycle every parent table is created before its children -/
theorem C26_order_acyclic (d : Dialect) (D : Decls) (s : Schema) (h : generate d D = .ok s)
    (hwf : WellFounded (ParentRel s)) :
    ∀ pre c post, orderTablesToCreate s = pre ++ c :: post → ∀ p ∈ parents s c, p ∈ pre := by
  intro pre c post heq p hp
  rcases (C26_order d D s h).2 pre c post heq p hp with h1 | h1
  · exact h1
  · exact absurd (hwf.apply c) h1

/-- CREATION SCRIPT, all accepted mappings, every dialect: scanning the object sequence of `generate_create_script` /
    `create_tables` in order, every ADD FOREIGN KEY command names a foreign key of the schema whose child table and
    parent table have both been created by an earlier CREATE TABLE command (so the order in which
    `order_tables_to_create` breaks cycles is harmless) -/
theorem C26_fk_after_tables (d : Dialect) (s : Schema) : Scan s [] (createScript d s) :=
  createLoop_scan d s (orderTablesToCreate s) []

example : ∃ s, generate .oracle lenWitness = .ok s := by
  have hw : lenWitnessCheck = true := by decide
  unfold lenWitnessCheck at hw
  split at hw
  · rename_i s hs; exact ⟨s, hs⟩
  · cases hw

end PonyVerif.Props.C26
