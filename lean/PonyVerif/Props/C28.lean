/-
  C28 — in-place changes to Json and array values are persisted; reads never mark the object modified.
  Property theorems only.  Model: Model/Tracked.lean (hand-written mirror of ormtypes.TrackedValue.make / tracked_method /
  TrackedDict / TrackedList / TrackedArray, core.Entity._attr_changed_ / Attribute.__set__ / flush).
  `Gen.TrackedTable.table` is REGENERATED from the real classes on every run (which mutating methods are overridden, what
  `make` does with tuples, which iterable arguments end up wrapped): the theorems about `table` are the obligations that
  break when an override is removed.
-/
import PonyVerif.Lemmas.Tracked
import PonyVerif.Gen.TrackedTable
namespace PonyVerif.Props.C28
open PonyVerif.Model.Tracked PonyVerif.Gen.TrackedTable

/-- session invariant: `Inv_wrapped` (every mutable container reachable from the attribute value is a Tracked wrapper),
    an object that has a row and whose bit is not set has the value of the database, the database holds plain JSON,
    the attribute's write bit is only set on a 'modified' object -/
def Inv (s : St) : Prop :=
  allW s.doc = true ∧ (s.status ≠ .created → s.status.alive = true → s.dirty = false → s.db = ser s.doc)
    ∧ (isPlain s.db = true ∧ isPlain s.committed = true) ∧ (s.dirty = true → s.status = .modified)

/-- the decidable guard of the partial theorems in readable form: the values stored by the operation contain no tuples and
    iterable arguments are of a kind that the method wraps (`list`, and `dict`/keyword arguments for `update`) -/
def jsonOK (cfg : Cfg) : Op → Bool
  | .lmut _ (.setitem _ v) | .lmut _ (.append v) | .lmut _ (.insert _ v) => tupFree v
  | .lmut _ (.setslice _ _ k vs) => cfg.wraps .setslice k && vs.all tupFree
  | .lmut _ (.setsliceStep _ _ _ k vs) => cfg.wraps .setslice k && vs.all tupFree
  | .lmut _ (.extend k vs) => cfg.wraps .extend k && vs.all tupFree
  | .lmut _ (.iadd k vs) => cfg.wraps .iadd k && vs.all tupFree
  | .lmut _ (.sortRaise _) => cfg.notifyOnError        -- a change that ends in an exception needs the try/finally
  | .dmut _ (.setitem _ v) | .dmut _ (.setdefault _ v) => tupFree v
  | .dmut _ (.update k ps kw) => cfg.wraps .update k && cfg.wraps .update .kw && (ps ++ kw).all (fun p => tupFree p.2)
  | .dmut _ (.ior k ps) => cfg.wraps .ior k && ps.all (fun p => tupFree p.2)
  | .assign v => tupFree v
  | _ => true

/-! ### Inv_wrapped is established on load and on assignment -/

/-- `validate` = `make` for everything that is not a wrapper of another object / attribute -/
theorem assigned_of_tupFree (cfg : Cfg) (v : T) (hv : tupFree v = true) : assigned cfg v = make cfg v := by
  cases v with
  | atom a => rfl
  | node k w xs => cases k <;> first | rfl | simp [tupFree] at hv

theorem assigned_eq_make (cfg : Cfg) (h : cfg.assignRebinds = true) (v : T) : assigned cfg v = make cfg v := by
  cases v with
  | atom a => rfl
  | node k w xs => cases k <;> simp [assigned, h]

/-- every way of handing a value in re-binds what is handed in -/
def rebindsAll (cfg : Cfg) : Bool := cfg.makeTuple && cfg.rebinds && cfg.assignRebinds

theorem assigned_allW (cfg : Cfg) (v : T) (hv : tupFree v = true ∨ rebindsAll cfg = true) : allW (assigned cfg v) = true := by
  rcases hv with hv | hv
  · rw [assigned_of_tupFree cfg v hv]; exact make_allW_of_tupFree cfg v hv
  · simp only [rebindsAll, Bool.and_eq_true] at hv
    rw [assigned_eq_make cfg hv.2 v]; exact make_allW cfg hv.1.1 hv.1.2 v

/-- loading: `dbval2val` = `make(json.loads(...))` gives a fully wrapped value, for every JSON document -/
theorem C28_load_wrapped (cfg : Cfg) (v : T) (hv : isPlain v = true) (vol : Bool := false) : Inv (St.load cfg v vol) := by
  refine ⟨?_, ?_, ⟨hv, hv⟩, ?_⟩
  · exact make_allW_of_tupFree cfg v (isPlain_tupFree v hv)
  · intro _ _ _; exact (ser_make cfg v hv).symm
  · intro h; cases h

/-- a new object `E(attr=v)`: `validate` wraps the value (the object is 'created': no row, no write bits) -/
theorem C28_create_wrapped (cfg : Cfg) (v : T) (hv : tupFree v = true ∨ rebindsAll cfg = true) (vol : Bool := false) :
    Inv (St.create cfg v vol) := by
  refine ⟨?_, ?_, ⟨rfl, rfl⟩, ?_⟩
  · exact assigned_allW cfg v hv
  · intro h; exact absurd rfl h
  · intro h; cases h

/-- assignment `obj.attr = v` of any value without tuples (and of any value at all if `make` wraps tuples) -/
theorem C28_assign_wrapped (cfg : Cfg) (s : St) (v : T) (hv : tupFree v = true ∨ rebindsAll cfg = true) :
    s.status.alive = true → allW (step cfg s (.assign v)).1.doc = true ∧ (s.status ≠ .created → (step cfg s (.assign v)).1.dirty = true) := by
  intro hal
  have hd : (step cfg s (.assign v)).1.doc = assigned cfg v := by simp only [step, hal, if_true, attrChanged]; split <;> rfl
  refine ⟨?_, ?_⟩
  · rw [hd]; exact assigned_allW cfg v hv
  · intro hs; simp [step, attrChanged, bitAll, hs, hal]

/-! ### the guard -/

theorem all_make_allW_of_tupFree (cfg : Cfg) (vs : List T) (h : vs.all tupFree = true) :
    (vs.map (make cfg)).all allW = true := by
  simp only [List.all_eq_true, List.mem_map] at h ⊢
  rintro _ ⟨v, hv, rfl⟩
  exact make_allW_of_tupFree cfg v (h v hv)

theorem pairs_make_allW_of_tupFree (cfg : Cfg) (ps : Items) (h : ps.all (fun p => tupFree p.2) = true) :
    ((ps.map (fun p => (p.1, make cfg p.2))).map (·.2)).all allW = true := by
  simp only [List.all_eq_true, List.mem_map] at h ⊢
  rintro _ ⟨_, ⟨p, hp, rfl⟩, rfl⟩
  exact make_allW_of_tupFree cfg p.2 (h p hp)

/-- ordinary JSON arguments satisfy the guard `argsW`, for every table -/
theorem C28_guard_json (cfg : Cfg) (op : Op) (h : jsonOK cfg op = true) : op.argsW cfg = true := by
  cases op with
  | lmut p m =>
      cases m <;> simp_all [jsonOK, Op.argsW, LMut.prep, LMut.args, makeVals, make_allW_of_tupFree, notifies, LMut.raises]
      all_goals (intro v hv; exact make_allW_of_tupFree cfg v (h.2 v hv))
  | dmut p m =>
      cases m with
      | update k ps kw =>
          simp only [jsonOK, Bool.and_eq_true, List.all_append] at h
          obtain ⟨⟨h1, h2⟩, h3, h4⟩ := h
          simp only [Op.argsW, DMut.prep, DMut.args, makePairs, h1, h2, if_true, List.map_append, List.all_append, Bool.and_eq_true]
          exact ⟨pairs_make_allW_of_tupFree cfg ps h3, pairs_make_allW_of_tupFree cfg kw h4⟩
      | ior k ps =>
          simp only [jsonOK, Bool.and_eq_true] at h
          simp only [Op.argsW, DMut.prep, DMut.args, makePairs, h.1, if_true]
          exact pairs_make_allW_of_tupFree cfg ps h.2
      | _ => simp_all [jsonOK, Op.argsW, DMut.prep, DMut.args, make_allW_of_tupFree]
  | assign v => simpa [Op.argsW] using assigned_allW cfg v (.inl (by simpa [jsonOK] using h))
  | _ => rfl

/-- when `make` wraps tuples and every iterable argument is wrapped, every operation satisfies the guard -/
theorem C28_guard_wrapsAll (cfg : Cfg) (hw : cfg.wrapsAll = true) (op : Op) : op.argsW cfg = true := by
  simp only [Cfg.wrapsAll, Bool.and_eq_true, List.isEmpty_iff] at hw
  obtain ⟨⟨⟨⟨ht, he⟩, hn⟩, hrb⟩, har⟩ := hw
  have hwr : ∀ m k, cfg.wraps m k = true := by intro m k; simp [Cfg.wraps, he]
  have hall : ∀ vs : List T, (vs.map (make cfg)).all allW = true := by
    intro vs; simp only [List.all_eq_true, List.mem_map]; rintro _ ⟨v, _, rfl⟩; exact make_allW cfg ht hrb v
  have hps : ∀ ps : Items, ((ps.map (fun p => (p.1, make cfg p.2))).map (·.2)).all allW = true := by
    intro ps; simp only [List.all_eq_true, List.mem_map]; rintro _ ⟨_, ⟨p, _, rfl⟩, rfl⟩; exact make_allW cfg ht hrb p.2
  cases op with
  | lmut p m => cases m <;> simp [Op.argsW, LMut.prep, LMut.args, makeVals, hwr, make_allW cfg ht hrb, hall, notifies, hn]
  | dmut p m =>
      cases m with
      | update k ps kw =>
          simp only [Op.argsW, DMut.prep, DMut.args, makePairs, hwr, if_true, List.map_append, List.all_append, Bool.and_eq_true]
          exact ⟨hps ps, hps kw⟩
      | ior k ps => simp only [Op.argsW, DMut.prep, DMut.args, makePairs, hwr, if_true]; exact hps ps
      | _ => simp [Op.argsW, DMut.prep, DMut.args, make_allW cfg ht hrb]
  | assign v => simpa [Op.argsW, assigned_eq_make cfg har] using make_allW cfg ht hrb v
  | _ => rfl

/-! ### one step -/

theorem attrChanged_doc (s : St) : (attrChanged s).doc = s.doc ∧ (attrChanged s).db = s.db := by
  unfold attrChanged; split <;> exact ⟨rfl, rfl⟩

theorem notified_doc (s : St) (n : Bool) (e : Option Err) : (notified s n e).1.doc = s.doc ∧ (notified s n e).1.db = s.db := by
  unfold notified; split
  · split
    · exact attrChanged_doc s
    · exact ⟨rfl, rfl⟩
  · exact ⟨rfl, rfl⟩

/-- `_attr_changed_` keeps the invariant — also when the value has just been replaced by any wrapped value `d` -/
theorem attrChanged_inv (s : St) (d : T) (hd : allW d = true) (h : Inv s) : Inv (attrChanged { s with doc := d }) := by
  obtain ⟨_, _, h3, h4⟩ := h
  unfold attrChanged
  split
  · exact ⟨hd, fun _ _ h => Bool.noConfusion h, h3, fun _ => rfl⟩
  · rename_i hc
    have hcr : s.status = .created := by simpa [bitAll] using hc
    exact ⟨hd, fun h => absurd hcr h, h3, h4⟩

/-- the notification after a change to `d`: `_attr_changed_` for a live object, an exception (and nothing else) for a dead one -/
theorem notified_inv (s : St) (d : T) (hd : allW d = true) (h : Inv s) (e : Option Err) : Inv (notified { s with doc := d } true e).1 := by
  unfold notified
  simp only [if_true]
  split
  · exact attrChanged_inv s d hd h
  · rename_i hal
    obtain ⟨_, _, h3, h4⟩ := h
    exact ⟨hd, fun _ ha => absurd ha hal, h3, h4⟩

theorem notified_inv_same (s : St) (h : Inv s) (n : Bool) (e : Option Err) : Inv (notified s n e).1 := by
  cases n
  · exact h
  · have := notified_inv s s.doc h.1 h e
    simpa using this

theorem doFlush_alive (s : St) : (doFlush s).status.alive = s.status.alive ∧ (doFlush s).doc = s.doc := by
  cases hs : s.status <;> simp [doFlush, hs, Status.alive]

theorem doFlush_inv (s : St) (h : Inv s) :
    Inv (doFlush s) ∧ ((doFlush s).status.alive = true → (doFlush s).db = ser (doFlush s).doc) ∧ (doFlush s).dirty = false := by
  obtain ⟨h1, h2, h3, h4⟩ := h
  cases hs : s.status <;> cases hd : s.dirty <;> simp_all [doFlush, Inv, isPlain_ser, Status.alive]

/-- `Inv` (in particular Inv_wrapped) is preserved by EVERY operation whose stored arguments come out wrapped:
    any mutator of list / dict / array at any path with arbitrary such arguments, reads, assignment, a change of another
    attribute, flush, reload, end of the session, delete — for objects of every status (created, loaded, inserted, updated,
    modified, deleted, session over), volatile or not -/
theorem C28_inv_step (cfg : Cfg) (hc : cfg.covers = true) (s : St) (op : Op) (hs : Inv s) (ha : op.argsW cfg = true) :
    Inv (step cfg s op).1 := by
  have hs' := hs
  obtain ⟨h1, h2, h3, h4⟩ := hs
  cases op with
  | lmut p m =>
      simp only [step]
      split
      · exact hs'
      split
      · rename_i d n hm
        have ha' : (m.prep cfg).args.all allW = true ∧ notifies cfg m = true := by simpa [Op.argsW] using ha
        have := modAt_sound (f := applyL cfg m) (fun t t' n ht h => applyL_sound hc ht ha'.1 ha'.2 h) p s.doc d n h1 hm
        rw [this.2]; exact notified_inv s d this.1 hs' _
      · exact notified_inv_same s hs' _ _
  | dmut p m =>
      simp only [step]
      split
      · exact hs'
      split
      · rename_i d n hm
        have := modAt_sound (f := applyD cfg m) (fun t t' n ht h => applyD_sound hc ht (by simpa [Op.argsW] using ha) h) p s.doc d n h1 hm
        rw [this.2]; exact notified_inv s d this.1 hs' _
      · exact notified_inv_same s hs' _ _
  | read p => exact hs'
  | touch => exact notified_inv_same s hs' true none
  | assign v =>
      simp only [step]
      split
      · exact attrChanged_inv s (assigned cfg v) (by simpa [Op.argsW] using ha) hs'
      · exact hs'
  | other =>
      simp only [step]
      split
      · rename_i hal
        split
        · rename_i hcr
          have hcr' : s.status ≠ .created := by simpa using hcr
          exact ⟨h1, fun _ _ => h2 hcr' hal, h3, fun _ => rfl⟩
        · exact hs'
      · exact hs'
  | flush => exact (doFlush_inv s hs').1
  | endSession =>
      simp only [step]
      split
      · have hf := (doFlush_inv s hs')
        exact ⟨hf.1.1, fun _ h => by simp [Status.alive] at h, ⟨hf.1.2.2.1.1, hf.1.2.2.1.1⟩, fun h => by simp [hf.2.2] at h⟩
      · exact hs'
  | commit =>
      have hf := (doFlush_inv s hs')
      exact ⟨hf.1.1, hf.1.2.1, ⟨hf.1.2.2.1.1, hf.1.2.2.1.1⟩, hf.1.2.2.2⟩
  | rollback =>
      simp only [step]
      split
      · exact ⟨h1, fun _ h => by simp [Status.alive] at h, ⟨h3.2, h3.2⟩, fun h => by simp at h⟩
      · exact hs'
  | delete =>
      simp only [step]
      split
      · exact ⟨h1, fun _ h => by simp [Status.alive] at h, h3, fun h => by simp at h⟩
      · exact hs'
  | refresh v =>
      simp only [step]
      split
      · rename_i hv
        simp only [Bool.and_eq_true, Bool.not_eq_true', bne_iff_ne, ne_eq] at hv
        obtain ⟨⟨⟨⟨⟨_, hd⟩, _⟩, _⟩, hp⟩, _⟩ := hv
        refine ⟨make_allW_of_tupFree cfg v (isPlain_tupFree v hp), fun _ _ _ => (ser_make cfg v hp).symm, ⟨hp, h3.2⟩, ?_⟩
        intro h; simp [hd] at h
      · exact hs'
  | reload v =>
      simp only [step]
      split
      · rename_i hv
        simp only [Bool.and_eq_true] at hv
        exact C28_load_wrapped cfg v hv.1 s.volatile
      · exact hs'

/-- `C28_wrapped_preserved`: Inv_wrapped after any operation (arbitrary path, arbitrary mutator, arguments under the guard) -/
theorem C28_wrapped_preserved (cfg : Cfg) (hc : cfg.covers = true) (s : St) (op : Op) (hs : Inv s) (ha : op.argsW cfg = true) :
    allW (step cfg s op).1.doc = true := (C28_inv_step cfg hc s op hs ha).1

/-- `C28_dirty`: on a wrapped value of an object that has a row (loaded / inserted / updated / modified; the attribute volatile
    or not — `_attr_changed_` looks the bit up in `_bits_`) every mutating method of list / array, applied at ANY depth with
    ANY arguments, that returns without an exception sets the attribute's write bit and makes the object 'modified' -/
theorem C28_dirty_list (cfg : Cfg) (hc : cfg.covers = true) (s : St) (hs : allW s.doc = true) (p : List Step) (m : LMut)
    (hcr : s.status ≠ .created) (hal : s.status.alive = true) (hok : (step cfg s (.lmut p m)).2 = none) :
    (step cfg s (.lmut p m)).1.dirty = true ∧ (step cfg s (.lmut p m)).1.status = .modified := by
  have hnr : refused cfg s p (isTrackedL cfg m) = false := by simp [refused, hal]
  simp only [step, hnr, Bool.false_eq_true, if_false] at hok ⊢
  split
  · rename_i d n hm
    have hr : notifies cfg m = true := by
      cases hmr : m.raises
      · simp [notifies, hmr]
      · cases n <;> simp [hm, hmr, notified, hal] at hok
    have := modAt_notifies (f := applyL cfg m) (fun t t' n ht h => applyL_notifies hc ht hr h) p s.doc d n hs hm
    simp [this, notified, attrChanged, bitAll, hcr, hal]
  · rename_i e n hm; cases n <;> simp [hm, notified, hal] at hok

theorem C28_dirty_dict (cfg : Cfg) (hc : cfg.covers = true) (s : St) (hs : allW s.doc = true) (p : List Step) (m : DMut)
    (hcr : s.status ≠ .created) (hal : s.status.alive = true) (hok : (step cfg s (.dmut p m)).2 = none) :
    (step cfg s (.dmut p m)).1.dirty = true ∧ (step cfg s (.dmut p m)).1.status = .modified := by
  have hnr : refused cfg s p (isTrackedD cfg m) = false := by simp [refused, hal]
  simp only [step, hnr, Bool.false_eq_true, if_false] at hok ⊢
  split
  · rename_i d n hm
    have := modAt_notifies (f := applyD cfg m) (fun t t' n ht h => applyD_notifies hc ht h) p s.doc d n hs hm
    simp [this, notified, attrChanged, bitAll, hcr, hal]
  · rename_i e n hm; cases n <;> simp [hm, notified, hal] at hok

/-- `_attr_changed_` sets the write bit of EVERY attribute that has a column, a volatile one as well: the bit is looked up in
    `_bits_`; `_bits_except_volatile_` (zero for a volatile attribute) is for the read bits of `Attribute.__get__` only -/
theorem C28_attr_changed_any (s : St) (h : s.status ≠ .created) :
    (attrChanged s).dirty = true ∧ (attrChanged s).status = .modified := by
  simp [attrChanged, bitAll, h]

example : bitExceptVolatile (St.load table (.atom .null) true) = false ∧ bitAll (St.load table (.atom .null) true) = true := by decide

/-- a change of another attribute makes the object 'modified' without setting this attribute's bit: the next UPDATE leaves
    the column alone, a later in-place change sets the bit again -/
theorem C28_other_then_change (cfg : Cfg) (s : St) (h : s.status ≠ .created) (hal : s.status.alive = true) :
    (step cfg s .other).1.dirty = s.dirty ∧ (step cfg s .other).1.status = .modified
      ∧ (attrChanged (doFlush (step cfg s .other).1)).dirty = true := by
  simp [step, h, hal, doFlush, attrChanged, bitAll]

/-- a method that is NOT overridden changes the value without telling anybody (why the coverage table matters) -/
theorem C28_uncovered_silent (cfg : Cfg) (w : Bool) (xs : Items) (m : LMut) (h : cfg.listOv.contains m.meth = false)
    (t' : T) (n : Bool) (ha : applyL cfg m (.node .list w xs) = .ok (t', n)) : n = false := by
  simp only [applyL, h, Bool.and_false, Bool.false_and] at ha
  split at ha
  · injection ha with ha; injection ha with _ h2; exact h2.symm
  · cases ha

/-- reads never mark the object modified (nor change anything else) -/
theorem C28_read_clean (cfg : Cfg) (s : St) (p : List Step) : (step cfg s (.read p)).1 = s := rfl

/-- a mutator that raises before it changes anything leaves the value and the database as they were -/
theorem C28_error_unchanged (cfg : Cfg) (s : St) (p : List Step) (m : LMut) (e : Err) (hm : m.raises = false)
    (hal : s.status.alive = true) (h : (step cfg s (.lmut p m)).2 = some e) :
    (step cfg s (.lmut p m)).1.doc = s.doc ∧ (step cfg s (.lmut p m)).1.db = s.db := by
  have hnr : refused cfg s p (isTrackedL cfg m) = false := by simp [refused, hal]
  simp only [step, hnr, Bool.false_eq_true, if_false] at h ⊢
  split
  · rename_i d n hm'; cases n <;> simp [hm', hm, notified, hal] at h
  · exact notified_doc s _ _

/-- the observation point of the property: when the session ends and a new session reads the value (`v` = what the database
    returns), `v` is the value the old session saw (as JSON, up to the order of object keys) and it is fully wrapped again -/
theorem C28_new_session (cfg : Cfg) (s : St) (hs : Inv s) (hal : s.status.alive = true) (v : T) (hok : (step cfg s (.reload v)).2 = none) :
    sameJson v (ser s.doc) = true ∧ (step cfg s (.reload v)).1.doc = make cfg v ∧ Inv (step cfg s (.reload v)).1 := by
  have hf := doFlush_inv s hs
  have hdoc : (doFlush s).doc = s.doc := by unfold doFlush; split <;> rfl
  simp only [step] at hok ⊢
  split
  · rename_i hv
    simp only [Bool.and_eq_true] at hv
    refine ⟨?_, rfl, C28_load_wrapped cfg v hv.1 s.volatile⟩
    rw [← hdoc, ← hf.2.1 (by rw [(doFlush_alive s).1]; exact hal)]; exact hv.2
  · rename_i hv; simp [hv] at hok

/-! ### objects whose session is over, deleted objects (the error branches of `_attr_changed_` / `__set__`) -/

/-- a wrapper outlives its session.  When `tracked_method` asks the owner FIRST (`refusesFirst`, the current source), a tracked
    mutator called on it is refused with DatabaseSessionIsOver (OperationWithDeletedObjectError for a deleted object) and changes
    NOTHING: neither the value in memory, nor the write bits, nor the database -/
theorem C28_dead_refused (cfg : Cfg) (hr : cfg.refusesFirst = true) (s : St) (hd : s.status.alive = false) (p : List Step) (m : LMut) (t : T)
    (ht : getAt p s.doc = some t) (htr : isTrackedL cfg m t = true) : step cfg s (.lmut p m) = (s, some (deadErr s)) := by
  simp [step, refused, hd, hr, ht, htr]

theorem C28_dead_refused_dict (cfg : Cfg) (hr : cfg.refusesFirst = true) (s : St) (hd : s.status.alive = false) (p : List Step) (m : DMut) (t : T)
    (ht : getAt p s.doc = some t) (htr : isTrackedD cfg m t = true) : step cfg s (.dmut p m) = (s, some (deadErr s)) := by
  simp [step, refused, hd, hr, ht, htr]

/-- the order of the current source, probed on the real classes with an owner that refuses: breaks the build when the check moves
    back behind the built-in method -/
theorem C28_refuses_first_current : table.refusesFirst = true := by decide

/-- … without that order the built-in method would change the value IN MEMORY and `_attr_changed_` would raise afterwards; still
    nothing would be marked or written -/
theorem C28_dead_raises (cfg : Cfg) (hr : cfg.refusesFirst = false) (s : St) (hd : s.status.alive = false) (p : List Step) (m : LMut) (d : T)
    (hm : modAt (applyL cfg m) p s.doc = .ok (d, true)) :
    (step cfg s (.lmut p m)).2 = some (deadErr s) ∧ (step cfg s (.lmut p m)).1.doc = d
      ∧ (step cfg s (.lmut p m)).1.db = s.db ∧ (step cfg s (.lmut p m)).1.dirty = s.dirty ∧ (step cfg s (.lmut p m)).1.status = s.status := by
  simp [step, refused, hr, hm, notified, hd, deadErr]

/-- once the session is over no operation short of reading the object again in a new session changes what the database holds -/
theorem C28_dead_nothing_written (cfg : Cfg) (s : St) (hd : s.status = .over) (op : Op) (hop : ∀ v, op ≠ .reload v) :
    (step cfg s op).1.db = s.db ∧ (step cfg s op).1.status = .over := by
  cases op with
  | lmut p m =>
      simp only [step]
      split
      · exact ⟨rfl, hd⟩
      split <;> (rename_i x n _; cases n <;> simp [notified, hd, Status.alive])
  | dmut p m =>
      simp only [step]
      split
      · exact ⟨rfl, hd⟩
      split <;> (rename_i x n _; cases n <;> simp [notified, hd, Status.alive])
  | reload v => exact absurd rfl (hop v)
  | _ => simp [step, notified, hd, Status.alive, doFlush]

/-- ending the session commits: what the database holds is the value the program still sees through its wrappers -/
theorem C28_end_session (cfg : Cfg) (s : St) (hs : Inv s) (hal : s.status.alive = true) :
    (step cfg s .endSession).1.db = ser (step cfg s .endSession).1.doc ∧ (step cfg s .endSession).1.status = .over := by
  have hf := doFlush_inv s hs
  have ha := doFlush_alive s
  simp only [step, hal, if_true]
  exact ⟨hf.2.1 (by rw [ha.1]; exact hal), trivial⟩

/-! ### flushed vs committed: commit and rollback -/

/-- `commit()`: what every other transaction sees from now on is the value the session sees -/
theorem C28_commit (cfg : Cfg) (s : St) (hs : Inv s) (hal : s.status.alive = true) :
    (step cfg s .commit).1.committed = ser (step cfg s .commit).1.doc ∧ (step cfg s .commit).1.dirty = false := by
  have hf := doFlush_inv s hs
  have ha := doFlush_alive s
  simp only [step]
  exact ⟨hf.2.1 (by rw [ha.1]; exact hal), hf.2.2⟩

/-- a flush alone changes nothing outside the transaction -/
theorem C28_flush_not_committed (cfg : Cfg) (s : St) : (step cfg s .flush).1.committed = s.committed := by
  simp only [step, doFlush]; split <;> rfl

/-- `rollback()`: every change made in place since the last commit — flushed or not — is gone from the database, and the
    session's objects are dead: the wrappers the program still holds are refused from now on (`C28_dead_refused`) -/
theorem C28_rollback (cfg : Cfg) (s : St) (hal : s.status.alive = true) :
    (step cfg s .rollback).1.db = s.committed ∧ (step cfg s .rollback).1.committed = s.committed
      ∧ (step cfg s .rollback).1.status = .over := by
  simp [step, hal]

/-! ### arbitrary operation sequences -/

theorem C28_inv_run (cfg : Cfg) (hc : cfg.covers = true) (ops : List Op) :
    ∀ s : St, Inv s → (∀ op ∈ ops, op.argsW cfg = true) → Inv (run cfg ops s) := by
  induction ops with
  | nil => intro s hs _; exact hs
  | cons op ops ih =>
      intro s hs ha
      exact ih _ (C28_inv_step cfg hc s op hs (ha op (by simp))) (fun o ho => ha o (by simp [ho]))

/-- the full statement for a given table: whatever document was loaded into a plain or a volatile attribute and whatever is
    done to it, what the database holds after the commit is the value the session sees (for an object that is still there: not
    deleted, its session not over — then nothing is written any more, see `C28_dead_nothing_written`) -/
def Full (cfg : Cfg) : Prop :=
  ∀ (v : T) (vol : Bool), isPlain v = true → ∀ ops : List Op,
    (run cfg (ops ++ [.flush]) (St.load cfg v vol)).status.alive = true →
    (run cfg (ops ++ [.flush]) (St.load cfg v vol)).db = ser (run cfg (ops ++ [.flush]) (St.load cfg v vol)).doc

/-- `C28_persist` (partial: guard `argsW`): for every table that covers the mutators, every start state satisfying the
    invariant, every sequence of operations whose stored arguments come out wrapped -/
theorem C28_persist (cfg : Cfg) (hc : cfg.covers = true) (s0 : St) (h0 : Inv s0) (ops : List Op)
    (ha : ∀ op ∈ ops, op.argsW cfg = true) :
    ((run cfg (ops ++ [.flush]) s0).status.alive = true → (run cfg (ops ++ [.flush]) s0).db = ser (run cfg (ops ++ [.flush]) s0).doc)
      ∧ (run cfg (ops ++ [.flush]) s0).dirty = false := by
  rw [run_append]
  have hi := C28_inv_run cfg hc ops s0 h0 ha
  exact (doFlush_inv _ hi).2

/-- operation sequences that end in a commit: the committed value is the value the session sees (guarded statement; the full
    one follows from `C28_full_iff`, the last flush being the one of the commit) -/
theorem C28_persist_committed (cfg : Cfg) (hc : cfg.covers = true) (s0 : St) (h0 : Inv s0) (ops : List Op)
    (ha : ∀ op ∈ ops, op.argsW cfg = true) :
    (run cfg (ops ++ [.commit]) s0).status.alive = true →
      (run cfg (ops ++ [.commit]) s0).committed = ser (run cfg (ops ++ [.commit]) s0).doc := by
  rw [run_append]
  have hi := C28_inv_run cfg hc ops s0 h0 ha
  intro hal
  have hal' : (run cfg ops s0).status.alive = true := by
    have := (doFlush_alive (run cfg ops s0)).1
    simpa [run, step, this] using hal
  exact (C28_commit cfg _ hi hal').1

/-- ordinary JSON (dict / list / scalars handed in directly, in lists, dicts or keyword arguments): persisted, for the
    table generated from the current source -/
theorem C28_persist_json_current (v : T) (hv : isPlain v = true) (vol : Bool) (ops : List Op) (ha : ∀ op ∈ ops, jsonOK table op = true) :
    (run table (ops ++ [.flush]) (St.load table v vol)).status.alive = true →
    (run table (ops ++ [.flush]) (St.load table v vol)).db = ser (run table (ops ++ [.flush]) (St.load table v vol)).doc :=
  (C28_persist table (by decide) _ (C28_load_wrapped table v hv vol) ops (fun op ho => C28_guard_json table op (ha op ho))).1

/-- what the current source does with a wrapper of another object / attribute that is handed in: `make` and `validate` re-bind it
    (probed on the real classes and on a real entity; breaks the build when either keeps the foreign wrapper) -/
theorem C28_rebinds_current : table.rebinds = true ∧ table.assignRebinds = true := by decide

/-- the same for an object created in this session (no row, no write bits until the first flush) -/

theorem C28_persist_created_json_current (v : T) (hv : tupFree v = true) (vol : Bool) (ops : List Op) (ha : ∀ op ∈ ops, jsonOK table op = true) :
    (run table (ops ++ [.flush]) (St.create table v vol)).status.alive = true →
    (run table (ops ++ [.flush]) (St.create table v vol)).db = ser (run table (ops ++ [.flush]) (St.create table v vol)).doc :=
  (C28_persist table (by decide) _ (C28_create_wrapped table v (.inl hv) vol) ops (fun op ho => C28_guard_json table op (ha op ho))).1

/-- coverage of the current source: every mutating method of list and dict is overridden in TrackedList, TrackedDict and
    TrackedArray (finite check over the generated table) -/
theorem C28_cover_current : table.covers = true := by decide

/-- `tracked_method` of the current source notifies also when the built-in method raised (try/finally): the flag probed on the
    real classes.  Breaks the build when the try/finally goes away. -/
theorem C28_notify_on_error_current : table.notifyOnError = true := by decide

/-- … hence, for the current source, a sort that raises after it has reordered the list at any depth still marks the object -/
theorem C28_partial_change_dirty_current (s : St) (hs : allW s.doc = true) (hcr : s.status ≠ .created) (hal : s.status.alive = true)
    (p : List Step) (perm : List Nat)
    (d : T) (n : Bool) (hm : modAt (applyL table (.sortRaise perm)) p s.doc = .ok (d, n)) :
    (step table s (.lmut p (.sortRaise perm))).1.dirty = true ∧ (step table s (.lmut p (.sortRaise perm))).1.doc = d := by
  have hr : notifies table (.sortRaise perm) = true := by simp [notifies, C28_notify_on_error_current]
  have := modAt_notifies (f := applyL table (.sortRaise perm)) (fun t t' n ht h => applyL_notifies C28_cover_current ht hr h) p s.doc d n hs hm
  have hnr : refused table s p (isTrackedL table (.sortRaise perm)) = false := by simp [refused, hal]
  simp only [step, hnr, Bool.false_eq_true, if_false, hm, this, notified, hal, if_true]
  exact ⟨by simp [attrChanged, bitAll, hcr], (attrChanged_doc _).1⟩

/-- the cross-check table: every overridden mutator was also observed to notify -/
theorem C28_notify_current : LM.all.all (fun m => listNotify.contains m) && DM.all.all (fun m => dictNotify.contains m)
    && LM.all.all (fun m => arrNotify.contains m) = true := by decide

/-- the reference table and the method enumerations agree: the names classified "mut" in `listDir` / `dictDir` are exactly
    the Python names of `LM.all` / `DM.all` -/
theorem C28_reference_consistent :
    ((listDir.filter (fun p => p.2 == "mut")).map (·.1)).all (fun n => (LM.all.map LM.pyName).contains n) = true
    ∧ (LM.all.map LM.pyName).all (fun n => ((listDir.filter (fun p => p.2 == "mut")).map (·.1)).contains n) = true
    ∧ ((dictDir.filter (fun p => p.2 == "mut")).map (·.1)).all (fun n => (DM.all.map DM.pyName).contains n) = true
    ∧ (DM.all.map DM.pyName).all (fun n => ((dictDir.filter (fun p => p.2 == "mut")).map (·.1)).contains n) = true := by
  decide

/-! ### the full statement holds exactly for the tables that wrap everything -/

theorem C28_full_of_wrapsAll (cfg : Cfg) (hc : cfg.covers = true) (hw : cfg.wrapsAll = true) : Full cfg := by
  intro v vol hv ops
  exact (C28_persist cfg hc _ (C28_load_wrapped cfg v hv vol) ops (fun op _ => C28_guard_wrapsAll cfg hw op)).1

/-! ### … and only for those: a witness for every way of leaving a stored container unwrapped -/

/-- the witnesses start from the document `[[], {}]` -/
def v0 : T := .node .list false [("", .node .list false []), ("", .node .dict false [])]
/-- the argument `{"": []}` -/
def elemE : T := .node .dict false [("", .node .list false [])]
def one : T := .atom (.num 1)

/-- `x = obj.data[0]; x.extend(<iterable of kind k containing {"": []}>); flush(); obj.data[0][0][""].append(1); commit()` -/
def witnessL (m : IterKind → List T → LMut) (k : IterKind) : List Op :=
  [.lmut [.idx 0] (m k [elemE]), .flush, .lmut [.idx 0, .idx 0, .key ""] (.append one)]
/-- `obj.data[1].update(<pairs of kind k: ("", {"": []})>); flush(); obj.data[1][""][""].append(1); commit()` -/
def witnessD (m : IterKind → Items → DMut) (k : IterKind) : List Op :=
  [.dmut [.idx 1] (m k [("", elemE)]), .flush, .lmut [.idx 1, .key "", .key ""] (.append one)]
/-- `obj.data[0].append(([],)); flush(); obj.data[0][0][0].append(1); commit()` -/
def witnessT : List Op :=
  [.lmut [.idx 0] (.append (.node .tup false [("", .node .list false [])])), .flush, .lmut [.idx 0, .idx 0, .idx 0] (.append one)]

theorem C28_lost_extend (cfg : Cfg) (hc : cfg.covers = true) (k : IterKind) (hu : cfg.wraps .extend k = false) : ¬ Full cfg := by
  intro hF
  have h := hF v0 false (by decide) (witnessL .extend k)
  have h1 : LM.extend ∈ cfg.listOv := by simpa using Cfg.covers_list hc .extend
  have h2 : LM.append ∈ cfg.listOv := by simpa using Cfg.covers_list hc .append
  simp [witnessL, run, step, notified, attrChanged, bitAll, notifies, LMut.raises, Kind.isMap, Status.alive, refused, St.load, v0, elemE, one, make, makeL, modAt, locate, normIdx, applyL, lEffect, LMut.prep, LMut.meth, makeVals,
    doFlush, ser, serL, Kind.ser, h1, h2, hu, li, List.findIdx?_cons] at h

theorem C28_lost_iadd (cfg : Cfg) (hc : cfg.covers = true) (k : IterKind) (hu : cfg.wraps .iadd k = false) : ¬ Full cfg := by
  intro hF
  have h := hF v0 false (by decide) (witnessL .iadd k)
  have h1 : LM.iadd ∈ cfg.listOv := by simpa using Cfg.covers_list hc .iadd
  have h2 : LM.append ∈ cfg.listOv := by simpa using Cfg.covers_list hc .append
  simp [witnessL, run, step, notified, attrChanged, bitAll, notifies, LMut.raises, Kind.isMap, Status.alive, refused, St.load, v0, elemE, one, make, makeL, modAt, locate, normIdx, applyL, lEffect, LMut.prep, LMut.meth, makeVals,
    doFlush, ser, serL, Kind.ser, h1, h2, hu, li, List.findIdx?_cons] at h

theorem C28_lost_setslice (cfg : Cfg) (hc : cfg.covers = true) (k : IterKind) (hu : cfg.wraps .setslice k = false) : ¬ Full cfg := by
  intro hF
  have h := hF v0 false (by decide) (witnessL (.setslice none none) k)
  have h1 : LM.setitem ∈ cfg.listOv := by simpa using Cfg.covers_list hc .setitem
  have h2 : LM.append ∈ cfg.listOv := by simpa using Cfg.covers_list hc .append
  simp [witnessL, run, step, notified, attrChanged, bitAll, notifies, LMut.raises, Kind.isMap, Status.alive, refused, St.load, v0, elemE, one, make, makeL, modAt, locate, normIdx, applyL, lEffect, LMut.prep, LMut.meth, makeVals,
    sliceBounds, doFlush, ser, serL, Kind.ser, h1, h2, hu, li, List.findIdx?_cons] at h

theorem C28_lost_update (cfg : Cfg) (hc : cfg.covers = true) (k : IterKind) (hu : cfg.wraps .update k = false) : ¬ Full cfg := by
  intro hF
  have h := hF v0 false (by decide) (witnessD (fun k ps => .update k ps []) k)
  have h1 : DM.update ∈ cfg.dictOv := by simpa using Cfg.covers_dict hc .update
  have h2 : LM.append ∈ cfg.listOv := by simpa using Cfg.covers_list hc .append
  simp [witnessD, run, step, notified, attrChanged, bitAll, notifies, LMut.raises, Kind.isMap, Status.alive, refused, St.load, v0, elemE, one, make, makeL, modAt, locate, normIdx, applyL, applyD, lEffect, dEffect, dSetAll, dSet,
    LMut.meth, DMut.prep, DMut.meth, makePairs, doFlush, ser, serL, Kind.ser, h1, h2, hu, li, List.findIdx?_cons] at h

theorem C28_lost_ior (cfg : Cfg) (hc : cfg.covers = true) (k : IterKind) (hu : cfg.wraps .ior k = false) : ¬ Full cfg := by
  intro hF
  have h := hF v0 false (by decide) (witnessD .ior k)
  have h1 : DM.ior ∈ cfg.dictOv := by simpa using Cfg.covers_dict hc .ior
  have h2 : LM.append ∈ cfg.listOv := by simpa using Cfg.covers_list hc .append
  simp [witnessD, run, step, notified, attrChanged, bitAll, notifies, LMut.raises, Kind.isMap, Status.alive, refused, St.load, v0, elemE, one, make, makeL, modAt, locate, normIdx, applyL, applyD, lEffect, dEffect, dSetAll, dSet,
    LMut.meth, DMut.prep, DMut.meth, makePairs, doFlush, ser, serL, Kind.ser, h1, h2, hu, li, List.findIdx?_cons] at h

theorem C28_lost_tuple (cfg : Cfg) (hc : cfg.covers = true) (hu : cfg.makeTuple = false) : ¬ Full cfg := by
  intro hF
  have h := hF v0 false (by decide) witnessT
  have h2 : LM.append ∈ cfg.listOv := by simpa using Cfg.covers_list hc .append
  have hm : cfg.tupleMode = .leave := by simpa [Cfg.makeTuple] using hu
  simp [witnessT, run, step, notified, attrChanged, bitAll, notifies, LMut.raises, Kind.isMap, Status.alive, refused, St.load, v0, one, make, makeL, modAt, locate, normIdx, applyL, lEffect, LMut.prep, LMut.meth,
    doFlush, ser, serL, Kind.ser, h2, hm, li] at h

/-- `x = obj.data; x.sort()` raising after it has exchanged the two items -/
def witnessP : List Op := [.lmut [] (.sortRaise [1, 0])]

/-- without the try/finally in `tracked_method` a change that ends in an exception is not written -/
theorem C28_lost_partial (cfg : Cfg) (hc : cfg.covers = true) (hu : cfg.notifyOnError = false) : ¬ Full cfg := by
  intro hF
  have h := hF v0 false (by decide) witnessP
  have h1 : LM.sort ∈ cfg.listOv := by simpa using Cfg.covers_list hc .sort
  simp [witnessP, run, step, notified, attrChanged, bitAll, notifies, LMut.raises, Kind.isMap, Status.alive, refused, St.load, v0, make, makeL, modAt, applyL, lEffect,
    LMut.prep, LMut.meth, doFlush, ser, serL, Kind.ser, h1, hu] at h

/-- a list that belongs to another object -/
def foreignL : T := .node .flist false []

/-- `obj.data[0].append(<list of another object>); flush(); obj.data[0][0].append(1)` -/
def witnessF : List Op := [.lmut [.idx 0] (.append foreignL), .flush, .lmut [.idx 0, .idx 0] (.append one)]
/-- `obj.data = <list of another object>; flush(); obj.data.append(1)` -/
def witnessA : List Op := [.assign foreignL, .flush, .lmut [] (.append one)]

/-- if `make` kept a wrapper that belongs to another object, a change made through it would tell the other object -/
theorem C28_lost_foreign_arg (cfg : Cfg) (hc : cfg.covers = true) (hu : cfg.rebinds = false) : ¬ Full cfg := by
  intro hF
  have h := hF v0 false (by decide) witnessF
  have h2 : LM.append ∈ cfg.listOv := by simpa using Cfg.covers_list hc .append
  simp [witnessF, foreignL, run, step, notified, attrChanged, bitAll, notifies, LMut.raises, Kind.isMap, Status.alive, refused, St.load, v0, one, make, makeL, makeF, modAt,
    locate, normIdx, applyL, lEffect, LMut.prep, LMut.prepF, LMut.meth, doFlush, ser, serL, Kind.ser, h2, hu, li] at h

theorem C28_lost_foreign_assign (cfg : Cfg) (hu : cfg.assignRebinds = false) : ¬ Full cfg := by
  intro hF
  have h := hF v0 false (by decide) witnessA
  simp [witnessA, foreignL, run, step, notified, attrChanged, bitAll, assigned, Status.alive, refused, St.load, v0, one, make, makeL, makeF, modAt,
    applyL, lEffect, LMut.prepF, doFlush, ser, serL, Kind.ser, hu, li] at h

/-- `C28_full_iff`: for a table that covers the mutators, the full statement (every change made in place, through any
    operation sequence with ARBITRARY arguments, is in the database after the commit) holds if and only if `make` wraps the
    containers inside tuples, every iterable argument's elements are wrapped, a change that ends in an exception is notified, and a
    wrapper of another object / attribute that is handed in (as argument or by assignment) is re-bound to this one.  `table.wrapsAll` is evaluated on the table
    generated from the current source; the engine replays the witnesses on the real code. -/
theorem C28_full_iff (cfg : Cfg) (hc : cfg.covers = true) : Full cfg ↔ cfg.wrapsAll = true := by
  constructor
  · intro hF
    cases ht : cfg.makeTuple with
    | false => exact absurd hF (C28_lost_tuple cfg hc ht)
    | true =>
      cases hl : cfg.iterUnwrapped with
      | nil =>
        cases hn : cfg.notifyOnError with
        | false => exact absurd hF (C28_lost_partial cfg hc hn)
        | true =>
          cases hrb : cfg.rebinds with
          | false => exact absurd hF (C28_lost_foreign_arg cfg hc hrb)
          | true =>
            cases har : cfg.assignRebinds with
            | false => exact absurd hF (C28_lost_foreign_assign cfg har)
            | true => simp [Cfg.wrapsAll, ht, hl, hn, hrb, har]
      | cons mk rest =>
        obtain ⟨m, k⟩ := mk
        have hu : cfg.wraps m k = false := by simp [Cfg.wraps, hl]
        cases m with
        | extend => exact absurd hF (C28_lost_extend cfg hc k hu)
        | iadd => exact absurd hF (C28_lost_iadd cfg hc k hu)
        | setslice => exact absurd hF (C28_lost_setslice cfg hc k hu)
        | update => exact absurd hF (C28_lost_update cfg hc k hu)
        | ior => exact absurd hF (C28_lost_ior cfg hc k hu)
  · exact C28_full_of_wrapsAll cfg hc

/-! ### the hypotheses are satisfiable, the guard is not vacuous -/

/-- the table of the Tracked classes before iterables and tuples were wrapped (for the examples only) -/
def cfgUnwrapped : Cfg := {
  listOv := LM.all,
  dictOv := DM.all,
  arrOv := LM.all,
  tupleMode := TupleMode.leave,
  rebinds := true,
  assignRebinds := true,
  iterUnwrapped := [(.extend, .tuple), (.extend, .gen), (.ior, .list)],
  notifyOnError := false,
  refusesFirst := true }

example : cfgUnwrapped.covers = true ∧ cfgUnwrapped.wrapsAll = false := by decide
-- the change made through a wrapper after the end of the session stays in memory and raises
example : (step cfgUnwrapped (step cfgUnwrapped (St.load cfgUnwrapped v0) .endSession).1 (.lmut [.idx 0] (.append one))).2 = some .session := by decide
example : allW (step cfgUnwrapped (step cfgUnwrapped (St.load cfgUnwrapped v0) .endSession).1 (.lmut [.idx 0] (.append one))).1.doc = true := by decide
example : (step cfgUnwrapped (step cfgUnwrapped (St.load cfgUnwrapped v0) .delete).1 (.lmut [.idx 0] (.append one))).2 = some .deleted := by decide


-- extended slices: `x[::2] = [[], []]` on a 3-item list stores two wrapped lists; `del x[::-2]` keeps the middle item
example : (lEffect (.setsliceStep none none 2 .list [.atom .null, .atom .null]) [li one, li one, li one]).toOption
    = some [li (.atom .null), li one, li (.atom .null)] := by rfl
example : (lEffect (.delsliceStep none none (-2)) [li one, li (.atom .null), li one]).toOption = some [li (.atom .null)] := by rfl
example : (lEffect (.setsliceStep none none 2 .list [one]) [li one, li one, li one]).toOption = none := by rfl
example : Inv (St.load table v0) := C28_load_wrapped table v0 (by decide)
-- an ordinary nested JSON argument at depth 2 meets the guard, for the table of the current source
example : jsonOK table (.lmut [.idx 0, .idx 1] (.append (.node .dict false [("", .node .list false [.mk "" one])]))) = true := by decide
example : jsonOK cfgUnwrapped (.dmut [.idx 1] (.update .dict [("", elemE)] [("", elemE)])) = true := by decide
-- the guard is not vacuous: a tuple argument holding a container does not meet it when tuples are not wrapped …
example : Op.argsW cfgUnwrapped (.lmut [.idx 0] (.extend .tuple [elemE])) = false := by decide
example : Op.argsW cfgUnwrapped (.lmut [.idx 0] (.append (.node .tup false [("", .node .list false [])]))) = false := by decide
-- … and the same arguments in a list do
example : Op.argsW cfgUnwrapped (.lmut [.idx 0] (.extend .list [elemE])) = true := by decide
-- a change at depth 3 through `witnessL` with a LIST argument is written (dirty bit set, then cleared by the flush)
example : (run cfgUnwrapped (witnessL .extend .list) (St.load cfgUnwrapped v0)).dirty = true := by decide
example : (run cfgUnwrapped (witnessL .extend .tuple) (St.load cfgUnwrapped v0)).dirty = false := by decide
example : allW (run cfgUnwrapped (witnessL .extend .tuple) (St.load cfgUnwrapped v0)).doc = false := by decide

/-- the verdict for the current source, whichever way the generated table says -/
theorem C28_current : Full table ↔ table.wrapsAll = true := C28_full_iff table C28_cover_current

end PonyVerif.Props.C28
