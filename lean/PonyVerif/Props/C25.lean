/-
  C25 — string indexing and slicing translate to Python semantics on every dialect.
  Property theorems only.  `Gen.stringSlice` is regenerated from /repo's `SQLBuilder.STRING_SLICE` on every run;
  `C25_bridge` is the obligation that breaks when that function changes.

  Structure:  Gen.stringSlice  ==C25_bridge==>  stringSliceT (typed mirror)  ==C25_slice_*==>  pySlice
              (hand model of StringMixin.__getitem__)  ==C25_getitem_*==>  pySlice / pyIndex
  Where the code's translation is wrong under the documented dialect semantics the full statement is kept as a
  `def … : Prop`, its negation is proved with a concrete witness (`…_false`), and the `…_partial` theorem carries
  the guard explicitly.
-/
import PonyVerif.Gen.StringSlice
import PonyVerif.Py.Lemmas
import PonyVerif.Lemmas.SqlStr
import PonyVerif.Lemmas.SqlStrExt
namespace PonyVerif.Props.C25
open PonyVerif.Py PonyVerif.Gen PonyVerif.Model.SqlStr

/-! ### bridge: the regenerated `STRING_SLICE` computes the typed mirror -/

/-- one tactic for all nine start/stop shapes -/
macro "bridge_tac" : tactic => `(tactic|
  (simp [stringSlice, stringSliceT, startNorm, indexSql, lenSql, maxz, Arg.enc, Sql.enc, getItem_enc_value, getItem_enc_value0,
         getItem_enc_zero, tag_eq_value, isNone_enc, name_is_pg, bind, Except.bind, pure, Except.pure, *] <;>
   (repeat' split) <;> simp_all [Sql.enc]))

theorem C25_bridge (d : Dialect) (e : Sql) (start stop : Arg) (hs : Arg.wf start) (ht : Arg.wf stop) :
    stringSlice e.enc start.enc stop.enc (.str d.name) = .ok (.call "builder" [(stringSliceT d e start stop).enc]) := by
  by_cases hd : d = .pg <;>
  rcases start with _ | a | x <;> rcases stop with _ | b | y <;> simp only [Arg.wf] at hs ht
  case pos.omitted.omitted => bridge_tac
  case neg.omitted.omitted => bridge_tac
  case pos.omitted.const => rcases sign_dich b with ⟨h1, h1'⟩ | ⟨h1, h1'⟩ <;> bridge_tac
  case neg.omitted.const => rcases sign_dich b with ⟨h1, h1'⟩ | ⟨h1, h1'⟩ <;> bridge_tac
  case pos.omitted.expr => bridge_tac
  case neg.omitted.expr => bridge_tac
  case pos.const.omitted => rcases sign_dich a with ⟨h0, h0'⟩ | ⟨h0, h0'⟩ <;> by_cases h2 : a < -1 <;> bridge_tac
  case neg.const.omitted => rcases sign_dich a with ⟨h0, h0'⟩ | ⟨h0, h0'⟩ <;> bridge_tac
  case pos.const.const =>
    rcases sign_dich a with ⟨h0, h0'⟩ | ⟨h0, h0'⟩ <;> rcases sign_dich b with ⟨h1, h1'⟩ | ⟨h1, h1'⟩ <;> by_cases h2 : a < -1 <;> bridge_tac
  case neg.const.const =>
    rcases sign_dich a with ⟨h0, h0'⟩ | ⟨h0, h0'⟩ <;> rcases sign_dich b with ⟨h1, h1'⟩ | ⟨h1, h1'⟩ <;> bridge_tac
  case pos.const.expr => rcases sign_dich a with ⟨h0, h0'⟩ | ⟨h0, h0'⟩ <;> by_cases h2 : a < -1 <;> bridge_tac
  case neg.const.expr => rcases sign_dich a with ⟨h0, h0'⟩ | ⟨h0, h0'⟩ <;> bridge_tac
  case pos.expr.omitted => bridge_tac
  case neg.expr.omitted => bridge_tac
  case pos.expr.const => rcases sign_dich b with ⟨h1, h1'⟩ | ⟨h1, h1'⟩ <;> bridge_tac
  case neg.expr.const => rcases sign_dich b with ⟨h1, h1'⟩ | ⟨h1, h1'⟩ <;> bridge_tac
  case pos.expr.expr => bridge_tac
  case neg.expr.expr => bridge_tac

/-- the SQL text pieces `SQLiteBuilder.STRING_SLICE` returns: `py_string_slice(<e>, <a>, <b>)` -/
def sqliteText (e a b : Sql) : PyVal :=
  .list [.str "py_string_slice(", .call "builder" [e.enc], .str ", ", .call "builder" [a.enc], .str ", ", .call "builder" [b.enc], .str ")"]

/-- bridge for the SQLite path: the definition regenerated from `SQLiteBuilder.STRING_SLICE` renders exactly the call
    `py_string_slice(e, start | NULL, stop | NULL)` that `sqliteSliceT` denotes -/
theorem C25_bridge_sqlite (e : Sql) (start stop : Arg) :
    sqliteStringSlice e.enc start.enc stop.enc = .ok (sqliteText e start.sql stop.sql) := by
  rcases start with _ | a | x <;> rcases stop with _ | b | y <;>
    simp [sqliteStringSlice, sqliteText, Arg.enc, Arg.sql, Sql.enc, isNone_enc, pure, Except.pure]

/-! ### the driver evaluates exactly the AST it is sent

On every run the engine sends the AST Pony REALLY emitted (nested lists) to the driver, which decodes it with `dec` and runs
`eval` on the result.  `dec` is total and is the two-sided inverse of `enc`: the typed tree that is evaluated encodes back to
precisely the list that was sent, and nothing a typed tree can express is lost. -/

theorem C25_dec_sound (v : PyVal) (t : Sql) (h : dec v = some t) : t.enc = v := dec_sound v t h

theorem C25_dec_enc (t : Sql) : dec t.enc = some t := dec_enc t

/-! ### statements -/


/-- "the SQL built by STRING_SLICE computes Python's slice" on dialect `d`, for all strings, bounds and
    environments that satisfy the guard `G` -/
def SliceStmt (d : Dialect) (G : List Char → Arg → Arg → Option Int → Option Int → Prop) : Prop :=
  ∀ (env : Env) (e : Sql) (s : List Char) (start stop : Arg) (i j : Option Int),
    eval d env e = .ok (.str s) → Arg.denotes d env start i → Arg.denotes d env stop j → G s start stop i j →
    eval d env (stringSliceT d e start stop) = .ok (strVal d (pySlice s i j))

/-- guards (all decidable) -/
def startInRange (s : List Char) (i : Option Int) : Prop := -(s.length : Int) ≤ i.getD 0
def noMixedClip (s : List Char) (i j : Option Int) : Prop :=
  i.getD 0 < 0 → ∀ b, j = some b → 0 ≤ b → (s.length : Int) ≤ b
def singleByte (s : List Char) : Prop := byteLen s = s.length
def noNegConstLen (start stop : Arg) (i j : Option Int) : Prop :=
  ¬ (start.isConstStart = true ∧ stop.isConstStop = true ∧
     ∃ b, j = some b ∧ ((i.getD 0 ≥ 0 ∧ b ≥ 0) ∨ (i.getD 0 < 0 ∧ b < 0)) ∧ b < i.getD 0)

/-! ### PostgreSQL -/

/-- PostgreSQL: the generic translation computes Python's slice for every string and all bounds, except that two
    constant bounds of equal sign with `stop < start` make `substr` receive a negative length (an error). -/
theorem C25_slice_pg_partial : SliceStmt .pg (fun _ st sp i j => noNegConstLen st sp i j) := by
  intro env e s start stop i j he hi hj hg
  apply slice_core .pg env e s start stop i j (by simp [lengthOf]) he hi hj
  · intro raw a b hraw _ hia hjb
    rw [strVal_pg]
    apply pg_substr3
    rintro ⟨hr, hss, hlt⟩
    obtain ⟨h1, h2⟩ := hraw hr
    exact hg ⟨h1, h2, b, hjb, by rw [hia]; exact hss, by rw [hia]; exact hlt⟩
  · intro a _ _; rw [strVal_pg]; exact pg_substr2 s a

/-- full statement (no guard) for a dialect -/
def C25_slice_full (d : Dialect) : Prop := SliceStmt d (fun _ _ _ _ _ => True)

def envS (s : List Char) : Env := ⟨fun _ => some (.str s), fun _ => none⟩

/-- witness: `'ab'[1:0]` with constant bounds becomes `substr(s, 2, -1)` -/
theorem C25_slice_pg_full_false : ¬ C25_slice_full .pg := by
  intro h
  have := h (envS ['a', 'b']) (.col "s") ['a', 'b'] (.const 1) (.const 0) (some 1) (some 0) rfl rfl rfl trivial
  simp [stringSliceT, startNorm, indexSql, lenSql, eval, envS, evalVar, substr3Args, substr3V, bind, Except.bind] at this

/-! ### MySQL -/

theorem C25_slice_mysql_partial :
    SliceStmt .mysql (fun s _ _ i j => startInRange s i ∧ noMixedClip s i j ∧ singleByte s) := by
  intro env e s start stop i j he hi hj ⟨hg1, hg2, hg3⟩
  apply slice_core .mysql env e s start stop i j (by simp [lengthOf]; exact_mod_cast hg3) he hi hj
  · intro raw a b _ _ hia hjb
    rw [strVal_mysql]
    exact mysql_substr3 s raw a b (by rw [← hia]; exact hg1) (fun h1 h2 => hg2 (by rw [hia]; exact h1) b hjb h2)
  · intro a hia _; rw [strVal_mysql]; exact mysql_substr2 s a (by rw [← hia]; exact hg1)

/-- witness for `startInRange`: `'a'[-2:]` becomes `substr(s, -2)`, which MySQL answers with `''` -/
theorem C25_slice_mysql_start_guard_needed :
    ¬ SliceStmt .mysql (fun s _ _ i j => noMixedClip s i j ∧ singleByte s) := by
  intro h
  have := h (envS ['a']) (.col "s") ['a'] (.const (-2)) .omitted (some (-2)) none rfl rfl rfl
    ⟨(by intro _ b hb; cases hb), (by unfold singleByte; decide)⟩
  revert this; decide

/-- witness for `noMixedClip`: `'ab'[-1:0]` becomes `substr(s, -1, 0 + 1 - (-1))` = `'b'`, Python gives `''` -/
theorem C25_slice_mysql_mixed_guard_needed :
    ¬ SliceStmt .mysql (fun s _ _ i _ => startInRange s i ∧ singleByte s) := by
  intro h
  have := h (envS ['a', 'b']) (.col "s") ['a', 'b'] (.const (-1)) (.const 0) (some (-1)) (some 0) rfl rfl rfl
    ⟨(by unfold startInRange; decide), (by unfold singleByte; decide)⟩
  revert this; decide

/-- witness for `singleByte`: MySQL's `LENGTH('é')` is 2, so `'é'[0:-1]` becomes `substr(s, 1, greatest(2 - 1, 0))` = `'é'` -/
theorem C25_slice_mysql_byte_guard_needed :
    ¬ SliceStmt .mysql (fun s _ _ i j => startInRange s i ∧ noMixedClip s i j) := by
  intro h
  have := h (envS ['é']) (.col "s") ['é'] (.const 0) (.const (-1)) (some 0) (some (-1)) rfl rfl rfl
    ⟨(by unfold startInRange; decide), (by intro h; simp at h)⟩
  revert this; decide

/-! ### Oracle -/

theorem C25_slice_oracle_partial :
    SliceStmt .oracle (fun s _ _ i j => startInRange s i ∧ noMixedClip s i j) := by
  intro env e s start stop i j he hi hj ⟨hg1, hg2⟩
  apply slice_core .oracle env e s start stop i j (by simp [lengthOf]) he hi hj
  · intro raw a b _ _ hia hjb
    exact oracle_substr3 s raw a b (by rw [← hia]; exact hg1) (fun h1 h2 => hg2 (by rw [hia]; exact h1) b hjb h2)
  · intro a hia _; exact oracle_substr2 s a (by rw [← hia]; exact hg1)

/-- witness: `'a'[-2:]` becomes `substr(s, -2)` = NULL on Oracle, Python gives `'a'` -/
theorem C25_slice_oracle_start_guard_needed :
    ¬ SliceStmt .oracle (fun s _ _ i j => noMixedClip s i j) := by
  intro h
  have := h (envS ['a']) (.col "s") ['a'] (.const (-2)) .omitted (some (-2)) none rfl rfl rfl
    (by intro _ b hb; cases hb)
  revert this; decide

/-- witness: `'ab'[-1:0]` becomes `substr(s, -1, 2)` = `'b'`, Python gives `''` (NULL) -/
theorem C25_slice_oracle_mixed_guard_needed :
    ¬ SliceStmt .oracle (fun s _ _ i _ => startInRange s i) := by
  intro h
  have := h (envS ['a', 'b']) (.col "s") ['a', 'b'] (.const (-1)) (.const 0) (some (-1)) (some 0) rfl rfl rfl
    (by unfold startInRange; decide)
  revert this; decide

/-! ### SQLite: slices go through the UDF `py_string_slice` -/

/-- SQLite: `py_string_slice(expr, start|NULL, stop|NULL)` is Python's slice, for every string and all bounds -/
theorem C25_slice_sqlite (env : Env) (e : Sql) (s : List Char) (start stop : Arg) (i j : Option Int)
    (he : eval .sqlite env e = .ok (.str s)) (hi : Arg.denotes .sqlite env start i) (hj : Arg.denotes .sqlite env stop j) :
    eval .sqlite env (sqliteSliceT e start stop) = .ok (.str (pySlice s i j)) := by
  rcases start with _ | a | x <;> rcases stop with _ | b | y <;> simp only [Arg.denotes] at hi hj
  all_goals first
    | (obtain ⟨a, hx, rfl⟩ := hi; obtain ⟨b, hy, rfl⟩ := hj
       simp [sqliteSliceT, Arg.sql, eval, he, hx, hy, pyStringSliceUdf, udfBound, bind, Except.bind])
    | (obtain ⟨a, hx, rfl⟩ := hi; subst hj
       simp [sqliteSliceT, Arg.sql, eval, he, hx, pyStringSliceUdf, udfBound, bind, Except.bind])
    | (subst hi; obtain ⟨b, hy, rfl⟩ := hj
       simp [sqliteSliceT, Arg.sql, eval, he, hy, pyStringSliceUdf, udfBound, bind, Except.bind])
    | (subst hi; subst hj
       simp [sqliteSliceT, Arg.sql, eval, he, pyStringSliceUdf, udfBound, bind, Except.bind])

/-- the guard each dialect's slice translation needs (all decidable; `True` on SQLite) -/
def dialectGuard : Dialect → List Char → Arg → Arg → Option Int → Option Int → Prop
  | .pg, _, st, sp, i, j => noNegConstLen st sp i j
  | .mysql, s, _, _, i, j => startInRange s i ∧ noMixedClip s i j ∧ singleByte s
  | .oracle, s, _, _, i, j => startInRange s i ∧ noMixedClip s i j
  | .sqlite, _, _, _, _, _ => True

/-- every dialect: what the dialect's builder makes of `['STRING_SLICE', e, start, stop]` computes Python's slice -/
theorem C25_sliceFor (d : Dialect) (env : Env) (e : Sql) (s : List Char) (start stop : Arg) (i j : Option Int)
    (he : eval d env e = .ok (.str s)) (hi : Arg.denotes d env start i) (hj : Arg.denotes d env stop j)
    (hg : dialectGuard d s start stop i j) :
    eval d env (sliceFor d e start stop) = .ok (strVal d (pySlice s i j)) := by
  cases d
  · exact C25_slice_pg_partial env e s start stop i j he hi hj hg
  · exact C25_slice_mysql_partial env e s start stop i j he hi hj hg
  · exact C25_slice_oracle_partial env e s start stop i j he hi hj hg
  · simp only [sliceFor, if_true, strVal_sqlite]; exact C25_slice_sqlite env e s start stop i j he hi hj

/-! ### exact failure sets

The `_partial` theorems above give sufficient guards.  For PostgreSQL the guard is also necessary; for MySQL / Oracle
the exact set is `myExact` (a start below `-len` is harmless when Python's slice is empty anyway; a negative start with
`0 ≤ stop < len` is always wrong). -/

/-- PostgreSQL, EXACT: the translation computes Python's slice if and only if it is not the case that both bounds
    are constants of equal sign with stop < start (then, and only then, substr raises) -/
theorem C25_slice_pg_exact (env : Env) (e : Sql) (s : List Char) (start stop : Arg) (i j : Option Int)
    (he : eval .pg env e = .ok (.str s)) (hi : Arg.denotes .pg env start i) (hj : Arg.denotes .pg env stop j) :
    eval .pg env (stringSliceT .pg e start stop) = .ok (.str (pySlice s i j)) ↔ noNegConstLen start stop i j := by
  constructor
  · intro h
    unfold noNegConstLen
    rintro ⟨h1, h2, b, hjb, hss, hlt⟩
    rw [slice_eval .pg env e s start stop i j (by simp [lengthOf]) he hi hj, h1, h2, hjb] at h
    have hneg : lenVal .pg s.length true (i.getD 0) b < 0 := by
      simp only [lenVal]; rw [if_pos hss]; simp; omega
    simp only [sliceSem, Bool.and_self, substr3V, if_pos hneg] at h
    cases h
  · intro h
    have := C25_slice_pg_partial env e s start stop i j he hi hj h
    rwa [strVal_pg] at this

/-- MySQL, EXACT (strings whose characters are single bytes) -/
theorem C25_slice_mysql_exact (env : Env) (e : Sql) (s : List Char) (start stop : Arg) (i j : Option Int)
    (hb : singleByte s)
    (he : eval .mysql env e = .ok (.str s)) (hi : Arg.denotes .mysql env start i) (hj : Arg.denotes .mysql env stop j) :
    eval .mysql env (stringSliceT .mysql e start stop) = .ok (.str (pySlice s i j)) ↔ myExact s i j := by
  rw [slice_eval .mysql env e s start stop i j (by simp [lengthOf]; exact_mod_cast hb) he hi hj, sliceSem_mysql,
      ← mysqlResult_eq_iff]
  constructor
  · intro h; injection h with h; injection h
  · intro h; rw [h]

/-- Oracle, EXACT -/
theorem C25_slice_oracle_exact (env : Env) (e : Sql) (s : List Char) (start stop : Arg) (i j : Option Int)
    (he : eval .oracle env e = .ok (.str s)) (hi : Arg.denotes .oracle env start i) (hj : Arg.denotes .oracle env stop j) :
    eval .oracle env (stringSliceT .oracle e start stop) = .ok (strVal .oracle (pySlice s i j)) ↔ myExact s i j := by
  rw [slice_eval .oracle env e s start stop i j (by simp [lengthOf]) he hi hj, sliceSem_oracle,
      ← mysqlResult_eq_iff, ← strVal_oracle_inj]
  constructor
  · intro h; injection h
  · intro h; rw [h]

/-! ### NULL-valued bound expressions (`e.name[e.k:]` with `k` NULL; Python: `s[None:j]`)

`STRING_SLICE` wraps the bounds in `COALESCE(start, 0)` / `COALESCE(stop, -1)` inside the LENGTH argument only.  -/

/-- SQLite: a NULL bound reaches `py_string_slice` as None — Python's semantics, for all strings and bounds -/
theorem C25_slice_sqlite_null (env : Env) (e : Sql) (s : List Char) (start stop : Arg) (i j : Option Int)
    (he : eval .sqlite env e = .ok (.str s)) (hi : Arg.denotesN .sqlite env start i) (hj : Arg.denotesN .sqlite env stop j) :
    eval .sqlite env (sqliteSliceT e start stop) = .ok (.str (pySlice s i j)) := by
  rcases start with _ | a | x <;> rcases stop with _ | b | y <;> simp only [Arg.denotesN] at hi hj
  all_goals
    (try subst hi); (try subst hj)
    (try rcases hi with ⟨a, hx, rfl⟩ | ⟨hx, rfl⟩) <;> (try rcases hj with ⟨b, hy, rfl⟩ | ⟨hy, rfl⟩) <;>
    simp [sqliteSliceT, Arg.sql, eval, *, pyStringSliceUdf, udfBound, bind, Except.bind]

/-- PostgreSQL / MySQL / Oracle: a NULL start expression makes the whole result NULL, whatever the stop
    (the position `index_sql` is not coalesced) — Python would slice from the beginning -/
theorem C25_null_start (d : Dialect) (hd : d ≠ .sqlite) (env : Env) (e : Sql) (s : List Char) (x : Sql) (stop : Arg) (j : Option Int)
    (he : eval d env e = .ok (.str s)) (hx : eval d env x = .ok .null) (hj : Arg.denotesN d env stop j) :
    eval d env (sliceFor d e (.expr x) stop) = .ok .null := by
  have hidx := eval_indexSql_expr_null he hx
  simp only [sliceFor, if_neg hd]
  rcases stop with _ | b | y <;> simp only [Arg.denotesN] at hj
  · simp only [stringSliceT, startNorm, lenSql, eval, he, hidx, substr2Args, bind, Except.bind]
  · obtain ⟨l, hl, hlv⟩ := eval_lenSql_ec_null_start (idx := indexSql d e (.expr x)) he hx b
    simp only [stringSliceT, startNorm, hl, eval, he, hidx, hlv, substr3Args, bind, Except.bind]
  · rcases hj with ⟨b, hy, rfl⟩ | ⟨hy, rfl⟩
    · obtain ⟨l, hl, hlv⟩ := eval_lenSql_ee_null_start (idx := indexSql d e (.expr x)) he hx hy
      simp only [stringSliceT, startNorm, hl, eval, he, hidx, hlv, substr3Args, bind, Except.bind]
    · obtain ⟨l, hl, hlv⟩ := eval_lenSql_ee_null_both (idx := indexSql d e (.expr x)) he hx hy
      simp only [stringSliceT, startNorm, hl, eval, he, hidx, hlv, substr3Args, bind, Except.bind]

/-- PostgreSQL / MySQL / Oracle: a NULL stop expression is read as the integer -1 (`COALESCE(stop, -1)`): the SQL
    computes what it computes for `s[i:-1]`, not Python's `s[i:None]` -/
theorem C25_null_stop (d : Dialect) (env : Env) (e : Sql) (s : List Char) (start : Arg) (y y' : Sql) (i : Option Int)
    (hN : lengthOf d s = s.length)
    (he : eval d env e = .ok (.str s)) (hi : Arg.denotes d env start i)
    (hy : eval d env y = .ok .null) (hy' : eval d env y' = .ok (.int (-1))) :
    eval d env (stringSliceT d e start (.expr y)) = eval d env (stringSliceT d e start (.expr y')) := by
  rw [slice_eval d env e s start (.expr y') i (some (-1)) hN he hi ⟨-1, hy', rfl⟩]
  simp only [Arg.isConstStop, Bool.and_false, sliceSem]
  rcases start with _ | a | x <;> simp only [Arg.denotes] at hi
  · subst hi
    have hidx := eval_indexSql_const he 0
    obtain ⟨l, hl, hlv⟩ := eval_lenSql_ce_null (idx := indexSql d e (.const 0)) he 0 hy
    simp [stringSliceT, startNorm, hl, eval, he, hidx, hlv, substr3Args, bind, Except.bind, hN]
  · subst hi
    have hidx := eval_indexSql_const he a
    obtain ⟨l, hl, hlv⟩ := eval_lenSql_ce_null (idx := indexSql d e (.const a)) he a hy
    simp [stringSliceT, startNorm, hl, eval, he, hidx, hlv, substr3Args, bind, Except.bind, hN]
  · obtain ⟨a, hx, rfl⟩ := hi
    have hidx := eval_indexSql_expr he hx
    obtain ⟨l, hl, hlv⟩ := eval_lenSql_ee_null_stop (idx := indexSql d e (.expr x)) he hx hy
    simp [stringSliceT, startNorm, hl, eval, he, hidx, hlv, substr3Args, bind, Except.bind, hN]

/-- full statement: "a NULL-valued bound expression behaves like Python's None" -/
def C25_null_bound_full (d : Dialect) : Prop :=
  ∀ (env : Env) (e : Sql) (s : List Char) (start stop : Arg) (i j : Option Int),
    eval d env e = .ok (.str s) → Arg.denotesN d env start i → Arg.denotesN d env stop j →
    dialectGuard d s start stop i j →
    eval d env (sliceFor d e start stop) = .ok (strVal d (pySlice s i j))

theorem C25_null_bound_sqlite : C25_null_bound_full .sqlite := by
  intro env e s start stop i j he hi hj _
  simp only [sliceFor, if_true, strVal_sqlite]
  exact C25_slice_sqlite_null env e s start stop i j he hi hj

/-- columns hold the string, parameters hold NULL -/
def envNull (s : List Char) : Env := ⟨fun _ => some (.str s), fun _ => some .null⟩

/-- suspected, unconfirmable offline: witness `'ab'[:k]` with `k` NULL gives `'a'` (= `'ab'[:-1]`), Python gives `'ab'` -/
theorem C25_null_bound_full_false (d : Dialect) (hd : d ≠ .sqlite) : ¬ C25_null_bound_full d := by
  intro h
  have := h (envNull ['a', 'b']) (.col "s") ['a', 'b'] .omitted (.expr (.param "k")) none none rfl rfl (Or.inr ⟨rfl, rfl⟩)
    (by cases d <;> simp [dialectGuard, noNegConstLen, startInRange, noMixedClip, singleByte, Arg.isConstStart, Arg.isConstStop] <;> decide)
  cases d <;> first | exact absurd rfl hd | (revert this; decide)

/-! ### SQLite's built-in `substr` as a slice implementation (constant offsets from the beginning)

`substr(s, start+1, stop-start)` is what a "no Python callback" fast path in `SQLiteBuilder.STRING_SLICE` would emit.
It is Python's slice exactly when `start ≤ stop`; a negative length makes SQLite return the characters BEFORE the start. -/

theorem C25_sqlite_builtin_substr (s : List Char) (a b : Int) (ha : 0 ≤ a) (hab : a ≤ b) :
    substr3V .sqlite s (a + 1) (b - a) = .ok (.str (pySlice s (some a) (some b))) := by
  simp only [substr3V, sqliteSubstr]
  congr 2
  have h1 : ¬ (b - a < 0) := by omega
  have h2 : ¬ (a + 1 < 0) := by omega
  have h3 : a + 1 > 0 := by omega
  simp only [h1, h2, h3, if_false, if_true, decide_false, Bool.false_eq_true]
  refine (sliceNat_int s a (b - a) _ _ (by omega) (by omega) ha (by omega)).trans ?_
  apply win_eq_pySlice; intro k hk0 hkn; unfold inPy; omega

/-- witness `'hello'[3:1]`: `substr('hello', 4, -2)` is `'el'`, Python gives `''` -/
theorem C25_sqlite_builtin_substr_negative_length_false :
    ¬ ∀ (s : List Char) (a b : Int), 0 ≤ a → 0 ≤ b →
        substr3V .sqlite s (a + 1) (b - a) = .ok (.str (pySlice s (some a) (some b))) := by
  intro h
  have := h "hello".toList 3 1 (by decide) (by decide)
  revert this; decide

/-! ### indexes: `s[i]` -/

/-- `['SUBSTR', e, index_sql, ['VALUE', 1]]` -/
def indexT (d : Dialect) (e : Sql) (ix : Arg) : Sql := .substr3 e (indexSql d e ix) (.value 1)

/-- every dialect, every string, every integer index given as a constant or an expression: the SQL computes
    `s[i]`, and `''` (NULL on Oracle) where Python raises IndexError -/
theorem C25_index (d : Dialect) (env : Env) (e : Sql) (s : List Char) (ix : Arg) (v : Int)
    (he : eval d env e = .ok (.str s)) (hix : Arg.denotes d env ix (some v)) :
    eval d env (indexT d e ix) = .ok (strVal d (pyIndexStr s v)) := by
  have key : substr3V d s (indexVal d (lengthOf d s) v) 1 = .ok (strVal d (pyIndexStr s v)) := by
    cases d
    · simp only [lengthOf]; rw [strVal_pg]; exact index_pg s v
    · rw [strVal_mysql, indexVal_other _ (by decide), ← indexVal_other .mysql (by decide) s.length]; exact index_mysql s v
    · simp only [lengthOf]; exact index_oracle s v
    · simp only [lengthOf]; rw [strVal_sqlite]; exact index_sqlite s v
  rcases ix with _ | a | x <;> simp only [Arg.denotes] at hix
  · cases hix
  · cases hix
    simp only [indexT, eval, he, eval_indexSql_const he, substr3Args, bind, Except.bind]; exact key
  · obtain ⟨a, hx, h⟩ := hix; cases h
    simp only [indexT, eval, he, eval_indexSql_expr he hx, substr3Args, bind, Except.bind]; exact key

/-- in range: exactly the character Python returns -/
theorem C25_index_in_range (d : Dialect) (env : Env) (e : Sql) (s : List Char) (ix : Arg) (v : Int) (c : Char)
    (he : eval d env e = .ok (.str s)) (hix : Arg.denotes d env ix (some v)) (hc : pyIndex s v = some c) :
    eval d env (indexT d e ix) = .ok (.str [c]) := by
  rw [C25_index d env e s ix v he hix]
  simp [pyIndexStr, hc, strVal]

/-- out of range (Python raises IndexError): the SQL yields the empty string (NULL on Oracle) — documented deviation -/
theorem C25_index_out_of_range (d : Dialect) (env : Env) (e : Sql) (s : List Char) (ix : Arg) (v : Int)
    (he : eval d env e = .ok (.str s)) (hix : Arg.denotes d env ix (some v)) (hc : pyIndex s v = none) :
    eval d env (indexT d e ix) = .ok (strVal d []) := by
  rw [C25_index d env e s ix v he hix]
  simp [pyIndexStr, hc]

/-! ### `StringMixin.__getitem__` (hand model) -/

/-- the -1 sentinel: a constant or pinned-parameter stop of -1 together with start 0 / omitted takes the
    "whole string" shortcut, i.e. `s[:-1]`, `s[0:-1]` are translated as `s` -/
def sentinelHit (start stop : GArg) : Prop := shortcut start stop ∧ stop ≠ .omitted

/-- "the SQL built for `expr[start:stop]` by `StringMixin.__getitem__` + the dialect's builder computes Python's
    slice", for bounds given as omitted / constant / pinned parameter / expression, under the guard `G` -/
def GetitemStmt (d : Dialect) (G : GArg → GArg → Prop) : Prop :=
  ∀ (env : Env) (e : Sql) (s : List Char) (start stop : GArg) (i j : Option Int),
    eval d env e = .ok (.str s) → (d = .oracle → s ≠ []) → keysConsistent start stop →
    start.denotes d env i → stop.denotes d env j →
    dialectGuard d s (start.asArg 0) (stop.asArg (-1)) i j → G start stop →
    ∃ q, GRes.sql d (.expr e) (getitemSlice (.expr e) start stop []).1 = some q ∧
         eval d env q = .ok (strVal d (pySlice s i j))

/-- every dialect (SQLite included), every string, all bounds: correct unless the -1 sentinel is hit -/
theorem C25_getitem_slice_partial (d : Dialect) : GetitemStmt d (fun st sp => ¬ sentinelHit st sp) := by
  intro env e s start stop i j he hs hk hi hj hg hsent
  have hv : ∀ k v, start = .param k v → v ≠ none := by
    intro k v h; subst h; exact hi.2
  rw [getitemSlice_fst e start stop hk hv]
  by_cases hsc : shortcut start stop
  · rw [if_pos hsc]
    refine ⟨e, rfl, ?_⟩
    have hst : stop = .omitted := Classical.byContradiction (fun h => hsent ⟨hsc, h⟩)
    subst hst
    simp only [GArg.denotes] at hj; subst hj
    rw [pySlice_whole s i (known_zero_denotes d env start i hi hsc.1), strVal_of_ne d s hs]
    exact he
  · rw [if_neg hsc]
    exact ⟨_, rfl, C25_sliceFor d env e s _ _ i j he (denotes_asArg d env start 0 i hi) (denotes_asArg d env stop (-1) j hj) hg⟩

def C25_getitem_slice_full (d : Dialect) : Prop := GetitemStmt d (fun _ _ => True)

/-- KNOWN FINDING `slice-stop-const-minus-one` (pinned by test_declarative_strings.py::test_slice_13):
    witness `'Ann'[:-1]` — the model of `__getitem__` returns the receiver itself, Python gives `'An'`.
    The engine replays this witness on real SQLite on every run. -/
theorem C25_getitem_slice_full_false (d : Dialect) : ¬ C25_getitem_slice_full d := by
  intro h
  have := h (envS ['A', 'n', 'n']) (.col "s") ['A', 'n', 'n'] .omitted (.const (-1)) none (some (-1)) rfl (by simp) trivial rfl rfl
    (by cases d <;> simp [dialectGuard, GArg.asArg, noNegConstLen, startInRange, noMixedClip, singleByte, Arg.isConstStart, Arg.isConstStop] <;> decide) trivial
  obtain ⟨q, hq, hev⟩ := this
  cases d <;> revert hq hev <;> simp [getitemSlice, paramToConst, knownValue, GRes.sql, Recv.sql] <;> intro hq <;> subst hq <;> decide

/-- the shortcut is right exactly when the stop really is omitted: `s[:]`, `s[0:]` -/
theorem C25_getitem_whole_ok (s : List Char) (i : Option Int) (h : i.getD 0 = 0) : pySlice s i none = s :=
  pySlice_whole s i h

/-! ### pinned parameters and the translator cache

`param_to_const` turns a parameter bound into a constant of the SQL.  The translation is cached per query code, and
`Query._get_translator` reuses it only if every entry of the ROOT translator's `fixed_param_values` equals the
parameter's new value.  The model's `Fixed` component is that root dictionary. -/

/-- every pinned parameter is recorded in `fixed_param_values`, with the very constant that went into the SQL -/
theorem C25_pinned_recorded (fixed : Fixed) (isStart : Bool) (k : String) (v : Option Int) :
    ∃ iv, (paramToConst fixed isStart (.param k v)).1 = .const iv ∧
          (paramToConst fixed isStart (.param k v)).2.lookup k = some iv := by
  cases h : fixed.lookup k with
  | some iv => exact ⟨iv, by simp [paramToConst, h]⟩
  | none => exact ⟨v.getD (if isStart then 0 else -1), by simp [paramToConst, h]⟩

/-- CACHE OBLIGATION: if every value recorded in (the root's) `fixed_param_values` equals the parameter's new value —
    the test `Query._get_translator` makes before reusing a cached translation — then translating again with the new
    values gives the same result: reusing the cached translation is sound.  It is sound ONLY because every pinned
    parameter is recorded there (`C25_pinned_recorded`). -/
theorem C25_cache_reuse_sound (recv : Recv) (start stop : GArg) (vars : String → Option Int)
    (h : ∀ k iv, (getitemSlice recv start stop []).2.lookup k = some iv → vars k = some iv) :
    getitemSlice recv (GArg.rebind vars start) (GArg.rebind vars stop) [] = getitemSlice recv start stop [] := by
  rw [getitemSlice_snd] at h
  have h1 : paramToConst [] true (GArg.rebind vars start) = paramToConst [] true start :=
    paramToConst_rebind [] true start vars (fun k iv hk => h k iv (lookup_mono _ false stop k iv hk))
  have h2 : paramToConst (paramToConst [] true start).2 false (GArg.rebind vars stop)
          = paramToConst (paramToConst [] true start).2 false stop :=
    paramToConst_rebind _ false stop vars h
  unfold getitemSlice
  simp only [h1, h2]

/-- every refinement path that fetches a translation through `_get_translator` (plain, order_by, order_by(None), filter,
    where, …) is sound: a translation handed out by the checked lookup is the translation of the CURRENT parameter values -/
theorem C25_cache_lookup_sound (recv : Recv) (start stop : GArg) (vars : String → Option Int) (r : GRes)
    (h : cacheLookup (some (getitemSlice recv start stop [])) vars = some r) :
    r = (getitemSlice recv (GArg.rebind vars start) (GArg.rebind vars stop) []).1 := by
  unfold cacheLookup at h
  simp only [] at h
  split at h
  · rename_i hall
    cases h
    rw [C25_cache_reuse_sound recv start stop vars]
    intro k iv hk
    have hm := lookup_mem _ k iv hk
    have := (List.all_eq_true.mp hall) (k, iv) hm
    simpa using this
  · cases h

/-- …and it is sound only then: a cache test that does not see the pinned value (the value recorded somewhere the
    root does not look, i.e. the test runs on an empty record) accepts a translation made for another bound:
    `s[:n]` translated for n = 2 is reused for n = 5. -/
theorem C25_cache_test_needs_record :
    ∃ (start stop : GArg) (vars : String → Option Int),
      (∀ k iv, ([] : Fixed).lookup k = some iv → vars k = some iv) ∧
      (getitemSlice (.expr (.col "s")) (GArg.rebind vars start) (GArg.rebind vars stop) []).1
        ≠ (getitemSlice (.expr (.col "s")) start stop []).1 :=
  ⟨.omitted, .param "n" (some 2), fun _ => some 5, ⟨(by intro k iv h; cases h), (by decide)⟩⟩

/-! ### `__getitem__`: index branch -/

theorem C25_getitem_index (d : Dialect) (env : Env) (e : Sql) (s : List Char) (ix : GArg) (v : Int)
    (he : eval d env e = .ok (.str s)) (hix : ix.denotes d env (some v)) :
    ∃ q, GRes.sql d (.expr e) (getitemIndex d (.expr e) ix []).1 = some q ∧
         eval d env q = .ok (strVal d (pyIndexStr s v)) := by
  rcases ix with _ | c | ⟨k, pv⟩ | x <;> simp only [GArg.denotes] at hix
  · cases hix
  · cases hix
    exact ⟨_, rfl, C25_index d env e s (.const v) v he rfl⟩
  · obtain ⟨rfl, _⟩ := hix
    refine ⟨indexT d e (.const v), ?_, C25_index d env e s (.const v) v he rfl⟩
    simp [getitemIndex, paramToConst, List.lookup, GRes.sql, Recv.sql, indexT]
  · exact ⟨_, rfl, C25_index d env e s (.expr x) v he hix⟩

/-! ### non-vacuity: concrete instances of the hypotheses -/

example : pySlice "abcdef".toList (some (-4)) (some 5) = "cde".toList := by decide
example : eval .pg (envS "abcdef".toList) (stringSliceT .pg (.col "s") (.const (-4)) (.const 5)) = .ok (.str "cde".toList) := by decide
example : eval .mysql (envS "abcdef".toList) (stringSliceT .mysql (.col "s") (.const 1) (.const (-1))) = .ok (.str "bcde".toList) := by decide
example : eval .oracle (envS "abcdef".toList) (stringSliceT .oracle (.col "s") (.const 3) (.const 3)) = .ok .null := by decide
example : startInRange "abcdef".toList (some (-4)) ∧ noMixedClip "abcdef".toList (some (-4)) (some 7) ∧ singleByte "abcdef".toList := by
  refine ⟨by unfold startInRange; decide, ?_, by unfold singleByte; decide⟩
  intro _ b hb _; cases hb; decide
example : noNegConstLen (.const 2) (.const 5) (some 2) (some 5) := by
  unfold noNegConstLen; rintro ⟨_, _, b, hb, _, hlt⟩; cases hb; revert hlt; decide
example : ¬ sentinelHit (.const 1) (.const (-1)) := by unfold sentinelHit shortcut; decide
example : myExact "abcdef".toList (some (-4)) (some 9) := by
  refine ⟨by intro h; revert h; decide, ?_⟩
  rintro ⟨_, _, b, hb, _, hlt⟩; cases hb; revert hlt; decide
example : ¬ myExact "abcdef".toList (some (-4)) (some 5) := by
  intro h; exact h.2 ⟨by decide, by decide, 5, rfl, by decide, by decide⟩
example : eval .pg (envNull "abc".toList) (sliceFor .pg (.col "s") (.expr (.param "k")) (.const 2)) = .ok .null := by decide
example : substr3V .sqlite "hello".toList 4 (-2) = .ok (.str "el".toList) := by decide
example : cacheLookup (some (getitemSlice (.expr (.col "s")) .omitted (.param "n" (some 2)) [])) (fun _ => some 5) = none := by decide
example : cacheLookup (some (getitemSlice (.expr (.col "s")) .omitted (.param "n" (some 2)) [])) (fun _ => some 2)
    = some (.node .omitted (.const 2)) := by decide
example : pyIndex "abc".toList (-1) = some 'c' := by decide
example : (getitemSlice (.expr (.col "s")) (.param "a" (some 1)) (.param "b" (some (-1))) []).2.lookup "a" = some 1 := by decide
example : pyStringSliceUdf (.str "abcdef".toList) (.str ['-', '2']) .null = .ok (.str "ef".toList) := by decide

end PonyVerif.Props.C25
