/-
  C03 — decompiling a generator or lambda preserves its meaning.
  Translation validation: the harness feeds (CPython bytecode, AST returned by the real `decompile`) pairs to `check`;
  the theorems below say that an accepted pair has the same meaning under EVERY interpretation of its free names and operators
  (the ∀-environments quantifier is closed here, for code and ASTs of any size; the ∀-programs quantifier is closed by the
  harness' exhaustive enumeration + random generation).
-/
import PonyVerif.Lemmas.Bytecode
namespace PonyVerif.Props.C03
open PonyVerif.Bytecode

/-- the decision tree computed from the bytecode has the meaning of the bytecode, for every interpretation -/
theorem symRun_sound (code : List Instr) : ∀ I : Interp, run code I = (symRun code).eval I := by
  intro I
  have h := sexec_sound I code (code.length + 1) St.init
  simpa [run, symRun, Tree.eval, St.map, St.init] using h.symm

/-- the decision tree computed from the AST has the meaning of the AST (Python's evaluation rules), for every interpretation -/
theorem symEval_sound (a : Top) : ∀ I : Interp, a.eval I = a.sym.eval I :=
  fun I => (Top.sym_sound I a).symm

/-- asking every query at most once per path does not change the meaning of a tree -/
theorem norm_sound (t : Tree (Outcome Term)) : ∀ I : Interp, (norm [] t).eval I = t.eval I := by
  intro I
  simp [Tree.eval, norm_nil_run]

/-- the normal form the checker compares: on every path of a normalised tree no literal query is asked and no query is asked twice
    ("a term's truthiness is asked at most once per path") -/
theorem norm_asks_once (t : Tree (Outcome Term)) : noRepeat [] (norm [] t) = true := by
  simpa using norm_noRepeat t []

/-- THE soundness theorem of the checker: an accepted (bytecode, AST) pair has the same outcome — returned / yielded value,
    loops entered with the same iterables and targets, same loop continued — for every value of the free names, every meaning of
    the operators, calls, attributes and subscripts, and every truth function. -/
theorem C03_check_sound (code : List Instr) (a : Top) : check code a = true → ∀ I : Interp, run code I = a.eval I := by
  intro h I
  simp only [check, Bool.and_eq_true] at h
  have heq := Tree.beq_eq _ _ h.2
  rw [symRun_sound code I, symEval_sound a I, ← norm_sound (symRun code) I, ← norm_sound a.sym I]
  simp only [codeTree, astTree] at heq
  rw [heq]

/-- the property in its own words ("the reconstructed tree has exactly the meaning of the source"): when the checker accepts both the
    AST of the SOURCE text and the AST returned by the decompiler against the same bytecode (the harness asks both on every program),
    the two expressions have the same outcome under Python's evaluation rules for every interpretation -/
theorem C03_source_equiv (code : List Instr) (src dec : Top) :
    check code src = true → check code dec = true → ∀ I : Interp, src.eval I = dec.eval I := by
  intro hs hd I
  rw [← C03_check_sound code src hs I, C03_check_sound code dec hd I]

/-- an accepted pair never gets stuck (stack underflow, jump out of the code, unsupported instruction, out of fuel) -/
theorem C03_check_not_stuck (code : List Instr) (a : Top) : check code a = true → ∀ I : Interp, run code I ≠ .stuck := by
  intro h I
  rw [C03_check_sound code a h I]
  cases a with
  | lam b => simp [Top.eval]
  | gen elt cl => exact evalClauses_not_stuck I elt cl []

/-! ### the checker accepts real pairs (atoms: 0 = `.0`, 1 = i, 2 = a, 3 = b, 4 = c) -/

/-- `lambda: a == (b and c)` as compiled by CPython 3.12 -/
def codeLamEqAnd : List Instr :=
  [.load 2, .load 3, .copy 1, .jumpIf false 6, .popTop, .load 4, .cmp (.named "=="), .returnValue]
def astEqAnd : Expr := .cmp (.atom 2) (.last (.named "==") (.boolop false (.atom 3) (.cons (.atom 4) .nil)))
/-- what the decompiler returns for the same comparison inside a generator condition -/
def astEqNotOr : Expr := .cmp (.atom 2) (.last (.named "==") (.boolop true (.not (.atom 3)) (.cons (.atom 4) .nil)))

/-- `(i for i in .0 if a == (b and c))` as compiled by CPython 3.12 -/
def codeGenEqAnd : List Instr :=
  [.load 0, .forIter, .store 1, .load 2, .load 3, .copy 1, .jumpIf false 9, .popTop, .load 4, .cmp (.named "=="),
   .jumpIf true 12, .jumpBack 1, .load 1, .yieldValue, .popTop, .jumpBack 1]
def genOf (cond : Expr) : Top := .gen (.atom 1) [{ targets := [2], iter := .atom 0, ifs := [cond] }]

example : check codeLamEqAnd (.lam astEqAnd) = true := by decide
example : check codeGenEqAnd (genOf astEqAnd) = true := by decide
example : check codeGenEqAnd (genOf astEqNotOr) = false := by decide
/-- `(x for x in .0 if not (a and not b))` as compiled by CPython 3.12; the decompiler returns `not a or b` -/
def codeGenNotAndNot : List Instr :=
  [.load 0, .forIter, .store 1, .load 2, .jumpIf false 8, .load 3, .jumpIf true 8, .jumpBack 1, .load 1, .yieldValue, .popTop, .jumpBack 1]
def astNotAndNot : Expr := .not (.boolop false (.atom 2) (.cons (.not (.atom 3)) .nil))
def astNotAOrB : Expr := .boolop true (.not (.atom 2)) (.cons (.atom 3) .nil)
/-- non-vacuous: the source AST and the differently shaped decompiled AST are both accepted, hence equivalent for every interpretation -/
example : ∀ I : Interp, (genOf astNotAndNot).eval I = (genOf astNotAOrB).eval I :=
  C03_source_equiv codeGenNotAndNot _ _ (by decide) (by decide)

/-- constants with a known truth value: `(x for x in .0 if 1 and a)` is compiled to the code of `if a` (atom 5 = the constant 1),
    and the checker proves the source AST equal to it -/
def codeGenCondA : List Instr :=
  [.load 0, .forIter, .store 1, .load 2, .jumpIf true 6, .jumpBack 1, .load 1, .yieldValue, .popTop, .jumpBack 1]
example : check codeGenCondA (genOf (.boolop false (.lit 5 true) (.cons (.atom 2) .nil))) = true := by decide
example : check codeGenCondA (genOf (.boolop false (.lit 5 false) (.cons (.atom 2) .nil))) = false := by decide

/-- an interpretation under which `b` is false and `==` tells `b` from `True` -/
def witnessI : Interp :=
  { atom := fun n => .obj n
    op := fun _ args => match args with
      | [_, .bool _] => .bool true
      | _ => .bool false
    truthObj := fun _ => false }

/-- DESIGN section 8 row 2: the AST returned for the generator condition `a == (b and c)` — `a == (not b or c)` — does NOT have the
    meaning of the code: under `witnessI` the code skips the item and the decompiled expression yields it. -/
theorem C03_decompiled_eq_and_differs : run codeGenEqAnd witnessI ≠ (genOf astEqNotOr).eval witnessI := by
  rw [C03_check_sound codeGenEqAnd (genOf astEqAnd) (by decide)]
  simp [genOf, astEqAnd, astEqNotOr, Top.eval, evalClauses, evalIfs, Expr.eval, CmpRest.evalChain, Args.evalBool, Interp.cmpVal,
    witnessI, Interp.truth]

/-! ### a defect of the decompiler before /repo 94f2ccd (now a corpus regression input): a conditional expression whose test
mixes `not` with and/or, in value context (atoms: 0 = `.0`, 1 = x, 2 = a, 3 = b, 4 = c, 5 = d) -/

/-- `((c if (a or (not b)) else d) for x in .0)` as compiled by CPython 3.12 -/
def codeGenIfeOrNot : List Instr :=
  [.load 0, .forIter, .store 1, .load 2, .jumpIf true 7, .load 3, .jumpIf true 9, .load 4, .jump 10, .load 5,
   .yieldValue, .popTop, .jumpBack 1]
def genElt (e : Expr) : Top := .gen e [{ targets := [2], iter := .atom 0, ifs := [] }]
def astIfeOrNot : Expr := .ife (.boolop true (.atom 2) (.cons (.not (.atom 3)) .nil)) (.atom 4) (.atom 5)
/-- what the decompiler returns: `c if not (a or b) else d` -/
def astIfeNotOr : Expr := .ife (.not (.boolop true (.atom 2) (.cons (.atom 3) .nil))) (.atom 4) (.atom 5)

example : check codeGenIfeOrNot (genElt astIfeOrNot) = true := by decide
example : check codeGenIfeOrNot (genElt astIfeNotOr) = false := by decide

/-- every object is true -/
def allTrueI : Interp := { atom := fun n => .obj n, op := fun _ _ => .none, truthObj := fun _ => true }

/-- the AST returned for `c if a or not b else d` in a yielded expression does NOT have the meaning of the code:
    with `a` true the code yields `c`, the decompiled expression yields `d` -/
theorem C03_decompiled_ifexp_not_differs : run codeGenIfeOrNot allTrueI ≠ (genElt astIfeNotOr).eval allTrueI := by
  rw [C03_check_sound codeGenIfeOrNot (genElt astIfeOrNot) (by decide)]
  simp [genElt, astIfeOrNot, astIfeNotOr, Top.eval, evalClauses, evalIfs, Expr.eval, Args.evalBool, allTrueI, Interp.truth]

end PonyVerif.Props.C03
