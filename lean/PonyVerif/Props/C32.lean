/-
  C32 — objects from a finished db_session are read-only snapshots.   Property theorems only.

  `step env w i op` (Model/Finished.lean) is what operation `op` does to object `i` of the world `w`; `w.alive = false` says that
  the session the objects belong(ed) to is over (`SessionCache.close` always clears `is_alive`, theorem `C32_close_dead`).
  All theorems hold for EVERY world (every status, every combination of loaded / not loaded attributes and collections, strict or
  not, detached or merely dead cache) — not only for the worlds `close` produces — and for every operation.
-/
import PonyVerif.Model.Finished
import PonyVerif.Lemmas.Finished
namespace PonyVerif.Props.C32
open PonyVerif.Model.Finished

/-! ### the session is over after `close`, however it ended -/

theorem C32_close_dead (strict hadConnection : Bool) (w : World) : (close strict hadConnection w).alive = false := by
  unfold close; split <;> rfl

/-- every way a session can end — also a COMMIT that fails at the exit, or a flush that fails inside the exit's commit — goes through
    `SessionCache.close`: the result is the same detached world and the session is over -/
theorem C32_end_is_close (how : How) (inTransaction strict hadConnection : Bool) (w : World) :
    endSession how inTransaction strict hadConnection w = close strict hadConnection w ∧
    (endSession how inTransaction strict hadConnection w).alive = false := by
  have hd := C32_close_dead strict hadConnection w
  cases how <;> cases inTransaction <;> simp [endSession, cacheCommit, hd]

/-- after a strict session that had a connection, no object holds any value -/
theorem C32_close_strict (w : World) (o : Obj) (h : o ∈ (close true true w).objs) :
    o.vals = none ∧ o.dbvals = none ∧ o.hasCache = false := by
  simp [close, detach] at h
  rcases h with ⟨o', _, rfl⟩
  simp

/-- after a non-strict session that had a connection, every object is detached, keeps exactly its attribute slots, and a collection
    slot survives iff the collection was fully loaded -/
theorem C32_close_nonstrict (w : World) (o : Obj) (h : o ∈ (close false true w).objs) :
    ∃ o' ∈ w.objs, o.hasCache = false ∧ o.status = o'.status ∧ o.rbits = o'.rbits ∧ o.wbits = o'.wbits ∧
      o.vals = o'.vals.map (fun vs => vs.map (fun p => (p.1, pruneSlot p.2))) := by
  simp [close, detach] at h
  rcases h with ⟨o', ho', rfl⟩
  exact ⟨o', ho', by simp⟩

theorem C32_prune_scalar (v : Int) : pruneSlot (.val v) = .val v ∧ pruneSlot .none = .none := by simp [pruneSlot]
theorem C32_prune_coll (sd : SetData) : pruneSlot (.coll sd) = if sd.full then .coll sd else .none := by simp [pruneSlot]

/-- `SessionCache.close` returns early when the cache never had a connection: nothing is detached (objects created in a session
    that was rolled back before any flush keep `_vals_` even under `strict=True`) -/
theorem C32_close_no_connection (strict : Bool) (w : World) : (close strict false w).objs = w.objs := by simp [close]

/-! ### modifications and loads are refused, change nothing, emit nothing -/

/-- every assignment, `set()`, collection change and `delete()`: DatabaseSessionIsOver, world untouched, no statement -/
theorem C32_mutators_refused (env : Env) (w : World) (i : Nat) (o : Obj) (op : Op)
    (hdead : w.alive = false) (ho : w.objs[i]? = some o) (hm : op.isMutator = true) :
    step env w i op = ⟨w, .sessionOver op.action, []⟩ := by
  have hov := over_of_dead w o hdead
  cases op <;> simp [Op.isMutator] at hm <;> simp [step, ho, hov, Op.action, hm]

example : (Op.collAdd default).isMutator = true ∧ (Op.setAttr default).isMutator = true ∧ Op.delete.isMutator = true := by decide

/-- every explicit load (`attr.load`, `obj.load()`, `obj._load_()`, `coll.load()`): DatabaseSessionIsOver, world untouched -/
theorem C32_loads_refused (env : Env) (w : World) (i : Nat) (o : Obj) (op : Op)
    (hdead : w.alive = false) (ho : w.objs[i]? = some o) (hl : op.isLoad = true) :
    step env w i op = ⟨w, .sessionOver op.action, []⟩ := by
  have hov := over_of_dead w o hdead
  cases op <;> simp [Op.isLoad] at hl <;> simp [step, ho, hov, Op.action, attrLoadOut, setLoadOut]

/-- `obj.flush()`: a no-op for an object with nothing pending, DatabaseSessionIsOver otherwise; world untouched -/
theorem C32_flush (env : Env) (w : World) (i : Nat) (o : Obj) (hdead : w.alive = false) (ho : w.objs[i]? = some o) :
    step env w i .flush = ⟨w, if o.status.isPending then .sessionOver .flushObject else .noop, []⟩ := by
  have hov := over_of_dead w o hdead
  by_cases hp : o.status.isPending = true <;> simp [step, ho, hov, hp]

/-- an object of a finished session handed as an ARGUMENT to an operation on a live object of the current session (bare or inside
    a list / set / tuple; add, remove, assignment, set(), constructor keyword, create()) is refused with the mixed-transactions error:
    the finished session's world is exactly unchanged and no statement is emitted -/
theorem C32_stale_argument_refused (w : World) (i : Nat) (o : Obj) (hdead : w.alive = false) (ho : w.objs[i]? = some o) :
    step ⟨true⟩ w i .staleArg = ⟨w, .mixed, []⟩ := by
  have hov := over_of_dead w o hdead
  simp [step, ho, hov]

/-! ### no operation ever reaches the session code or the database -/

/-- with the session over, no operation passes its guards into the live session code -/
theorem C32_never_live (env : Env) (w : World) (i : Nat) (op : Op) (hdead : w.alive = false) :
    (step env w i op).out ≠ .live := by
  unfold step
  cases ho : w.objs[i]? with
  | none => simp
  | some o =>
    have hov := over_of_dead w o hdead
    cases op with
    | getAttr a => exact attrGetDescr_notLive w i o a hdead
    | toDict attrs => simp [hov]; exact toDictLoop_notLive i attrs w [] hdead
    | collCopy a => exact collCopy_notLive w o a hdead
    | collGet a => simp [collGet]; split <;> simp
    | collContains a j =>
      simp only
      repeat' split
      all_goals simp_all [attrLoadOut, setLoadOut, over]
    | collLen a => simp only; repeat' split
                   all_goals simp_all [setLoadOut, over]
    | collCount a => simp only; repeat' split
                     all_goals simp_all
    | collIsEmpty a => simp only; repeat' split
                       all_goals simp_all
    | collAssign a same => cases same <;> simp [hov]
    | useAsRef => simp [hov]; split <;> simp
    | collSelect a => simp only; split <;> simp
    | collCreate a => simp [hov]; split <;> simp
    | staleArg => simp [hov]; split <;> simp
    | flush => simp [hov]; repeat' split
               all_goals simp
    | _ => simp [hov, attrLoadOut, setLoadOut]

/-- no operation on an object of a finished session emits a statement -/
theorem C32_no_statement (env : Env) (w : World) (i : Nat) (op : Op) : (step env w i op).stmts = [] := by
  unfold step
  cases ho : w.objs[i]? with
  | none => simp
  | some o =>
    cases op with
    | getAttr a => exact (attrGetDescr_facts w i o a ho).2.2
    | toDict attrs => simp only; split
                      · rfl
                      · exact (toDictLoop_facts i attrs w []).2.2
    | collCopy a => exact (collCopy_core w o a).2.2
    | _ => simp only [collGet]; repeat' split
           all_goals rfl

/-! ### read-only: whatever happens, only read bits may change -/

/-- THE SNAPSHOT THEOREM: for every operation, in every state, with or without a new db_session around the call, the world after
    the operation equals the world before it except for the read bits (`_rbits_`, internal bookkeeping of the optimistic check that
    a finished session can never use again), and the session stays over -/
theorem C32_readonly (env : Env) (w : World) (i : Nat) (op : Op) (hdead : w.alive = false) :
    (step env w i op).world.core = w.core ∧ (step env w i op).world.alive = false := by
  unfold step
  cases ho : w.objs[i]? with
  | none => simp [hdead]
  | some o =>
    have hov := over_of_dead w o hdead
    cases op with
    | getAttr a => have h := attrGetDescr_facts w i o a ho; exact ⟨h.1, by rw [h.2.1]; exact hdead⟩
    | toDict attrs =>
      simp only [hov]
      have h := toDictLoop_facts i attrs w []
      exact ⟨by simpa using h.1, by simp [h.2.1, hdead]⟩
    | collCopy a => have h := collCopy_core w o a; exact ⟨h.1, by rw [h.2.1]; exact hdead⟩
    | collContains a j =>
      simp only
      repeat' split
      all_goals first
        | exact ⟨rfl, hdead⟩
        | (rename_i it hj _ _ _ _ _ _ _ _; exact ⟨setObj_core w j it _ hj (bump_core it a.revBit), hdead⟩)
    | _ => simp only [collGet]; repeat' split
           all_goals (first | exact ⟨rfl, hdead⟩ | simp [hdead])

/-- an operation that raises changes nothing at all, except `to_dict` / `copy` / `in`, whose earlier successful reads may have set
    read bits before a later attribute fails -/
theorem C32_error_exact (env : Env) (w : World) (i : Nat) (o : Obj) (op : Op) (hdead : w.alive = false) (ho : w.objs[i]? = some o)
    (hop : match op with | .toDict _ | .collCopy _ | .collContains _ _ => False | _ => True)
    (herr : (step env w i op).out.isError = true) : (step env w i op).world = w := by
  have hov := over_of_dead w o hdead
  cases op with
  | toDict _ => exact absurd hop (by simp)
  | collCopy _ => exact absurd hop (by simp)
  | collContains _ _ => exact absurd hop (by simp)
  | getAttr a =>
    simp only [step, ho, attrGetDescr] at herr ⊢
    split at herr
    · split; rfl; rfl
    · split
      · rfl
      · split
        · rename_i h; rw [h] at herr; simp [Out.isError] at herr
        · rfl
  | _ => simp only [step, ho, collGet] at herr ⊢
         repeat' split
         all_goals rfl

/-! ### reads -/

/-- a scalar / reference value held by the object is returned (non-strict; the object was not deleted).  For a reference to an entity
    with subclasses the object must be detached (`_session_cache_ is None`, what `close` leaves when the session had a connection) -/
theorem C32_read_held (env : Env) (w : World) (i : Nat) (o : Obj) (a : Attr) (vs : Vals) (s : Slot)
    (ho : w.objs[i]? = some o) (hv : o.vals = some vs) (hs : lookup vs a.id = some s) (hcoll : ∀ sd, s ≠ .coll sd)
    (hst : a.isPk = true ∨ o.status.isGone = false) (hsub : a.refSubclasses = true → o.hasCache = false) :
    (step env w i (.getAttr a)).out = .value (match s with | .val v => .int v | _ => .none) := by
  have hcase : a.refSubclasses = false ∨ o.hasCache = false := by
    by_cases hr : a.refSubclasses = true
    · exact Or.inr (hsub hr)
    · exact Or.inl (by simpa using hr)
  simp only [step, ho, attrGetDescr, attrGet, hv, hs]
  cases s with
  | coll sd => exact absurd rfl (hcoll sd)
  | none => rcases hst with hp | hg
            · simp [hp]
            · by_cases hp : a.isPk = true <;> simp [hp, hg]
  | val v =>
    cases hw : w.objs[v.toNat]? with
    | none =>
      rcases hst with hp | hg
      · simp [hp, hw]
      · by_cases hp : a.isPk = true <;> simp [hp, hg, hw]
    | some t =>
      rcases hcase with hr | hc
      · rcases hst with hp | hg
        · simp [hp, hr]
        · by_cases hp : a.isPk = true <;> simp [hp, hg, hr]
      · rcases hst with hp | hg
        · simp [hp, hc, hw]
        · by_cases hp : a.isPk = true <;> simp [hp, hg, hc, hw]

/-- the one held value that still needs the database: a reference, assigned by raw key in a session that never connected (so `close`
    detached nothing), to an object known by key only whose entity has subclasses — `Attribute.get` wants its real class: session over -/
theorem C32_read_seed_reference (env : Env) (w : World) (i : Nat) (o t : Obj) (a : Attr) (vs : Vals) (v : Int)
    (hdead : w.alive = false) (ho : w.objs[i]? = some o) (hv : o.vals = some vs) (hs : lookup vs a.id = some (.val v))
    (hp : a.isPk = false) (hg : o.status.isGone = false) (hsub : a.refSubclasses = true) (hc : o.hasCache = true)
    (ht : w.objs[v.toNat]? = some t) (hts : t.seed = true) (htg : t.status.isGone = false) :
    step env w i (.getAttr a) = ⟨w, .sessionOver .loadObject, []⟩ := by
  have hov := over_of_dead w t hdead
  simp [step, ho, attrGetDescr, attrGet, hv, hs, hp, hg, hsub, hc, ht, hts, htg, hov]

/-- a value NOT held by the object needs the database: DatabaseSessionIsOver -/
theorem C32_read_missing (env : Env) (w : World) (i : Nat) (o : Obj) (a : Attr) (vs : Vals)
    (hdead : w.alive = false) (ho : w.objs[i]? = some o) (hv : o.vals = some vs) (hs : lookup vs a.id = none)
    (hst : a.isPk = true ∨ o.status.isGone = false) :
    step env w i (.getAttr a) = ⟨w, .sessionOver .loadAttribute, []⟩ := by
  have hov := over_of_dead w o hdead
  simp only [step, ho, attrGetDescr, attrGet, hv, hs, attrLoadOut, hov]
  rcases hst with hp | hg
  · simp [hp]
  · by_cases hp : a.isPk = true <;> simp [hp, hg]

/-- fully loaded collection, non-strict: `len`, `count` (when known), `is_empty`, many-to-many `copy` / `in` answer from memory -/
theorem C32_coll_held (env : Env) (w : World) (i : Nat) (o : Obj) (a : Attr) (vs : Vals) (sd : SetData)
    (ho : w.objs[i]? = some o) (hd : o.status.isDel = false) (hv : o.vals = some vs)
    (hs : lookup vs a.id = some (.coll sd)) (hf : sd.full = true) :
    step env w i (.collLen a) = ⟨w, .value (.nat sd.items.length), []⟩ ∧
    step env w i (.collIsEmpty a) = ⟨w, .value (.bool sd.items.isEmpty), []⟩ ∧
    (a.revIsColl = true → step env w i (.collCopy a) = ⟨w, .value (.items sd.items), []⟩) := by
  refine ⟨?_, ?_, ?_⟩
  · simp [step, ho, hd, hv, hs, hf]
  · simp [step, ho, hd, hv, hs, hf]
  · intro hr; simp [step, ho, collCopy, hd, hv, hs, hf, hr]

/-- collection not fully loaded (pruned to None by `close`, never loaded, or partial): `copy`, `len`, iteration need the database -/
theorem C32_coll_missing (env : Env) (w : World) (i : Nat) (o : Obj) (a : Attr) (vs : Vals)
    (hdead : w.alive = false) (ho : w.objs[i]? = some o) (hd : o.status.isDel = false) (hv : o.vals = some vs)
    (hs : ∀ sd, lookup vs a.id = some (.coll sd) → sd.full = false) :
    step env w i (.collCopy a) = ⟨w, .sessionOver .loadCollection, []⟩ ∧
    step env w i (.collLen a) = ⟨w, .sessionOver .loadCollection, []⟩ := by
  have hov := over_of_dead w o hdead
  constructor
  · simp only [step, ho, collCopy, hd, hv]
    cases hl : lookup vs a.id with
    | none => simp [setLoadOut, hov]
    | some s =>
      cases s with
      | coll sd => simp [hs sd hl, setLoadOut, hov]
      | _ => simp [setLoadOut, hov]
  · simp only [step, ho, hd, hv]
    cases hl : lookup vs a.id with
    | none => simp [setLoadOut, hov]
    | some s =>
      cases s with
      | coll sd => simp [hs sd hl, setLoadOut, hov]
      | _ => simp [setLoadOut, hov]

/-- `count()` / `is_empty()` on a collection about which nothing is known: DatabaseSessionIsOver and the slot is NOT materialised -/
theorem C32_count_isEmpty_unknown (env : Env) (w : World) (i : Nat) (o : Obj) (a : Attr) (vs : Vals)
    (hdead : w.alive = false) (ho : w.objs[i]? = some o) (hd : o.status.isDel = false) (hv : o.vals = some vs)
    (hs : ∀ sd, lookup vs a.id ≠ some (.coll sd)) :
    step env w i (.collCount a) = ⟨w, .sessionOver .readValue, []⟩ ∧
    step env w i (.collIsEmpty a) = ⟨w, .sessionOver .readValue, []⟩ := by
  have hov := over_of_dead w o hdead
  constructor <;>
  · simp only [step, ho, hd, hv]
    cases hl : lookup vs a.id with
    | none => simp [hov]
    | some s =>
      cases s with
      | coll sd => exact absurd hl (hs sd)
      | _ => simp [hov]

/-- strict: an object without values refuses every read (of a deleted object: "was deleted") and is not changed -/
theorem C32_strict_reads (env : Env) (w : World) (i : Nat) (o : Obj) (op : Op) (hdead : w.alive = false)
    (ho : w.objs[i]? = some o) (hv : o.vals = none)
    (hr : match op with
          | .getAttr _ | .collCopy _ | .collLen _ | .collCount _ | .collIsEmpty _ | .collContains _ _ => True
          | .toDict (_ :: _) => True
          | _ => False) :
    (step env w i op).world = w ∧ ((step env w i op).out = .sessionOver .readValue ∨ (step env w i op).out = .wasDeleted) := by
  cases op with
  | getAttr a =>
    simp only [step, ho, attrGetDescr, attrGet, hv]
    by_cases hp : a.isPk = true
    · simp [hp]
    · by_cases hg : o.status.isGone = true <;> simp [hp, hg]
  | collCopy a => simp only [step, ho, collCopy, hv]; split <;> simp
  | collLen a => simp only [step, ho, hv]; split <;> simp
  | collCount a => simp only [step, ho, hv]; split <;> simp
  | collIsEmpty a => simp only [step, ho, hv]; split <;> simp
  | collContains a j => simp only [step, ho, hv]; split <;> simp
  | toDict attrs =>
    cases attrs with
    | nil => exact absurd hr (by simp)
    | cons a rest =>
      have hov := over_of_dead w o hdead
      simp only [step, ho, hov, toDictLoop, toDictStep]
      cases hk : a.kind with
      | coll =>
        simp only [collGet, collCopy, hv]
        by_cases hd : o.status.isDel = true <;> simp [hd]
      | scalar =>
        simp only [attrGetDescr, attrGet, hv]
        by_cases hp : a.isPk = true
        · simp [hp]
        · by_cases hg : o.status.isGone = true <;> simp [hp, hg]
      | ref =>
        simp only [attrGetDescr, attrGet, hv]
        by_cases hp : a.isPk = true
        · simp [hp]
        · by_cases hg : o.status.isGone = true <;> simp [hp, hg]
  | _ => exact absurd hr (by simp)

/-! ### one-to-many `copy()` / iteration of a fully loaded collection: true with a guard, false in general (known finding) -/

/-- full statement: a fully loaded collection of a non-strict finished session can always be copied / iterated -/
def C32_copy_full : Prop :=
  ∀ (env : Env) (w : World) (i : Nat) (o : Obj) (a : Attr) (vs : Vals) (sd : SetData),
    w.alive = false → w.objs[i]? = some o → o.status.isDel = false → o.vals = some vs →
    lookup vs a.id = some (.coll sd) → sd.full = true → (step env w i (.collCopy a)).out = .value (.items sd.items)

/-- what a session that failed inside flush() leaves: the parent's `added` was already cleared by `_calc_modified_m2m`,
    the rejected new item is still 'created' (no write bits) -/
def failedFlushWorld : World :=
  { alive := false, savedPending := false,
    objs := [ { ent := 0, status := .loaded, hasCache := false, vals := some [(0, .val 2), (4, .coll { SetData.empty with items := [1], full := true, count := some 1 })],
                dbvals := none, rbits := some 0, wbits := some 0, savePos := none },
              { ent := 1, status := .created, hasCache := false, vals := some [(6, .val 1), (7, .val 0)], dbvals := none,
                rbits := none, wbits := none, savePos := some 0 } ] }

theorem C32_copy_full_false : ¬ C32_copy_full := by
  intro h
  have := h ⟨false⟩ failedFlushWorld 0 _ { id := 4, ent := 0, kind := .coll, isPk := false, isLazy := false, bit := 0, rev := 7, revIsColl := false, revIsPk := false, revBit := 1 }
    _ _ rfl rfl rfl rfl rfl rfl
  revert this; decide

/-- guard: every item that is not in `added` has write bits (was loaded or saved) -/
theorem C32_copy_partial (env : Env) (w : World) (i : Nat) (o : Obj) (a : Attr) (vs : Vals) (sd : SetData)
    (ho : w.objs[i]? = some o) (hd : o.status.isDel = false) (hv : o.vals = some vs)
    (hs : lookup vs a.id = some (.coll sd)) (hf : sd.full = true)
    (hg : ∀ j ∈ sd.items, mem? sd.added j = false → ∃ it, w.objs[j]? = some it ∧ it.wbits.isSome = true) :
    (step env w i (.collCopy a)).out = .value (.items sd.items) := by
  simp only [step, ho, collCopy, hd, hv, hs, hf]
  by_cases hr : (!a.revIsColl && !a.revIsPk) = true
  · have hb := copyBump_ok a sd.added sd.items w hg
    simp only [hr]
    generalize copyBump a sd.added sd.items w = r at hb
    rcases r with ⟨w', b⟩
    simp only at hb
    subst hb
    simp
  · simp [hr]

/-! ### the hypotheses are satisfiable: a concrete finished session -/

/-- G[0] (loaded; scalar 1 held, collection 4 pruned by close, collection 5 fully loaded) and I[1] (modified, pending) -/
def demoLive : World :=
  { alive := true, savedPending := false,
    objs := [ { ent := 0, status := .loaded, hasCache := true,
                vals := some [(0, .val 1), (1, .val 10), (4, .coll { SetData.empty with items := [1] }),
                              (5, .coll { SetData.empty with full := true, count := some 0 })],
                dbvals := some [(1, some 10)], rbits := some 0, wbits := some 0, savePos := none },
              { ent := 1, status := .modified, hasCache := true, vals := some [(6, .val 1), (7, .val 0), (8, .val 5)],
                dbvals := some [(7, some 0), (8, some 6)], rbits := some 0, wbits := some 2, savePos := some 0 } ] }
def demo : World := close false true demoLive
def attrA : Attr := { id := 1, ent := 0, kind := .scalar, isPk := false, isLazy := false, bit := 1, rev := 0, revIsColl := false, revIsPk := false, revBit := 0 }
def attrItems : Attr := { id := 4, ent := 0, kind := .coll, isPk := false, isLazy := false, bit := 0, rev := 7, revIsColl := false, revIsPk := false, revBit := 1 }
def attrTags : Attr := { id := 5, ent := 0, kind := .coll, isPk := false, isLazy := false, bit := 0, rev := 12, revIsColl := true, revIsPk := false, revBit := 0 }

example : demo.alive = false := by decide
example : (step ⟨false⟩ demo 0 (.getAttr attrA)).out = .value (.int 10) := by decide
example : (step ⟨true⟩ demo 0 (.setAttr attrA)).out = .sessionOver .assign := by decide
example : (step ⟨true⟩ demo 0 (.collCopy attrItems)).out = .sessionOver .loadCollection := by decide
example : (step ⟨true⟩ demo 0 (.collIsEmpty attrItems)) = ⟨demo, .sessionOver .readValue, []⟩ := by decide
example : (step ⟨false⟩ demo 0 (.collCopy attrTags)).out = .value (.items []) := by decide
example : (step ⟨false⟩ demo 1 .flush).out = .sessionOver .flushObject := by decide
example : (step ⟨false⟩ (close true true demoLive) 0 (.getAttr attrA)).out = .sessionOver .readValue := by decide

end PonyVerif.Props.C32
