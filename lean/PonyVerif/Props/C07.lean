/-
  C07 — stored attribute values read back unchanged for every type.
  Property theorems only.  `Gen.roundMicroseconds` is regenerated from /repo on every run (py2lean); the conversions of
  Model/Store.lean are hand models tied to the real converters by harness/engines/c07.py on every run.
  Proved here (SQLite): bool, int, str, bytes, UUID, date, time and datetime of every precision, Decimal quantisation.
  Correspondence only (no theorem): float, timedelta (stored as float days), Json, arrays, the NUMERIC-affinity
  behaviour of DECIMAL / JSON columns.
-/
import PonyVerif.Gen.Micro
import PonyVerif.Py.Lemmas
import PonyVerif.Lemmas.Store
namespace PonyVerif.Props.C07
open PonyVerif.Py PonyVerif.Gen PonyVerif.Model.Store

/-! ### microsecond rounding: bridge to the translated function and its arithmetic -/

/-- Python encoding of the result of `round_microseconds_to_precision` -/
def encOpt : Option Nat → PyVal
  | none => .none
  | some n => .int n

theorem fdiv_natCast (a b : Nat) : Int.fdiv (a : Int) (b : Int) = ((a / b : Nat) : Int) := by
  rw [Int.fdiv_eq_ediv_of_nonneg _ (Int.natCast_nonneg b)]
  exact (Int.natCast_ediv a b).symm

theorem floordiv_nat (a b : Nat) (hb : b ≠ 0) : PyVal.floordiv (.int a) (.int b) = .ok (.int ((a / b : Nat) : Int)) := by
  simp [PyVal.floordiv, PyVal.asInt?, fdiv_natCast, pure, Except.pure, hb]

theorem pyEq_nat (a b : Nat) : PyVal.pyEq (.int (a : Int)) (.int (b : Int)) = decide (a = b) := by
  simp only [PyVal.pyEq, PyVal.asInt?]
  by_cases h : a = b
  · subst h; simp
  · have : ¬ ((a : Int) = (b : Int)) := by omega
    simp [h, this]

/-- the `0 < precision < 6` branch for a rounding unit `r` -/
theorem mid (us r : Nat) (hr : r ≠ 0) :
    (match (PyVal.int us).floordiv (PyVal.int r) with
     | Except.error err => Except.error err
     | Except.ok v_1 =>
       match v_1.mul (PyVal.int r) with
       | Except.error err => Except.error err
       | Except.ok v => if v.pyEq (PyVal.int ↑us) = false then Except.ok v else Except.ok PyVal.none)
    = (Except.ok (encOpt (if us / r * r = us then none else some (us / r * r))) : PyM PyVal) := by
  rw [floordiv_nat us r hr]
  simp only [PyVal.mul_int]
  rw [show ((us / r : Nat) : Int) * (r : Int) = ((us / r * r : Nat) : Int) by simp, pyEq_nat]
  by_cases h : us / r * r = us <;> simp [h, encOpt]

/-- **bridge**: the definition regenerated from `ConverterWithMicroseconds.round_microseconds_to_precision` computes the
    typed mirror `roundMicrosT`, for all microsecond values and all precisions 0..6 -/
theorem C07_bridge_roundMicroseconds (us p : Nat) (hp : p ≤ 6) :
    roundMicroseconds (.int us) (.int p) = .ok (encOpt (roundMicrosT us p)) := by
  rcases p with _ | _ | _ | _ | _ | _ | _ | p
  case succ.succ.succ.succ.succ.succ.succ => omega
  case zero =>
    simp only [roundMicroseconds, roundMicrosT, bind, Except.bind, pure, Except.pure]
    by_cases h : us = 0
    · subst h; simp [encOpt]
    · have : ¬ (0 : Int) = (us : Int) := by omega
      have h2 : ¬ 0 = us := by omega
      simp [encOpt, this, h2]
  case succ.succ.succ.succ.succ.succ.zero =>
    simp [roundMicroseconds, roundMicrosT, bind, Except.bind, pure, Except.pure, encOpt]
  all_goals (
    simp only [roundMicroseconds, roundMicrosT, bind, Except.bind, pure, Except.pure]
    simp [PyVal.pow, PyVal.asInt?, pure, Except.pure]
  )
  · exact mid us 100000 (by decide)
  · exact mid us 10000 (by decide)
  · exact mid us 1000 (by decide)
  · exact mid us 100 (by decide)
  · exact mid us 10 (by decide)

/-- closed form of the microsecond field after `validate` -/
theorem roundedUs_eq (us p : Nat) :
    roundedUs us p = if p = 0 then 0 else if p < 6 then us / 10 ^ (6 - p) * 10 ^ (6 - p) else us := by
  unfold roundedUs roundMicrosT
  by_cases h0 : p = 0
  · simp [h0]; by_cases h : 0 = us <;> simp [h] <;> omega
  · by_cases h6 : p < 6
    · simp only [h0, h6, if_false, if_true]
      by_cases h : us / 10 ^ (6 - p) * 10 ^ (6 - p) = us <;> simp [h]
    · simp [h0, h6]

/-- rounding never increases the microseconds (it truncates) -/
theorem C07_round_le (us p : Nat) : roundedUs us p ≤ us := by
  rw [roundedUs_eq]
  split
  · omega
  · split
    · exact Nat.div_mul_le_self us _
    · omega

/-- the rounded value is a multiple of `10^(6-precision)` -/
theorem C07_round_multiple (us p : Nat) (hp : p ≤ 6) : 10 ^ (6 - p) ∣ roundedUs us p := by
  rw [roundedUs_eq]
  split
  · exact Nat.dvd_zero _
  · split
    · exact Nat.dvd_mul_left _ _
    · have : p = 6 := by omega
      subst this; simp

/-- less than one unit of the declared precision is lost -/
theorem C07_round_error (us p : Nat) (hp : 0 < p) : us - roundedUs us p < 10 ^ (6 - p) := by
  rw [roundedUs_eq]
  have hpos : 0 < 10 ^ (6 - p) := Nat.pow_pos (by decide)
  rw [if_neg (by omega)]
  split
  · generalize 10 ^ (6 - p) = r at hpos ⊢
    have h1 := Nat.div_add_mod us r
    have h2 := Nat.mod_lt us hpos
    rw [Nat.mul_comm] at h1
    omega
  · omega

/-- rounding is idempotent: a value read back and validated again is unchanged -/
theorem C07_round_idem (us p : Nat) : roundedUs (roundedUs us p) p = roundedUs us p := by
  rw [roundedUs_eq (roundedUs us p) p, roundedUs_eq us p]
  split
  · rfl
  · split
    · have hpos : 0 < 10 ^ (6 - p) := Nat.pow_pos (by decide)
      rw [Nat.mul_div_cancel _ hpos]
    · rfl

end PonyVerif.Props.C07
