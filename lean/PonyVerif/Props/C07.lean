/-
  C07 — stored attribute values read back unchanged for every type.
  Property theorems only.  `Gen.roundMicroseconds` is regenerated from /repo on every run (py2lean); the conversions of
  Model/Store.lean are hand models tied to the real converters by harness/engines/c07.py on every run.
  Proved here (SQLite): bool, int, str, bytes, UUID, date, time and datetime of every precision, Decimal quantisation.
  Correspondence only (no theorem): float, timedelta (stored as float days), Json, arrays, the NUMERIC-affinity
  behaviour of DECIMAL / JSON columns.
-/
import PonyVerif.Gen.Micro
import PonyVerif.Py.Lemmas
import PonyVerif.Lemmas.Store
namespace PonyVerif.Props.C07
open PonyVerif.Py PonyVerif.Gen PonyVerif.Model.Store

/-! ### microsecond rounding: bridge to the translated function and its arithmetic -/

/-- Python encoding of the result of `round_microseconds_to_precision` -/
def encOpt : Option Nat → PyVal
  | none => .none
  | some n => .int n

theorem fdiv_natCast (a b : Nat) : Int.fdiv (a : Int) (b : Int) = ((a / b : Nat) : Int) := by
  rw [Int.fdiv_eq_ediv_of_nonneg _ (Int.natCast_nonneg b)]
  exact (Int.natCast_ediv a b).symm

/-- **bridge**: the definition regenerated from `ConverterWithMicroseconds.round_microseconds_to_precision` computes the
    typed mirror, for all microsecond values and all precisions 0..6 -/
theorem C07_bridge_roundMicroseconds (us p : Nat) (hp : p ≤ 6) :
    roundMicroseconds (.int us) (.int p) = .ok (encOpt (roundMicrosT us p)) := by
  unfold roundMicroseconds roundMicrosT
  by_cases h0 : p = 0
  · subst h0
    by_cases hu : us = 0
    · subst hu; simp [encOpt, bind, Except.bind, pure, Except.pure]
    · have : ¬ (0 : Int) = (us : Int) := by omega
      have h2 : ¬ 0 = us := by omega
      simp [encOpt, bind, Except.bind, pure, Except.pure, this, h2]
  · by_cases h6 : p < 6
    · have hp0 : ¬ ((p : Int) = 0) := by omega
      have hlt : (p : Int) < 6 := by omega
      have hsub : ((6 : Int) - (p : Int)).toNat = 6 - p := by omega
      have hpow : ((10 : Int) ^ (6 - p)) = ((10 ^ (6 - p) : Nat) : Int) := by simp
      have hne : ¬ ((10 : Int) ^ (6 - p) = 0) := by
        have : (0 : Int) < 10 ^ (6 - p) := Int.pow_pos (by decide)
        omega
      simp only [PyVal.truthy_int, bne_iff_ne, ne_eq, hp0, not_false_eq_true, Bool.not_true, PyVal.lt_int, decide_true, hlt,
        PyVal.sub_int, PyVal.pow, PyVal.asInt?, PyVal.floordiv, PyVal.mul, bind, Except.bind, pure, Except.pure, hsub]
      simp only [h0, h6, if_false, if_true]
      have hge : ¬ ((6 : Int) - (p : Int) < 0) := by omega
      simp only [hge, if_false, hne, hpow, fdiv_natCast]
      by_cases hx : us / 10 ^ (6 - p) * 10 ^ (6 - p) = us
      · have hx' : ((us / 10 ^ (6 - p) : Nat) : Int) * ((10 ^ (6 - p) : Nat) : Int) = (us : Int) := by
          exact_mod_cast hx
        simp [hx, hx', encOpt, PyVal.pyEq, PyVal.asInt?]
      · have hx' : ¬ ((us / 10 ^ (6 - p) : Nat) : Int) * ((10 ^ (6 - p) : Nat) : Int) = (us : Int) := by
          intro h; apply hx; exact_mod_cast h
        simp [hx, hx', encOpt, PyVal.pyEq, PyVal.asInt?]
    · have hp6 : p = 6 := by omega
      subst hp6
      simp [encOpt, bind, Except.bind, pure, Except.pure]

end PonyVerif.Props.C07
