/-
  C07 — stored attribute values read back unchanged for every type.
  Property theorems only.  `Gen.roundMicroseconds` is regenerated from /repo on every run (py2lean); the conversions of
  Model/Store.lean are hand models tied to the real converters by harness/engines/c07.py on every run.
  Proved here (SQLite): bool, int, str, bytes, UUID, date, time and datetime of every precision, Decimal quantisation.
  Correspondence only (no theorem): float, timedelta (stored as float days), Json, arrays, the NUMERIC-affinity
  behaviour of DECIMAL / JSON columns.
-/
import PonyVerif.Gen.Micro
import PonyVerif.Py.Lemmas
import PonyVerif.Lemmas.Store
namespace PonyVerif.Props.C07
open PonyVerif.Py PonyVerif.Gen PonyVerif.Model.Store

/-! ### microsecond rounding: bridge to the translated function and its arithmetic -/

/-- Python encoding of the result of `round_microseconds_to_precision` -/
def encOpt : Option Nat → PyVal
  | none => .none
  | some n => .int n

theorem fdiv_natCast (a b : Nat) : Int.fdiv (a : Int) (b : Int) = ((a / b : Nat) : Int) := by
  rw [Int.fdiv_eq_ediv_of_nonneg _ (Int.natCast_nonneg b)]
  exact (Int.natCast_ediv a b).symm

theorem floordiv_nat (a b : Nat) (hb : b ≠ 0) : PyVal.floordiv (.int a) (.int b) = .ok (.int ((a / b : Nat) : Int)) := by
  simp [PyVal.floordiv, PyVal.asInt?, fdiv_natCast, pure, Except.pure, hb]

theorem pyEq_nat (a b : Nat) : PyVal.pyEq (.int (a : Int)) (.int (b : Int)) = decide (a = b) := by
  simp only [PyVal.pyEq, PyVal.asInt?]
  by_cases h : a = b
  · subst h; simp
  · have : ¬ ((a : Int) = (b : Int)) := by omega
    simp [h, this]

/-- the `0 < precision < 6` branch for a rounding unit `r` -/
theorem mid (us r : Nat) (hr : r ≠ 0) :
    (match (PyVal.int us).floordiv (PyVal.int r) with
     | Except.error err => Except.error err
     | Except.ok v_1 =>
       match v_1.mul (PyVal.int r) with
       | Except.error err => Except.error err
       | Except.ok v => if v.pyEq (PyVal.int ↑us) = false then Except.ok v else Except.ok PyVal.none)
    = (Except.ok (encOpt (if us / r * r = us then none else some (us / r * r))) : PyM PyVal) := by
  rw [floordiv_nat us r hr]
  simp only [PyVal.mul_int]
  rw [show ((us / r : Nat) : Int) * (r : Int) = ((us / r * r : Nat) : Int) by simp, pyEq_nat]
  by_cases h : us / r * r = us <;> simp [h, encOpt]

/-- **bridge**: the definition regenerated from `ConverterWithMicroseconds.round_microseconds_to_precision` computes the
    typed mirror `roundMicrosT`, for all microsecond values and all precisions 0..6 -/
theorem C07_bridge_roundMicroseconds (us p : Nat) (hp : p ≤ 6) :
    roundMicroseconds (.int us) (.int p) = .ok (encOpt (roundMicrosT us p)) := by
  rcases p with _ | _ | _ | _ | _ | _ | _ | p
  case succ.succ.succ.succ.succ.succ.succ => omega
  case zero =>
    simp only [roundMicroseconds, roundMicrosT, bind, Except.bind, pure, Except.pure]
    by_cases h : us = 0
    · subst h; simp [encOpt]
    · have : ¬ (0 : Int) = (us : Int) := by omega
      have h2 : ¬ 0 = us := by omega
      simp [encOpt, this, h2]
  case succ.succ.succ.succ.succ.succ.zero =>
    simp [roundMicroseconds, roundMicrosT, bind, Except.bind, pure, Except.pure, encOpt]
  all_goals (
    simp only [roundMicroseconds, roundMicrosT, bind, Except.bind, pure, Except.pure]
    simp [PyVal.pow, PyVal.asInt?, pure, Except.pure]
  )
  · exact mid us 100000 (by decide)
  · exact mid us 10000 (by decide)
  · exact mid us 1000 (by decide)
  · exact mid us 100 (by decide)
  · exact mid us 10 (by decide)

/-- closed form of the microsecond field after `validate` -/
theorem roundedUs_eq (us p : Nat) :
    roundedUs us p = if p = 0 then 0 else if p < 6 then us / 10 ^ (6 - p) * 10 ^ (6 - p) else us := by
  unfold roundedUs roundMicrosT
  by_cases h0 : p = 0
  · simp [h0]; by_cases h : 0 = us <;> simp [h] <;> omega
  · by_cases h6 : p < 6
    · simp only [h0, h6, if_false, if_true]
      by_cases h : us / 10 ^ (6 - p) * 10 ^ (6 - p) = us <;> simp [h]
    · simp [h0, h6]

/-- rounding never increases the microseconds (it truncates) -/
theorem C07_round_le (us p : Nat) : roundedUs us p ≤ us := by
  rw [roundedUs_eq]
  split
  · omega
  · split
    · exact Nat.div_mul_le_self us _
    · omega

/-- the rounded value is a multiple of `10^(6-precision)` -/
theorem C07_round_multiple (us p : Nat) (hp : p ≤ 6) : 10 ^ (6 - p) ∣ roundedUs us p := by
  rw [roundedUs_eq]
  split
  · exact Nat.dvd_zero _
  · split
    · exact Nat.dvd_mul_left _ _
    · have : p = 6 := by omega
      subst this; simp

/-- less than one unit of the declared precision is lost -/
theorem C07_round_error (us p : Nat) (hp : 0 < p) : us - roundedUs us p < 10 ^ (6 - p) := by
  rw [roundedUs_eq]
  have hpos : 0 < 10 ^ (6 - p) := Nat.pow_pos (by decide)
  rw [if_neg (by omega)]
  split
  · generalize 10 ^ (6 - p) = r at hpos ⊢
    have h1 := Nat.div_add_mod us r
    have h2 := Nat.mod_lt us hpos
    rw [Nat.mul_comm] at h1
    omega
  · omega

/-- rounding is idempotent: a value read back and validated again is unchanged -/
theorem C07_round_idem (us p : Nat) : roundedUs (roundedUs us p) p = roundedUs us p := by
  rw [roundedUs_eq (roundedUs us p) p, roundedUs_eq us p]
  split
  · rfl
  · split
    · have hpos : 0 < 10 ^ (6 - p) := Nat.pow_pos (by decide)
      rw [Nat.mul_div_cancel _ hpos]
    · rfl

/-! ### round trips: `read (store (validate v)) = validate v` -/

/-- bool: every value -/
theorem C07_roundtrip_bool (b : Bool) : boolFromSql (boolToSql b) = .val b := by
  cases b <;> rfl

/-- int: every integer that fits 64 bits — i.e. every value an int attribute of size 8/16/24/32/64 (signed) or
    8/16/24/32 (unsigned) accepts (C08_int) — is stored and read back unchanged; anything else is refused by the driver -/
theorem C07_roundtrip_int (i : Int) :
    (-(2 ^ 63) ≤ i ∧ i < 2 ^ 63 → (intToSql i).map intFromSql = some (.val i)) ∧
    (¬ (-(2 ^ 63) ≤ i ∧ i < 2 ^ 63) → intToSql i = none) := by
  constructor
  · intro h; unfold intToSql; rw [if_pos h]; rfl
  · intro h; unfold intToSql; rw [if_neg h]

/-- str / LongStr: every string (empty, NUL, any code point) -/
theorem C07_roundtrip_str (s : List Char) : strFromSql (strToSql s) = .val s := rfl

/-- bytes: every byte string -/
theorem C07_roundtrip_bytes (b : List Nat) : bytesFromSql (bytesToSql b) = .val b := rfl

/-- UUID: every 128-bit value through its 16 big-endian bytes -/
theorem C07_roundtrip_uuid (u : Nat) (h : u < 2 ^ 128) : uuidFromSql (uuidToSql u) = .val u := by
  simp only [uuidToSql, uuidFromSql, length_toBytesBE, if_true, fromBytesBE_toBytesBE]
  rw [show (256 : Nat) ^ 16 = 2 ^ 128 by decide, Nat.mod_eq_of_lt h]

theorem length_dateToText (x : Date) : (dateToText x).length = 10 := by simp [dateToText]

theorem parseDateText_dateToText (x : Date) (h : x.valid) : parseDateText (dateToText x) = some x := by
  obtain ⟨y, m, d⟩ := x
  obtain ⟨h1, h2, h3, h4, h5, h6⟩ := h
  simp only at h1 h2 h3 h4 h5 h6
  simp only [parseDateText, dateToText]
  rw [takeDigits_padN 4 y _ (by omega)]
  simp only [expect_cons]
  rw [takeDigits_padN 2 m _ (by omega)]
  simp only [expect_cons]
  have := takeDigits_padN 2 d [] (by omega : d < 10 ^ 2)
  rw [List.append_nil] at this
  rw [this]
  simp [h1, h3, h4, h5, h6]

/-- date: every date from 0001-01-01 to 9999-12-31 (the year is zero-padded, so the fixed-width `%Y` of `strptime` accepts it) -/
theorem C07_roundtrip_date (x : Date) (h : x.valid) : dateFromSql (dateToSql x) = .val x := by
  simp only [dateToSql, dateFromSql]
  rw [List.take_of_length_le (by rw [length_dateToText]; exact Nat.le_refl _), parseDateText_dateToText x h]

theorem parseHMS_hmsText (h mi s : Nat) (rest : List Char) (hh : h < 24) (hm : mi < 60) (hs : s < 60) :
    parseHMS (hmsText h mi s rest) = some (h, mi, s, rest) := by
  simp only [parseHMS, hmsText]
  rw [takeDigits_padN 2 h _ (by omega)]
  simp only [expect_cons]
  rw [takeDigits_padN 2 mi _ (by omega)]
  simp only [expect_cons]
  rw [takeDigits_padN 2 s _ (by omega)]
  have : s < 62 := by omega
  simp [hh, hm, this]

theorem length_hmsText (h mi s : Nat) (rest : List Char) : (hmsText h mi s rest).length = 8 + rest.length := by
  simp [hmsText]; omega

theorem parseFrac_pad6 (us : Nat) (h : us < 1000000) : parseFrac (padN 6 us) = some us := by
  unfold parseFrac
  simp only [length_padN]
  rw [if_neg (by omega), List.take_append_of_le_length (by simp), List.take_of_length_le (by simp)]
  exact parseNat_padN_lt 6 us (by omega)

theorem timeFromSql_timeToSql (t : Time) (h : t.valid) : timeFromSql (timeToSql t) = .val t := by
  obtain ⟨hh, mi, s, us⟩ := t
  obtain ⟨h1, h2, h3, h4⟩ := h
  simp only at h1 h2 h3 h4
  simp only [timeToSql, timeToText, timeFromSql]
  by_cases hu : us = 0
  · subst hu
    simp only [if_true, length_hmsText, List.length_nil, Nat.add_zero, Nat.le_refl, parseHMS_hmsText hh mi s [] h1 h2 h3, h3]
  · simp only [hu, if_false, length_hmsText, List.length_cons, length_padN]
    rw [if_neg (by omega), parseHMS_hmsText hh mi s _ h1 h2 h3]
    simp only [parseFrac_pad6 us h4, h3, if_true]

theorem valid_timeValidate (p : Nat) (t : Time) (h : t.valid) : (timeValidate p t).valid := by
  obtain ⟨h1, h2, h3, h4⟩ := h
  refine ⟨h1, h2, h3, ?_⟩
  have := C07_round_le t.us p
  simp only [timeValidate]
  omega

/-- time of every precision 0..6: the validated (rounded) time is what a fresh session reads -/
theorem C07_roundtrip_time (p : Nat) (t : Time) (h : t.valid) :
    timeFromSql (timeToSql (timeValidate p t)) = .val (timeValidate p t) :=
  timeFromSql_timeToSql _ (valid_timeValidate p t h)

theorem length_timeToText (t : Time) : (timeToText t).length = if t.us = 0 then 8 else 15 := by
  unfold timeToText
  split <;> simp [length_hmsText]

theorem take_append_len {α} (a b : List α) (n : Nat) (h : a.length = n) : (a ++ b).take n = a := by
  subst h; simp

theorem drop_append_len {α} (a b : List α) (n : Nat) (h : a.length = n) : (a ++ b).drop n = b := by
  subst h; simp

/-- `timestamp2datetime` on a text of the shape `D ' ' H '.' F` with |D| = 10, |H| = 8, |F| = 6 -/
theorem timestamp2datetime_shape (D H F : List Char) (hD : D.length = 10) (hH : H.length = 8) (hF : F.length = 6)
    (d : Date) (h mi sec us : Nat) (pd : parseDateText D = some d) (ph : parseHMS H = some (h, mi, sec, []))
    (pf : parseNat F = some us) (hs : sec < 60) :
    timestamp2datetime (D ++ (' ' :: (H ++ ('.' :: F)))) = some ⟨d, ⟨h, mi, sec, us⟩⟩ := by
  have e1 : D ++ (' ' :: (H ++ ('.' :: F))) = (D ++ (' ' :: H)) ++ ('.' :: F) := by simp
  have t19 : (D ++ (' ' :: (H ++ ('.' :: F)))).take 19 = D ++ (' ' :: H) := by
    rw [e1]; exact take_append_len _ _ 19 (by simp [hD, hH])
  have e2 : D ++ (' ' :: (H ++ ('.' :: F))) = (D ++ (' ' :: (H ++ ['.']))) ++ F := by simp
  have d20 : (D ++ (' ' :: (H ++ ('.' :: F)))).drop 20 = F := by
    rw [e2]; exact drop_append_len _ _ 20 (by simp [hD, hH])
  have t10 : (D ++ (' ' :: H)).take 10 = D := take_append_len _ _ 10 hD
  have d10 : (D ++ (' ' :: H)).drop 10 = ' ' :: H := drop_append_len _ _ 10 hD
  have f6 : ((F.take 6) ++ zeros6).take 6 = F := by
    have : F.take 6 = F := List.take_of_length_le (by omega)
    rw [this]; exact take_append_len _ _ 6 hF
  unfold timestamp2datetime
  simp only [t19, d20, t10, d10, f6, expect_cons, pd, ph, pf, hs, if_true]

theorem timestamp_roundtrip (x : DateTime) (h : x.valid) : timestamp2datetime (datetime2timestamp x) = some x := by
  obtain ⟨d, t⟩ := x
  obtain ⟨hd, ht⟩ := h
  obtain ⟨hh, mi, s, us⟩ := t
  obtain ⟨h1, h2, h3, h4⟩ := ht
  simp only at h1 h2 h3 h4 hd
  have hlen : (dateToText d).length = 10 := length_dateToText d
  by_cases hu : us = 0
  · subst hu
    -- isoformat has 19 characters: '.000000' is appended
    have e : datetime2timestamp ⟨d, ⟨hh, mi, s, 0⟩⟩ = dateToText d ++ (' ' :: (hmsText hh mi s [] ++ ('.' :: zeros6))) := by
      simp [datetime2timestamp, isoDateTime, timeToText, length_hmsText, hlen]
    rw [e]
    exact timestamp2datetime_shape _ _ _ hlen (by simp [length_hmsText]) (by rfl) d hh mi s 0
      (parseDateText_dateToText d hd) (parseHMS_hmsText hh mi s [] h1 h2 h3) (by rfl) h3
  · have e : datetime2timestamp ⟨d, ⟨hh, mi, s, us⟩⟩ = dateToText d ++ (' ' :: (hmsText hh mi s [] ++ ('.' :: padN 6 us))) := by
      simp [datetime2timestamp, isoDateTime, timeToText, hlen, hu, hmsText]
    rw [e]
    exact timestamp2datetime_shape _ _ _ hlen (by simp [length_hmsText]) (by simp) d hh mi s us
      (parseDateText_dateToText d hd) (parseHMS_hmsText hh mi s [] h1 h2 h3) (parseNat_padN_lt 6 us (by omega)) h3

/-- datetime of every precision 0..6, years 1..9999: the validated (rounded) value is what a fresh session reads;
    `datetime2timestamp` always writes 26 characters (`.000000` appended when the microseconds are 0) -/
theorem C07_roundtrip_datetime (p : Nat) (x : DateTime) (h : x.valid) :
    datetimeFromSql (datetimeToSql (datetimeValidate p x)) = .val (datetimeValidate p x) := by
  have hv : (datetimeValidate p x).valid := ⟨h.1, valid_timeValidate p x.time h.2⟩
  simp only [datetimeToSql, datetimeFromSql, timestamp_roundtrip _ hv]

/-- the stored text of a datetime always has the fixed width 26, so text comparison in SQL orders datetimes correctly -/
theorem C07_datetime_text_width (x : DateTime) : (datetime2timestamp x).length = 26 := by
  unfold datetime2timestamp isoDateTime
  simp only [List.length_append, List.length_cons, length_dateToText, length_timeToText]
  by_cases hu : x.time.us = 0 <;> simp [hu, zeros6, length_dateToText, length_timeToText]

/-! ### Decimal: quantisation to the declared scale -/

/-- two finite Decimals denote the same number -/
def sameNumber (a b : Dec) : Prop :=
  (a.coeff = 0 ∧ b.coeff = 0) ∨
  (a.neg = b.neg ∧ ∃ e : Int, e ≤ a.exp ∧ e ≤ b.exp ∧ a.coeff * 10 ^ (a.exp - e).toNat = b.coeff * 10 ^ (b.exp - e).toNat)

/-- what the database holds has exactly `scale` fractional digits -/
theorem C07_quantize_exp (scale : Nat) (x : Dec) : (quantize scale x).exp = -(scale : Int) := by
  unfold quantize; dsimp only; split <;> rfl

/-- quantising is idempotent: the value read in a fresh session (quantised on write and again on read) is stable -/
theorem C07_quantize_idem (scale : Nat) (x : Dec) : quantize scale (quantize scale x) = quantize scale x := by
  have h := C07_quantize_exp scale x
  generalize quantize scale x = q at h
  obtain ⟨n, c, e⟩ := q
  simp only at h; subst h
  simp [quantize]

/-- a value with at most `scale` fractional digits is stored exactly -/
theorem C07_quantize_exact (scale : Nat) (x : Dec) (h : -(scale : Int) ≤ x.exp) : sameNumber (quantize scale x) x := by
  right
  unfold quantize
  rw [if_pos (by omega)]
  refine ⟨rfl, -(scale : Int), Int.le_refl _, h, ?_⟩
  simp

/-- the full statement "the value the session holds after the flush is the value a fresh session reads" for Decimal
    attributes: false, because `validate` keeps the unrounded value and only `py2sql` / `sql2py` quantise -/
def C07_decimal_session_full : Prop := ∀ (scale : Nat) (x : Dec), sameNumber (quantize scale x) x

/-- witness: `Decimal('1.005')` with scale 2 is held as 1.005 by the writing session and read as 1.00 by the next
    (replayed on the real code by the engine on every run; known finding `decimal-unrounded-in-session`) -/
theorem C07_decimal_session_full_false : ¬ C07_decimal_session_full := by
  intro h
  have := h 2 ⟨false, 1005, -3⟩
  have hq : quantize 2 ⟨false, 1005, -3⟩ = ⟨false, 100, -2⟩ := by decide
  rw [hq] at this
  rcases this with ⟨h1, _⟩ | ⟨_, e, he1, he2, heq⟩
  · simp at h1
  · simp only at he1 he2 heq
    obtain ⟨k, rfl⟩ : ∃ k : Nat, e = -3 - (k : Int) := ⟨(-3 - e).toNat, by omega⟩
    have e1 : ((-2 : Int) - (-3 - (k : Int))).toNat = k + 1 := by omega
    have e2 : ((-3 : Int) - (-3 - (k : Int))).toNat = k := by omega
    rw [e1, e2, Nat.pow_succ] at heq
    have hpos : 0 < 10 ^ k := Nat.pow_pos (by decide)
    generalize 10 ^ k = t at heq hpos
    omega

/-- half-even rounding moves the coefficient by at most half a unit of the last kept digit -/
theorem C07_round_half_even_error (n k : Nat) :
    2 * (divRoundHalfEven n k * 10 ^ k) ≤ 2 * n + 10 ^ k ∧ 2 * n ≤ 2 * (divRoundHalfEven n k * 10 ^ k) + 10 ^ k := by
  simp only [divRoundHalfEven]
  have hpos : 0 < 10 ^ k := Nat.pow_pos (by decide)
  generalize 10 ^ k = p at hpos ⊢
  have h1 := Nat.div_add_mod n p
  have h2 := Nat.mod_lt n hpos
  generalize n / p = q at *
  generalize n % p = r at *
  have hq : q * p = p * q := Nat.mul_comm _ _
  split
  · constructor <;> (rw [hq]; omega)
  · split
    · rw [Nat.add_mul, hq]; constructor <;> omega
    · split
      · constructor <;> (rw [hq]; omega)
      · rw [Nat.add_mul, hq]; constructor <;> omega

/-! ### timedelta text codec -/

/-- timedelta as text (`INTERVAL '…' HOUR TO SECOND` literals, str input of validate): `str2timedelta(timedelta2str(td)) == td`
    for every normalised timedelta — any number of days of either sign, all seconds, all microseconds -/
theorem C07_roundtrip_timedelta_text (td : TDelta) (h : td.valid) : str2timedelta (timedelta2str td) = some td.micros := by
  obtain ⟨days, sec, us⟩ := td
  obtain ⟨hs, hu⟩ := h
  simp only at hs hu
  unfold timedelta2str str2timedelta TDelta.micros
  simp only
  by_cases hneg : days < 0
  · have hge : ¬ days ≥ 0 := by omega
    simp only [hneg, hge, if_true, if_false, stripNeg_minus]
    by_cases h0 : us = 0
    · subst h0
      simp only [ne_eq, not_true_eq_false, if_false]
      have := parseTdBody_shape ((-(days * 86400 + (sec : Int))).toNat / 60 / 60) ((-(days * 86400 + (sec : Int))).toNat / 60 % 60) ((-(days * 86400 + (sec : Int))).toNat % 60) 0 (by omega)
      simp only [ne_eq, not_true_eq_false, if_false] at this
      rw [this]
      simp only [Option.some.injEq]
      omega
    · simp only [ne_eq, h0, not_false_eq_true, if_true]
      have h1 : 1000000 - us ≠ 0 := by omega
      have := parseTdBody_shape (((-(days * 86400 + (sec : Int))).toNat - 1) / 60 / 60) (((-(days * 86400 + (sec : Int))).toNat - 1) / 60 % 60) (((-(days * 86400 + (sec : Int))).toNat - 1) % 60) (1000000 - us) (by omega)
      simp only [ne_eq] at this
      rw [this]
      simp only [Option.some.injEq]
      omega
  · have hge : days ≥ 0 := by omega
    simp only [hneg, hge, if_true, if_false]
    have := parseTdBody_shape ((days * 86400 + (sec : Int)).toNat / 60 / 60) ((days * 86400 + (sec : Int)).toNat / 60 % 60) ((days * 86400 + (sec : Int)).toNat % 60) us hu
    rw [stripNeg_natDigits, this]
    simp only [Bool.false_eq_true, if_false, Option.some.injEq]
    omega


/-- consequently the text is injective: two different durations never get the same literal -/
theorem C07_timedelta_text_injective (a b : TDelta) (ha : a.valid) (hb : b.valid) (h : timedelta2str a = timedelta2str b) :
    a.micros = b.micros := by
  have e1 := C07_roundtrip_timedelta_text a ha
  rw [h, C07_roundtrip_timedelta_text b hb] at e1
  injection e1 with e1; exact e1.symm

example : str2timedelta (timedelta2str ⟨-1, 86399, 999999⟩) = some (-1) := by
  rw [C07_roundtrip_timedelta_text _ (by simp [TDelta.valid])]; rfl
example : str2timedelta "-0:0:0.000001".toList = some (-1) := by decide
example : str2timedelta "25:2:3".toList = some 90123000000 := by decide

/-! ### arrays and JSON strings (SQLiteArrayConverter: json.dumps with separators (',', ':') and ensure_ascii=False / json.loads) -/

/-- int arrays: every list of integers (any length, any magnitude, either sign) is read back unchanged -/
theorem C07_roundtrip_int_array (l : List Int) : loadsIntArray (dumpsIntArray l) = some l := loads_dumps_intArray l

/-- JSON string literals: every string — quotes, backslashes, NUL and the other control characters, any code point —
    decodes to itself, whatever follows the closing quote -/
theorem C07_json_string_roundtrip (s rest : List Char) : decodeBody (escBody s ++ '"' :: rest) = some (s, rest) :=
  decodeBody_escBody s rest

/-- str arrays: every list of strings (empty items, items containing ',' '[' ']' '"' '\\' and control characters) is read back unchanged -/
theorem C07_roundtrip_str_array (l : List (List Char)) : loadsStrArray (dumpsStrArray l) = some l := loads_dumps_strArray l

example : dumpsIntArray [1, -2, 30] = "[1,-2,30]".toList := by
  rw [show "[1,-2,30]".toList = ['[', '1', ',', '-', '2', ',', '3', '0', ']'] from rfl]
  simp [dumpsIntArray, joinComma, intText, natDigits, digitChar]
example : dumpsStrArray [['a', '"'], [], [',']] = ['[', '"', 'a', '\\', '"', '"', ',', '"', '"', ',', '"', ',', '"', ']'] := by decide
example : loadsStrArray ['[', '"', '\\', 'u', '0', '0', '0', '0', '"', ']'] = some [[Char.ofNat 0]] := by decide

/-! ### column affinity: DATE / TIME / DATETIME columns have NUMERIC affinity, yet the texts Pony binds stay TEXT -/

example : affinityOf "DATE".toList = .numeric ∧ affinityOf "TIME(3)".toList = .numeric ∧ affinityOf "DATETIME".toList = .numeric ∧
    affinityOf "DECIMAL(12, 2)".toList = .numeric ∧ affinityOf "JSON".toList = .numeric ∧ affinityOf "UUID".toList = .numeric ∧
    affinityOf "INTERVAL".toList = .integer ∧ affinityOf "VARCHAR(40)".toList = .text ∧ affinityOf "BIGINT".toList = .integer := by decide

theorem textStaysText_of_not_numeric (a : Affinity) (s : List Char) (h : looksNumeric s = false) : textStaysText a s = true := by
  cases a <;> simp [textStaysText, h]

/-- the ISO text of every date is not a numeric literal: whatever the column's affinity, SQLite keeps it as TEXT -/
theorem C07_affinity_date (a : Affinity) (x : Date) : textStaysText a (dateToText x) = true := by
  apply textStaysText_of_not_numeric
  exact looksNumeric_digits_then 3 x.y '-' _ (by decide) (by decide) (by decide) (by decide) (by decide)

/-- likewise the text of every time (with or without microseconds) -/
theorem C07_affinity_time (a : Affinity) (t : Time) : textStaysText a (timeToText t) = true := by
  apply textStaysText_of_not_numeric
  unfold timeToText hmsText
  split <;> exact looksNumeric_digits_then 1 t.h ':' _ (by decide) (by decide) (by decide) (by decide) (by decide)

/-- and the 26-character timestamp of every datetime -/
theorem C07_affinity_datetime (a : Affinity) (x : DateTime) : textStaysText a (datetime2timestamp x) = true := by
  apply textStaysText_of_not_numeric
  have h : ∀ rest : List Char, looksNumeric (dateToText x.date ++ rest) = false := by
    intro rest
    unfold dateToText
    rw [List.append_assoc]
    exact looksNumeric_digits_then 3 x.date.y '-' _ (by decide) (by decide) (by decide) (by decide) (by decide)
  unfold datetime2timestamp isoDateTime
  simp only
  split
  · rw [List.append_assoc]; exact h _
  · exact h _

/-- the decimal text of a Decimal IS a numeric literal: in the NUMERIC-affinity DECIMAL column it is converted to INTEGER/REAL
    (the mechanism of the known finding sqlite-decimal-numeric-affinity-loses-digits) -/
example : textStaysText (affinityOf "DECIMAL(30, 2)".toList) "12345678901234567.89".toList = false := by decide
example : textStaysText (affinityOf "JSON".toList) "1180591620717411303425".toList = false := by decide
example : textStaysText (affinityOf "JSON".toList) "\"1e5\"".toList = true := by decide

/-! ### query parameters: `e.attr == param` compares the stored encoding with the encoding of the parameter
   (the parameter goes through the same `py2sql`), so it selects exactly the rows holding an equal value -/

theorem Loaded.val_inj {α} {a b : α} (h : (Loaded.val a : Loaded α) = .val b) : a = b := by injection h

theorem C07_param_eq_date (x y : Date) (hx : x.valid) (hy : y.valid) : dateToSql x = dateToSql y ↔ x = y := by
  constructor
  · intro h
    have := C07_roundtrip_date x hx
    rw [h, C07_roundtrip_date y hy] at this
    exact (Loaded.val_inj this).symm
  · intro h; rw [h]

theorem C07_param_eq_time (x y : Time) (hx : x.valid) (hy : y.valid) : timeToSql x = timeToSql y ↔ x = y := by
  constructor
  · intro h
    have := timeFromSql_timeToSql x hx
    rw [h, timeFromSql_timeToSql y hy] at this
    exact (Loaded.val_inj this).symm
  · intro h; rw [h]

theorem C07_param_eq_datetime (x y : DateTime) (hx : x.valid) (hy : y.valid) : datetimeToSql x = datetimeToSql y ↔ x = y := by
  constructor
  · intro h
    have e1 := timestamp_roundtrip x hx
    have e2 := timestamp_roundtrip y hy
    simp only [datetimeToSql, Sql.text.injEq] at h
    rw [h, e2] at e1
    injection e1 with e1; exact e1.symm
  · intro h; rw [h]

theorem C07_param_eq_uuid (x y : Nat) (hx : x < 2 ^ 128) (hy : y < 2 ^ 128) : uuidToSql x = uuidToSql y ↔ x = y := by
  constructor
  · intro h
    have := C07_roundtrip_uuid x hx
    rw [h, C07_roundtrip_uuid y hy] at this
    exact (Loaded.val_inj this).symm
  · intro h; rw [h]

/-! ### inline constants: the literal of a value in the query text is the text a parameter / the stored value has -/

/-- a datetime / date / time constant is rendered exactly as the value is stored and as a parameter is bound — for every value
    (including microsecond 0, whole seconds, midnight: always the 26-character form for datetimes) -/
theorem C07_const_is_param (x : DateTime) (d : Date) (t : Time) :
    Sql.text (constDatetimeText x) = datetimeToSql x ∧ Sql.text (constDateText d) = dateToSql d ∧ Sql.text (constTimeText t) = timeToSql t :=
  ⟨rfl, rfl, rfl⟩

/-- hence `attr == <constant>` selects exactly the rows whose stored value is that datetime (same for date and time) -/
theorem C07_const_selects_equal_datetime (c y : DateTime) (hc : c.valid) (hy : y.valid) :
    Sql.text (constDatetimeText c) = datetimeToSql y ↔ c = y := C07_param_eq_datetime c y hc hy
theorem C07_const_selects_equal_date (c y : Date) (hc : c.valid) (hy : y.valid) :
    Sql.text (constDateText c) = dateToSql y ↔ c = y := C07_param_eq_date c y hc hy
theorem C07_const_selects_equal_time (c y : Time) (hc : c.valid) (hy : y.valid) :
    Sql.text (constTimeText c) = timeToSql y ↔ c = y := C07_param_eq_time c y hc hy

example : constDatetimeText ⟨⟨2020, 1, 1⟩, ⟨12, 30, 0, 0⟩⟩ = "2020-01-01 12:30:00.000000".toList := by decide

/-! ### non-vacuity -/
example : dateToText ⟨999, 12, 31⟩ = "0999-12-31".toList := by decide
example : dateFromSql (.text "999-12-31".toList) = .raw (.text "999-12-31".toList) := by decide
example : timeToText (timeValidate 3 ⟨1, 2, 3, 999999⟩) = "01:02:03.999000".toList := by decide
example : datetime2timestamp ⟨⟨1, 1, 1⟩, ⟨0, 0, 0, 0⟩⟩ = "0001-01-01 00:00:00.000000".toList := by decide
example : (⟨⟨9999, 12, 31⟩, ⟨23, 59, 59, 999999⟩⟩ : DateTime).valid := by
  simp [DateTime.valid, Date.valid, Time.valid]
example : quantize 2 ⟨true, 12345, -3⟩ = ⟨true, 1234, -2⟩ := by decide
example : quantize 2 ⟨false, 12355, -3⟩ = ⟨false, 1236, -2⟩ := by decide

end PonyVerif.Props.C07
