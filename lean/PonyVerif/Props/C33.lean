/-
  C33 — lifecycle hooks run once per saved change and their edits are saved.   Property theorems only.

  Model: Model/Hooks.lean (SessionCache.flush with its ≤ 50 rounds, Entity.flush).  Every theorem is for ALL hook functions
  (`H : Hooks`, arbitrary functions of the whole state that read, modify any object, create objects, or do nothing), all states
  satisfying the cache invariant `Inv` (an object is queued iff its status is pending), all statement orders `ord` that permute the
  queue (the principal-objects-first recursion of `_save_`), and every fuel of the before-hooks loop.
-/
import PonyVerif.Model.Hooks
import PonyVerif.Lemmas.Hooks
namespace PonyVerif.Props.C33
open PonyVerif.Model.Hooks

/-! ### the shape of a round -/

/-- within one round every written object has exactly one before-hook, one statement, one after-hook, of the same kind; the
    before-hooks all precede every write of the round (link-row deletions, the object statements, link-row insertions, in this
    order) and the after-hooks all follow them -/
theorem C33_round_once (seg : List Event) (h : RoundShape seg) :
    ∃ B LD S LI A : List Event, seg = B ++ LD ++ S ++ LI ++ A ∧
      (∀ e ∈ B, ∃ k o, e = .before k o) ∧ (∀ e ∈ LD, ∃ a b, e = .linkDel a b) ∧ (∀ e ∈ S, ∃ k o, e = .stmt k o) ∧
      (∀ e ∈ LI, ∃ a b, e = .linkIns a b) ∧ (∀ e ∈ A, ∃ k o, e = .after k o) ∧
      ∀ k o, B.count (.before k o) = S.count (.stmt k o) ∧ A.count (.after k o) = S.count (.stmt k o) ∧ S.count (.stmt k o) ≤ 1 := by
  obtain ⟨Q, S, R, A, hnd, hperm, rfl⟩ := h
  refine ⟨Q.map evB, R.map evLD, S.map evS, A.map evLI, S.map evA, rfl, ?_, ?_, ?_, ?_, ?_, ?_⟩
  · intro e he; obtain ⟨p, _, rfl⟩ := List.mem_map.mp he; exact ⟨p.1, p.2, rfl⟩
  · intro e he; obtain ⟨p, _, rfl⟩ := List.mem_map.mp he; exact ⟨p.1, p.2, rfl⟩
  · intro e he; obtain ⟨p, _, rfl⟩ := List.mem_map.mp he; exact ⟨p.1, p.2, rfl⟩
  · intro e he; obtain ⟨p, _, rfl⟩ := List.mem_map.mp he; exact ⟨p.1, p.2, rfl⟩
  · intro e he; obtain ⟨p, _, rfl⟩ := List.mem_map.mp he; exact ⟨p.1, p.2, rfl⟩
  · intro k o
    have hB : (Q.map evB).count (.before k o) = Q.count (k, o) :=
      count_map_inj evB (by intro a b h; cases a; cases b; simp [evB] at h; simp [h]) Q (k, o)
    have hS : (S.map evS).count (.stmt k o) = S.count (k, o) :=
      count_map_inj evS (by intro a b h; cases a; cases b; simp [evS] at h; simp [h]) S (k, o)
    have hA : (S.map evA).count (.after k o) = S.count (k, o) :=
      count_map_inj evA (by intro a b h; cases a; cases b; simp [evA] at h; simp [h]) S (k, o)
    have hQ : Q.Nodup := nodup_of_map_nodup _ Q hnd
    rw [hB, hS, hA, hperm.count_eq]
    exact ⟨rfl, rfl, count_le_one_of_nodup Q hQ (k, o)⟩

/-- no hook is entered for an object that is not written in the same round, and every written object gets both hooks -/
theorem C33_round_hook_iff_statement (seg : List Event) (h : RoundShape seg) (k : Kind) (o : Nat) :
    (Event.before k o ∈ seg ↔ Event.stmt k o ∈ seg) ∧ (Event.after k o ∈ seg ↔ Event.stmt k o ∈ seg) := by
  obtain ⟨B, LD, S, LI, A, rfl, hB, hLD, hS, hLI, hA, hc⟩ := C33_round_once seg h
  obtain ⟨c1, c2, _⟩ := hc k o
  have nB : ∀ e, (∀ k o, e ≠ Event.before k o) → e ∉ B := fun e hne hm => by obtain ⟨k, o, he⟩ := hB e hm; exact hne k o he
  have nLD : ∀ e, (∀ a b, e ≠ Event.linkDel a b) → e ∉ LD := fun e hne hm => by obtain ⟨a, b, he⟩ := hLD e hm; exact hne a b he
  have nS : ∀ e, (∀ k o, e ≠ Event.stmt k o) → e ∉ S := fun e hne hm => by obtain ⟨k, o, he⟩ := hS e hm; exact hne k o he
  have nLI : ∀ e, (∀ a b, e ≠ Event.linkIns a b) → e ∉ LI := fun e hne hm => by obtain ⟨a, b, he⟩ := hLI e hm; exact hne a b he
  have nA : ∀ e, (∀ k o, e ≠ Event.after k o) → e ∉ A := fun e hne hm => by obtain ⟨k, o, he⟩ := hA e hm; exact hne k o he
  have mB : Event.before k o ∈ B ++ LD ++ S ++ LI ++ A ↔ Event.before k o ∈ B := by
    have h1 := nLD (.before k o) (by intros; simp)
    have h2 := nS (.before k o) (by intros; simp)
    have h3 := nLI (.before k o) (by intros; simp)
    have h4 := nA (.before k o) (by intros; simp)
    simp [List.mem_append, h1, h2, h3, h4]
  have mS : Event.stmt k o ∈ B ++ LD ++ S ++ LI ++ A ↔ Event.stmt k o ∈ S := by
    have h1 := nLD (.stmt k o) (by intros; simp)
    have h2 := nB (.stmt k o) (by intros; simp)
    have h3 := nLI (.stmt k o) (by intros; simp)
    have h4 := nA (.stmt k o) (by intros; simp)
    simp [List.mem_append, h1, h2, h3, h4]
  have mA : Event.after k o ∈ B ++ LD ++ S ++ LI ++ A ↔ Event.after k o ∈ A := by
    have h1 := nLD (.after k o) (by intros; simp)
    have h2 := nS (.after k o) (by intros; simp)
    have h3 := nLI (.after k o) (by intros; simp)
    have h4 := nB (.after k o) (by intros; simp)
    simp [List.mem_append, h1, h2, h3, h4]
  rw [mB, mS, mA]
  have pB : Event.before k o ∈ B ↔ 0 < B.count (.before k o) := List.count_pos_iff.symm
  have pS : Event.stmt k o ∈ S ↔ 0 < S.count (.stmt k o) := List.count_pos_iff.symm
  have pA : Event.after k o ∈ A ↔ 0 < A.count (.after k o) := List.count_pos_iff.symm
  rw [pB, pS, pA, c1, c2]
  exact ⟨Iff.rfl, Iff.rfl⟩

/-! ### SessionCache.flush -/

/-- ONCE: a flush that returns produced at most 50 rounds and nothing else; each round has the shape above -/
theorem C33_once (H : Hooks) (ord : Nat → List Nat → List Nat) (bfuel : Nat) (hperm : ∀ r l, (ord r l).Perm l)
    (s s' : State) (hinv : Inv s) (hsv : s.saved = []) (h : flush H ord bfuel s = .ok s') :
    ∃ t m, m ≤ 50 ∧ RoundsShape t m ∧ s'.trace = s.trace ++ t := by
  obtain ⟨_, _, _, t, m, hm, hr, ht⟩ := (flushLoop_spec H ord bfuel hperm 50 s hinv hsv).1 s' h
  exact ⟨t, m, hm, hr, ht⟩

/-- SAVED: when flush returns, nothing is pending and no edit is unwritten — the changes made before the flush, inside before_* hooks
    and inside after_* hooks (written by a later round of the same flush), and every object created by a hook -/
theorem C33_saved (H : Hooks) (ord : Nat → List Nat → List Nat) (bfuel : Nat) (hperm : ∀ r l, (ord r l).Perm l)
    (s s' : State) (hinv : Inv s) (hsv : s.saved = []) (h : flush H ord bfuel s = .ok s') :
    (∀ o, some o ∉ s'.queue) ∧ ∀ (o : Nat) (ob : Obj), s'.objs[o]? = some ob → kindOf ob.status = none ∧ ob.dirty = 0 := by
  obtain ⟨hinv', _, hmod, _⟩ := (flushLoop_spec H ord bfuel hperm 50 s hinv hsv).1 s' h
  have hq : ∀ o, some o ∉ s'.queue := by
    intro o ho
    have := hinv'.flag o ho
    rw [hmod] at this; cases this
  refine ⟨hq, ?_⟩
  intro o ob hob
  have hk : kindOf ob.status = none := by
    cases hk : kindOf ob.status with
    | none => rfl
    | some k =>
      have : s'.kindAt o = some k := by simp [State.kindAt, hob, hk]
      exact absurd ((hinv'.mem_iff o).mpr ⟨k, this⟩) (hq o)
  refine ⟨hk, ?_⟩
  rcases Nat.eq_zero_or_pos ob.dirty with h0 | hpos
  · exact h0
  · obtain ⟨k, hk'⟩ := hinv'.dirty o ob hob hpos
    rw [hk] at hk'; cases hk'

/-- the alternative: after 50 complete rounds, each of the shape above, with something still pending, flush raises
    TransactionError('Recursion depth limit reached in obj._after_save_() call') -/
theorem C33_limit (H : Hooks) (ord : Nat → List Nat → List Nat) (bfuel : Nat) (hperm : ∀ r l, (ord r l).Perm l)
    (s s' : State) (hinv : Inv s) (hsv : s.saved = []) (h : flush H ord bfuel s = .error (.limit s')) :
    s'.modified = true ∧ ∃ t, RoundsShape t 50 ∧ s'.trace = s.trace ++ t := by
  obtain ⟨_, hmod, t, hr, ht⟩ := (flushLoop_spec H ord bfuel hperm 50 s hinv hsv).2 s' h
  exact ⟨hmod, t, hr, ht⟩

/-- SAME ROUND: after the save loop of a round — before any after-hook runs — no object is pending or dirty: everything changed or
    created inside the before_* hooks of the round has been written by the statements of that very round -/
theorem C33_before_edits_same_round (H : Hooks) (ord : List Nat → List Nat) (bfuel : Nat) (hperm : ∀ l, (ord l).Perm l)
    (s s1 : State) (hinv : Inv s) (hb : beforeLoop H bfuel 0 s = .ok s1) :
    ∃ s2, savePhase ord s1 = .ok s2 ∧ (∀ p, s2.kindAt p = none) ∧ (∀ (p : Nat) (ob : Obj), s2.objs[p]? = some ob → ob.dirty = 0) ∧
      s2.trace = s1.trace ++ (keysL s1 (ord (pendingList s1))).map evS := by
  obtain ⟨hinv1, _⟩ := beforeLoop_spec H bfuel 0 s s1 hinv hb
  obtain ⟨s2, h1, _, h3, _, h5, h6⟩ := savePhase_spec ord hperm s1 hinv1
  exact ⟨s2, h1, h5, h6, h3⟩

/-- over the whole trace of a flush: as many before_X(o) as X-statements for o as after_X(o), for every kind X and object o;
    in particular no hook without a statement -/
theorem C33_counts (t : List Event) (m : Nat) (h : RoundsShape t m) (k : Kind) (o : Nat) :
    t.count (.before k o) = t.count (.stmt k o) ∧ t.count (.after k o) = t.count (.stmt k o) := by
  obtain ⟨segs, -, rfl, hall⟩ := h
  induction segs with
  | nil => simp
  | cons seg rest ih =>
    have hr := ih (fun x hx => hall x (List.mem_cons_of_mem _ hx))
    obtain ⟨B, LD, S, LI, A, rfl, hB, hLD, hS, hLI, hA, hc⟩ := C33_round_once seg (hall seg (List.mem_cons_self ..))
    obtain ⟨c1, c2, _⟩ := hc k o
    have zB1 : B.count (.stmt k o) = 0 := List.count_eq_zero.mpr (fun hm => by obtain ⟨_, _, he⟩ := hB _ hm; cases he)
    have zB2 : B.count (.after k o) = 0 := List.count_eq_zero.mpr (fun hm => by obtain ⟨_, _, he⟩ := hB _ hm; cases he)
    have zS1 : S.count (.before k o) = 0 := List.count_eq_zero.mpr (fun hm => by obtain ⟨_, _, he⟩ := hS _ hm; cases he)
    have zS2 : S.count (.after k o) = 0 := List.count_eq_zero.mpr (fun hm => by obtain ⟨_, _, he⟩ := hS _ hm; cases he)
    have zA1 : A.count (.before k o) = 0 := List.count_eq_zero.mpr (fun hm => by obtain ⟨_, _, he⟩ := hA _ hm; cases he)
    have zA2 : A.count (.stmt k o) = 0 := List.count_eq_zero.mpr (fun hm => by obtain ⟨_, _, he⟩ := hA _ hm; cases he)
    have zD1 : LD.count (.before k o) = 0 := List.count_eq_zero.mpr (fun hm => by obtain ⟨_, _, he⟩ := hLD _ hm; cases he)
    have zD2 : LD.count (.stmt k o) = 0 := List.count_eq_zero.mpr (fun hm => by obtain ⟨_, _, he⟩ := hLD _ hm; cases he)
    have zD3 : LD.count (.after k o) = 0 := List.count_eq_zero.mpr (fun hm => by obtain ⟨_, _, he⟩ := hLD _ hm; cases he)
    have zI1 : LI.count (.before k o) = 0 := List.count_eq_zero.mpr (fun hm => by obtain ⟨_, _, he⟩ := hLI _ hm; cases he)
    have zI2 : LI.count (.stmt k o) = 0 := List.count_eq_zero.mpr (fun hm => by obtain ⟨_, _, he⟩ := hLI _ hm; cases he)
    have zI3 : LI.count (.after k o) = 0 := List.count_eq_zero.mpr (fun hm => by obtain ⟨_, _, he⟩ := hLI _ hm; cases he)
    simp only [List.flatten_cons, List.count_append]
    omega

/-! ### many-to-many link rows -/

/-- SAME ROUND, links: the link changes pending when the before-hooks of a round have run — those made before the flush and those
    made INSIDE the before_* hooks (`self.tags.add(x)`, `.remove(x)`, an object created with a collection) — are exactly the link
    rows this round deletes (before the object statements) and inserts (after them); afterwards no link change is pending and the
    link table holds exactly what the collections show -/
theorem C33_links_same_round (H : Hooks) (ord : List Nat → List Nat) (bfuel : Nat) (hperm : ∀ l, (ord l).Perm l)
    (s s1 : State) (hinv : Inv s) (hl : LK s) (hb : beforeLoop H bfuel 0 s = .ok s1) :
    ∃ s2, savePhase ord (calcAndRemoveM2m s1) = .ok s2 ∧
      (addM2m s2).trace = s1.trace ++ s1.lk.pendRem.map evLD ++ (keysL s1 (ord (pendingList s1))).map evS ++ s1.lk.pendAdd.map evLI ∧
      (addM2m s2).lk.pendAdd = [] ∧ (addM2m s2).lk.pendRem = [] ∧ (∀ p, p ∈ (addM2m s2).lk.db ↔ p ∈ s1.lk.view) := by
  obtain ⟨hinv1, _⟩ := beforeLoop_spec H bfuel 0 s s1 hinv hb
  have hl1 := beforeLoop_lk H bfuel 0 s s1 hb hl
  have hinvc : Inv (calcAndRemoveM2m s1) := hinv1.of_same rfl rfl rfl
  obtain ⟨s2, hsave, _, ht2, _⟩ := savePhase_spec ord hperm (calcAndRemoveM2m s1) hinvc
  have h2 : s2.lk = (calcAndRemoveM2m s1).lk := saveAll_lk _ _ _ hsave
  obtain ⟨pa, pr, _, _, _, hdb⟩ := m2m_round_lk s1 s2 hl1 h2
  refine ⟨s2, hsave, ?_, pa, pr, hdb⟩
  have e1 : (addM2m s2).trace = s2.trace ++ s2.lk.m2mAdd.map evLI := rfl
  have e3 : (calcAndRemoveM2m s1).trace = s1.trace ++ s1.lk.pendRem.map evLD := rfl
  have e4 : (calcAndRemoveM2m s1).lk.m2mAdd = s1.lk.pendAdd := rfl
  have e6 : keysL (calcAndRemoveM2m s1) (ord (pendingList (calcAndRemoveM2m s1))) = keysL s1 (ord (pendingList s1)) := rfl
  rw [e1, ht2, e3, h2, e4, e6]

/-- SAVED, links: when flush returns, no link change is pending and the link table equals the collections of the session —
    including every link added or removed inside before_* and after_* hooks -/
theorem C33_links_saved (H : Hooks) (ord : Nat → List Nat → List Nat) (bfuel : Nat) (hperm : ∀ r l, (ord r l).Perm l)
    (s s' : State) (hinv : Inv s) (hsv : s.saved = []) (hl : LK s) (h : flush H ord bfuel s = .ok s') :
    s'.lk.pendAdd = [] ∧ s'.lk.pendRem = [] ∧ ∀ p, p ∈ s'.lk.view ↔ p ∈ s'.lk.db := by
  obtain ⟨_, _, hmod, _⟩ := (flushLoop_spec H ord bfuel hperm 50 s hinv hsv).1 s' h
  obtain ⟨⟨hv, _, _⟩, _, hf⟩ := flushLoop_lk H ord bfuel 50 s s' hl h
  have pa : s'.lk.pendAdd = [] := by
    cases hp : s'.lk.pendAdd with
    | nil => rfl
    | cons x xs => have := hf (Or.inl (by rw [hp]; simp)); rw [hmod] at this; cases this
  have pr : s'.lk.pendRem = [] := by
    cases hp : s'.lk.pendRem with
    | nil => rfl
    | cons x xs => have := hf (Or.inr (by rw [hp]; simp)); rw [hmod] at this; cases this
  refine ⟨pa, pr, ?_⟩
  intro p
  rw [hv p, pa, pr]; simp

/-! ### Entity.flush (`obj.flush()`), as repaired by the `fix:` commit made from fixes/C33-entity-flush-principal-hooks.diff -/

/-- if `obj._save_()` writes exactly the objects whose before-hook the loop entered (`saveList` is a permutation of the hooked list:
    obj and, transitively, the new objects its row refers to — an explicit guard because relationships are not part of this model;
    the engine checks it on every real run), then the trace of `obj.flush()` is one round of the shape above -/
theorem C33_entity_flush (H : Hooks) (princ saveList : State → Nat → List Nat) (bfuel : Nat) (s s' s1 : State) (o : Nat) (hl : List Nat)
    (hinv : Inv s) (hsv : s.saved = []) (hpend : ∃ k, s.kindAt o = some k)
    (hb : entityBeforeLoop H princ bfuel 0 [o] s = .ok (s1, hl)) (hguard : (saveList s1 o).Perm hl)
    (h : entityFlush H princ saveList bfuel s o = .ok s') :
    ∃ seg, RoundShape seg ∧ s'.trace = s.trace ++ seg ∧ s'.saved = [] := by
  obtain ⟨k0, hk0⟩ := hpend
  obtain ⟨hinv1, hsv1, _, hnd, hp1, _, ht1⟩ :=
    entityBeforeLoop_spec H princ bfuel 0 [o] s s1 hl hinv (by simp) (by intro p hp; simp at hp; subst hp; exact ⟨k0, hk0⟩) hb
  simp only [entityFlush, hk0, hb] at h
  have hnd2 : (saveList s1 o).Nodup := hguard.nodup_iff.mpr hnd
  have hp2 : ∀ p ∈ saveList s1 o, ∃ k, s1.kindAt p = some k := fun p hp => hp1 p (hguard.mem_iff.mp hp)
  obtain ⟨s2, hsave, _, _, ht2, hsv2, _⟩ := saveAll_spec _ s1 hnd2 hp2
  simp only [hsave, afterPhase] at h
  obtain ⟨ht3, hsv3⟩ := afterLoop_trace H _ _ s' h
  refine ⟨_, ⟨keysL s1 hl, keysL s1 (saveList s1 o), [], [], ?_, hguard.filterMap _, rfl⟩, ?_, ?_⟩
  · rw [keysL_snd s1 _ hp1]; exact hnd
  · rw [ht3]
    simp only [ht2, ht1, hsv2, hsv1, hsv, List.drop_zero, List.append_assoc, List.nil_append, List.map_map]
    rfl
  · exact hsv3

/-- the same with the references as STATE (`entityFlushRefs`): the scan for new referenced objects reads the references after the
    hook of the scanned object has run — a hook may create an object and store it in a reference of its own object — and
    `_save_principal_objects_` is the post-order walk `saveDfs`; the guard is now a statement about two model-computed lists -/
theorem C33_entity_flush_refs (H : Hooks) (bfuel : Nat) (s s' s1 : State) (o : Nat) (hl : List Nat)
    (hinv : Inv s) (hsv : s.saved = []) (hpend : ∃ k, s.kindAt o = some k)
    (hb : entityBeforeLoop H (fun st p => st.refsOf p) bfuel 0 [o] s = .ok (s1, hl))
    (hguard : (saveDfs s1 (s1.objs.length + 1) [] o).Perm hl)
    (h : entityFlushRefs H bfuel s o = .ok s') :
    ∃ seg, RoundShape seg ∧ s'.trace = s.trace ++ seg ∧ s'.saved = [] :=
  C33_entity_flush H (fun st p => st.refsOf p) (fun st p => saveDfs st (st.objs.length + 1) [] p) bfuel s s' s1 o hl hinv hsv hpend hb hguard h

/-! ### queries inside after_* hooks: recursive flushes nested in the after-phase -/

/-- ONCE, nested: whatever the hooks do — including queries inside after_* hooks, which flush recursively to any depth — the trace
    of a flush that returns is accepted by the once-before / once-after automaton of EVERY (kind, object): each statement is preceded
    by its own before-hook entry (no second entry in between), followed by its own after-hook entry, nothing is left over -/
theorem C33_nested_once (H : Hooks) (ord : State → List Nat → List Nat) (bfuel depth : Nat) (hperm : ∀ st l, (ord st l).Perm l)
    (s s' : State) (hinv : Inv s) (hsv : s.saved = []) (h : flushN H ord bfuel depth s = .ok s') :
    ∃ t, s'.trace = s.trace ++ t ∧ Balanced t := by
  obtain ⟨_, _, _, t, e, b⟩ := flushN_spec H ord bfuel hperm depth s s' hinv hsv h
  exact ⟨t, e, b⟩

/-- SAVED, nested: and nothing is pending, no edit unwritten -/
theorem C33_nested_saved (H : Hooks) (ord : State → List Nat → List Nat) (bfuel depth : Nat) (hperm : ∀ st l, (ord st l).Perm l)
    (s s' : State) (hinv : Inv s) (hsv : s.saved = []) (h : flushN H ord bfuel depth s = .ok s') :
    (∀ o, some o ∉ s'.queue) ∧ ∀ (o : Nat) (ob : Obj), s'.objs[o]? = some ob → kindOf ob.status = none ∧ ob.dirty = 0 := by
  obtain ⟨hinv', _, hmod, _⟩ := flushN_spec H ord bfuel hperm depth s s' hinv hsv h
  have hq : ∀ o, some o ∉ s'.queue := by
    intro o ho
    have := hinv'.flag o ho
    rw [hmod] at this; cases this
  refine ⟨hq, ?_⟩
  intro o ob hob
  have hk : kindOf ob.status = none := by
    cases hk : kindOf ob.status with
    | none => rfl
    | some k =>
      have : s'.kindAt o = some k := by simp [State.kindAt, hob, hk]
      exact absurd ((hinv'.mem_iff o).mpr ⟨k, this⟩) (hq o)
  refine ⟨hk, ?_⟩
  rcases Nat.eq_zero_or_pos ob.dirty with h0 | hpos
  · exact h0
  · obtain ⟨k, hk'⟩ := hinv'.dirty o ob hob hpos
    rw [hk] at hk'; cases hk'

/-- SAVED, links, nested: when a flush with recursive flushes returns, no link change is pending and the link table equals the
    collections of the session — including links changed inside after_* hooks that query afterwards -/
theorem C33_nested_links_saved (H : Hooks) (ord : State → List Nat → List Nat) (bfuel depth : Nat) (hperm : ∀ st l, (ord st l).Perm l)
    (s s' : State) (hinv : Inv s) (hsv : s.saved = []) (hl : LK s) (h : flushN H ord bfuel depth s = .ok s') :
    s'.lk.pendAdd = [] ∧ s'.lk.pendRem = [] ∧ ∀ p, p ∈ s'.lk.view ↔ p ∈ s'.lk.db := by
  obtain ⟨_, _, hmod, _⟩ := flushN_spec H ord bfuel hperm depth s s' hinv hsv h
  obtain ⟨⟨hv, _, _⟩, _, hf⟩ := flushN_lk H ord bfuel depth s s' hl h
  have pa : s'.lk.pendAdd = [] := by
    cases hp : s'.lk.pendAdd with
    | nil => rfl
    | cons x xs => have := hf (Or.inl (by rw [hp]; simp)); rw [hmod] at this; cases this
  have pr : s'.lk.pendRem = [] := by
    cases hp : s'.lk.pendRem with
    | nil => rfl
    | cons x xs => have := hf (Or.inr (by rw [hp]; simp)); rw [hmod] at this; cases this
  refine ⟨pa, pr, ?_⟩
  intro p
  rw [hv p, pa, pr]; simp

/-- ONCE, obj.flush(), nested: `obj.flush()` whose hooks may query (the after_* hooks then flush the whole cache recursively): under
    the same guard as `C33_entity_flush_refs` the trace is accepted by the once-before / once-after automaton of every (kind, object) -/
theorem C33_entity_flush_nested (H : Hooks) (ord : State → List Nat → List Nat) (bfuel depth : Nat) (hperm : ∀ st l, (ord st l).Perm l)
    (s s' s1 : State) (o : Nat) (hl : List Nat) (hinv : Inv s) (hsv : s.saved = []) (hpend : ∃ k, s.kindAt o = some k)
    (hb : entityBeforeLoop H (fun st p => st.refsOf p) bfuel 0 [o] s = .ok (s1, hl))
    (hguard : (saveDfs s1 (s1.objs.length + 1) [] o).Perm hl)
    (h : entityFlushRefsN H ord bfuel depth s o = .ok s') :
    ∃ t, s'.trace = s.trace ++ t ∧ Balanced t := by
  obtain ⟨k0, hk0⟩ := hpend
  obtain ⟨hinv1, hsv1, _, hnd, hp1, _, ht1⟩ :=
    entityBeforeLoop_spec H _ bfuel 0 [o] s s1 hl hinv (by simp) (by intro p hp; simp at hp; subst hp; exact ⟨k0, hk0⟩) hb
  simp only [entityFlushRefsN, entityFlushN, hk0, hb] at h
  have hnd2 : (saveDfs s1 (s1.objs.length + 1) [] o).Nodup := hguard.nodup_iff.mpr hnd
  have hp2 : ∀ p ∈ saveDfs s1 (s1.objs.length + 1) [] o, ∃ k, s1.kindAt p = some k := fun p hp => hp1 p (hguard.mem_iff.mp hp)
  obtain ⟨s2, hsave, hq2, hm2, ht2, hsv2, _, hin, hout⟩ := saveAll_spec _ s1 hnd2 hp2
  simp only [hsave] at h
  have hinv3 := inv_after_entity_save s1 s2 _ hinv1 hq2 hm2 hin hout
  have hn : NestedSpec (flushN H ord bfuel depth) := by
    intro a a' ha hs hf
    obtain ⟨i, v, _, t, e, b⟩ := flushN_spec H ord bfuel hperm depth a a' ha hs hf
    exact ⟨i, v, t, e, b⟩
  have hQ : (keysL s1 hl).Nodup := nodup_keysL s1 hl hnd
  have hS : (keysL s1 (saveDfs s1 (s1.objs.length + 1) [] o)).Nodup := nodup_keysL s1 _ hnd2
  have hPerm : (keysL s1 (saveDfs s1 (s1.objs.length + 1) [] o)).Perm (keysL s1 hl) := hguard.filterMap _
  have esv : s2.saved = (keysL s1 (saveDfs s1 (s1.objs.length + 1) [] o)).map (fun p => (p.2, p.1)) := by
    rw [hsv2, hsv1, hsv]; simp
  have hkeys : (s2.saved.map (fun q => (q.2, q.1))) = keysL s1 (saveDfs s1 (s1.objs.length + 1) [] o) := by
    rw [esv, List.map_map]; simp [Function.comp_def]
  obtain ⟨_, _, t, et, bt⟩ := afterLoopA_spec _ hn H _ _ s' hinv3 rfl (by rw [hkeys]; exact hS) h
  refine ⟨(keysL s1 hl).map evB ++ (keysL s1 (saveDfs s1 (s1.objs.length + 1) [] o)).map evS ++ t, ?_, ?_⟩
  · rw [et]
    show s2.trace ++ t = _
    rw [ht2, ht1]
    simp only [List.drop_zero, List.append_assoc]
  · intro p n
    rw [runKey_append, runKey_append, runKey_befores p _ false n hQ]
    by_cases hp : p ∈ keysL s1 hl
    · have hp' : p ∈ keysL s1 (saveDfs s1 (s1.objs.length + 1) [] o) := hPerm.mem_iff.mpr hp
      simp only [hp, if_true, Bool.false_eq_true, if_false]
      rw [runKey_stmts p _ true n hS]; simp only [hp', if_true]
      have := bt p n
      rw [hkeys] at this
      simpa [hp'] using this
    · have hp' : ¬ p ∈ keysL s1 (saveDfs s1 (s1.objs.length + 1) [] o) := fun e => hp (hPerm.mem_iff.mp e)
      simp only [hp, if_false]
      rw [runKey_stmts p _ false n hS]; simp only [hp', if_false]
      have := bt p n
      rw [hkeys] at this
      simpa [hp'] using this

/-- obj.flush() of an object that was DELETED is the session flush (de6b988): every pending object is written in queue order, each
    statement with its own before- and after-hook entry, and afterwards nothing is pending -/
theorem C33_obj_flush_deleted (H : Hooks) (ord : State → List Nat → List Nat) (bfuel depth : Nat) (hperm : ∀ st l, (ord st l).Perm l)
    (s s' : State) (o : Nat) (hinv : Inv s) (hsv : s.saved = []) (hk : s.kindAt o = some .delete)
    (h : objFlushN H ord bfuel depth s o = .ok s') :
    (∃ t, s'.trace = s.trace ++ t ∧ Balanced t) ∧ (∀ p, some p ∉ s'.queue) := by
  have h' : flushN H ord bfuel depth s = .ok s' := by simpa [objFlushN, hk] using h
  exact ⟨C33_nested_once H ord bfuel depth hperm s s' hinv hsv h', (C33_nested_saved H ord bfuel depth hperm s s' hinv hsv h').1⟩

/-- obj.flush() of a created or modified object takes the per-object path, to which `C33_entity_flush_nested` applies -/
theorem C33_obj_flush_pending (H : Hooks) (ord : State → List Nat → List Nat) (bfuel depth : Nat) (s : State) (o : Nat)
    (hk : s.kindAt o ≠ some .delete) : objFlushN H ord bfuel depth s o = entityFlushRefsN H ord bfuel depth s o := by
  unfold objFlushN
  split
  · rename_i h; exact absurd h hk
  · rfl

/-- what acceptance by the automaton means in numbers: over the trace, as many before_X(o) entries as X-statements for o as
    after_X(o) entries -/
theorem C33_balanced_counts (t : List Event) (h : Balanced t) (k : Kind) (o : Nat) :
    t.count (.before k o) = t.count (.stmt k o) ∧ t.count (.after k o) = t.count (.stmt k o) := by
  have key : ∀ (t : List Event) (a a' : Bool) (n n' : Nat), runKey (k, o) t (a, n) = some (a', n') →
      t.count (.before k o) + (if a then 1 else 0) = t.count (.stmt k o) + (if a' then 1 else 0) ∧
      n + t.count (.stmt k o) = n' + t.count (.after k o) := by
    intro t
    induction t with
    | nil => intro a a' n n' h; simp [runKey] at h; obtain ⟨rfl, rfl⟩ := h; simp
    | cons e t ih =>
      intro a a' n n' h
      simp only [runKey] at h
      cases hs : stepKey (k, o) (a, n) e with
      | none => simp [hs] at h
      | some st =>
        simp only [hs] at h
        obtain ⟨a1, n1⟩ := st
        obtain ⟨h1, h2⟩ := ih a1 a' n1 n' h
        cases e with
        | before k' o' =>
          simp only [stepKey] at hs
          by_cases he : (k', o') = (k, o)
          · simp only [he, if_true] at hs
            cases a with
            | true => simp at hs
            | false =>
              simp at hs; obtain ⟨rfl, rfl⟩ := hs
              obtain ⟨rfl, rfl⟩ := Prod.mk.inj he
              simp [List.count_cons] at h1 h2 ⊢
              omega
          · simp only [he, if_false] at hs
            injection hs with hs; obtain ⟨rfl, rfl⟩ := Prod.mk.inj hs
            have : ¬ (Event.before k' o' = Event.before k o) := by intro e; injection e with e1 e2; exact he (by rw [e1, e2])
            simp [List.count_cons, this] at h1 h2 ⊢
            omega
        | stmt k' o' =>
          simp only [stepKey] at hs
          by_cases he : (k', o') = (k, o)
          · simp only [he, if_true] at hs
            cases a with
            | false => simp at hs
            | true =>
              simp at hs; obtain ⟨rfl, rfl⟩ := hs
              obtain ⟨rfl, rfl⟩ := Prod.mk.inj he
              simp [List.count_cons] at h1 h2 ⊢
              omega
          · simp only [he, if_false] at hs
            injection hs with hs; obtain ⟨rfl, rfl⟩ := Prod.mk.inj hs
            have : ¬ (Event.stmt k' o' = Event.stmt k o) := by intro e; injection e with e1 e2; exact he (by rw [e1, e2])
            simp [List.count_cons, this] at h1 h2 ⊢
            omega
        | after k' o' =>
          simp only [stepKey] at hs
          by_cases he : (k', o') = (k, o)
          · simp only [he, if_true] at hs
            by_cases hn : n = 0
            · simp [hn] at hs
            · simp [hn] at hs; obtain ⟨rfl, rfl⟩ := hs
              obtain ⟨rfl, rfl⟩ := Prod.mk.inj he
              simp [List.count_cons] at h1 h2 ⊢
              omega
          · simp only [he, if_false] at hs
            injection hs with hs; obtain ⟨rfl, rfl⟩ := Prod.mk.inj hs
            have : ¬ (Event.after k' o' = Event.after k o) := by intro e; injection e with e1 e2; exact he (by rw [e1, e2])
            simp [List.count_cons, this] at h1 h2 ⊢
            omega
        | linkDel a0 b0 =>
          simp only [stepKey] at hs; injection hs with hs; obtain ⟨rfl, rfl⟩ := Prod.mk.inj hs
          simp [List.count_cons] at h1 h2 ⊢; omega
        | linkIns a0 b0 =>
          simp only [stepKey] at hs; injection hs with hs; obtain ⟨rfl, rfl⟩ := Prod.mk.inj hs
          simp [List.count_cons] at h1 h2 ⊢; omega
  obtain ⟨h1, h2⟩ := key t false false 0 0 (h (k, o) 0)
  simp at h1 h2
  omega

/-! ### the hypotheses are satisfiable: concrete flushes with hooks that create and modify -/

/-- object 0 is loaded, object 1 modified (queued), object 2 created (queued) -/
def demo : State :=
  { objs := [⟨.loaded, 0⟩, ⟨.modified, 1⟩, ⟨.created, 1⟩], queue := [some 1, some 2], modified := true, saved := [], trace := [],
    lk := { view := [(1, 0)], pendAdd := [], pendRem := [], m2mAdd := [], m2mRem := [], db := [(1, 0)] } }

/-- before_update of 1 modifies the loaded object 0, creates an object, unlinks (1, 0) and links 1 to the new object 3;
    after_insert of 2 modifies 2 once (a second round) -/
def demoHooks : Hooks :=
  { before := fun k _ o => if k = .update ∧ o = 1 then [.modify 0, .create, .unlink 1 0, .link 1 3] else [],
    after := fun k s o => if k = .insert ∧ o = 2 ∧ s.trace.count (.after .insert 2) = 1 then [.modify 2] else [] }

theorem demo_inv : Inv demo := by
  refine ⟨?_, by decide, ?_, ?_⟩
  · intro o
    match o with
    | 0 => simp [demo, State.kindAt, kindOf]
    | 1 => simp [demo, State.kindAt, kindOf]
    | 2 => simp [demo, State.kindAt, kindOf]
    | n + 3 => simp [demo, State.kindAt]
  · intro o ob h _
    match o with
    | 0 => simp [demo] at h; subst h; contradiction
    | 1 => simp [demo] at h; subst h; exact ⟨.update, rfl⟩
    | 2 => simp [demo] at h; subst h; exact ⟨.insert, rfl⟩
    | n + 3 => simp [demo] at h
  · intro o _; rfl

def traceOf : Except Err State → Option (List Event)
  | .ok s => some s.trace
  | .error _ => none
def limitInfo : Except Err State → Option (Bool × Nat)
  | .error (.limit s) => some (s.modified, s.trace.length)
  | _ => none

example : traceOf (flush demoHooks (fun _ l => l) 100 demo) =
    some [.before .update 1, .before .insert 2, .before .update 0, .before .insert 3,
          .linkDel 1 0, .stmt .update 1, .stmt .insert 2, .stmt .update 0, .stmt .insert 3, .linkIns 1 3,
          .after .update 1, .after .insert 2, .after .update 0, .after .insert 3,
          .before .update 2, .stmt .update 2, .after .update 2] := by decide

/-- an after-hook that modifies its object for ever: with a limit of 3 rounds, 3 complete rounds (2 objects each), then the error -/
example : limitInfo (flushLoop { before := fun _ _ _ => [], after := fun _ _ o => [.modify o] } (fun _ l => l) 100 3 demo) = some (true, 18) := by
  decide

/-- after_insert of 2 modifies 1 and 2 and then queries: the nested flush writes both before after_insert(2) returns -/
example : traceOf (flushN { before := fun _ _ _ => [],
                            after := fun k s o => if k = .insert ∧ o = 2 ∧ s.trace.count (.after .insert 2) = 1 then [.modify 1, .modify 2, .query] else [] }
                     (fun _ l => l) 100 3 demo) =
    some [.before .update 1, .before .insert 2, .stmt .update 1, .stmt .insert 2, .after .update 1, .after .insert 2,
          .before .update 1, .before .update 2, .stmt .update 1, .stmt .update 2, .after .update 1, .after .update 2] := by decide

/-- obj.flush() of a MODIFIED object whose before_update creates an object and stores it in a reference of the flushed object:
    the new object gets its before_insert before its INSERT, which precedes the UPDATE -/
example : traceOf (entityFlushRefs { before := fun k _ o => if k = .update ∧ o = 0 then [.create, .refToNew 0] else [], after := fun _ _ _ => [] } 100
      { objs := [⟨.modified, 1⟩], queue := [some 0], modified := true, saved := [], trace := [],
        lk := { view := [], pendAdd := [], pendRem := [], m2mAdd := [], m2mRem := [], db := [] }, refs := [[]] } 0) =
    some [.before .update 0, .before .insert 1, .stmt .insert 1, .stmt .update 0, .after .insert 1, .after .update 0] := by decide

theorem demo_lk : LK demo := by
  refine ⟨⟨?_, ?_, ?_⟩, ⟨rfl, rfl⟩, ?_⟩
  · intro p; simp [demo]
  · intro p hp; simp [demo] at hp
  · intro p hp; simp [demo] at hp
  · intro hp; simp [demo] at hp

end PonyVerif.Props.C33
