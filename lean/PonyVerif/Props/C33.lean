/-
  C33 — lifecycle hooks run once per saved change and their edits are saved.   Property theorems only.

  Model: Model/Hooks.lean (SessionCache.flush with its ≤ 50 rounds, Entity.flush).  Every theorem is for ALL hook functions
  (`H : Hooks`, arbitrary functions of the whole state that read, modify any object, create objects, or do nothing), all states
  satisfying the cache invariant `Inv` (an object is queued iff its status is pending), all statement orders `ord` that permute the
  queue (the principal-objects-first recursion of `_save_`), and every fuel of the before-hooks loop.
-/
import PonyVerif.Model.Hooks
import PonyVerif.Lemmas.Hooks
namespace PonyVerif.Props.C33
open PonyVerif.Model.Hooks

/-! ### the shape of a round -/

/-- within one round every written object has exactly one before-hook, one statement, one after-hook, of the same kind, the
    before-hooks all precede the statements and the after-hooks all follow them -/
theorem C33_round_once (seg : List Event) (h : RoundShape seg) :
    ∃ B S A : List Event, seg = B ++ S ++ A ∧
      (∀ e ∈ B, ∃ k o, e = .before k o) ∧ (∀ e ∈ S, ∃ k o, e = .stmt k o) ∧ (∀ e ∈ A, ∃ k o, e = .after k o) ∧
      ∀ k o, B.count (.before k o) = S.count (.stmt k o) ∧ A.count (.after k o) = S.count (.stmt k o) ∧ S.count (.stmt k o) ≤ 1 := by
  obtain ⟨Q, S, hnd, hperm, rfl⟩ := h
  refine ⟨Q.map evB, S.map evS, S.map evA, rfl, ?_, ?_, ?_, ?_⟩
  · intro e he; obtain ⟨p, _, rfl⟩ := List.mem_map.mp he; exact ⟨p.1, p.2, rfl⟩
  · intro e he; obtain ⟨p, _, rfl⟩ := List.mem_map.mp he; exact ⟨p.1, p.2, rfl⟩
  · intro e he; obtain ⟨p, _, rfl⟩ := List.mem_map.mp he; exact ⟨p.1, p.2, rfl⟩
  · intro k o
    have hB : (Q.map evB).count (.before k o) = Q.count (k, o) :=
      count_map_inj evB (by intro a b h; cases a; cases b; simp [evB] at h; simp [h]) Q (k, o)
    have hS : (S.map evS).count (.stmt k o) = S.count (k, o) :=
      count_map_inj evS (by intro a b h; cases a; cases b; simp [evS] at h; simp [h]) S (k, o)
    have hA : (S.map evA).count (.after k o) = S.count (k, o) :=
      count_map_inj evA (by intro a b h; cases a; cases b; simp [evA] at h; simp [h]) S (k, o)
    have hQ : Q.Nodup := nodup_of_map_nodup _ Q hnd
    rw [hB, hS, hA, hperm.count_eq]
    exact ⟨rfl, rfl, count_le_one_of_nodup Q hQ (k, o)⟩

/-- no hook is entered for an object that is not written in the same round, and every written object gets both hooks -/
theorem C33_round_hook_iff_statement (seg : List Event) (h : RoundShape seg) (k : Kind) (o : Nat) :
    (Event.before k o ∈ seg ↔ Event.stmt k o ∈ seg) ∧ (Event.after k o ∈ seg ↔ Event.stmt k o ∈ seg) := by
  obtain ⟨Q, S, _, hperm, rfl⟩ := h
  have hB : Event.before k o ∈ Q.map evB ++ S.map evS ++ S.map evA ↔ (k, o) ∈ Q := by
    simp only [List.mem_append, List.mem_map, evB, evS, evA]
    constructor
    · rintro ((⟨p, hp, he⟩ | ⟨p, _, he⟩) | ⟨p, _, he⟩)
      · cases p; simp at he; rw [← he.1, ← he.2]; exact hp
      · cases he
      · cases he
    · intro hq; exact Or.inl (Or.inl ⟨(k, o), hq, rfl⟩)
  have hS : Event.stmt k o ∈ Q.map evB ++ S.map evS ++ S.map evA ↔ (k, o) ∈ S := by
    simp only [List.mem_append, List.mem_map, evB, evS, evA]
    constructor
    · rintro ((⟨p, _, he⟩ | ⟨p, hp, he⟩) | ⟨p, _, he⟩)
      · cases he
      · cases p; simp at he; rw [← he.1, ← he.2]; exact hp
      · cases he
    · intro hq; exact Or.inl (Or.inr ⟨(k, o), hq, rfl⟩)
  have hA : Event.after k o ∈ Q.map evB ++ S.map evS ++ S.map evA ↔ (k, o) ∈ S := by
    simp only [List.mem_append, List.mem_map, evB, evS, evA]
    constructor
    · rintro ((⟨p, _, he⟩ | ⟨p, _, he⟩) | ⟨p, hp, he⟩)
      · cases he
      · cases he
      · cases p; simp at he; rw [← he.1, ← he.2]; exact hp
    · intro hq; exact Or.inr ⟨(k, o), hq, rfl⟩
  rw [hB, hS, hA]
  exact ⟨hperm.mem_iff.symm, Iff.rfl⟩

/-! ### SessionCache.flush -/

/-- ONCE: a flush that returns produced at most 50 rounds and nothing else; each round has the shape above -/
theorem C33_once (H : Hooks) (ord : Nat → List Nat → List Nat) (bfuel : Nat) (hperm : ∀ r l, (ord r l).Perm l)
    (s s' : State) (hinv : Inv s) (hsv : s.saved = []) (h : flush H ord bfuel s = .ok s') :
    ∃ t m, m ≤ 50 ∧ RoundsShape t m ∧ s'.trace = s.trace ++ t := by
  obtain ⟨_, _, _, t, m, hm, hr, ht⟩ := (flushLoop_spec H ord bfuel hperm 50 s hinv hsv).1 s' h
  exact ⟨t, m, hm, hr, ht⟩

/-- SAVED: when flush returns, nothing is pending and no edit is unwritten — the changes made before the flush, inside before_* hooks
    and inside after_* hooks (written by a later round of the same flush), and every object created by a hook -/
theorem C33_saved (H : Hooks) (ord : Nat → List Nat → List Nat) (bfuel : Nat) (hperm : ∀ r l, (ord r l).Perm l)
    (s s' : State) (hinv : Inv s) (hsv : s.saved = []) (h : flush H ord bfuel s = .ok s') :
    (∀ o, some o ∉ s'.queue) ∧ ∀ (o : Nat) (ob : Obj), s'.objs[o]? = some ob → kindOf ob.status = none ∧ ob.dirty = 0 := by
  obtain ⟨hinv', _, hmod, _⟩ := (flushLoop_spec H ord bfuel hperm 50 s hinv hsv).1 s' h
  have hq : ∀ o, some o ∉ s'.queue := by
    intro o ho
    have := hinv'.flag o ho
    rw [hmod] at this; cases this
  refine ⟨hq, ?_⟩
  intro o ob hob
  have hk : kindOf ob.status = none := by
    cases hk : kindOf ob.status with
    | none => rfl
    | some k =>
      have : s'.kindAt o = some k := by simp [State.kindAt, hob, hk]
      exact absurd ((hinv'.mem_iff o).mpr ⟨k, this⟩) (hq o)
  refine ⟨hk, ?_⟩
  rcases Nat.eq_zero_or_pos ob.dirty with h0 | hpos
  · exact h0
  · obtain ⟨k, hk'⟩ := hinv'.dirty o ob hob hpos
    rw [hk] at hk'; cases hk'

/-- the alternative: after 50 complete rounds, each of the shape above, with something still pending, flush raises
    TransactionError('Recursion depth limit reached in obj._after_save_() call') -/
theorem C33_limit (H : Hooks) (ord : Nat → List Nat → List Nat) (bfuel : Nat) (hperm : ∀ r l, (ord r l).Perm l)
    (s s' : State) (hinv : Inv s) (hsv : s.saved = []) (h : flush H ord bfuel s = .error (.limit s')) :
    s'.modified = true ∧ ∃ t, RoundsShape t 50 ∧ s'.trace = s.trace ++ t := by
  obtain ⟨_, hmod, t, hr, ht⟩ := (flushLoop_spec H ord bfuel hperm 50 s hinv hsv).2 s' h
  exact ⟨hmod, t, hr, ht⟩

/-- SAME ROUND: after the save loop of a round — before any after-hook runs — no object is pending or dirty: everything changed or
    created inside the before_* hooks of the round has been written by the statements of that very round -/
theorem C33_before_edits_same_round (H : Hooks) (ord : List Nat → List Nat) (bfuel : Nat) (hperm : ∀ l, (ord l).Perm l)
    (s s1 : State) (hinv : Inv s) (hb : beforeLoop H bfuel 0 s = .ok s1) :
    ∃ s2, savePhase ord s1 = .ok s2 ∧ (∀ p, s2.kindAt p = none) ∧ (∀ (p : Nat) (ob : Obj), s2.objs[p]? = some ob → ob.dirty = 0) ∧
      s2.trace = s1.trace ++ (keysL s1 (ord (pendingList s1))).map evS := by
  obtain ⟨hinv1, _⟩ := beforeLoop_spec H bfuel 0 s s1 hinv hb
  obtain ⟨s2, h1, _, h3, _, h5, h6⟩ := savePhase_spec ord hperm s1 hinv1
  exact ⟨s2, h1, h5, h6, h3⟩

/-- over the whole trace of a flush: as many before_X(o) as X-statements for o as after_X(o), for every kind X and object o;
    in particular no hook without a statement -/
theorem C33_counts (t : List Event) (m : Nat) (h : RoundsShape t m) (k : Kind) (o : Nat) :
    t.count (.before k o) = t.count (.stmt k o) ∧ t.count (.after k o) = t.count (.stmt k o) := by
  obtain ⟨segs, -, rfl, hall⟩ := h
  induction segs with
  | nil => simp
  | cons seg rest ih =>
    have hr := ih (fun x hx => hall x (List.mem_cons_of_mem _ hx))
    obtain ⟨B, S, A, rfl, hB, hS, hA, hc⟩ := C33_round_once seg (hall seg (List.mem_cons_self ..))
    obtain ⟨c1, c2, _⟩ := hc k o
    have zB1 : B.count (.stmt k o) = 0 := List.count_eq_zero.mpr (fun hm => by obtain ⟨_, _, he⟩ := hB _ hm; cases he)
    have zB2 : B.count (.after k o) = 0 := List.count_eq_zero.mpr (fun hm => by obtain ⟨_, _, he⟩ := hB _ hm; cases he)
    have zS1 : S.count (.before k o) = 0 := List.count_eq_zero.mpr (fun hm => by obtain ⟨_, _, he⟩ := hS _ hm; cases he)
    have zS2 : S.count (.after k o) = 0 := List.count_eq_zero.mpr (fun hm => by obtain ⟨_, _, he⟩ := hS _ hm; cases he)
    have zA1 : A.count (.before k o) = 0 := List.count_eq_zero.mpr (fun hm => by obtain ⟨_, _, he⟩ := hA _ hm; cases he)
    have zA2 : A.count (.stmt k o) = 0 := List.count_eq_zero.mpr (fun hm => by obtain ⟨_, _, he⟩ := hA _ hm; cases he)
    simp only [List.flatten_cons, List.count_append]
    omega

/-! ### Entity.flush (`obj.flush()`), as repaired by the `fix:` commit made from fixes/C33-entity-flush-principal-hooks.diff -/

/-- if `obj._save_()` writes exactly the objects whose before-hook the loop entered (`saveList` is a permutation of the hooked list:
    obj and, transitively, the new objects its row refers to — an explicit guard because relationships are not part of this model;
    the engine checks it on every real run), then the trace of `obj.flush()` is one round of the shape above -/
theorem C33_entity_flush (H : Hooks) (princ saveList : State → Nat → List Nat) (bfuel : Nat) (s s' s1 : State) (o : Nat) (hl : List Nat)
    (hinv : Inv s) (hsv : s.saved = []) (hpend : ∃ k, s.kindAt o = some k)
    (hb : entityBeforeLoop H princ bfuel 0 [o] s = .ok (s1, hl)) (hguard : (saveList s1 o).Perm hl)
    (h : entityFlush H princ saveList bfuel s o = .ok s') :
    ∃ seg, RoundShape seg ∧ s'.trace = s.trace ++ seg ∧ s'.saved = [] := by
  obtain ⟨k0, hk0⟩ := hpend
  obtain ⟨hinv1, hsv1, _, hnd, hp1, _, ht1⟩ :=
    entityBeforeLoop_spec H princ bfuel 0 [o] s s1 hl hinv (by simp) (by intro p hp; simp at hp; subst hp; exact ⟨k0, hk0⟩) hb
  simp only [entityFlush, hk0, hb] at h
  have hnd2 : (saveList s1 o).Nodup := hguard.nodup_iff.mpr hnd
  have hp2 : ∀ p ∈ saveList s1 o, ∃ k, s1.kindAt p = some k := fun p hp => hp1 p (hguard.mem_iff.mp hp)
  obtain ⟨s2, hsave, _, _, ht2, hsv2, _⟩ := saveAll_spec _ s1 hnd2 hp2
  simp only [hsave, afterPhase] at h
  obtain ⟨ht3, hsv3⟩ := afterLoop_trace H _ _ s' h
  refine ⟨_, ⟨keysL s1 hl, keysL s1 (saveList s1 o), ?_, hguard.filterMap _, rfl⟩, ?_, ?_⟩
  · rw [keysL_snd s1 _ hp1]; exact hnd
  · rw [ht3]
    simp only [ht2, ht1, hsv2, hsv1, hsv, List.drop_zero, List.append_assoc, List.nil_append, List.map_map]
    rfl
  · exact hsv3

/-! ### the hypotheses are satisfiable: concrete flushes with hooks that create and modify -/

/-- object 0 is loaded, object 1 modified (queued), object 2 created (queued) -/
def demo : State :=
  { objs := [⟨.loaded, 0⟩, ⟨.modified, 1⟩, ⟨.created, 1⟩], queue := [some 1, some 2], modified := true, saved := [], trace := [] }

/-- before_update of 1 modifies the loaded object 0 and creates an object; after_insert of 2 modifies 2 once (a second round) -/
def demoHooks : Hooks :=
  { before := fun k _ o => if k = .update ∧ o = 1 then [.modify 0, .create] else [],
    after := fun k s o => if k = .insert ∧ o = 2 ∧ s.trace.count (.after .insert 2) = 1 then [.modify 2] else [] }

theorem demo_inv : Inv demo := by
  refine ⟨?_, by decide, ?_, ?_⟩
  · intro o
    match o with
    | 0 => simp [demo, State.kindAt, kindOf]
    | 1 => simp [demo, State.kindAt, kindOf]
    | 2 => simp [demo, State.kindAt, kindOf]
    | n + 3 => simp [demo, State.kindAt]
  · intro o ob h _
    match o with
    | 0 => simp [demo] at h; subst h; contradiction
    | 1 => simp [demo] at h; subst h; exact ⟨.update, rfl⟩
    | 2 => simp [demo] at h; subst h; exact ⟨.insert, rfl⟩
    | n + 3 => simp [demo] at h
  · intro o _; rfl

def traceOf : Except Err State → Option (List Event)
  | .ok s => some s.trace
  | .error _ => none
def limitInfo : Except Err State → Option (Bool × Nat)
  | .error (.limit s) => some (s.modified, s.trace.length)
  | _ => none

example : traceOf (flush demoHooks (fun _ l => l) 100 demo) =
    some [.before .update 1, .before .insert 2, .before .update 0, .before .insert 3,
          .stmt .update 1, .stmt .insert 2, .stmt .update 0, .stmt .insert 3,
          .after .update 1, .after .insert 2, .after .update 0, .after .insert 3,
          .before .update 2, .stmt .update 2, .after .update 2] := by decide

/-- an after-hook that modifies its object for ever: with a limit of 3 rounds, 3 complete rounds (2 objects each), then the error -/
example : limitInfo (flushLoop { before := fun _ _ _ => [], after := fun _ _ o => [.modify o] } (fun _ l => l) 100 3 demo) = some (true, 18) := by
  decide

end PonyVerif.Props.C33
