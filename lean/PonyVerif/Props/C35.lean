import PonyVerif.Lemmas.RowLock
import PonyVerif.Gen.RowLockSrc
/-
  C35 — locked rows and serializable sessions cannot be overwritten concurrently.

  Theorems about `Model/RowLock.lean` for ALL schedules (any number of sessions, any lock domains, any programs,
  any number of transactions per session: `commitMid` = `commit()` / `db.commit()` inside the `db_session`),
  proved from one invariant preserved by every step (`Lemmas/RowLock.lean: step_inv`).
  The lock guarantees hold PER TRANSACTION: a commit in the middle of a session ends the transaction, releases the lock
  and clears `for_update`; afterwards the optimistic check applies again.
-/
namespace PonyVerif.Props.C35
open PonyVerif.Model.RowLock PonyVerif.Lemmas.RowLock

/-- the states reachable from a start where nobody holds a lock -/
def reach (n : Nat) (db : Obj → Val) (cfg : Sid → Bool × Bool) (dom : Sid → Nat) (sched : List (Sid × Act)) : St :=
  run n (St.init db cfg dom) sched

/-- session options as Pony builds them: `optimistic=False` implies immediate; session ids below `n` -/
def WellFormed (n : Nat) (cfg : Sid → Bool × Bool) (sched : List (Sid × Act)) : Prop :=
  (∀ s, (cfg s).2 = false → (cfg s).1 = true) ∧ (∀ p ∈ sched, p.1 < n)

theorem reach_inv {n db cfg dom sched} (h : WellFormed n cfg sched) : Inv n (reach n db cfg dom sched) :=
  run_inv sched _ (inv_init n db cfg dom h.1) h.2

/-- **At most one session is in a write transaction**, whatever the schedule; and the session that is holds the
    process-wide `transaction_lock` of its provider (taken before `BEGIN IMMEDIATE`, released at commit/rollback). -/
theorem C35_mutex (n : Nat) (db : Obj → Val) (cfg : Sid → Bool × Bool) (dom : Sid → Nat) (sched : List (Sid × Act))
    (h : WellFormed n cfg sched) (s t : Sid) :
    let σ := reach n db cfg dom sched
    ((σ.sess s).inTxn = true → (σ.sess t).inTxn = true → s = t) ∧
    ((σ.sess s).inTxn = true → σ.lock (σ.dom s) = some s) := by
  intro σ
  exact ⟨(reach_inv h).mutex s t, (reach_inv h).held s⟩

/-- **Locked rows.**  In every reachable state: a value that a session read under the lock - by `for_update()` /
    `get_for_update()` in any session, by any load in an immediate (serializable, `optimistic=False`) session - is
    still the committed value of that object, for as long as the session has not ended (`stable` is cleared only by
    the session's own commit / rollback / failure).  The monitor that watches every commit never fires. -/
theorem C35_locked_row (n : Nat) (db : Obj → Val) (cfg : Sid → Bool × Bool) (dom : Sid → Nat) (sched : List (Sid × Act))
    (h : WellFormed n cfg sched) (s : Sid) (o : Obj) (v : Val) :
    let σ := reach n db cfg dom sched
    ((σ.sess s).stable o = some v → σ.db o = v) ∧ σ.broken = false := by
  intro σ
  exact ⟨((reach_inv h).sok s).stab o v, (reach_inv h).broken⟩

/-- a locking load that succeeds records the value as stable and the object as locked (so `C35_locked_row` speaks
    about it from then on); an unlocked load of an immediate session likewise -/
theorem C35_lock_records (n : Nat) (σ : St) (s : Sid) (o : Obj) (hI : Inv n σ) (hs : s < n)
    (hnew : (σ.sess s).seen o = none) (σ' : St) (v : Val) (hstep : step n σ s (.lockRead o) = (σ', .ok (some v))) :
    (σ'.sess s).stable o = some v ∧ (σ'.sess s).forUpd o = true ∧ σ'.db o = v := by
  have hI' : Inv n σ' := by have := step_inv (.lockRead o) hI hs; rw [hstep] at this; exact this
  unfold step at hstep
  dsimp only at hstep
  by_cases hact : (σ.sess s).status = .active
  case neg => rw [if_pos hact] at hstep; cases hstep
  rw [if_neg (by simpa using hact)] at hstep
  have hb := ensureTxn_spec hI hs hact
  cases hE : ensureTxn n σ s with
  | blocked σ1 => rw [hE] at hstep; cases hstep
  | busy σ1 => rw [hE] at hstep; cases hstep
  | ok σ1 =>
    rw [hE] at hstep hb
    obtain ⟨_, _, hss, _⟩ := hb
    dsimp only at hstep
    have hseen1 : (σ1.sess s).seen o = none := by rw [hss]; exact hnew
    rw [hseen1] at hstep
    dsimp only at hstep
    obtain ⟨h1, h2⟩ := Prod.mk.inj hstep
    have h2' : ownView σ1 s o = v := by
      simp only [Res.ok.injEq, Option.some.injEq] at h2; exact h2
    subst h1
    refine ⟨?_, ?_, ?_⟩
    · simp [setSess, h2']
    · simp [setSess]
    · exact (hI'.sok s).stab o v (by simp [setSess, h2'])

/-- **No other session's write takes effect.**  While session `s` holds a value stable, no step of another session
    changes the committed value of that object (nor `s`'s bookkeeping). -/
theorem C35_locked_row_step (n : Nat) (σ : St) (s t : Sid) (a : Act) (o : Obj) (v : Val) (hI : Inv n σ) (ht : t < n)
    (hts : t ≠ s) (hst : (σ.sess s).stable o = some v) :
    (step n σ t a).1.db o = σ.db o ∧ ((step n σ t a).1.sess s).stable o = some v := by
  have hI' := step_inv a hI ht
  -- session `s` holds something stable, so it is the one in the transaction; `t` is not
  have hsin : (σ.sess s).inTxn = true := by
    cases h : (σ.sess s).inTxn with
    | true => rfl
    | false => have := ((hI.sok s).clean h o).2.1; simp [this] at hst
  have htin : (σ.sess t).inTxn = false := by
    cases h : (σ.sess t).inTxn with
    | false => rfl
    | true => exact absurd (hI.mutex t s h hsin) hts
  have frame := step_frame (n := n) (σ := σ) (s := s) a hts htin
  have hst' : ((step n σ t a).1.sess s).stable o = some v := by rw [frame]; exact hst
  exact ⟨by rw [(hI'.sok s).stab o v hst', (hI.sok s).stab o v hst], hst'⟩

/-- every commit in the middle of a session is made by a session whose UPDATEs carry the optimistic check -/
def Guarded (n : Nat) : St → List (Sid × Act) → Prop
  | _, [] => True
  | σ, (s, a) :: t => (a = .commitMid → (σ.sess s).checks = true) ∧ Guarded n (step n σ s a).1 t

theorem run_unguarded (n : Nat) (sched : List (Sid × Act)) : ∀ (σ : St), σ.unguarded = false → Guarded n σ sched →
    (run n σ sched).unguarded = false := by
  induction sched with
  | nil => intro σ h _; exact h
  | cons p t ih =>
    intro σ h hg
    obtain ⟨s, a⟩ := p
    refine ih _ ?_ hg.2
    rw [step_unguarded a, h]
    by_cases ha : a = .commitMid
    · simp [hg.1 ha]
    · simp [ha]

/-- the full statement: no commit ever overwrites a committed value its writer had not seen -/
def C35_no_lost_write_full : Prop :=
  ∀ (n : Nat) (db : Obj → Val) (cfg : Sid → Bool × Bool) (dom : Sid → Nat) (sched : List (Sid × Act)),
    WellFormed n cfg sched → (reach n db cfg dom sched).lost = false

/-- **The full statement is false on the code as it is** (known finding `nocheck-session-stale-write-after-commit`):
    a session without optimistic checks (`optimistic=False`; `serializable=True` switches them off too) that commits in
    its middle keeps its identity map; session 1 commits x=50 after that commit; session 0 then saves 7 computed from
    the 5 it read in its FIRST transaction - with no WHERE on x - and the 50 is gone.  The engine replays this schedule
    on the real code on every run. -/
theorem C35_no_lost_write_full_false : ¬ C35_no_lost_write_full := by
  intro h
  have := h 2 (fun _ => 5) (fun s => if s = 0 then (true, false) else (false, true)) (fun _ => 0)
    [(0, .read 0), (0, .commitMid), (1, .read 0), (1, .update 0 50), (1, .commit), (0, .update 0 7), (0, .commit)]
    ⟨by intro s; by_cases h : s = 0 <;> simp [h], by decide⟩
  revert this
  decide

/-- **No committed write is lost** (strongest true form).  For every schedule in which the sessions that commit in
    their middle are sessions whose UPDATEs carry the optimistic check (`Guarded`; sessions without checks may do
    anything else, including several locking loads, and sessions with checks may commit as often as they like): the
    monitor that compares, at every commit, the value each pending write was based on (read under the lock, or verified
    by the optimistic `WHERE` of its UPDATE) with the committed value just before the commit has never fired; and right
    now every pending write of such a session is still based on the committed value. -/
theorem C35_no_lost_write_partial (n : Nat) (db : Obj → Val) (cfg : Sid → Bool × Bool) (dom : Sid → Nat) (sched : List (Sid × Act))
    (h : WellFormed n cfg sched) (hg : Guarded n (St.init db cfg dom) sched) (s : Sid) (o : Obj) (r : Val) :
    let σ := reach n db cfg dom sched
    σ.lost = false ∧
    ((σ.sess s).checks = true ∨ (σ.sess s).renewed = false →
      (σ.sess s).pend o ≠ none → (σ.sess s).basis o = some r → σ.db o = r) := by
  intro σ
  have hu : σ.unguarded = false := run_unguarded n sched _ rfl hg
  exact ⟨(reach_inv h).lost hu, fun hc => ((reach_inv h).sok s).bas hc o r⟩

/-- **After a commit the optimistic check applies again.**  A `commit()` in the middle of a session ends the
    transaction: nothing stays locked or stable, the process-wide lock is free, the session goes on (immediate from now
    on, as `SessionCache.commit` sets `cache.immediate = True`) ... -/
theorem C35_mid_commit_releases (n : Nat) (σ : St) (s : Sid) (o : Obj) (hI : Inv n σ) (hact : (σ.sess s).status = .active) :
    let σ' := (step n σ s .commitMid).1
    (σ'.sess s).forUpd o = false ∧ (σ'.sess s).stable o = none ∧ (σ'.sess s).inTxn = false ∧
    (σ'.sess s).status = .active ∧ (σ'.sess s).immediate = true ∧ (σ'.sess s).seen o = (σ.sess s).seen o ∧
    ((σ.sess s).inTxn = true → σ'.lock (σ.dom s) = none) := by
  intro σ'
  have e : σ' = commitSess n σ s false := by
    show (step n σ s .commitMid).1 = _
    unfold step; dsimp only; rw [if_neg (by simpa using hact)]
  rw [e]
  unfold commitSess
  dsimp only
  by_cases hin : (σ.sess s).inTxn = true
  · rw [if_pos hin]; simp
  · rw [if_neg hin]
    have hin' : (σ.sess s).inTxn = false := by simpa using hin
    have hcl := (hI.sok s).clean hin' o
    simp [hin', hcl.2.2.1, hact]

/-- ... and an UPDATE of an object that is not locked IN THE CURRENT TRANSACTION, by a session with optimistic checks,
    is refused as soon as the row no longer holds what the session knows of it -/
theorem C35_check_applies_again (n : Nat) (σ : St) (s : Sid) (o : Obj) (r v : Val)
    (hact : (σ.sess s).status = .active) (hin : (σ.sess s).inTxn = true) (hchk : (σ.sess s).checks = true)
    (hfu : (σ.sess s).forUpd o = false) (hseen : (σ.sess s).seen o = some r) (hdiff : ownView σ s o ≠ r) :
    (step n σ s (.update o v)).2 = .optimisticCheckError := by
  unfold step
  dsimp only
  rw [if_neg (by simpa using hact), hseen]
  dsimp only
  have : ensureTxn n σ s = .ok σ := by unfold ensureTxn; dsimp only; rw [if_pos hin]
  rw [this]
  dsimp only
  rw [if_pos (by simp [hchk, hfu, hdiff])]

/-- a commit publishes exactly the session's pending writes and nothing else -/
theorem C35_commit_publishes (n : Nat) (σ : St) (s : Sid) (o : Obj)
    (hact : (σ.sess s).status = .active) (hin : (σ.sess s).inTxn = true) :
    (step n σ s .commit).1.db o = ((σ.sess s).pend o).getD (σ.db o) := by
  unfold step
  dsimp only
  rw [if_neg (by simpa using hact)]
  unfold commitSess
  dsimp only
  rw [if_pos hin]

/-- **Waiting ends.**  Only a running session can hold the process-wide lock: once the holder has committed, rolled
    back or failed, the lock is free again (waiters wait for the locker's end, not for ever). -/
theorem C35_lock_held_only_by_active (n : Nat) (db : Obj → Val) (cfg : Sid → Bool × Bool) (dom : Sid → Nat)
    (sched : List (Sid × Act)) (h : WellFormed n cfg sched) (d : Nat) (s : Sid) :
    let σ := reach n db cfg dom sched
    σ.lock d = some s → (σ.sess s).status = .active ∧ (σ.sess s).inTxn = true := by
  intro σ hl
  have := (reach_inv h).holder d s hl
  exact ⟨((reach_inv h).sok s).act this.1, this.1⟩

/-- … and a session that finds the lock free (and is first in line) and no foreign writer gets its transaction -/
theorem C35_progress (n : Nat) (σ : St) (s : Sid) (hnot : (σ.sess s).inTxn = false)
    (hlock : σ.lock (σ.dom s) = none) (hpre : σ.pre (σ.dom s) = none ∨ σ.pre (σ.dom s) = some s)
    (hw : writerOther σ s n = false) : ∃ σ', ensureTxn n σ s = .ok σ' ∧ (σ'.sess s).inTxn = true := by
  unfold ensureTxn
  rw [if_neg (by simp [hnot])]
  rcases hpre with hp | hp
  · rw [hp, hlock]; dsimp only; rw [if_neg (by simp [hw])]
    exact ⟨_, rfl, by simp [setSess]⟩
  · rw [hp]; dsimp only; rw [if_pos rfl, hlock]; dsimp only
    rw [if_neg (by simpa [writerOther] using hw)]
    exact ⟨_, rfl, by simp [setSess]⟩

/-- **One process: writers wait, they never fail with "database is locked".**  When all sessions belong to one lock
    domain (one `Database` object in one process) `BEGIN IMMEDIATE` is never refused: the Python lock is taken first. -/
theorem C35_same_process_never_busy (n : Nat) (σ : St) (s : Sid) (hI : Inv n σ) (hdom : ∀ t, σ.dom t = σ.dom s) (σ' : St) :
    ensureTxn n σ s ≠ .busy σ' := by
  have hno : σ.lock (σ.dom s) = none → writerOther σ s n = false := by
    intro hl
    simp only [writerOther, List.any_eq_false, List.mem_range]
    intro t _
    cases hin : (σ.sess t).inTxn with
    | false => simp
    | true =>
      have := hI.held t hin
      rw [hdom t, hl] at this; cases this
  have hno' : ∀ p, σ.lock (σ.dom s) = none → writerOther { σ with pre := p } s n = false := by
    intro p hl; simpa [writerOther] using hno hl
  unfold ensureTxn
  by_cases hin : (σ.sess s).inTxn = true
  · rw [if_pos hin]; intro h; cases h
  · rw [if_neg hin]
    cases hp : σ.pre (σ.dom s) with
    | some t =>
      show (if t = s then _ else _) ≠ _
      by_cases hts : t = s
      · rw [if_pos hts]
        cases hl : σ.lock (σ.dom s) with
        | some u => intro h; cases h
        | none =>
          show (if _ then _ else _) ≠ _
          rw [if_neg (by simp [hno' _ hl])]
          intro h; cases h
      · rw [if_neg hts]; intro h; cases h
    | none =>
      cases hl : σ.lock (σ.dom s) with
      | some u => intro h; cases h
      | none =>
        show (if _ then _ else _) ≠ _
        rw [if_neg (by simp [hno hl])]
        intro h; cases h

/-- **A refused BEGIN that the application catches changes nothing**: the session is as it was - outside a transaction, holding
    no lock, nothing marked as locked - so a retried locking load goes through `ensureTxn` again and, when it succeeds,
    `C35_lock_records` / `C35_locked_row` apply to it like to any other (the row it returns IS locked).  Mirrors sqlite
    `set_transaction_mode`: BEGIN first, `in_transaction = True` only after it, `finally: release_lock()` when not in transaction
    (source tie: `Src.lockBeforeBegin`). -/
theorem C35_refused_begin_no_effect (n : Nat) (σ : St) (s : Sid) (hact : (σ.sess s).status = .active) :
    (step n σ s .refused).1 = σ ∧ (step n σ s .refused).2 = .busy := by
  unfold step
  dsimp only
  rw [if_neg (by simpa using hact)]
  exact ⟨rfl, rfl⟩

/-- **Splitting an operation at its lock acquisition** (what the call-granularity comparison of the engine relies on): once
    a session has taken the lock and begun its transaction (`begin`), a locking load or an UPDATE behaves exactly as if
    the whole operation - lock, BEGIN IMMEDIATE, statement - ran in one step from the state before; other sessions'
    steps in between are covered by `C35_locked_row_step` / `C35_mutex`. -/
theorem C35_begin_split (n : Nat) (σ σ' : St) (s : Sid) (a : Act) (hI : Inv n σ) (hs : s < n)
    (hact : (σ.sess s).status = .active) (hE : ensureTxn n σ s = .ok σ')
    (ha : (∃ o, a = .lockRead o) ∨ (∃ o v, a = .update o v ∧ (σ.sess s).seen o ≠ none)) : step n σ' s a = step n σ s a := by
  have hb := ensureTxn_spec hI hs hact
  rw [hE] at hb
  obtain ⟨_, _, hss, _⟩ := hb
  have hin' : (σ'.sess s).inTxn = true := by rw [hss]
  have hact' : (σ'.sess s).status = .active := by rw [hss]; exact hact
  have hE' : ensureTxn n σ' s = .ok σ' := by unfold ensureTxn; dsimp only; rw [if_pos hin']
  rcases ha with ⟨o, rfl⟩ | ⟨o, v, rfl, hne⟩
  · unfold step
    dsimp only
    rw [if_neg (by simpa using hact'), if_neg (by simpa using hact), hE, hE']
  · have hseen : (σ'.sess s).seen o = (σ.sess s).seen o := by rw [hss]
    unfold step
    dsimp only
    rw [if_neg (by simpa using hact'), if_neg (by simpa using hact), hseen]
    cases hso : (σ.sess s).seen o with
    | none => exact absurd hso hne
    | some r => dsimp only; rw [hE, hE']

/-- **The mirrored statements are still in the source** (bridge, rebuilt on every run against `Gen/RowLockSrc.lean`, which
    harness/gen_rowlock.py derives from pony/orm/core.py, dbproviders/sqlite.py and sqlbuilding.py): the thirteen statements
    listed in `Src` - commit clears `for_update` and sets `immediate`, locking loads set `immediate` before they query, the
    optimistic WHERE is built unless the object is locked or the session carries no checks, the session flags, the lock is
    taken before BEGIN IMMEDIATE and released in the `finally` of commit / rollback / drop, the clause texts - are present in
    the form the model mirrors.  A change of any of them breaks this theorem; the step-by-step correspondence of the engine
    then shows whether behaviour changed. -/
theorem C35_source_shape : PonyVerif.Gen.RowLockSrc.src = Src.expected := by decide

/-! ### the clause sent to servers that have row locks -/

/-- SQLite gets no locking clause at all (the transaction is the lock) -/
theorem C35_sqlite_no_clause (nowait skip : Bool) : forUpdateClause .sqlite nowait skip = "" := rfl

/-- on the other dialects the clause starts with FOR UPDATE and different options give different clauses -/
theorem C35_clause_injective (d : Dialect) (hd : d ≠ .sqlite) (n1 s1 n2 s2 : Bool)
    (h : forUpdateClause d n1 s1 = forUpdateClause d n2 s2) : n1 = n2 ∧ s1 = s2 := by
  cases d <;> simp at hd <;> cases n1 <;> cases s1 <;> cases n2 <;> cases s2 <;> first | exact ⟨rfl, rfl⟩ | (exfalso; revert h; decide)

/-- the hypotheses are satisfiable and the model is not vacuous: a locker and an optimistic writer on the same row.
    Session 0 locks object 0, session 1 (optimistic) has read it before and tries to save: it is blocked, and after
    the locker's commit its UPDATE fails the optimistic check; the locker's value stays. -/
example :
    let σ := reach 2 (fun _ => 5) (fun _ => (false, true)) (fun _ => 0)
      [(1, .read 0), (0, .lockRead 0), (1, .update 0 7), (0, .update 0 6), (0, .commit), (1, .update 0 7)]
    σ.db 0 = 6 ∧ (σ.sess 1).status = .failed ∧ (σ.sess 0).status = .committed ∧ σ.lost = false := by decide

end PonyVerif.Props.C35
