/-
  C36 — a forked process never uses its parent's database connection.
  Property theorems only, about the process-tree model in Model/ForkPool.lean (hand model of Pool / SQLitePool and of
  the session's checked-out connection; tied to the real classes by real `os.fork()` runs in harness/engines/c36.py).
  All theorems quantify over ARBITRARY event lists (any interleaving of connect / stmt / release / drop / disconnect / fork
  by any process of the tree, any depth of forking), for the three kinds of pool.
-/
import PonyVerif.Lemmas.ForkPool
import PonyVerif.Lemmas.OraPool
namespace PonyVerif.Props.C36
open PonyVerif.Model.ForkPool

/-! ### 1. every connection `Pool.connect` hands out was created by the calling process -/

/-- C36, first half (no guard): in every history, every connection returned by `Pool.connect` to process `p` was
    created by `p` — never by its parent or any other ancestor, however the record was inherited. -/
theorem C36_connect_fresh (k : Kind) (evs : List Ev) :
    ∀ e ∈ (run (init k) evs).returned, e.2.creator = e.1 :=
  (run_inv evs (init k) (init_inv k)).2.1

example : (run (init .sqliteFile) [.act 0 0 .connect, .act 0 0 .release, .fork 0 0, .act 1 0 .connect, .act 0 0 .connect]).returned
    = [(0, ⟨0, 0⟩), (1, ⟨2, 1⟩), (0, ⟨0, 0⟩)] := by decide

/-- `SQLitePool.__init__` never sets `pool.pid`; in no history is the missing attribute read. -/
theorem C36_no_attribute_error (k : Kind) (evs : List Ev) : (run (init k) evs).attrErrors = 0 :=
  (run_inv evs (init k) (init_inv k)).2.2

/-- the recorded pid always is the creator of the pooled connection -/
theorem C36_pid_is_creator (k : Kind) (evs : List Ev) :
    ∀ q ∈ (run (init k) evs).procs, ∀ c, q.pool.con = some c → q.pool.pid = some c.creator :=
  fun q hq c hc => ((run_inv evs (init k) (init_inv k)).1 q hq c hc).2

/-! ### 2. a process's record is untouched by the events of other processes (in particular the parent's by the child's) -/

theorem C36_frame_step (w : World) (e : Ev) (q : Proc) (hq : q ∈ w.procs) (h : e.actor ≠ (q.pid, q.tid)) : q ∈ (step w e).procs := by
  cases e with
  | act p t a =>
    simp only [step, List.mem_map]
    refine ⟨q, hq, ?_⟩
    have : sel p t q = false := by
      cases hs : sel p t q with
      | false => rfl
      | true =>
        simp [sel] at hs
        exact absurd (by simp [Ev.actor, hs.1, hs.2]) h
    simp [this]
  | fork p t => simp [step, hq]
  | spawn p t => simp only [step]; split <;> simp [hq]

/-- a thread's record is untouched by everything other threads and other processes do (in particular the parent's records
    by anything its children do, and a thread's by its siblings) -/
theorem C36_parent_unchanged (evs : List Ev) : ∀ (w : World) (q : Proc), q ∈ w.procs → (∀ e ∈ evs, e.actor ≠ (q.pid, q.tid)) →
    q ∈ (run w evs).procs := by
  induction evs with
  | nil => intro w q hq _; exact hq
  | cons e es ih =>
    intro w q hq h
    exact ih (step w e) q (C36_frame_step w e q hq (h e List.mem_cons_self)) (fun e' he' => h e' (List.mem_cons_of_mem _ he'))

/-- forking changes nothing in the forking thread's record either: the child's (only) thread starts with a copy under a new pid -/
theorem C36_fork_copies (w : World) (p t : Nat) (q : Proc) (hq : q ∈ w.procs) (hp : q.pid = p) (ht : q.tid = t) :
    q ∈ (step w (.fork p t)).procs ∧ { q with pid := w.nextPid, fresh := false } ∈ (step w (.fork p t)).procs := by
  simp only [step, List.mem_append, List.mem_map, List.mem_filter]
  exact ⟨Or.inl hq, Or.inr ⟨q, ⟨hq, by simp [sel, hp, ht]⟩, rfl⟩⟩

/-- a thread started in any process (a forked child included) begins with an empty record: its first connect is a fresh one -/
theorem C36_spawned_thread_fresh (w : World) (p t : Nat) (q : Proc) (hq : q ∈ (step w (.spawn p t)).procs) (hn : q ∉ w.procs) :
    q.pid = p ∧ q.tid = t ∧ q.pool.con = none ∧ q.held = none := by
  rcases mem_step_spawn hq with h | rfl
  · exact absurd h hn
  · exact ⟨rfl, rfl, initPool_con _, rfl⟩

example : (∀ e ∈ [Ev.act 1 0 .connect, .act 1 0 .stmt, .act 0 1 .drop, .spawn 0 2, .fork 0 1], e.actor ≠ (0, 0)) := by decide

/-- two threads in the parent, a fork from the worker thread, a new thread in the child: every connection is the caller's own -/
example : (run (init .sqliteFile) [.act 0 0 .connect, .act 0 0 .release, .spawn 0 1, .act 0 1 .connect, .act 0 1 .release, .fork 0 1,
      .act 1 1 .connect, .spawn 1 2, .act 1 2 .connect, .act 0 0 .connect, .act 0 1 .connect]).returned
    = [(0, ⟨0, 0⟩), (0, ⟨2, 0⟩), (1, ⟨4, 1⟩), (1, ⟨5, 1⟩), (0, ⟨0, 0⟩), (0, ⟨2, 0⟩)] := by decide

/-! ### 3. the first `connect` of a forked child parks the inherited connection: it is neither closed nor used -/

theorem C36_stale_connect_parks (k : Kind) (s : Nat) (q : Proc) (c : Conn) (h1 : Inv1 q) (hc : q.pool.con = some c)
    (hstale : c.creator ≠ q.pid) (hheld : q.held = none) :
    ∃ n : Conn, (localStep k s q .connect).2.returned = some n ∧ n.creator = q.pid ∧ n ≠ c
      ∧ (localStep k s q .connect).2.isNew = true
      ∧ (localStep k s q .connect).1.pool.forked = q.pool.forked ++ [(c, some c.creator)]
      ∧ (localStep k s q .connect).2.closed = [] ∧ (localStep k s q .connect).2.stmts = [] := by
  obtain ⟨ha, hp⟩ := h1 c hc
  have hne : q.pool.pid ≠ some q.pid := by rw [hp]; intro h; exact hstale (Option.some.inj h)
  refine ⟨{ serial := s, creator := q.pid }, ?_⟩
  simp only [localStep, sessConnect, hheld, poolConnect, hc, ha, hp]
  simp [hstale]
  intro h; rw [← h] at hstale; exact hstale rfl

/-- a connect whose `_connect()` raises (before or after the connection object exists) leaves the record without a pooled
    connection and the session without a checked-out one — never with the inherited connection re-labelled as the child's —
    and the retry is a fresh connect: it returns a NEW connection created by this process. -/
theorem C36_retry_after_failed_connect_is_fresh (k : Kind) (s s' : Nat) (q : Proc) (a : Act)
    (ha : a = .connectFail ∨ a = .connectInitFail) (hheld : q.held = none) (hf : (localStep k s q a).2.failed = true) :
    (localStep k s q a).1.pool.con = none ∧ (localStep k s q a).1.held = none
      ∧ (localStep k s' (localStep k s q a).1 .connect).2.returned = some { serial := s', creator := q.pid }
      ∧ (localStep k s' (localStep k s q a).1 .connect).2.isNew = true := by
  rcases ha with rfl | rfl <;>
  · simp only [localStep, sessConnect, hheld] at hf ⊢
    obtain ⟨h1, h2⟩ := poolConnectFail_failed _ _ _ _ _ hf
    simp [h1, h2, poolConnect]

example : (localStep .sqliteFile 5 { pid := 1, tid := 0, pool := { con := some ⟨0, 0⟩, pid := some 0, pidAttr := true, forked := [] }, held := none, fresh := false } .connectFail).2.failed = true := by decide

/-- the same on whole histories: a child whose first connection attempt fails and which then retries (witness of the seeded change c36-1) -/
example : (run (init .sqliteFile) [.act 0 0 .connect, .act 0 0 .release, .fork 0 0, .act 1 0 .connectFail, .act 1 0 .connect, .act 1 0 .stmt]).stmts
    = [(0, ⟨0, 0⟩), (1, ⟨3, 1⟩)] := by decide

/-! ### 4. statements and close() calls only ever reach connections of the acting process — under caller discipline -/

/-- FULL statement: in every history every statement and every close() issued by process `p` is on a connection `p` created. -/
def C36_only_own_connections_full : Prop :=
  ∀ (k : Kind) (evs : List Ev), (∀ e ∈ (run (init k) evs).stmts, e.2.creator = e.1) ∧ (∀ e ∈ (run (init k) evs).closed, e.2.creator = e.1)

/-- The full statement is FALSE of the code as written.  Witness 1 (fork point "open transaction"): the child inherits the
    session's checked-out connection and its next statement goes to it — the pid test lives in `Pool.connect`, which a
    session that already holds a connection never calls.  Witness 2: `disconnect` in a child that has not connected yet
    closes the inherited connection object.  Both are replayed on real Pony by the engine on every run. -/
theorem C36_only_own_connections_full_false : ¬ C36_only_own_connections_full := by
  intro h
  have := (h .sqliteFile [.act 0 0 .connect, .fork 0 0, .act 1 0 .stmt]).1 (1, ⟨0, 0⟩) (by decide)
  exact absurd this (by decide)

theorem C36_stale_disconnect_closes_parent_connection :
    (1, (⟨0, 0⟩ : Conn)) ∈ (run (init .base) [.act 0 0 .connect, .act 0 0 .release, .fork 0 0, .act 1 0 .disconnect]).closed := by decide

/-- C36, second half (strongest partial statement): in every history that respects G1 and G2 — whatever else the processes
    do, in any interleaving, to any depth of forking — every statement (including the ROLLBACK of `release`) and every
    `close()` issued by process `p` is on a connection that `p` itself created: the child never uses and never closes a
    connection of its parent (the inherited one stays parked in `forked_connections`), and vice versa. -/
theorem C36_only_own_connections_partial (k : Kind) (evs : List Ev) (hd : disciplined (run (init k) evs)) :
    (∀ e ∈ (run (init k) evs).stmts, e.2.creator = e.1) ∧ (∀ e ∈ (run (init k) evs).closed, e.2.creator = e.1) :=
  (run_inv2 evs (init k) (init_inv k) (init_inv2 k) hd).2

example : disciplined (run (init .sqliteFile)
    [.act 0 0 .connect, .act 0 0 .stmt, .act 0 0 .release, .fork 0 0, .act 1 0 .connect, .act 1 0 .stmt, .act 1 0 .drop, .act 1 0 .disconnect,
     .act 0 0 .connect, .act 0 0 .stmt, .fork 1 0, .act 2 0 .connect, .act 2 0 .release]) := by unfold disciplined; decide

/-! ### 5. the Oracle provider's pool (`OraPool`: a cx_Oracle SessionPool per process) -/

/-- For every history of connect / connectFail (SessionPool creation or acquire raising) / stmt / release / drop / disconnect /
    fork events: every connection `OraPool.connect` returns to process `p` was acquired from a session pool that `p` itself
    created — never from the pool inherited from the parent, also after failed attempts. -/
theorem C36_ora_connect_fresh (evs : List PonyVerif.Model.OraPool.Ev) :
    ∀ e ∈ (PonyVerif.Model.OraPool.run PonyVerif.Model.OraPool.init evs).returned, e.2.pool.creator = e.1 :=
  (PonyVerif.Model.OraPool.run_inv evs _ PonyVerif.Model.OraPool.init_inv).2

/-- the recorded pid always is the creator of the record's session pool -/
theorem C36_ora_pid_is_creator (evs : List PonyVerif.Model.OraPool.Ev) :
    ∀ q ∈ (PonyVerif.Model.OraPool.run PonyVerif.Model.OraPool.init evs).procs, q.r.pid = q.r.cx.creator :=
  (PonyVerif.Model.OraPool.run_inv evs _ PonyVerif.Model.OraPool.init_inv).1

open PonyVerif.Model.OraPool in
example : (run init [.act 0 .connect, .act 0 .release, .fork 0, .act 1 .connectFail, .act 1 .connect, .act 0 .connect]).returned
    = [(0, ⟨1, ⟨0, 0⟩⟩), (1, ⟨4, ⟨4, 1⟩⟩), (0, ⟨5, ⟨0, 0⟩⟩)] := by decide

end PonyVerif.Props.C36
