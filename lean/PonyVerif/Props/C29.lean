/-
  C29 — JSON and array operations in queries match Python semantics.  Property theorems only.
-/
import PonyVerif.Model.JsonOps
import PonyVerif.Gen.JsonLits
namespace PonyVerif.Props.C29
open PonyVerif.Model.JsonOps PonyVerif.Gen

/-- the literal list of `SQLiteBuilder.JSON_NONZERO` in the current source, as texts -/
def srcLits : List Text := JsonLits.sqliteNonzeroLits.map String.toList

theorem C29_src_regex : JsonLits.jsonPathRe = "\\[(-?\\d+)\\]|\\.(?:(\\w+)|\"([^\"]*)\")" ∧ JsonLits.identRe = "^[A-Za-z_]\\w*\\Z" := by
  decide

end PonyVerif.Props.C29
