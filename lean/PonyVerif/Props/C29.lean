/-
  C29 — JSON and array operations in queries match Python semantics.  Property theorems only.

  `W` is the regex class `\w` (any classification of characters that contains the ASCII identifier start characters
  and excludes `.`, `[`, `"`); `cte` says whether `_traverse` also catches TypeError and `JsonLits.*` are the literal
  list / regex texts / flags read from the current source on every run by harness/gen_c29.py.
-/
import PonyVerif.Model.JsonOps
import PonyVerif.Lemmas.JsonOps
import PonyVerif.Gen.JsonLits
set_option linter.unusedSimpArgs false
set_option linter.unusedVariables false
namespace PonyVerif.Props.C29
open PonyVerif.Model.JsonOps PonyVerif.Gen

/-! ### what the theorems are stated against is what the source contains -/

/-- the literal list of `SQLiteBuilder.JSON_NONZERO` in the current source, as texts -/
def srcLits : List Text := JsonLits.sqliteNonzeroLits.map String.toList

/-- does the source's `json_path_re` accept `[#-N]` (the spelling JSON1 needs for an index counted from the end) -/
def srcHash : Bool := JsonLits.jsonPathRe == "\\[#?(-?\\d+)\\]|\\.(?:(\\w+)|\"([^\"]*)\")"

/-- the regex in `sqlite.py` is one of the two the scanner `matchSeg` covers (without / with `#?`; `srcHash` says which);
    `is_ident` is `^[A-Za-z_]\w*\Z` -/
theorem C29_src_regex :
    (JsonLits.jsonPathRe = "\\[(-?\\d+)\\]|\\.(?:(\\w+)|\"([^\"]*)\")" ∨ srcHash = true) ∧ JsonLits.identRe = "^[A-Za-z_]\\w*\\Z" := by
  decide

/-- `JSON_NONZERO` is `expr NOT IN (…)` on the bare expression, its literal list contains the six literals of the model and at most the two
    float-zero spellings in addition (the two states of the tree the theorems below cover) -/
theorem C29_src_lits :
    JsonLits.sqliteNonzeroShape = "plain" ∧ (∀ t ∈ baseLits, t ∈ srcLits) ∧ (∀ t ∈ srcLits, t ∈ baseLits ++ floatZeroLits) := by
  decide

/-- the ASCII word class (what `\w` is on ASCII) meets the hypotheses of the path theorems -/
def asciiW (c : Char) : Bool := c.isAlphanum || c == '_'

/-! ### path text: build, then parse back -/

/-- **Round trip.** For every key list without a double quote in a name, `_parse_path(eval_json_path(keys)) = keys`. -/
theorem C29_path_roundtrip (W : Char → Bool) (hash : Bool) (hW : WordClass W) (keys : List Key) (h : ∀ k ∈ keys, k.pathSafe = true) :
    parsePath W hash (evalJsonPath W keys) = some keys := by
  simp only [evalJsonPath, parsePath]
  exact parseSegs_segs W hash hW keys h _ (Nat.le_refl _)

/-- **Round trip of the JSON1 spelling.**  What `SQLiteBuilder.eval_json_path` writes when JSON1 is available (a negative index as `[#-N]`)
    is read back to the same keys by the parser whose regex has `#?` — `py_json_contains` gets exactly this text -/
theorem C29_path_roundtrip_j1 (W : Char → Bool) (hW : WordClass W) (keys : List Key) (h : ∀ k ∈ keys, k.pathSafe = true) :
    parsePath W true (evalJsonPathJ1 W keys) = some keys := by
  simp only [evalJsonPathJ1, parsePath]
  exact parseSegs_segsJ1 W hW keys h _ (Nat.le_refl _)

/-- the current source pairs the two: the `[#-N]` spelling is written only by a tree whose regex reads it -/
theorem C29_src_j1_pair : JsonLits.json1NegativeHash = true → srcHash = true := by
  decide

/-- the full statement (no guard) -/
def C29_path_roundtrip_full : Prop :=
  ∀ (W : Char → Bool) (hash : Bool), WordClass W → ∀ keys : List Key, parsePath W hash (evalJsonPath W keys) = some keys

theorem asciiW_wordClass : WordClass asciiW where
  ident := by
    intro c h
    simp only [isIdentStart, Bool.or_eq_true, beq_iff_eq] at h
    simp only [asciiW, Char.isAlphanum, Bool.or_eq_true, beq_iff_eq]
    rcases h with h | h
    · exact Or.inl (Or.inl h)
    · exact Or.inr h
  dot := by decide
  bracket := by decide
  quote := by decide

/-- what the code does with the key `q"k`: the emitted text `$."q\"k"` is not parseable at all (`keys = None`, the query yields NULL) -/
theorem C29_path_quote_witness (hash : Bool) : parsePath asciiW hash (evalJsonPath asciiW [.name ['q', '"', 'k']]) = none := by
  cases hash <;>
  decide

theorem C29_path_roundtrip_full_false : ¬ C29_path_roundtrip_full := by
  intro h
  have := h asciiW false asciiW_wordClass [.name ['q', '"', 'k']]
  rw [C29_path_quote_witness] at this
  exact absurd this (by simp)

example : ∀ k ∈ [Key.name ['a', ' ', 'b'], Key.idx (-3), Key.name [], Key.name ['x']], k.pathSafe = true := by decide

example : parsePath asciiW true (evalJsonPathJ1 asciiW [.name [], .idx (-1), .name ['a', ' ', 'b']]) = some [.name [], .idx (-1), .name ['a', ' ', 'b']] :=
  C29_path_roundtrip_j1 asciiW asciiW_wordClass _ (by decide)

/-! ### navigation -/

/-- **`_traverse` agrees with Python navigation** wherever Python navigation has a result (all documents, all paths; negative list
    indexes included; independent of whether TypeError is caught) -/
theorem C29_traverse (cte : Bool) (doc : Json) (keys : List Key) (v : Json) (h : pyNavigate doc keys = .ok v) :
    traverseKeys cte doc keys = .ok v := by
  induction keys generalizing doc with
  | nil => simpa [pyNavigate, traverseKeys] using h
  | cons k ks ih =>
    simp only [pyNavigate] at h
    cases hg : getItem doc k with
    | error e => rw [hg] at h; simp at h
    | ok w =>
      rw [hg] at h
      have hc := getItem_ok_container doc k w hg
      simp only [traverseKeys, hc, hg]
      exact ih w h

/-- where Python raises, `_traverse` yields None (SQL NULL) — except that the TypeError of a string key applied to a list escapes when the
    except clause does not name it -/
theorem C29_traverse_missing (cte : Bool) (doc : Json) (keys : List Key) (e : NavErr) (h : pyNavigate doc keys = .error e) :
    traverseKeys cte doc keys = .ok .null ∨ (cte = false ∧ e = .typeError ∧ traverseKeys cte doc keys = .error .typeError) := by
  induction keys generalizing doc with
  | nil => simp [pyNavigate] at h
  | cons k ks ih =>
    simp only [pyNavigate] at h
    by_cases hc : doc.isContainer = true
    · cases hg : getItem doc k with
      | ok w => rw [hg] at h; simp only [traverseKeys, hc, hg]; exact ih w h
      | error e' =>
        rw [hg] at h
        simp only [Except.error.injEq] at h
        subst h
        cases e' <;> cases cte <;> simp [traverseKeys, hc, hg]
    · simp [traverseKeys, hc]

example : pyNavigate (.obj [(['a'], .arr [.int 1, .int 2, .int 3])]) [.name ['a'], .idx (-1)] = .ok (.int 3) := by rfl

/-- with the TypeError caught, `_traverse` is total -/
theorem C29_traverse_total (doc : Json) (keys : List Key) : ∃ v, traverseKeys true doc keys = .ok v := by
  induction keys generalizing doc with
  | nil => exact ⟨doc, rfl⟩
  | cons k ks ih =>
    by_cases hc : doc.isContainer = true
    · cases hg : getItem doc k with
      | ok w => simp only [traverseKeys, hc, hg]; exact ih w
      | error e' => cases e' <;> exact ⟨.null, by simp [traverseKeys, hc, hg]⟩
    · exact ⟨.null, by simp [traverseKeys, hc]⟩

/-! ### JSON_QUERY on the fallback: extract both paths, dump, unwrap -/

theorem C29_unwrap (v : Json) : pyJsonUnwrap (some (dumps (.arr [.null, v]))) = some (dumps v) := by
  simp [pyJsonUnwrap, dumps, dumpsList, List.isPrefixOf, List.dropLast_concat]

/-- for a top-level object without the sentinel key, `JSON_QUERY(doc, path)` is the dumped text of the value `_traverse` reaches -/
theorem C29_query_object (cte : Bool) (kvs : List (Text × Json)) (pk : Option (List Key)) (v : Json)
    (hs : kvs.lookup nonExistentKey = none) (h : traverse cte (.obj kvs) pk = .ok v) :
    jsonQueryFallback cte (.obj kvs) pk = .ok (some (dumps v)) := by
  have h0 : traverse cte (.obj kvs) (some [.name nonExistentKey]) = .ok .null := by
    simp [traverse, traverseKeys, Json.isContainer, getItem, hs]
  simp only [jsonQueryFallback, pyJsonExtract2, h0, h, C29_unwrap]

/-- the tree as snapshotted (`cte = false`): on the fallback every path query into a top-level ARRAY raises TypeError … -/
theorem C29_query_toplevel_array_raises (xs : List Json) (pk : Option (List Key)) :
    jsonQueryFallback false (.arr xs) pk = .error .typeError := by
  simp [jsonQueryFallback, pyJsonExtract2, traverse, traverseKeys, Json.isContainer, getItem]

/-- … and once TypeError is caught it is the dumped value, as for objects -/
theorem C29_query_toplevel_array_fixed (xs : List Json) (pk : Option (List Key)) (v : Json) (h : traverse true (.arr xs) pk = .ok v) :
    jsonQueryFallback true (.arr xs) pk = .ok (some (dumps v)) := by
  have h0 : traverse true (.arr xs) (some [.name nonExistentKey]) = .ok .null := by
    simp [traverse, traverseKeys, Json.isContainer, getItem]
  simp only [jsonQueryFallback, pyJsonExtract2, h0, h, C29_unwrap]

/-! ### truthiness: `expr NOT IN (literals)` on the dumped text vs `bool(v)` -/

/-- **Truthiness, guarded.** For every literal list between the six base literals and base + float zeros, and every value that is
    not a float zero: `JSON_NONZERO` on the dumped text is Python truthiness. -/
theorem C29_nonzero_partial (L : List Text) (hb : ∀ t ∈ baseLits, t ∈ L) (hu : ∀ t ∈ L, t ∈ baseLits ++ floatZeroLits)
    (v : Json) (hv : v.topOk = true) (hz : v.isFloatZero = false) :
    jsonNonzero L (dumps v) = pyTruthy v := by
  have hfz : dumps v ∉ floatZeroLits := by rw [dumps_mem_fz v hv, hz]; simp
  have hmem : dumps v ∈ L ↔ dumps v ∈ baseLits := by
    constructor
    · intro h; have := hu _ h; simp only [List.mem_append] at this; rcases this with h | h
      · exact h
      · exact absurd h hfz
    · exact hb _
  have hbase := dumps_mem_base v hv
  simp only [jsonNonzero]
  cases ht : pyTruthy v
  · have : dumps v ∈ L := hmem.2 (hbase.2 ⟨ht, hz⟩)
    simp [this]
  · have : dumps v ∉ L := by intro h; have := (hbase.1 (hmem.1 h)).1; rw [ht] at this; simp at this
    simp [this]

/-- the full statement for a literal list `L` -/
def C29_nonzero_full (L : List Text) : Prop := ∀ v : Json, v.topOk = true → jsonNonzero L (dumps v) = pyTruthy v

/-- **Truthiness, exactly.** The unguarded statement holds for a literal list iff it contains both `0.0` and `-0.0` -/
theorem C29_nonzero_full_iff (L : List Text) (hb : ∀ t ∈ baseLits, t ∈ L) (hu : ∀ t ∈ L, t ∈ baseLits ++ floatZeroLits) :
    C29_nonzero_full L ↔ (['0', '.', '0'] ∈ L ∧ ['-', '0', '.', '0'] ∈ L) := by
  constructor
  · intro h
    have h1 := h (.fzero false) rfl
    have h2 := h (.fzero true) rfl
    simp [jsonNonzero, dumps, pyTruthy] at h1 h2
    exact ⟨h1, h2⟩
  · intro ⟨h1, h2⟩ v hv
    by_cases hz : v.isFloatZero = true
    · cases v <;> simp [Json.isFloatZero] at hz
      rename_i b; cases b <;> simp [jsonNonzero, dumps, pyTruthy, h1, h2]
    · exact C29_nonzero_partial L hb hu v hv (by simpa using hz)

/-- the six literals of the tree as snapshotted: `0.0` is truthy in SQL -/
theorem C29_nonzero_full_false : ¬ C29_nonzero_full baseLits := by
  rw [C29_nonzero_full_iff baseLits (fun _ h => h) (fun _ h => by simp [h])]
  decide

/-- the guarded theorem applies to the literal list of the current source -/
theorem C29_nonzero_src (v : Json) (hv : v.topOk = true) (hz : v.isFloatZero = false) : jsonNonzero srcLits (dumps v) = pyTruthy v :=
  C29_nonzero_partial srcLits C29_src_lits.2.1 C29_src_lits.2.2 v hv hz

example : (Json.float '1' ['.', '5']).topOk = true ∧ (Json.float '1' ['.', '5']).isFloatZero = false := by decide

/-! ### the JSON1 path lookup (backend model) against `_traverse` -/

/-- a key JSON1 can look up: an index (a negative one only when the builder spells it `[#-N]`), or a name without `"`, `\` and
    control characters -/
def Key.json1Safe (negHash : Bool) : Key → Bool
  | .idx i => negHash || decide (0 ≤ i)
  | .name s => s.all json1SafeChar

/-- **JSON1 = fallback** for every document and every path of JSON1-safe keys (where `_traverse` does not raise); with the `[#-N]`
    spelling (`negHash`) this includes every integer index -/
theorem C29_json1_agrees (cte negHash : Bool) (doc : Json) (keys : List Key) (hk : ∀ k ∈ keys, Key.json1Safe negHash k = true) (v : Json)
    (h : traverseKeys cte doc keys = .ok v) : json1Extract negHash doc keys = .ok v := by
  induction keys generalizing doc with
  | nil => simpa [traverseKeys, json1Extract] using h
  | cons k ks ih =>
    have hk0 := hk k (by simp)
    have hks : ∀ k ∈ ks, Key.json1Safe negHash k = true := fun k hk' => hk k (by simp [hk'])
    cases k with
    | idx i =>
      have hi : (decide (i < 0) && !negHash) = false := by
        simp only [Key.json1Safe, Bool.or_eq_true, decide_eq_true_eq] at hk0
        rcases hk0 with hk0 | hk0
        · simp [hk0]
        · have : ¬ i < 0 := by omega
          simp [this]
      cases doc with
      | arr xs =>
        simp only [traverseKeys, Json.isContainer, getItem] at h
        simp only [json1Extract, hi]
        cases hx : listGet xs i with
        | none => rw [hx] at h; simp at h; subst h; simp
        | some w => rw [hx] at h; simp at h; simp only [Bool.false_eq_true, if_false]; exact ih _ hks h
      | obj kvs => simp [traverseKeys, Json.isContainer, getItem] at h; simp [json1Extract, hi, h]
      | null => simp [traverseKeys, Json.isContainer] at h; simp [json1Extract, hi, h]
      | bool b => simp [traverseKeys, Json.isContainer] at h; simp [json1Extract, hi, h]
      | int j => simp [traverseKeys, Json.isContainer] at h; simp [json1Extract, hi, h]
      | fzero b => simp [traverseKeys, Json.isContainer] at h; simp [json1Extract, hi, h]
      | float c r => simp [traverseKeys, Json.isContainer] at h; simp [json1Extract, hi, h]
      | str s => simp [traverseKeys, Json.isContainer] at h; simp [json1Extract, hi, h]
    | name s =>
      have hs : s.all json1SafeChar = true := by simpa [Key.json1Safe] using hk0
      cases doc with
      | obj kvs =>
        simp only [traverseKeys, Json.isContainer, getItem] at h
        simp only [json1Extract, hs]
        cases hl : kvs.lookup s with
        | none => rw [hl] at h; simp at h; subst h; simp
        | some w => rw [hl] at h; simp at h; simp only [if_true]; exact ih _ hks h
      | arr xs => cases cte <;> simp [traverseKeys, Json.isContainer, getItem] at h; simp [json1Extract, h]
      | null => simp [traverseKeys, Json.isContainer] at h; simp [json1Extract, h]
      | bool b => simp [traverseKeys, Json.isContainer] at h; simp [json1Extract, h]
      | int j => simp [traverseKeys, Json.isContainer] at h; simp [json1Extract, h]
      | fzero b => simp [traverseKeys, Json.isContainer] at h; simp [json1Extract, h]
      | float c r => simp [traverseKeys, Json.isContainer] at h; simp [json1Extract, h]
      | str s => simp [traverseKeys, Json.isContainer] at h; simp [json1Extract, h]

/-- with the plain `[-N]` spelling the unguarded statement fails on the last element of a list: JSON1 has no `[-1]` -/
theorem C29_json1_negative_index_false :
    ¬ (∀ (doc : Json) (keys : List Key) (v : Json), traverseKeys false doc keys = .ok v → json1Extract false doc keys = .ok v) := by
  intro h
  have := h (.arr [.int 1, .int 2, .int 3]) [.idx (-1)] (.int 3) (by rfl)
  simp [json1Extract] at this

/-- with `[#-N]` every index is JSON1-safe: `x.data['neg'][-1]` is the last item on JSON1 as on the fallback -/
theorem C29_json1_hash_index (i : Int) : Key.json1Safe true (.idx i) = true ∧
    json1Extract true (.arr [.int 1, .int 2, .int 3]) [.idx (-1)] = .ok (.int 3) := by
  exact ⟨by simp [Key.json1Safe], by rfl⟩

/-! ### membership and length -/

/-- `py_json_contains` in the source has the shape the model `pyJsonContains` mirrors: it parses the document first and has one `return`,
    after the traversal (no shortcut on the raw JSON text, where strings are escaped) -/
theorem C29_src_contains : JsonLits.pyJsonContainsParsesFirst = true := by decide

/-- `key in x.data[path]` : for a list or a dict, `py_json_contains` is Python's `in` -/
theorem C29_contains (cte : Bool) (doc : Json) (pk : Option (List Key)) (key : Text) (v : Json) (b : Bool)
    (h : traverse cte doc pk = .ok v) (hin : pyIn key v = some b) : pyJsonContains cte doc pk key = .ok b := by
  cases v <;> simp [pyIn] at hin <;> simp [pyJsonContains, h, hin]

/-- `len(x.data[path])` : for a list it is the Python length (for anything else `json_array_length` is 0) -/
theorem C29_json_length (v : Json) : pyJsonArrayLength v = (match v with | .arr xs => xs.length | _ => 0) := by
  cases v <;> rfl

/-! ### arrays: `ArrayMixin._index`, `py_array_index`, `py_array_slice` -/

/-- the constant branch and the expression branch (`CASE WHEN i >= 0 …`) of `_index` compute the same number -/
theorem C29_index_forms_agree (f p : Bool) (v len : Int) : indexConst f p v len = indexExpr f p v len := by
  cases f <;> cases p <;> simp [indexConst, indexExpr] <;> split <;> omega

/-- on SQLite (`from_one = False`) a negative index is sent as `len + index`, a non-negative one unchanged -/
theorem C29_index_sqlite (p : Bool) (v len : Int) : indexConst false p v len = if v ≥ 0 then v else len + v :=
  index_sqlite p v len

/-- **`x.arr[i]`** on SQLite is Python's `arr[i]` for every list and every index `i ≥ -len(arr)` (result, or NULL where Python
    raises IndexError because `i ≥ len`) -/
theorem C29_array_index (xs : List α) (i : Int) (h : -(xs.length : Int) ≤ i) : sqliteArrayIndex xs i = listGet xs i := by
  simp only [sqliteArrayIndex, pyArrayIndex, index_sqlite]
  by_cases hi : i ≥ 0
  · simp [hi]
  · simp only [hi, if_false]
    have h1 : ¬ ((xs.length : Int) + i < 0) := by omega
    have h2 : i < 0 := by omega
    simp only [listGet, h1, h2, if_true, if_false]
    have e : i + (xs.length : Int) = (xs.length : Int) + i := by omega
    rw [e]
    simp [h1]

/-- below `-len` Python raises IndexError, while SQLite is handed a still-negative index that `py_array_index` counts from the end again -/
theorem C29_array_index_wraps : sqliteArrayIndex [1, 2, 3] (-5) = some 2 ∧ listGet [1, 2, 3] (-5) = (none : Option Int) := by
  decide

/-- **`x.arr[a:b]`, guarded.**  On SQLite the slice is Python's `arr[a:b]` for every list and all bounds `≥ -len(arr)` (omitted bounds included) -/
theorem C29_array_slice_partial (clamp : Bool) (xs : List α) (a b : Option Int)
    (ha : ∀ v, a = some v → -(xs.length : Int) ≤ v) (hb : ∀ v, b = some v → -(xs.length : Int) ≤ v) :
    sqliteArraySlice clamp xs a b = pySlice xs a b := by
  have hn : (0 : Int) ≤ xs.length := by omega
  cases clamp
  · simp only [sqliteArraySlice, pyArraySlice, Bool.false_eq_true, if_false]
    apply pySlice_congr
    · cases a with
      | none => rfl
      | some v => exact adj_sqlite true _ v hn (ha v rfl)
    · cases b with
      | none => rfl
      | some v => exact adj_sqlite false _ v hn (hb v rfl)
  · simp only [sqliteArraySlice, pyArraySlice, if_true]
    apply pySlice_congr
    · cases a with
      | none => rfl
      | some v => exact adj_clamp true _ v hn
    · cases b with
      | none => rfl
      | some v => exact adj_clamp false _ v hn

/-- **`x.arr[a:b]`, all bounds**, once `py_array_slice` maps a still-negative bound to 0 (the proposed repair) -/
theorem C29_array_slice_clamped (xs : List α) (a b : Option Int) : sqliteArraySlice true xs a b = pySlice xs a b := by
  have hn : (0 : Int) ≤ xs.length := by omega
  simp only [sqliteArraySlice, pyArraySlice, if_true]
  apply pySlice_congr
  · cases a with
    | none => rfl
    | some v => exact adj_clamp true _ v hn
  · cases b with
    | none => rfl
    | some v => exact adj_clamp false _ v hn

/-- the full statement for the tree as snapshotted (`py_array_slice` = `array[start:stop]`) -/
def C29_array_slice_full : Prop := ∀ (xs : List Int) (a b : Option Int), sqliteArraySlice false xs a b = pySlice xs a b

/-- `[1,2,3][-5:2]` is `[1,2]` in Python; SQLite computes `[1,2,3][-2:2] = [2]` -/
theorem C29_array_slice_full_false : ¬ C29_array_slice_full := by
  intro h
  have := h [1, 2, 3] (some (-5)) (some 2)
  revert this; decide

example : (∀ v, (some (-3) : Option Int) = some v → -(([1, 2, 3] : List Int).length : Int) ≤ v) := by
  intro v h; cases h; decide

/-! ### PostgreSQL subscripts (backend model: 1-based, outside the bounds → NULL; no server in the sandbox) -/

/-- **PostgreSQL `x.arr[i]`** (1-based subscript computed by `_index(from_one=True)`) is Python's `arr[i]` for every index; NULL where Python raises -/
theorem C29_pg_index (xs : List α) (i : Int) : pgIndex xs i = listGet xs i := by
  simp only [pgIndex, pgArrayIndex, index_pg, if_true]
  by_cases hi : i ≥ 0
  · rw [listGet_nonneg xs i hi]
    simp only [hi, if_true]
    by_cases hlt : i < (xs.length : Int)
    · have c1 : ¬ (i + 1 < 1 ∨ i + 1 > (xs.length : Int)) := by omega
      simp only [c1, if_false]; congr 1; omega
    · have c1 : (i + 1 < 1 ∨ i + 1 > (xs.length : Int)) := by omega
      simp only [c1, if_true]; exact (List.getElem?_eq_none (by omega)).symm
  · have h0 : i < 0 := by omega
    simp only [hi, if_false]
    by_cases hlt : -(xs.length : Int) ≤ i
    · have c1 : ¬ ((xs.length : Int) + i + 1 < 1 ∨ (xs.length : Int) + i + 1 > (xs.length : Int)) := by omega
      have c2 : ¬ (i + (xs.length : Int) < 0 ∨ i + (xs.length : Int) ≥ (xs.length : Int)) := by omega
      simp only [listGet, h0, c1, c2, if_true, if_false]; congr 1; omega
    · have c1 : ((xs.length : Int) + i + 1 < 1 ∨ (xs.length : Int) + i + 1 > (xs.length : Int)) := by omega
      have c2 : (i + (xs.length : Int) < 0 ∨ i + (xs.length : Int) ≥ (xs.length : Int)) := by omega
      simp only [listGet, h0, c1, c2, if_true]

/-- **PostgreSQL `x.arr[a:b]`** (`arr[l:u]` 1-based, inclusive, intersected with the bounds; `l`, `u` computed by `_index(from_one=True)`)
    is Python's `arr[a:b]` for every list and ALL bounds (negative, beyond either end, omitted) -/
theorem C29_pg_slice (xs : List α) (a b : Option Int) : pgSlice xs a b = pySlice xs a b := by
  have hn : (0 : Int) ≤ xs.length := by omega
  rw [pgSlice_win, pySlice_win]
  exact win_congr xs _ _ _ _ (pgLo_nonneg _ a) (loOf_nonneg _ hn a) (pg_lo_eq _ hn a) (pg_hi_eq _ hn a b)

example : pgSlice [1, 2, 3] (some (-5)) (some 2) = [1, 2] ∧ sqliteArraySlice false [1, 2, 3] (some (-5)) (some 2) = [2] := by decide

/-! ### several JSON paths in one statement: composite parameters are shared by key -/

/-- **The composite-parameter key is injective in the path**: two paths with the same key are the same path (parameters and constants,
    integer indexes and string keys alike), so sharing a parameter by key never merges different paths -/
theorem C29_paramkey_injective (a b : List PathItem) (h : paramKey a = paramKey b) : a = b := by
  induction a generalizing b with
  | nil => cases b with
    | nil => rfl
    | cons y ys => simp [paramKey] at h
  | cons x xs ih =>
    cases b with
    | nil => simp [paramKey] at h
    | cons y ys =>
      simp only [paramKey, List.map_cons, List.cons.injEq] at h
      have hxy : x = y := by
        cases x with
        | param i => cases y with
          | param j => simp [keyPart] at h; rw [h.1]
          | const k => cases k <;> simp [keyPart] at h
        | const k => cases y with
          | param j => cases k <;> simp [keyPart] at h
          | const k' => cases k <;> cases k' <;> simp [keyPart] at h <;> rw [h.1]
      rw [hxy, ih ys h.2]

/-- every entry of `builder.keys` is filed under the key of its own items -/
def regOk (reg : Registry) : Prop := ∀ e ∈ reg, e.1 = paramKey e.2

theorem lookup_mem (reg : Registry) (k : List KeyPart) (its : List PathItem) (h : reg.lookup k = some its) : (k, its) ∈ reg := by
  induction reg with
  | nil => simp [List.lookup] at h
  | cons e es ih =>
    obtain ⟨k', its'⟩ := e
    simp only [List.lookup] at h
    split at h
    · rename_i heq
      have hk : k = k' := by simpa using heq
      cases h; subst hk; simp
    · exact List.mem_cons_of_mem _ (ih h)

/-- **Each path gets its own text.**  Whatever was built before in the statement, the composite parameter handed back for a path consists
    of exactly that path's items (and the registry stays consistent): the value bound at execution is `eval_json_path` of this path. -/
theorem C29_composite_shared_sound (W : Char → Bool) (env : Nat → Key) (reg : Registry) (hreg : regOk reg) (items : List PathItem) :
    (makeComposite reg items).1 = items ∧ regOk (makeComposite reg items).2 ∧
    evalComposite W env (makeComposite reg items).1 = evalJsonPath W (items.map (resolveItem env)) := by
  unfold makeComposite
  cases hl : reg.lookup (paramKey items) with
  | none =>
    refine ⟨rfl, ?_, rfl⟩
    intro e he
    simp only [List.mem_cons] at he
    rcases he with he | he
    · subst he; rfl
    · exact hreg e he
  | some its =>
    have hm := lookup_mem reg _ its hl
    have hk : paramKey items = paramKey its := hreg _ hm
    have : its = items := (C29_paramkey_injective items its hk).symm
    subst this
    exact ⟨rfl, hreg, rfl⟩

example : paramKey [.param 0, .const (.idx 0)] ≠ paramKey [.param 0, .const (.idx 1)] := by decide

end PonyVerif.Props.C29
