import PonyVerif.Model.ConnLock
namespace PonyVerif.Props.C19
open PonyVerif.Model.ConnLock

theorem C19_placeholder : St.init.lock = false := rfl

end PonyVerif.Props.C19
