/-
  C19 — connections and the SQLite transaction lock are always released.
  Property theorems only.  Model: `Model/ConnLock.lean` (mirrors SessionCache / SQLiteProvider / SQLitePool / Pool /
  wrap_dbapi_exceptions; every DB-API call asks the failure oracle `cf.fails : Nat → Bool`).  All statements quantify
  over EVERY oracle, every session program (`List (Op × Bool)`), every option set and every idle start state.
-/
import PonyVerif.Lemmas.ConnLock
import PonyVerif.Lemmas.LockInterleave
import PonyVerif.Lemmas.ConnLockSrc
namespace PonyVerif.Props.C19
open PonyVerif.Model.ConnLock

/-- the state of a thread between two sessions: no cache, nothing locked, no lock misuse so far, the pooled connection
    (if any) open and outside a transaction, every other connection ever opened closed exactly once -/
def Idle (s : St) : Prop :=
  AccF s.poolCon s.nextCon s.closed ∧ s.bad = false ∧ s.pre = false ∧ s.lock = false ∧ lockState s.trace = some .idle ∧
  s.hasCache = false ∧ s.cache.conn = none ∧ s.cache.inTx = false ∧ s.dirty = false

/-- `pool.pid` exists whenever `pool.con` does (otherwise `Pool.connect` raises AttributeError) -/
def PidOK (s : St) : Prop := s.poolCon.isSome = true → s.poolPid = true

/-- no DB-API call with index ≥ n fails -/
def QuietFrom (cf : Cfg) (n : Nat) : Prop := ∀ i, n ≤ i → cf.fails i = false

theorem idle_inv {cf : Cfg} {q p : Bool} {s : St} (h : Idle s) (hq : q = true → QuietFrom cf s.n ∧ PidOK s)
    (hp : p = true → PidOK s ∧ (cf.initGuard = false → s.poolPid = true)) : Inv cf q p s := by
  obtain ⟨hA, hb, hpre, hl, hls, hh, hc, hin, hd⟩ := h
  refine ⟨⟨hA, ⟨hb, hpre, by simpa [hl, phaseOfLock] using hls⟩, ⟨fun h => ⟨(hq h).1, (hq h).2⟩, hp⟩⟩, ?_⟩
  simp_all [CInv]

theorem inv_idle {cf : Cfg} {q p : Bool} {s : St} (h : Inv cf q p s) (hh : s.hasCache = false) : Idle s := by
  obtain ⟨⟨hA, ⟨hb, hpre, hls⟩, hF⟩, hl, htx, hcp, hdead, hdirty, hddl⟩ := h
  have hc := hdead hh
  have hin : s.cache.inTx = false := by cases h : s.cache.inTx <;> simp_all
  have hd : s.dirty = false := by cases h : s.dirty <;> simp_all
  have hl' : s.lock = false := by rw [hl, hin]
  exact ⟨hA, hb, hpre, hl', by simpa [hl', phaseOfLock] using hls, hh, hc, hin, hd⟩

example : Idle St.init := by simp [Idle, St.init, AccF, lockState]

/-! ### one session -/

/-- **C19 (one session).** However a session ends — for every option set, every body (operations, which of them the
    user's code catches, whether the body raises), every failure oracle and every idle start state — the thread is idle
    again afterwards: no cache, lock and pre-lock free, no lock misuse / failed assertion on the way, the connection
    returned to the pool outside a transaction or closed. -/
theorem C19_session_end (cf : Cfg) (hwf : cf.WF) (prog : List (Op × Bool)) (bodyRaises : Bool) (s : St) (h : Idle s) :
    Idle (dbSession cf prog bodyRaises s).2 := by
  have hI : Inv cf false false s := idle_inv h (by simp) (by simp)
  have := spec_dbSession cf false false hwf prog bodyRaises s hI
  unfold wp at this
  split at this <;> rename_i heq <;> simp only [heq]
  · exact inv_idle this.1 this.2
  · exact inv_idle this.1 this.2.1

/-- the lock is not left held, and the session never blocked on its own lock, released an unheld lock or failed an assertion -/
theorem C19_lock_released (cf : Cfg) (hwf : cf.WF) (prog : List (Op × Bool)) (bodyRaises : Bool) (s : St) (h : Idle s) :
    let s' := (dbSession cf prog bodyRaises s).2
    s'.lock = false ∧ s'.pre = false ∧ s'.bad = false ∧ s'.cache.inTx = false ∧ s'.hasCache = false := by
  obtain ⟨_, hb, hpre, hl, _, hh, _, hin, _⟩ := C19_session_end cf hwf prog bodyRaises s h
  exact ⟨hl, hpre, hb, hin, hh⟩

/-- every connection ever opened by the thread is, after the session, either the pooled connection (never closed, not
    inside a transaction) or was closed exactly once -/
theorem C19_connection_released_or_closed_once (cf : Cfg) (hwf : cf.WF) (prog : List (Op × Bool)) (bodyRaises : Bool)
    (s : St) (h : Idle s) :
    let s' := (dbSession cf prog bodyRaises s).2
    s'.cache.conn = none ∧ s'.dirty = false ∧
    ∀ k, k < s'.nextCon → (s'.poolCon = some k ∧ s'.closed.count k = 0) ∨ (s'.poolCon ≠ some k ∧ s'.closed.count k = 1) := by
  obtain ⟨⟨h1, h2, _, _⟩, _, _, _, _, _, hc, _, hd⟩ := C19_session_end cf hwf prog bodyRaises s h
  refine ⟨hc, hd, fun k hk => ?_⟩
  by_cases hp : (dbSession cf prog bodyRaises s).2.poolCon = some k
  · exact .inl ⟨hp, List.count_eq_zero.mpr (h1 k hp).2⟩
  · exact .inr ⟨hp, h2 k hk hp⟩

/-- the five named shapes of the quantifier are instances (read-only, optimistic write, immediate, serializable, ddl) -/
example (fails : Nat → Bool) (g : Bool) (k : Nat) (s : St) (h : Idle s) :
    Idle (dbSession { fails := fails, immediate := false, ddl := false, reconnect := false, initGuard := g, onConnect := k } [(.query, false)] false s).2 ∧
    Idle (dbSession { fails := fails, immediate := false, ddl := false, reconnect := false, initGuard := g, onConnect := k } [(.modify [false], false)] false s).2 ∧
    Idle (dbSession { fails := fails, immediate := true, ddl := false, reconnect := false, initGuard := g, onConnect := k } [(.query, false), (.modify [false], false)] false s).2 ∧
    Idle (dbSession { fails := fails, immediate := true, ddl := false, reconnect := false, initGuard := g, onConnect := k } [(.query, false), (.modify [false], false)] true s).2 ∧
    Idle (dbSession { fails := fails, immediate := true, ddl := true, reconnect := false, initGuard := g, onConnect := k } [(.write false, false)] false s).2 :=
  ⟨C19_session_end _ (by simp [Cfg.WF]) _ _ s h, C19_session_end _ (by simp [Cfg.WF]) _ _ s h,
   C19_session_end _ (by simp [Cfg.WF]) _ _ s h, C19_session_end _ (by simp [Cfg.WF]) _ _ s h,
   C19_session_end _ (by simp [Cfg.WF]) _ _ s h⟩

/-- **a flush that has nothing to write changes nothing the lock protocol depends on** (`cache.modified` set by
    create+delete, add+remove or a value set back): for every oracle it ends normally, makes no DB-API call, leaves
    `in_transaction` and the lock as they were and, outside a transaction, restores `immediate` — in particular `_exec_sql`'s
    `if cache.immediate: cache.in_transaction = True` cannot claim a transaction that was never begun -/
theorem C19_noop_flush (cf : Cfg) (s : St) (hI : Inv cf false false s) (hh : s.hasCache = true) (hp : s.cache.pending = []) :
    (cacheFlush cf s).1 = .ok () ∧ (s.cache.inTx = false → (cacheFlush cf s).2.cache.immediate = s.cache.immediate) ∧
    (cacheFlush cf s).2.cache.inTx = s.cache.inTx ∧ (cacheFlush cf s).2.lock = s.lock ∧ (cacheFlush cf s).2.n = s.n := by
  cases hin : s.cache.inTx <;>
    simp [cacheFlush, flushLoop, hp, hin, bind, bindM, getS, modC, PonyVerif.Model.ConnLock.tryFinally, pure, ret]

/-! ### sessions one after the other in one thread -/

/-- any sequence of sessions, each with its own options, body and oracle, leaves the thread idle -/
theorem C19_sessions (sessions : List (Cfg × List (Op × Bool) × Bool)) (hwf : ∀ x ∈ sessions, x.1.WF) :
    ∀ (s : St), Idle s → Idle (runSessions sessions s).2 := by
  induction sessions with
  | nil => intro s h; exact h
  | cons x rest ih =>
    intro s h
    obtain ⟨cf, prog, br⟩ := x
    have h1 := C19_session_end cf (hwf _ (List.mem_cons_self ..)) prog br s h
    have h2 := ih (fun y hy => hwf y (List.mem_cons_of_mem _ hy)) _ h1
    simp only [runSessions]
    exact h2

/-- `db.disconnect()` between sessions: for every oracle the thread stays idle; if `close()` does not fail the pool is empty
    afterwards, and in any case the formerly pooled connection has been closed exactly once (accounting of `Idle`) -/
theorem C19_disconnect (cf : Cfg) (s : St) (h : Idle s) :
    Idle (dbDisconnect cf s).2 ∧ ((dbDisconnect cf s).1 = .ok () → (dbDisconnect cf s).2.poolCon = none) := by
  have hI : Inv cf false false s := idle_inv h (by simp) (by simp)
  have := spec_dbDisconnect cf false false s hI
  unfold wp at this
  split at this <;> rename_i heq <;> simp only [heq]
  · exact ⟨inv_idle this.1 this.2.1, fun _ => this.2.2⟩
  · exact ⟨inv_idle this.1.1 this.1.2, fun h => by cases h⟩

/-- any sequence of sessions and `db.disconnect()` calls, each with its own options, body and oracle, leaves the thread idle -/
theorem C19_steps (steps : List Step)
    (hwf : ∀ st ∈ steps, match st with | .session cf _ _ => cf.WF | .disconnect _ => True) :
    ∀ (s : St), Idle s → Idle (runSteps steps s).2 := by
  induction steps with
  | nil => intro s h; exact h
  | cons st rest ih =>
    intro s h
    have h1 : Idle (runStep st s).2 := by
      cases st with
      | session cf prog br => exact C19_session_end cf (hwf _ (List.mem_cons_self ..)) prog br s h
      | disconnect cf => exact (C19_disconnect cf s h).1
    have h2 := ih (fun y hy => hwf y (List.mem_cons_of_mem _ hy)) _ h1
    simp only [runSteps]
    exact h2

/-- **a following session is neither blocked nor made to fail**: from any idle state in which `pool.pid` exists
    whenever `pool.con` does, a session during which no DB-API call fails and whose body does not raise ends normally
    (no exception of any kind, in particular no self-deadlock), and leaves such a state again -/
theorem C19_quiet_session_succeeds (cf : Cfg) (hwf : cf.WF) (prog : List (Op × Bool)) (s : St) (h : Idle s) (hpid : PidOK s)
    (hquiet : QuietFrom cf s.n) :
    (dbSession cf prog false s).1 = .ok () ∧ Idle (dbSession cf prog false s).2 ∧ PidOK (dbSession cf prog false s).2 := by
  have hI : Inv cf true false s := idle_inv h (fun _ => ⟨hquiet, hpid⟩) (by simp)
  have := spec_dbSession cf true false hwf prog false s hI
  unfold wp at this
  split at this <;> rename_i heq <;> simp only [heq]
  · exact ⟨trivial, inv_idle this.1 this.2, (this.1.1.2.2.1 rfl).2⟩
  · simp at this

/-- the full statement "later sessions never fail because of an earlier session", for the tree whose
    `SQLitePool._connect` is the variant `g` (false: as released; true: with fixes/C19-sqlitepool-connect-init.diff) -/
def C19_later_sessions_unaffected_full (g : Bool) : Prop :=
  ∀ (cf cf2 : Cfg) (prog prog2 : List (Op × Bool)) (br : Bool) (s : St), cf.initGuard = g → cf2.initGuard = g →
    cf.WF → cf2.WF → Idle s → PidOK s →
    QuietFrom cf2 (dbSession cf prog br s).2.n → (dbSession cf2 prog2 false (dbSession cf prog br s).2).1 = .ok ()

/-- a thread whose pool is half-initialised (`pool.con` assigned by a `_connect` that then failed, `pool.pid` never
    created) is poisoned: whatever the options and the oracle, every later session that needs the connection dies in
    `Pool.connect` with `AttributeError: 'SQLitePool' object has no attribute 'pid'` -/
theorem C19_half_initialised_pool_poisons (cf : Cfg) (s : St) (k : Nat) (hh : s.hasCache = false)
    (hpc : s.poolCon = some k) (hpid : s.poolPid = false) :
    (dbSession cf [(.query, false)] false s).1 = .error .attrError := by
  simp [dbSession, runBody, runOp, execSql, getCache, prepare, prepareCore, cacheConnect, baseConnect, poolConnect,
    exitSession, coreRollback, cacheClose, wrap, PonyVerif.Model.ConnLock.tryCatch, bind, bindM, getS, modS, assertM,
    raise, pure, ret, hh, hpc, hpid]

/-- … is FALSE for the code as released: in a thread that has never connected, let the first PRAGMA of
    `SQLitePool._connect` fail (call index 1).  `pool.con` is already assigned, `pool.pid` does not exist, and every later
    session of the thread fails although no DB-API call fails any more. -/
theorem C19_later_sessions_unaffected_full_false : ¬ C19_later_sessions_unaffected_full false := by
  intro h
  have hs : (dbSession { fails := fun i => i == 1, immediate := false, ddl := false, reconnect := false, initGuard := false } [(.query, false)] false St.init).2.poolPid = false ∧
      (dbSession { fails := fun i => i == 1, immediate := false, ddl := false, reconnect := false, initGuard := false } [(.query, false)] false St.init).2.poolCon = some 0 ∧
      (dbSession { fails := fun i => i == 1, immediate := false, ddl := false, reconnect := false, initGuard := false } [(.query, false)] false St.init).2.hasCache = false := by decide
  have := h { fails := fun i => i == 1, immediate := false, ddl := false, reconnect := false, initGuard := false } { fails := fun _ => false, immediate := false, ddl := false, reconnect := false, initGuard := false } [(.query, false)] [(.query, false)]
    false St.init rfl rfl (by simp [Cfg.WF]) (by simp [Cfg.WF]) (by simp [Idle, St.init, AccF, lockState]) (by simp [PidOK, St.init])
    (by intro i _; rfl)
  rw [C19_half_initialised_pool_poisons _ _ 0 hs.2.2 hs.2.1 hs.1] at this
  cases this

/-- the strongest true statement for both variants of `_connect`: if `pool.pid` exists whenever `pool.con` does and —
    only for `_connect` as released — the thread has completed a `_connect` before, then after ANY session (any faults)
    a session in which nothing fails succeeds, and the hypothesis holds again -/
theorem C19_later_sessions_unaffected_partial (cf cf2 : Cfg) (prog prog2 : List (Op × Bool)) (br : Bool) (s : St)
    (hwf : cf.WF) (hwf2 : cf2.WF) (h : Idle s) (hpid : PidOK s) (hguard : cf.initGuard = false → s.poolPid = true)
    (hquiet : QuietFrom cf2 (dbSession cf prog br s).2.n) :
    (dbSession cf2 prog2 false (dbSession cf prog br s).2).1 = .ok () ∧ PidOK (dbSession cf prog br s).2 ∧
    (cf.initGuard = false → (dbSession cf prog br s).2.poolPid = true) := by
  have hI : Inv cf false true s := idle_inv h (by simp) (fun _ => ⟨hpid, hguard⟩)
  have h1 := spec_dbSession cf false true hwf prog br s hI
  have hpid' : PidOK (dbSession cf prog br s).2 ∧ (cf.initGuard = false → (dbSession cf prog br s).2.poolPid = true) := by
    unfold wp at h1
    split at h1 <;> rename_i heq <;> simp only [heq] <;> exact h1.1.1.2.2.2 rfl
  exact ⟨(C19_quiet_session_succeeds cf2 hwf2 prog2 _ (C19_session_end cf hwf prog br s h) hpid'.1 hquiet).1, hpid'⟩

/-- with the guarded `_connect` the full statement holds -/
theorem C19_later_sessions_unaffected_guarded : C19_later_sessions_unaffected_full true := by
  intro cf cf2 prog prog2 br s hg _ hwf hwf2 h hpid hquiet
  exact (C19_later_sessions_unaffected_partial cf cf2 prog prog2 br s hwf hwf2 h hpid (by simp [hg]) hquiet).1

/-- the guard is satisfiable -/
example : ∃ s, Idle s ∧ s.poolPid = true :=
  ⟨{ St.init with poolPid := true }, by simp [Idle, St.init, AccF, lockState], rfl⟩

/-! ### what other threads see -/

theorem lockEvents_append (a b : List Ev) : lockEvents (a ++ b) = lockEvents a ++ lockEvents b := by
  induction a with
  | nil => rfl
  | cons e t ih => cases e <;> simp [lockEvents, ih]

theorem run_append (ph : Phase) (a b : List LEv) : Phase.run ph (a ++ b) = (Phase.run ph a).bind (fun ph' => Phase.run ph' b) := by
  induction a generalizing ph with
  | nil => simp [Phase.run]
  | cons e t ih =>
    simp only [List.cons_append, Phase.run]
    cases ph.step e <;> simp [ih]

/-- `lockState` (newest first, over all events) is the protocol run over the chronological lock events -/
theorem lockState_eq_run (tr : List Ev) : lockState tr = Phase.run .idle (lockEvents tr.reverse) := by
  induction tr with
  | nil => rfl
  | cons e t ih =>
    rw [List.reverse_cons, lockEvents_append, run_append, ← ih]
    cases e <;> cases h : lockState t <;> simp [lockState, lockEvents, Phase.run, h] <;>
      (rename_i ph; cases ph.step _ <;> simp)

/-- **lock protocol of a session**: for every oracle, options, body and idle start state, the chronological lock events
    of the session are a word of `(preAcq acq preRel rel)*` — every acquire is matched by exactly one release, nothing
    is held at the end -/
theorem C19_lock_protocol (cf : Cfg) (hwf : cf.WF) (prog : List (Op × Bool)) (bodyRaises : Bool) (s : St) (h : Idle s) :
    Phase.run .idle (lockEvents (dbSession cf prog bodyRaises { s with trace := [] }).2.trace.reverse) = some .idle := by
  have h0 : Idle { s with trace := [] } := by
    obtain ⟨hA, hb, hpre, hl, hls, hh, hc, hin, hd⟩ := h
    exact ⟨hA, hb, hpre, hl, rfl, hh, hc, hin, hd⟩
  have := (C19_session_end cf hwf prog bodyRaises _ h0).2.2.2.2.1
  rwa [lockState_eq_run] at this

/-! ### threads: interleaved steps of N sessions -/

open Interleave in
/-- the lock events of N arbitrary sessions (each: options, body, oracle, idle start state of its own thread) -/
def sessionEvents (xs : List (Cfg × List (Op × Bool) × Bool × St)) : List (List LEv) :=
  xs.map fun x => lockEvents (dbSession x.1 x.2.1 x.2.2.1 { x.2.2.2 with trace := [] }).2.trace.reverse

open Interleave in
/-- **C19 (threads).** For N sessions in N threads and EVERY schedule of their steps: at most one thread holds the
    transaction lock; a thread that has finished its session holds nothing; while some session is unfinished some
    thread can move (no deadlock); and a session whose competitors have all finished is never blocked. -/
theorem C19_threads (xs : List (Cfg × List (Op × Bool) × Bool × St)) (hx : ∀ x ∈ xs, x.1.WF ∧ Idle x.2.2.2)
    (sched : List Nat) :
    let w := runSchedule (initial (sessionEvents xs)) sched
    w.threads.countP Thread.holdsTx ≤ 1 ∧
    (∀ (j : Nat) (t : Thread), w.threads[j]? = some t → t.rest = [] → t.phase = .idle) ∧
    ((∃ (j : Nat) (t : Thread), w.threads[j]? = some t ∧ t.rest ≠ []) → ∃ i, (step w i).isSome = true) ∧
    (∀ (i : Nat) (t : Thread), w.threads[i]? = some t → t.rest ≠ [] →
      (∀ (j : Nat) (t' : Thread), j ≠ i → w.threads[j]? = some t' → t'.rest = []) → (step w i).isSome = true) := by
  have h0 : WInv (initial (sessionEvents xs)) := by
    apply initial_inv
    intro evs hevs
    simp only [sessionEvents, List.mem_map] at hevs
    obtain ⟨x, hxm, rfl⟩ := hevs
    exact C19_lock_protocol x.1 (hx x hxm).1 x.2.1 x.2.2.1 x.2.2.2 (hx x hxm).2
  have hI := runSchedule_inv sched h0
  exact ⟨mutex hI, fun j t ht hf => finished_idle hI ht hf, progress hI, fun i t ht hne ho => not_blocked_by_finished hI ht hne ho⟩

/-! ### bridges to the source: the methods as they are written TODAY (regenerated into `Gen/ConnLockSrc.lean` on every run)

Each theorem says: the interpretation of the term `harness/gen_c19.py` extracted from the current source of the method is,
as a function on states, the model function all theorems above are about.  A change of the method that changes its
behaviour breaks the theorem; a statement form the extractor does not know stops the generation (both fail closed). -/

open Src in
section
/-- `SQLiteProvider.acquire_lock` -/
theorem C19_src_acquire_lock (cf : Cfg) (con : Nat) : exec cf con Gen.ConnLockSrc.acquireLock = acquireLock := src_acquire_lock cf con

/-- `SQLiteProvider.release_lock` -/
theorem C19_src_release_lock (cf : Cfg) (con : Nat) : exec cf con Gen.ConnLockSrc.releaseLock = releaseLock := src_release_lock cf con

/-- `SQLiteProvider.set_transaction_mode` -/
theorem C19_src_set_transaction_mode (cf : Cfg) (con : Nat) : exec cf con Gen.ConnLockSrc.setTransactionMode = setTransactionMode cf con := src_set_transaction_mode cf con

/-- `SQLiteProvider.commit` -/
theorem C19_src_commit (cf : Cfg) (con : Nat) : exec cf con Gen.ConnLockSrc.sqliteCommit = provCommit cf con := src_commit cf con

/-- `SQLiteProvider.rollback` -/
theorem C19_src_rollback (cf : Cfg) (con : Nat) : exec cf con Gen.ConnLockSrc.sqliteRollback = provRollback cf con := src_rollback cf con

/-- `SQLiteProvider.drop` -/
theorem C19_src_drop (cf : Cfg) (con : Nat) : exec cf con Gen.ConnLockSrc.sqliteDrop = provDrop cf con := src_drop cf con

/-- `SQLiteProvider.release` -/
theorem C19_src_release (cf : Cfg) (con : Nat) : exec cf con Gen.ConnLockSrc.sqliteRelease = provRelease cf con := src_release cf con

/-- `SQLitePool.drop (file database)` -/
theorem C19_src_sqlite_pool_drop (cf : Cfg) (con : Nat) : exec cf con Gen.ConnLockSrc.sqlitePoolDrop = poolDrop cf con := src_sqlite_pool_drop cf con

/-- `DBAPIProvider.commit` -/
theorem C19_src_dbapi_commit (cf : Cfg) (con : Nat) : exec cf con Gen.ConnLockSrc.dbapiCommit = baseCommit cf con := src_dbapi_commit cf con

/-- `DBAPIProvider.rollback` -/
theorem C19_src_dbapi_rollback (cf : Cfg) (con : Nat) : exec cf con Gen.ConnLockSrc.dbapiRollback = baseRollback cf con := src_dbapi_rollback cf con

/-- `DBAPIProvider.drop` -/
theorem C19_src_dbapi_drop (cf : Cfg) (con : Nat) : exec cf con Gen.ConnLockSrc.dbapiDrop = baseDrop cf con := src_dbapi_drop cf con

/-- `DBAPIProvider.release` -/
theorem C19_src_dbapi_release (cf : Cfg) (con : Nat) : exec cf con Gen.ConnLockSrc.dbapiRelease = baseRelease cf con := src_dbapi_release cf con

/-- `Pool.release` -/
theorem C19_src_pool_release (cf : Cfg) (con : Nat) : exec cf con Gen.ConnLockSrc.poolRelease = poolRelease cf con := src_pool_release cf con

/-- `Pool.drop` -/
theorem C19_src_pool_drop (cf : Cfg) (con : Nat) : exec cf con Gen.ConnLockSrc.poolDrop = poolDrop cf con := src_pool_drop cf con

/-- `SessionCache.flush` as it is written today still restores `cache.immediate` in a `finally` (re-read from the source on
    every run): the premise under which `cacheFlush` of the model — and with it `C19_noop_flush` — mirrors it -/
theorem C19_src_flush_restores_immediate : Gen.ConnLockSrc.flushRestoresImmediateInFinally = true := rfl

/-- **the lock sites, on the regenerated source**: for every oracle, every path through today's `SQLiteProvider.commit`,
    `.rollback` and `.drop` — normal or raising — ends with `in_transaction` False and the transaction lock free, given
    that on entry the lock was held exactly when `in_transaction` was set -/
theorem C19_src_lock_sites (cf : Cfg) (con : Nat) (s : St) (hG : G cf false false s) (hl : s.lock = s.cache.inTx) :
    wp (exec cf con Gen.ConnLockSrc.sqliteCommit) (fun _ s' => s'.lock = false ∧ s'.cache.inTx = false ∧ s'.bad = false)
      (fun _ s' => s'.lock = false ∧ s'.cache.inTx = false ∧ s'.bad = false) s ∧
    wp (exec cf con Gen.ConnLockSrc.sqliteRollback) (fun _ s' => s'.lock = false ∧ s'.cache.inTx = false ∧ s'.bad = false)
      (fun _ s' => s'.lock = false ∧ s'.cache.inTx = false ∧ s'.bad = false) s ∧
    (s.poolCon = some con →
      wp (exec cf con Gen.ConnLockSrc.sqliteDrop) (fun _ s' => s'.lock = false ∧ s'.cache.inTx = false ∧ s'.bad = false)
        (fun _ s' => s'.lock = false ∧ s'.cache.inTx = false ∧ s'.bad = false) s) := by
  rw [C19_src_commit, C19_src_rollback, C19_src_drop]
  refine ⟨?_, ?_, fun hc => ?_⟩
  · exact wp_mono (spec_provCommit cf false false con s hG hl) (fun _ s' h => ⟨h.2.1, h.2.2.1, h.1.2.1.1⟩)
      (fun _ s' h => ⟨h.1.2.1, h.1.2.2.1, h.1.1.2.1.1⟩)
  · exact wp_mono (spec_provRollback cf false false con s hG hl) (fun _ s' h => ⟨h.2.1, h.2.2.1, h.1.2.1.1⟩)
      (fun _ s' h => ⟨h.1.2.1, h.1.2.2.1, h.1.1.2.1.1⟩)
  · exact wp_mono (spec_provDrop cf false false con s hG hl hc) (fun _ s' h => ⟨h.2.1, h.2.2.1, h.1.2.1.1⟩)
      (fun _ s' h => ⟨h.1.2.1, h.1.2.2.1, h.1.1.2.1.1⟩)

end

end PonyVerif.Props.C19
