/-
  C21 — repeated reads in a session return the same value or fail loudly.  Property theorems only.

  Model: PonyVerif/Model/RepRead.lean.  One reading session; before EVERY reader operation the adversary installs an
  ARBITRARY committed database (`run` takes a list of (database, operation) pairs).  `guarded = true` is the code as it
  is now (`Set.db_reverse_remove` with the phantom check of fix 6b92706), `guarded = false` the code before it.
-/
import PonyVerif.Lemmas.RepRead
import PonyVerif.Gen.OccTable
import PonyVerif.Lemmas.CollRead
import PonyVerif.Gen.CollGuards
namespace PonyVerif.Props.C21
open PonyVerif.Model.RepRead

/-- **pinned values are frozen** (any state, any database, both code variants, also when the operation raises):
    for an instance in the identity map, an attribute that is pinned -- non-volatile and either its read bit is set or
    it carries an unflushed assignment of the session (`prot`) -- stays pinned and keeps its `_vals_` entry under EVERY
    operation (queries, loads, collection operations, assignments to other attributes, `commit()` in the middle of the
    session) except an assignment to that very attribute -/
theorem C21_step_frozen (cfg : Cfg) (g : Bool) (s : Sess) (db : Db) (op : Op) (c : Nat) (a : Attr)
    (hw : ∀ v, op ≠ .write c a v) (hp : (s.c c).present = true) (hr : prot cfg (s.c c) a = true) :
    ((exec cfg g s db op).1.c c).present = true ∧ prot cfg ((exec cfg g s db op).1.c c) a = true ∧
    ((exec cfg g s db op).1.c c).vals a = (s.c c).vals a := by
  obtain ⟨h1, h2⟩ := exec_keeps cfg g s db op c a hw hp
  exact ⟨h1, h2 hr⟩

/-- `commit()` turns every unflushed assignment into a read bit ([Entity._save_updated_]:
    `_rbits_ |= _wbits_ & _all_bits_except_volatile_` BEFORE `_wbits_ = 0`) -/
theorem C21_commit_pins_written (cfg : Cfg) (s : Sess) (db : Db) (c : Nat) (a : Attr)
    (hok : (saveUpdated cfg s db c).2 = none) (hw : (s.c c).wmask a = true) :
    ((saveUpdated cfg s db c).1.c c).rbits a = true ∧ ((saveUpdated cfg s db c).1.c c).wbits a = false := by
  unfold saveUpdated at hok ⊢
  simp only at hok ⊢
  split
  · rename_i h; simp [h] at hok
  · simp [setC, hw]

/-- a successful attribute read leaves the value in `_vals_` and, unless the attribute is volatile, pinned -/
theorem C21_read_observes (cfg : Cfg) (g : Bool) (s s1 : Sess) (db : Db) (c : Nat) (a : Attr) (v : Val)
    (h : exec cfg g s db (.readAttr c a) = (s1, .val v)) :
    (s1.c c).present = true ∧ (s1.c c).vals a = some v ∧ (cfg.volatile a = false → prot cfg (s1.c c) a = true) := by
  have hs := (readCore_spec cfg g s db c a).2.1
  simp only [exec] at h
  split at h
  · simp at h
  · rename_i s2 w heq
    simp only [Prod.mk.injEq, Res.val.injEq] at h
    obtain ⟨rfl, rfl⟩ := h
    have := hs w (by rw [heq])
    rw [heq] at this
    exact this

/-- a successful assignment leaves the value in `_vals_` and, unless the attribute is volatile, pinned -/
theorem C21_write_observes (cfg : Cfg) (g : Bool) (s s1 : Sess) (db : Db) (c : Nat) (a : Attr) (v : Val)
    (h : exec cfg g s db (.write c a v) = (s1, .ok)) :
    (s1.c c).present = true ∧ (s1.c c).vals a = some v ∧ (cfg.volatile a = false → prot cfg (s1.c c) a = true) := by
  simp only [exec] at h
  split at h
  · simp at h
  · rename_i hc
    simp only [Prod.mk.injEq, and_true] at h
    subst h
    simp only [Bool.or_eq_true, Bool.not_eq_true', not_or] at hc
    refine ⟨by simpa [setC] using hc.1.1, by simp [setC], fun hv => by simp [setC, prot, hv]⟩

/-- reading a pinned value again -/
theorem read_of_pinned (cfg : Cfg) (g : Bool) (s : Sess) (db : Db) (c : Nat) (a : Attr) (v : Val)
    (hp : (s.c c).present = true) (hv : (s.c c).vals a = some v) :
    (exec cfg g s db (.readAttr c a)).2 = .val v := by
  have hok := (readCore_spec cfg g s db c a).2.2 hp v hv
  simp only [exec]
  split
  · rename_i heq; rw [heq] at hok; simp at hok
  · rename_i s2 w heq
    rw [heq] at hok
    simp only [Except.ok.injEq] at hok
    rw [hok]

/-- **C21, attributes** (all histories, all adversary choices): once `obj.attr` of a non-volatile attribute returned `v`,
    after ANY further operations of the session -- queries, loads, assignments to other attributes, `commit()` --
    interleaved with ANY committed changes of other sessions, reading it again returns `v`, as long as the session does not
    itself assign that attribute (the operations in between may raise; the read cannot return anything else) -/
theorem C21_attr_repeat (cfg : Cfg) (g : Bool) (s s1 : Sess) (db1 : Db) (c : Nat) (a : Attr) (v : Val)
    (h : exec cfg g s db1 (.readAttr c a) = (s1, .val v)) (hnv : cfg.volatile a = false)
    (tr : List (Db × Op)) (hnw : NoWrite c a tr) (db2 : Db) :
    (exec cfg g (runS cfg g s1 tr) db2 (.readAttr c a)).2 = .val v := by
  obtain ⟨hp, hv, hr⟩ := C21_read_observes cfg g s s1 db1 c a v h
  obtain ⟨hp2, h2⟩ := run_keeps cfg g c a tr s1 hnw hp
  obtain ⟨_, hv2⟩ := h2 (hr hnv)
  exact read_of_pinned cfg g _ db2 c a v hp2 (by rw [hv2, hv])

/-- **C21, own writes** (all histories, all adversary choices): a value the session assigned itself is what it reads
    afterwards -- before the flush, after `commit()` in the middle of the session, and after any re-fetch of the row
    following any committed change by others -- until it assigns the attribute again -/
theorem C21_own_write_repeat (cfg : Cfg) (g : Bool) (s s1 : Sess) (db1 : Db) (c : Nat) (a : Attr) (v : Val)
    (h : exec cfg g s db1 (.write c a v) = (s1, .ok)) (hnv : cfg.volatile a = false)
    (tr : List (Db × Op)) (hnw : NoWrite c a tr) (db2 : Db) :
    (exec cfg g (runS cfg g s1 tr) db2 (.readAttr c a)).2 = .val v := by
  obtain ⟨hp, hv, hr⟩ := C21_write_observes cfg g s s1 db1 c a v h
  obtain ⟨hp2, h2⟩ := run_keeps cfg g c a tr s1 hnw hp
  obtain ⟨_, hv2⟩ := h2 (hr hnv)
  exact read_of_pinned cfg g _ db2 c a v hp2 (by rw [hv2, hv])

/-- the same through `x in p.kids` ([SetInstance.__contains__] reads the item's reference; the model never assigns it) -/
theorem C21_contains_repeat (cfg : Cfg) (g : Bool) (s s1 : Sess) (db1 : Db) (c : Nat) (v : Val)
    (h : exec cfg g s db1 (.readAttr c refAttr) = (s1, .val v)) (hnv : cfg.volatile refAttr = false)
    (tr : List (Db × Op)) (hnw : NoWrite c refAttr tr) (db2 : Db) (p : Nat) :
    (exec cfg g (runS cfg g s1 tr) db2 (.contains p c)).2 = .bool (v == (p : Int)) := by
  obtain ⟨hp, hv, hr⟩ := C21_read_observes cfg g s s1 db1 c refAttr v h
  obtain ⟨hp2, h2⟩ := run_keeps cfg g c refAttr tr s1 hnw hp
  obtain ⟨_, hv2⟩ := h2 (hr hnv)
  have hok := (readCore_spec cfg g (runS cfg g s1 tr) db2 c refAttr).2.2 hp2 v (by rw [hv2, hv])
  simp only [exec]
  split
  · rename_i heq; rw [heq] at hok; simp at hok
  · rename_i s2 w heq
    rw [heq] at hok
    simp only [Except.ok.injEq] at hok
    rw [hok]

/-- **loud**: when `_db_set_` accepts a re-fetched row without raising, every attribute whose read bit is set has the
    database value the session already holds in `_dbvals_` -/
theorem C21_reload_detects (g : Bool) (s : Sess) (cid : Nat) (avdict : List (Attr × Val))
    (hok : (dbSetObj g s cid avdict).2 = none) (a : Attr) (nv : Val) (hm : (a, nv) ∈ avdict)
    (hr : (s.c cid).rbits a = true) : (s.c cid).dbvals a = some nv := by
  unfold dbSetObj at hok
  simp only at hok
  have h2 := (loop2_spec g cid (avdict.filter (fun x => !((s.c cid).dbvals x.1 == some x.2))) s).2
  split at hok
  · simp at hok
  · rename_i s1 heq
    have hnr := h2 (by rw [heq])
    by_cases hd : (s.c cid).dbvals a = some nv
    · exact hd
    · have : (a, nv) ∈ avdict.filter (fun x => !((s.c cid).dbvals x.1 == some x.2)) := by
        simp [List.mem_filter, hm, hd]
      have := hnr _ this
      simp only at this
      rw [hr] at this; cases this

/-- **fully loaded collections are frozen** (current code; any state, database, operation) -/
theorem C21_step_full (cfg : Cfg) (s : Sess) (db : Db) (op : Op) (p : Nat) (sd : SetData)
    (hk : s.kids p = some sd) (hf : sd.full = true) :
    ∃ sd', (exec cfg true s db op).1.kids p = some sd' ∧ sd'.full = true ∧ sd'.items = sd.items :=
  exec_full cfg s db op p sd hk hf

/-- what a successful iteration / `len` / `is_empty() = True` establishes: the collection is fully loaded and the
    result describes its items -/
theorem C21_iter_observes (cfg : Cfg) (g : Bool) (s s1 : Sess) (db : Db) (p : Nat) (l : List Nat)
    (h : exec cfg g s db (.iter p) = (s1, .objs l)) : ∃ sd, s1.kids p = some sd ∧ sd.full = true ∧ sd.items = l := by
  have hs := (loadColl_spec cfg g s db p).1
  simp only [exec] at h
  split at h
  · simp at h
  · rename_i s2 heq
    rw [heq] at hs
    obtain ⟨sd, hk, hf⟩ := hs rfl
    simp only at hk
    rw [hk] at h
    simp only [Prod.mk.injEq, Res.objs.injEq] at h
    obtain ⟨rfl, rfl⟩ := h
    exact ⟨sd, by rw [markItems_kids]; exact hk, hf, rfl⟩

theorem C21_len_observes (cfg : Cfg) (g : Bool) (s s1 : Sess) (db : Db) (p : Nat) (n : Nat)
    (h : exec cfg g s db (.len p) = (s1, .num n)) : ∃ sd, s1.kids p = some sd ∧ sd.full = true ∧ sd.items.length = n := by
  have hs := (loadColl_spec cfg g s db p).1
  simp only [exec] at h
  split at h
  · simp at h
  · rename_i s2 heq
    rw [heq] at hs
    obtain ⟨sd, hk, hf⟩ := hs rfl
    simp only at hk
    rw [hk] at h
    simp only [Prod.mk.injEq, Res.num.injEq] at h
    obtain ⟨rfl, rfl⟩ := h
    exact ⟨sd, hk, hf, rfl⟩

/-- **C21, collections** (current code, all histories, all adversary choices): once a collection is fully loaded with
    items `sd.items`, after ANY further operations interleaved with ANY committed changes, iteration returns exactly these
    items, `len` their number, `is_empty` whether there are none -/
theorem C21_full_collection_stable (cfg : Cfg) (s : Sess) (p : Nat) (sd : SetData)
    (hk : s.kids p = some sd) (hf : sd.full = true) (tr : List (Db × Op)) (db : Db) :
    (exec cfg true (runS cfg true s tr) db (.iter p)).2 = .objs sd.items ∧
    (exec cfg true (runS cfg true s tr) db (.len p)).2 = .num sd.items.length ∧
    (exec cfg true (runS cfg true s tr) db (.isEmpty p)).2 = .bool sd.items.isEmpty := by
  obtain ⟨sd2, hk2, hf2, hi2⟩ := run_full cfg tr s p sd hk hf
  have hl := (loadColl_spec cfg true (runS cfg true s tr) db p).2 sd2 hk2 hf2
  refine ⟨?_, ?_, ?_⟩
  · simp only [exec, hl, hk2, hi2]
  · simp only [exec, hl, hk2, hi2]
  · simp only [exec, hk2, hf2, if_true, hi2]

/-- iteration observed `l` ⇒ every later iteration returns `l`, every later `len` returns `l.length` -/
theorem C21_iter_repeat (cfg : Cfg) (s s1 : Sess) (db1 : Db) (p : Nat) (l : List Nat)
    (h : exec cfg true s db1 (.iter p) = (s1, .objs l)) (tr : List (Db × Op)) (db2 : Db) :
    (exec cfg true (runS cfg true s1 tr) db2 (.iter p)).2 = .objs l ∧
    (exec cfg true (runS cfg true s1 tr) db2 (.len p)).2 = .num l.length := by
  obtain ⟨sd, hk, hf, rfl⟩ := C21_iter_observes cfg true s s1 db1 p l h
  have := C21_full_collection_stable cfg s1 p sd hk hf tr db2
  exact ⟨this.1, this.2.1⟩

/-- `len` observed `n` ⇒ every later `len` returns `n` and every later iteration returns `n` items -/
theorem C21_len_repeat (cfg : Cfg) (s s1 : Sess) (db1 : Db) (p : Nat) (n : Nat)
    (h : exec cfg true s db1 (.len p) = (s1, .num n)) (tr : List (Db × Op)) (db2 : Db) :
    (exec cfg true (runS cfg true s1 tr) db2 (.len p)).2 = .num n ∧
    ∃ l, (exec cfg true (runS cfg true s1 tr) db2 (.iter p)).2 = .objs l ∧ l.length = n := by
  obtain ⟨sd, hk, hf, hn⟩ := C21_len_observes cfg true s s1 db1 p n h
  have := C21_full_collection_stable cfg s1 p sd hk hf tr db2
  exact ⟨by rw [this.2.1, hn], sd.items, this.1, hn⟩

/-! ### the code before fix 6b92706 (`Set.db_reverse_remove` without the phantom check) -/

def wCfg : Cfg := ⟨[0, 1], fun _ => false, fun _ => false⟩
/-- children 1 and 2 of parent 1 -/
def wDb1 : Db := [(1, [(0, 1), (1, 10)]), (2, [(0, 1), (1, 20)])]
/-- another session moved child 1 to parent 2 -/
def wDb2 : Db := [(1, [(0, 2), (1, 10)]), (2, [(0, 1), (1, 20)])]
/-- `len(p1.kids)`; [concurrent UPDATE]; re-fetch both rows; `len(p1.kids)` -/
def wTrace : List (Db × Op) := [(wDb1, .len 1), (wDb2, .fetch [1, 2] none [0, 1]), (wDb2, .len 1)]

/-- the statement "a `len` that was observed is repeated or the history raises" for the unguarded code … -/
def C21_len_repeat_unguarded_full : Prop :=
  ∀ (cfg : Cfg) (tr : List (Db × Op)) (p n m : Nat) (db1 db2 : Db) (s1 : Sess),
    exec cfg false Sess.init db1 (.len p) = (s1, .num n) →
    (∀ r, r ∈ (run cfg false s1 tr).2 → ∀ e, r ≠ .err e) →
    (exec cfg false (runS cfg false s1 tr) db2 (.len p)).2 = .num m → m = n

/-- … is FALSE: witness (this is what fix 6b92706 repaired; the engine replays it on the real code on every run) -/
theorem C21_len_repeat_unguarded_full_false : ¬ C21_len_repeat_unguarded_full := by
  intro h
  have hres : (run wCfg false (exec wCfg false Sess.init wDb1 (.len 1)).1 [(wDb2, .fetch [1, 2] none [0, 1])]).2
      = [.objs [1, 2]] := by decide
  have := h wCfg [(wDb2, .fetch [1, 2] none [0, 1])] 1 2 1 wDb1 wDb2 (exec wCfg false Sess.init wDb1 (.len 1)).1
    (Prod.ext rfl (by decide))
    (by intro r hr e; rw [hres] at hr; simp only [List.mem_singleton] at hr; subst hr; simp)
    (by decide)
  cases this

/-- the same history on the current code: the re-fetch raises UnrepeatableReadError -/
theorem C21_witness_guarded : (run wCfg true Sess.init wTrace).2 = [.num 2, .err .unrepeatable, .num 2] := by decide

/-- partial theorem for the unguarded code: whatever was observed by ITERATION is protected by the read bits that
    [Set.copy] sets on every item's reference, independent of the phantom check -/
theorem C21_iter_items_keep_reference (cfg : Cfg) (g : Bool) (s s1 : Sess) (db1 : Db) (c : Nat) (v : Val)
    (h : exec cfg g s db1 (.readAttr c refAttr) = (s1, .val v)) (hnv : cfg.volatile refAttr = false)
    (tr : List (Db × Op)) (hnw : NoWrite c refAttr tr) :
    ((runS cfg g s1 tr).c c).vals refAttr = some v := by
  obtain ⟨hp, hv, hr⟩ := C21_read_observes cfg g s s1 db1 c refAttr v h
  obtain ⟨_, h2⟩ := run_keeps cfg g c refAttr tr s1 hnw hp
  rw [(h2 (hr hnv)).2, hv]

/-- the hypotheses of the repeat theorems are satisfiable: a read that succeeds, a collection that loads -/
example : (exec wCfg true Sess.init wDb1 (.len 1)).2 = .num 2 := by decide
example : (run wCfg true Sess.init [(wDb1, .fetch [1] none [0, 1]), (wDb1, .readAttr 1 1)]).2 = [.objs [1], .val 10] := by decide
/-- the history of seeded change c21-1 on the model: assign, read back, commit, [others commit 99], re-fetch -> raises -/
example : (run wCfg true Sess.init [(wDb1, .fetch [1] none [0, 1]), (wDb1, .write 1 1 50), (wDb1, .readAttr 1 1), (wDb1, .commit),
    ([(1, [(0, 1), (1, 99)]), (2, [(0, 1), (1, 20)])], .fetch [1] none [0, 1]), ([], .readAttr 1 1)]).2
    = [.objs [1], .ok, .val 50, .ok, .err .unrepeatable, .val 50] := by decide

/-! ### bridge to the table probed from the real code on every run (harness/gen_c20.py -> Gen/OccTable.lean)

The per-attribute primitives of the model -- what `obj.a`, `obj.a = v`, `_db_set_` and the tail of `_save_updated_` +
`_update_dbvals_` do to the read bit, the write bit, `_vals_` and `_dbvals_` of ONE attribute -- are evaluated on probe
sessions built from the same flags the generator uses on real objects and compared, row by row, with the regenerated
table.  A change of the source that alters a row (e.g. `_wbits_ = 0` before `_rbits_ |= _wbits_ ...`) breaks these. -/

open PonyVerif.Gen.OccTable

def probeCfg (vol : Bool) : Cfg := ⟨[1], fun a => a == 1 && vol, fun _ => false⟩
def probeObj (vals dbvals : Option Val) (r w vol : Bool) : CObj :=
  ⟨true, fun a => if a = 1 then vals else none, fun a => if a = 1 then dbvals else none,
   fun a => a == 1 && r, fun a => a == 1 && w, fun a => a == 1 && w && !vol⟩
def probeSess (o : CObj) : Sess := ⟨fun c => if c = 0 then o else CObj.absent, fun _ => none, []⟩

/-- read bit after `obj.a` ([Attribute.__get__]), starting from `_rbits_ = 0` -/
def modelGet (w vol : Bool) : Bool :=
  ((readFinish (probeCfg vol) (probeSess (probeObj (some 5) (some 3) false w vol), none) 0 1).1.c 0).rbits 1

/-- (read bit, write bit) after `obj.a = 5` ([Attribute.__set__]) -/
def modelSet (r w : Bool) : Bool × Bool :=
  let o := (exec (probeCfg false) true (probeSess (probeObj (some 3) (some 3) r w false)) [] (.write 0 1 5)).1.c 0
  (o.rbits 1, o.wbits 1)

/-- [Entity._db_set_] with one attribute: 0 = UnrepeatableReadError, else 1 + 2·[_dbvals_ = new] + [_vals_ = new] -/
def modelDbSet (loaded same r w : Bool) : Nat :=
  let new : Val := if same then 3 else 7
  let o := probeObj (if w then some 5 else if loaded then some 3 else none) (if loaded then some 3 else none) r w false
  match dbSetObj true (probeSess o) 0 [(1, new)] with
  | (_, some _) => 0
  | (s1, none) => 1 + (if (s1.c 0).dbvals 1 == some new then 2 else 0) + (if (s1.c 0).vals 1 == some new then 1 else 0)

/-- tail of [Entity._save_updated_] + [Entity._update_dbvals_]: (read bit, write bit, attribute still in `_vals_`,
    `_dbvals_`: 0 absent / 1 the written value / 2 the old value) -/
def modelSave (r w vol vn : Bool) : Bool × Bool × Bool × Nat :=
  let old : Val := if vn && !w then -1 else 3
  let written : Val := if vn then -1 else 5
  let o := probeObj (if w then some written else some old) (some old) r w vol
  let o1 := (saveUpdated (probeCfg vol) (probeSess o) [(0, [(1, old)])] 0).1.c 0
  (o1.rbits 1, o1.wbits 1, (o1.vals 1).isSome,
   match o1.dbvals 1 with
   | none => 0
   | some d => if w && d == written && written != old then 1 else if d == old then 2 else 3)

/-- the attribute is among the optimistic criteria of the UPDATE ⇔ the UPDATE is refused when its column changed -/
def modelCrit (r : Bool) : Bool :=
  !optimisticOk (probeCfg false) (probeObj (some 3) (some 3) r false false) [(0, [(1, 9)])] 0

theorem C21_bridge_get : ∀ row ∈ getRows, modelGet row.1.1 row.1.2.1 = row.2 := by decide
theorem C21_bridge_set : ∀ row ∈ setRows, modelSet row.1.1 row.1.2 = row.2 := by decide
theorem C21_bridge_dbset : ∀ row ∈ dbSetRows, modelDbSet row.1.1 row.1.2.1 row.1.2.2.1 row.1.2.2.2 = row.2 := by decide
theorem C21_bridge_save : ∀ row ∈ saveRows, modelSave row.1.1 row.1.2.1 row.1.2.2.1 row.1.2.2.2 = row.2 := by decide
theorem C21_bridge_crit : ∀ row ∈ critRows, row.1.1 = 0 → modelCrit row.1.2 = row.2 := by decide

/-! ### many-to-many collections: the read set of both sides (Model/CollRead.lean)

`Set.load` (many-to-many branch), `Set.prefetch_load_all`, `Set.db_reverse_add`; the three phantom guards are parameters of
the model and are read off the source on every run (harness/gen_c21.py -> Gen/CollGuards.lean). -/

section ManyToMany
open PonyVerif.Model

/-- the guards of the code AS CODED -/
def codedGuards : CollRead.Guards :=
  ⟨PonyVerif.Gen.CollGuards.addChecks, PonyVerif.Gen.CollGuards.prefetchChecks, PonyVerif.Gen.CollGuards.loadSkipsFull⟩

/-- bridge: the source has all three guards the theorems need, the `disappeared` checks the model makes unconditionally, and
    the guard of `db_reverse_remove` that the one-to-many model takes as `guarded = true` -/
theorem C21_guards_as_coded :
    CollRead.AllGuards codedGuards ∧ PonyVerif.Gen.CollGuards.disappearChecks = true ∧ PonyVerif.Gen.CollGuards.removeChecks = true := by
  refine ⟨⟨by decide, by decide, by decide⟩, by decide, by decide⟩

/-- **a fully read many-to-many collection changes only with UnrepeatableReadError** (any state, any committed link table,
    any operation -- iteration, len, load, explicit prefetch -- of either side, also when it raises): with the guards as coded,
    a fully loaded collection stays fully loaded with the same items -/
theorem C21_m2m_step_full (s : CollRead.Sess) (db : CollRead.Db) (op : CollRead.Op) (side : Bool) (o : Nat) (sd : CollRead.SetData)
    (hk : s.sets side o = some sd) (hf : sd.full = true) :
    ∃ sd', (CollRead.exec codedGuards s db op).1.sets side o = some sd' ∧ sd'.full = true ∧ sd'.items = sd.items :=
  CollRead.exec_full codedGuards C21_guards_as_coded.1 s db op side o sd hk hf

/-- a successful iteration leaves the collection fully loaded with the items it returned -/
theorem C21_m2m_iter_observes (g : CollRead.Guards) (hl : g.loadSkipsFull = true) (s s1 : CollRead.Sess) (db : CollRead.Db)
    (side : Bool) (o : Nat) (l : List Nat) (h : CollRead.exec g s db (.iter side o) = (s1, .items l)) :
    ∃ sd, s1.sets side o = some sd ∧ sd.full = true ∧ sd.items = l := by
  have hs := (CollRead.loadColl_spec g hl s db side o).1
  simp only [CollRead.exec] at h
  split at h
  · simp at h
  · rename_i s2 heq
    rw [heq] at hs
    obtain ⟨sd, hk, hf⟩ := hs rfl
    simp only at hk
    simp only [Prod.mk.injEq, CollRead.Res.items.injEq] at h
    obtain ⟨rfl, rfl⟩ := h
    exact ⟨sd, hk, hf, by simp [hk]⟩

/-- **C21, many-to-many** (all histories, all adversary choices, code as coded): once a collection is fully loaded with
    items `sd.items`, after ANY further operations on either side interleaved with ANY committed changes of the link table,
    iteration returns exactly these items and `len` their number -/
theorem C21_m2m_full_collection_stable (s : CollRead.Sess) (side : Bool) (o : Nat) (sd : CollRead.SetData)
    (hk : s.sets side o = some sd) (hf : sd.full = true) (tr : List (CollRead.Db × CollRead.Op)) (db : CollRead.Db) :
    (CollRead.exec codedGuards (CollRead.runS codedGuards s tr) db (.iter side o)).2 = .items sd.items ∧
    (CollRead.exec codedGuards (CollRead.runS codedGuards s tr) db (.len side o)).2 = .num sd.items.length := by
  obtain ⟨sd2, hk2, hf2, hi2⟩ := CollRead.run_full codedGuards C21_guards_as_coded.1 tr s side o sd hk hf
  have hl := (CollRead.loadColl_spec codedGuards C21_guards_as_coded.1.2.2 (CollRead.runS codedGuards s tr) db side o).2 sd2 hk2 hf2
  constructor
  · simp only [CollRead.exec, hl, hk2, Option.getD_some, hi2]
  · simp only [CollRead.exec, hl, hk2, Option.getD_some, hi2]

/-- iteration observed `l` ⇒ every later iteration returns `l` and every later `len` returns `l.length` -/
theorem C21_m2m_iter_repeat (s s1 : CollRead.Sess) (db1 : CollRead.Db) (side : Bool) (o : Nat) (l : List Nat)
    (h : CollRead.exec codedGuards s db1 (.iter side o) = (s1, .items l)) (tr : List (CollRead.Db × CollRead.Op)) (db2 : CollRead.Db) :
    (CollRead.exec codedGuards (CollRead.runS codedGuards s1 tr) db2 (.iter side o)).2 = .items l ∧
    (CollRead.exec codedGuards (CollRead.runS codedGuards s1 tr) db2 (.len side o)).2 = .num l.length := by
  obtain ⟨sd, hk, hf, rfl⟩ := C21_m2m_iter_observes codedGuards C21_guards_as_coded.1.2.2 s s1 db1 side o l h
  exact C21_m2m_full_collection_stable s1 side o sd hk hf tr db2

/-- the guards are NEEDED.  Without the appeared-check in `prefetch_load_all` (the code before fix 0192669): iterate Q1.tags
    = [1]; another session links T2; prefetch of Q.tags; iterate -> [1, 2], no error -/
theorem C21_m2m_prefetch_unguarded_adds :
    (CollRead.run ⟨true, false, true⟩ CollRead.Sess.init
      [([(1, 1)], .iter false 1), ([(1, 1), (1, 2)], .prefetch false [1]), ([(1, 1), (1, 2)], .iter false 1)]).2
      = [.items [1], .ok, .items [1, 2]] := by decide

/-- the same history on the code as it is: the prefetch raises -/
theorem C21_m2m_prefetch_guarded_raises :
    (CollRead.run ⟨true, true, true⟩ CollRead.Sess.init
      [([(1, 1)], .iter false 1), ([(1, 1), (1, 2)], .prefetch false [1]), ([(1, 1), (1, 2)], .iter false 1)]).2
      = [.items [1], .err .unrepeatable, .items [1]] := by decide

/-- without the check in `db_reverse_add`: loading the OTHER side silently extends a fully loaded collection -/
theorem C21_m2m_reverse_add_unguarded_adds :
    (CollRead.run ⟨false, true, true⟩ CollRead.Sess.init
      [([(1, 1)], .iter false 1), ([(1, 1), (1, 2)], .iter true 2), ([(1, 1), (1, 2)], .iter false 1)]).2
      = [.items [1], .items [1], .items [1, 2]] := by decide

/-- the one-to-many theorems for the `db_reverse_remove` guard AS CODED -/
theorem C21_full_collection_stable_as_coded (cfg : Cfg) (s : Sess) (p : Nat) (sd : SetData)
    (hk : s.kids p = some sd) (hf : sd.full = true) (tr : List (Db × Op)) (db : Db) :
    (exec cfg PonyVerif.Gen.CollGuards.removeChecks (runS cfg PonyVerif.Gen.CollGuards.removeChecks s tr) db (.iter p)).2 = .objs sd.items ∧
    (exec cfg PonyVerif.Gen.CollGuards.removeChecks (runS cfg PonyVerif.Gen.CollGuards.removeChecks s tr) db (.len p)).2 = .num sd.items.length := by
  have hflag : PonyVerif.Gen.CollGuards.removeChecks = true := by decide
  rw [hflag]
  exact ⟨(C21_full_collection_stable cfg s p sd hk hf tr db).1, (C21_full_collection_stable cfg s p sd hk hf tr db).2.1⟩

end ManyToMany

end PonyVerif.Props.C21
