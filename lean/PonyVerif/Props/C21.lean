import PonyVerif.Model.RepRead
namespace PonyVerif.Props.C21
open PonyVerif.Model.RepRead

theorem C21_run_nil (cfg : Cfg) (g : Bool) (s : Sess) : run cfg g s [] = (s, []) := rfl

end PonyVerif.Props.C21
