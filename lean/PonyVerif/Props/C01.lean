/-
  C01 — placeholder while the proofs are being written (replaced below).
-/
import PonyVerif.Model.Translate
namespace PonyVerif.Props.C01
open PonyVerif.Model.Q

theorem C01_placeholder : K.not .tt = .ff := rfl

end PonyVerif.Props.C01
