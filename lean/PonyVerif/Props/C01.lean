/-
  C01 — declarative queries return what Python evaluation of the same expression returns.
  Property theorems only (engine Q).  Model: Model/SqlEval.lean (SQL AST + three-valued evaluation per backend),
  Model/Translate.lean (expression fragment, Python reading `py`, Pony's monad translation `tr` as written, hypothesis set `frag`);
  the induction is in Lemmas/TranslateMain.lean (`tr_ok`).

  Statement proved (all schemas, all well-typed rows and parameter values, all expressions of the fragment, SQLite / PostgreSQL /
  MySQL semantics): the WHERE conditions Pony emits select a row  iff  the Python reading of the expression is *true* on that
  row; where the expression contains no truth test of a possibly missing value the two three-valued outcomes are equal; the column
  of a projection evaluates to the Python value.  The hypotheses `frag` excludes are each shown NOT to be removable by a concrete
  witness (`…_full_false`); the engine replays those witnesses on the real code on every run.
-/
import PonyVerif.Lemmas.TranslateMain
import PonyVerif.Lemmas.Distinct
import PonyVerif.Lemmas.SqlBEq
import PonyVerif.Lemmas.Subquery
import PonyVerif.Lemmas.QRel
namespace PonyVerif.Props.C01
open PonyVerif.Model.Q

/-- **C01_cond** — for every schema, backend, well-typed row and parameters, and every expression of the fragment that Pony
    translates: the emitted WHERE conditions evaluate without a type error and select the row exactly when the Python reading
    (missing operand of a comparison: unknown; missing value in a truth test: false) is true. -/
theorem C01_cond (sch : Schema) (d : Dialect) (L : LikeFn) (env : PEnv) (e : Expr) (cs : SqlList)
    (hwt : WT sch env) (hL : LikeOK L d) (hf : frag sch d e = true) (htr : conditions sch d e = .ok cs) :
    ∃ k, evalCond L d (senv d env) (.and cs) = some k ∧ (k = .tt ↔ pySelected env e = true) := by
  let C : Cx := ⟨sch, d, L, env⟩
  simp only [conditions] at htr
  cases hm : tr sch d e with
  | error x => simp [hm] at htr
  | ok m =>
    simp only [hm] at htr; injection htr with htr; subst htr
    obtain ⟨⟨k, hk, rk, _⟩, _⟩ := (tr_ok C hwt hL e m hf hm).condOf
    refine ⟨k, ?_, ?_⟩
    · rw [evalCond_and]; exact (evalAnd_flat C _).trans hk
    · simpa [pySelected] using rk.1

/-- **C01_cond_exact** — when no truth test of a possibly missing value occurs (`exact`), the three-valued outcomes coincide. -/
theorem C01_cond_exact (sch : Schema) (d : Dialect) (L : LikeFn) (env : PEnv) (e : Expr) (cs : SqlList)
    (hwt : WT sch env) (hL : LikeOK L d) (hf : frag sch d e = true) (hx : exact sch e = true)
    (htr : conditions sch d e = .ok cs) :
    evalCond L d (senv d env) (.and cs) = some (py env e).asK := by
  let C : Cx := ⟨sch, d, L, env⟩
  simp only [conditions] at htr
  cases hm : tr sch d e with
  | error x => simp [hm] at htr
  | ok m =>
    simp only [hm] at htr; injection htr with htr; subst htr
    obtain ⟨⟨k, hk, _, xk⟩, _⟩ := (tr_ok C hwt hL e m hf hm).condOf
    rw [evalCond_and, ← xk hx]; exact (evalAnd_flat C _).trans hk

/-- **C01_false_rows** — a row the WHERE clause rejects with *false* (not unknown) is a row on which Python says false. -/
theorem C01_false_rows (sch : Schema) (d : Dialect) (L : LikeFn) (env : PEnv) (e : Expr) (cs : SqlList)
    (hwt : WT sch env) (hL : LikeOK L d) (hf : frag sch d e = true) (htr : conditions sch d e = .ok cs)
    (hk : evalCond L d (senv d env) (.and cs) = some .ff) : (py env e).asK = .ff := by
  let C : Cx := ⟨sch, d, L, env⟩
  simp only [conditions] at htr
  cases hm : tr sch d e with
  | error x => simp [hm] at htr
  | ok m =>
    simp only [hm] at htr; injection htr with htr; subst htr
    obtain ⟨⟨k, hk', rk, _⟩, _⟩ := (tr_ok C hwt hL e m hf hm).condOf
    rw [evalCond_and] at hk
    have : some k = some K.ff := ((evalAnd_flat C _).trans hk').symm.trans hk
    injection this with this; subst this
    exact rk.2 rfl

/-- **C01_proj** — the column of a projection `select(<value expression> for e in E)` evaluates to the Python value
    (missing = NULL), with the declared type. -/
theorem C01_proj (sch : Schema) (d : Dialect) (L : LikeFn) (env : PEnv) (e : Expr) (sql : Sql)
    (hwt : WT sch env) (hL : LikeOK L d) (hf : frag sch d e = true) (hs : valueSorted e = true)
    (htr : projection sch d e = .ok sql) :
    ∃ v, py env e = .val v ∧ eval L d (senv d env) sql = some (encV d v) := by
  let C : Cx := ⟨sch, d, L, env⟩
  simp only [projection] at htr
  cases hm : tr sch d e with
  | error x => simp [hm] at htr
  | ok m =>
    simp only [hm] at htr; injection htr with htr; subst htr
    obtain ⟨c, t, n, s, rfl, _, v, hpy, _, hev, _⟩ := (tr_ok C hwt hL e m hf hm).val hs
    exact ⟨v, hpy, hev⟩

/-- **C01_nullable_flag** — the invariant each value monad carries: `monad.nullable = False` implies the value is never missing. -/
theorem C01_nullable_flag (sch : Schema) (d : Dialect) (L : LikeFn) (env : PEnv) (e : Expr) (c : MCls) (t : Ty) (s : Sql)
    (hwt : WT sch env) (hL : LikeOK L d) (hf : frag sch d e = true) (htr : tr sch d e = .ok (.val c t false s)) :
    ∃ x, py env e = .val (some x) := by
  let C : Cx := ⟨sch, d, L, env⟩
  have g := (tr_ok C hwt hL e _ hf htr).1
  obtain ⟨v, hpy, _, _, hnn⟩ := g
  cases v with
  | none => exact absurd rfl (hnn (Or.inl rfl))
  | some x => exact ⟨x, hpy⟩

/-! ### the hypotheses are satisfiable, and not removable -/

def sch0 : Schema where
  attr n := if n = "a" then some (.int, false) else if n = "n" then some (.int, true) else if n = "b" then some (.bool, false)
            else if n = "ns" then some (.str, true) else none
  par _ := none

/-- a row with `n` and `ns` missing, `a = 1`, `b = False` -/
def env0 : PEnv where
  col n := if n = "a" then some (.int 1) else if n = "b" then some (.bool false) else none
  par _ := .int 0

theorem wt0 : WT sch0 env0 := by
  constructor
  · intro n t nl h
    simp only [sch0] at h
    by_cases h1 : n = "a"
    · subst h1; simp at h; obtain ⟨rfl, rfl⟩ := h; simp [env0, hasTy]
    · by_cases h2 : n = "n"
      · subst h2; simp at h; obtain ⟨rfl, rfl⟩ := h; simp [env0]
      · by_cases h3 : n = "b"
        · subst h3; simp at h; obtain ⟨rfl, rfl⟩ := h; simp [env0, hasTy]
        · by_cases h4 : n = "ns"
          · subst h4; simp at h; obtain ⟨rfl, rfl⟩ := h; simp [env0]
          · simp [h1, h2, h3, h4] at h
  · intro n t h; simp [sch0] at h

/-- `not (e.n < e.a) and (e.b or e.ns is None)` is inside the fragment -/
example : frag sch0 .sqlite (.and (.not (.cmp .lt (.attr "n") (.attr "a"))) (.or (.attr "b") (.cmp .is_ (.attr "ns") .cNone))) = true := by
  decide

def hasLike : Expr → Bool
  | .like _ _ _ _ => true
  | .cmp _ l r => hasLike l || hasLike r
  | .inList _ x _ => hasLike x
  | .and l r => hasLike l || hasLike r
  | .or l r => hasLike l || hasLike r
  | .not x => hasLike x
  | .bin _ l r => hasLike l || hasLike r
  | .neg x => hasLike x | .abs x => hasLike x | .len x => hasLike x
  | .ite c t e => hasLike c || hasLike t || hasLike e
  | _ => false

/-- the statement of `C01_cond` without the restriction to the fragment (for expressions without LIKE, so that no assumption
    about the backend's matcher is involved) -/
def C01_cond_full : Prop :=
  ∀ (sch : Schema) (d : Dialect) (L : LikeFn) (env : PEnv) (e : Expr) (cs : SqlList),
    WT sch env → hasLike e = false → conditions sch d e = .ok cs →
    ∃ k, evalCond L d (senv d env) (.and cs) = some k ∧ (k = .tt ↔ pySelected env e = true)

/-- It is false.  Witness (replayed on the real code by the engine, key `not-over-and-or-with-nullable-truth-test`):
    `not (e.n and e.a)` with `n` missing and `a = 1` — Python: `not (None and 1)` is true, the row is selected;
    Pony emits `NOT (n <> 0 AND a <> 0)`, which is unknown, the row is not returned. -/
theorem C01_cond_full_false_not_and :
    conditions sch0 .sqlite (.not (.and (.attr "n") (.attr "a"))) =
        .ok (.cons (.not (.and (.cons (.cmp .ne (.column "n") (.value (.int 0))) (.cons (.cmp .ne (.column "a") (.value (.int 0))) .nil)))) .nil) ∧
      evalCond likeExec .sqlite (senv .sqlite env0)
        (.and (.cons (.not (.and (.cons (.cmp .ne (.column "n") (.value (.int 0))) (.cons (.cmp .ne (.column "a") (.value (.int 0))) .nil)))) .nil))
        = some .unk ∧
      pySelected env0 (.not (.and (.attr "n") (.attr "a"))) = true := by
  refine ⟨by rfl, by decide, by decide⟩

theorem C01_cond_full_false : ¬ C01_cond_full := by
  intro h
  obtain ⟨h1, h2, h3⟩ := C01_cond_full_false_not_and
  obtain ⟨k, hk, hiff⟩ := h sch0 .sqlite likeExec env0 _ _ wt0 (by decide) h1
  rw [h2] at hk; injection hk with hk; subst hk
  exact absurd (hiff.2 h3) (by decide)

/-- Second witness (key `not-in-nullable-string-selects-null`): `'x' not in e.ns` with `ns` missing — a comparison with a missing
    operand is unknown, the row is not selected by the Python reading; Pony emits `ns NOT LIKE '%x%' OR ns IS NULL`, which is true. -/
theorem C01_cond_full_false_not_in :
    conditions sch0 .sqlite (.like .contains true "x" (.attr "ns")) =
        .ok (.cons (.or (.cons (.like true (.column "ns") "%x%" false) (.cons (.isNull (.column "ns")) .nil))) .nil) ∧
      evalCond likeExec .sqlite (senv .sqlite env0)
        (.and (.cons (.or (.cons (.like true (.column "ns") "%x%" false) (.cons (.isNull (.column "ns")) .nil))) .nil)) = some .tt ∧
      pySelected env0 (.like .contains true "x" (.attr "ns")) = false := by
  refine ⟨by rfl, by decide, by decide⟩

/-! ### set semantics of projections: the DISTINCT inference -/

/-- **C01_distinct_set** — for every entity (any primary key, simple or composite), every list of projected items and every table
    content (objects have pairwise different keys): the rows `SELECT [DISTINCT]` returns under Pony's inference rule contain no
    duplicates and are exactly the set of the Python tuples. -/
theorem C01_distinct_set (pk : List String) (items : List Item) (rows : List DRow)
    (hkeys : (rows.map (keyOf pk)).Nodup) :
    (selectRows pk items rows).Nodup ∧ ∀ t, t ∈ selectRows pk items rows ↔ t ∈ rows.map (project pk items) := by
  simp only [selectRows]
  cases h : needsDistinct pk items with
  | true => exact ⟨by simpa using nodup_dedup _, fun t => by simp only [if_true]; exact mem_dedup t _⟩
  | false =>
    refine ⟨?_, fun t => by simp⟩
    simpa using nodup_map_of_sep (project pk items) (keyOf pk) rows
      (fun a _ b _ hab => project_separates pk items h a b hab) hkeys

/-- **C01_distinct_exact** — the rule is exact: whenever it asks for DISTINCT there is a table (with pairwise different keys) whose
    plain projection does contain a duplicate; so "the result is a set without DISTINCT  iff  the entity or its whole key is
    projected". -/
theorem C01_distinct_exact (pk : List String) (items : List Item) (h : needsDistinct pk items = true) :
    ∃ rows : List DRow, (rows.map (keyOf pk)).Nodup ∧ ¬ (rows.map (project pk items)).Nodup := by
  simp only [needsDistinct, Bool.and_eq_true, Bool.not_eq_true', List.any_eq_true] at h
  obtain ⟨hent, k, hk, hkitems⟩ := h
  have hent' : Item.entity ∉ items := by simpa using hent
  have hk' : Item.attr k ∉ items := by simpa using hkitems
  let r1 : DRow := ⟨fun _ => 0, fun _ => 0⟩
  let r2 : DRow := ⟨fun n => if n = k then 1 else 0, fun _ => 0⟩
  refine ⟨[r1, r2], ?_, ?_⟩
  · simp only [List.map_cons, List.map_nil, List.nodup_cons, List.mem_singleton, List.not_mem_nil, not_false_eq_true,
      List.nodup_nil, and_true]
    intro heq
    have := map_eq_at r1.attr r2.attr pk heq k hk
    simp [r1, r2] at this
  · have hp : project pk items r1 = project pk items r2 := by
      simp only [project]
      apply List.map_congr_left
      intro it hit
      cases it with
      | entity => exact absurd hit hent'
      | attr n =>
        have : n ≠ k := fun e => hk' (e ▸ hit)
        simp [itemVal, r1, r2, this]
      | expr i => simp [itemVal, r1, r2]
    simp [hp]

/-- a composite key with a proper subset projected needs DISTINCT; the whole key does not -/
example : needsDistinct ["name", "semester"] [.attr "semester"] = true := by decide
example : needsDistinct ["name", "semester"] [.attr "name", .expr 0] = true := by decide
example : needsDistinct ["name", "semester"] [.attr "semester", .attr "credits", .attr "name"] = false := by decide

/-! ### the verified checker: what the engine runs on the REAL translator's output on every run -/

/-- **C01_checker_sound** — whenever the checker accepts the conditions the real translator emitted for `e` (decoded from
    `query._translator.conditions`), those conditions select, on every well-typed row of every database, exactly the rows on which
    the Python reading of `e` is true — and evaluate without a backend type error. -/
theorem C01_checker_sound (sch : Schema) (d : Dialect) (L : LikeFn) (e : Expr) (real : SqlList)
    (hc : checkConditions sch d e real = true) (hL : LikeOK L d) (env : PEnv) (hwt : WT sch env) :
    ∃ k, evalCond L d (senv d env) (.and real) = some k ∧ (k = .tt ↔ pySelected env e = true) := by
  simp only [checkConditions, Bool.and_eq_true] at hc
  obtain ⟨hf, hm⟩ := hc
  cases hcs : conditions sch d e with
  | error x => simp [hcs] at hm
  | ok cs =>
    simp only [hcs] at hm
    have := SqlList.beq_eq cs real hm
    subst this
    exact C01_cond sch d L env e cs hwt hL hf hcs

/-- **C01_checker_proj_sound** — the same for the column of a projection: an accepted column evaluates to the Python value -/
theorem C01_checker_proj_sound (sch : Schema) (d : Dialect) (L : LikeFn) (e : Expr) (real : Sql)
    (hc : checkProjection sch d e real = true) (hL : LikeOK L d) (env : PEnv) (hwt : WT sch env) :
    ∃ v, py env e = .val v ∧ eval L d (senv d env) real = some (encV d v) := by
  simp only [checkProjection, Bool.and_eq_true] at hc
  obtain ⟨⟨hf, hs⟩, hm⟩ := hc
  cases hcs : projection sch d e with
  | error x => simp [hcs] at hm
  | ok s =>
    simp only [hcs] at hm
    have := Sql.beq_eq s real hm
    subst this
    exact C01_proj sch d L env e s hwt hL hf hs hcs

/-- the checker accepts a non-trivial translation -/
example : checkConditions sch0 .sqlite (.not (.attr "n"))
    (.cons (.or (.cons (.cmp .eq (.column "n") (.value (.int 0))) (.cons (.isNull (.column "n")) .nil))) .nil) = true := by decide

/-! ### NULL rules of sub-queries and aggregates -/

/-- **C01_in_subquery** — `x in (<subquery>)`: with or without the IS NOT NULL guard the row is selected iff `x` is among the
    values that are present (IN needs no guard). -/
theorem C01_in_subquery (v : Int) (vals : List (Option Int)) (guard : Bool) :
    sqlIn (some v) (subselect guard vals) = .tt ↔ pyIn v vals = true := by
  cases guard <;> simp [subselect, sqlIn_tt_iff, pyIn, List.mem_filter]

/-- **C01_not_in_guarded** — `x not in (<subquery>)` with the guard: two-valued, equal to Python's `not in` over the present values. -/
theorem C01_not_in_guarded (v : Int) (vals : List (Option Int)) :
    sqlNotIn (some v) (subselect true vals) = K.ofBool (!pyIn v vals) := by
  simp only [sqlNotIn, subselect, if_true, sqlIn_guarded_two_valued v _ (filter_isSome_no_none vals), contains_filter_isSome, pyIn,
    K.not_ofBool]

/-- **C01_not_in_rule** — Pony's rule (guard iff the selected monad is flagged nullable) is right whenever the flag is sound
    (`nullable = False` implies no missing value; after 26b85c0 the flag of an attribute reached through an optional reference, and
    after 90ae63c the sub-select over a collection of optional references, satisfy this). -/
theorem C01_not_in_rule (v : Int) (vals : List (Option Int)) (flag : Bool) (hflag : flag = false → none ∉ vals) :
    sqlNotIn (some v) (subselect (needsGuard true flag) vals) = K.ofBool (!pyIn v vals) := by
  cases flag with
  | true => simpa [needsGuard] using C01_not_in_guarded v vals
  | false =>
    simp only [needsGuard, Bool.and_false, subselect, Bool.false_eq_true, if_false, sqlNotIn, sqlIn_guarded_two_valued v vals (hflag rfl),
      pyIn, K.not_ofBool]

/-- the statement without the soundness of the flag -/
def C01_not_in_rule_full : Prop :=
  ∀ (v : Int) (vals : List (Option Int)) (flag : Bool), sqlNotIn (some v) (subselect (needsGuard true flag) vals) = K.ofBool (!pyIn v vals)

/-- It is false: an unflagged NULL among the values (the defects repaired in 26b85c0 and 90ae63c:
    `g.id not in (s.group.id for s in Student)`, `t not in g.students.tutor`) makes NOT IN unknown — no row is returned. -/
theorem C01_not_in_rule_full_false : ¬ C01_not_in_rule_full := by
  intro h
  have := h 2 [some 1, none] false
  revert this; decide

/-- **C01_agg_sum / count / min / max** — `coalesce(SUM(x), 0)` is Python's `sum` of the values that are present (0 for none);
    COUNT counts them; MIN / MAX are `None` exactly for no present value and otherwise the least / greatest present value. -/
theorem C01_agg_sum (vals : List (Option Int)) : ponySum vals = (present vals).foldl (· + ·) 0 := by
  simp only [ponySum, sqlSum]
  cases h : present vals <;> simp

theorem C01_agg_count (vals : List (Option Int)) : sqlCount vals = (vals.filter Option.isSome).length := by
  simp only [sqlCount, present]
  induction vals with
  | nil => rfl
  | cons x xs ih => cases x <;> simp_all [List.filterMap_cons, List.filter_cons]

theorem C01_agg_min (vals : List (Option Int)) :
    (sqlMin vals = none ↔ present vals = []) ∧ ∀ m, sqlMin vals = some m → m ∈ present vals ∧ ∀ x ∈ present vals, m ≤ x := by
  simp only [sqlMin]
  cases h : present vals with
  | nil => simp
  | cons a xs =>
    refine ⟨by simp, fun m hm => ?_⟩
    simp only [Option.some.injEq] at hm; subst hm
    obtain ⟨h1, h2, h3⟩ := foldl_min_le xs a
    refine ⟨?_, ?_⟩
    · rcases h3 with h3 | h3
      · rw [h3]; simp
      · exact List.mem_cons_of_mem _ h3
    · intro x hx
      rcases List.mem_cons.1 hx with rfl | hx
      · exact h1
      · exact h2 x hx

theorem C01_agg_max (vals : List (Option Int)) :
    (sqlMax vals = none ↔ present vals = []) ∧ ∀ m, sqlMax vals = some m → m ∈ present vals ∧ ∀ x ∈ present vals, x ≤ m := by
  simp only [sqlMax]
  cases h : present vals with
  | nil => simp
  | cons a xs =>
    refine ⟨by simp, fun m hm => ?_⟩
    simp only [Option.some.injEq] at hm; subst hm
    obtain ⟨h1, h2, h3⟩ := foldl_max_ge xs a
    refine ⟨?_, ?_⟩
    · rcases h3 with h3 | h3
      · rw [h3]; simp
      · exact List.mem_cons_of_mem _ h3
    · intro x hx
      rcases List.mem_cons.1 hx with rfl | hx
      · exact h1
      · exact h2 x hx

/-! ### one level of relationship: correlated EXISTS / NOT EXISTS / COUNT / IN over a collection -/

/-- every child row is well typed for the child entity's schema -/
def ChildrenWT (sch : Schema) (children : List Child) : Prop := ∀ c ∈ children, WT sch c.env

theorem inner_ok (sch : Schema) (d : Dialect) (L : LikeFn) (e : Expr) (conds : SqlList)
    (hc : checkConditions sch d e conds = true) (hL : LikeOK L d) (children : List Child) (hwt : ChildrenWT sch children) :
    ∀ c ∈ children, InnerOK L d conds e c :=
  fun c hcm => C01_checker_sound sch d L e conds hc hL c.env (hwt c hcm)

/-- **C01_exists_collection** — `exists(e for e in p.es if cond)` (and `p.es` as a truth test, `cond` = True): for every parent key,
    every child table (references may be NULL, any number of rows) and every inner condition of the fragment whose real conditions the
    checker accepts, the correlated `EXISTS (SELECT 1 FROM E e WHERE p.id = e.fk AND conds)` evaluates without a type error to
    Python's `any(cond(e) for e in p.es)`. -/
theorem C01_exists_collection (sch : Schema) (d : Dialect) (L : LikeFn) (e : Expr) (conds : SqlList)
    (hc : checkConditions sch d e conds = true) (hL : LikeOK L d) (pk : Int) (children : List Child) (hwt : ChildrenWT sch children) :
    sqlExists L d pk conds children = some (pyExists pk children e) := by
  simp only [sqlExists, subRows_eq L d pk conds e children (inner_ok sch d L e conds hc hL children hwt), filter_members, Option.map_some, pyExists]
  congr 1
  induction members pk children with
  | nil => rfl
  | cons c cs ih => simp only [List.filter_cons, List.any_cons]; cases pySelected c.env e <;> simp_all

/-- **C01_not_exists_collection** — `not exists(…)` is two-valued and equals Python's `not any(…)` (no NULL trap: EXISTS is never unknown). -/
theorem C01_not_exists_collection (sch : Schema) (d : Dialect) (L : LikeFn) (e : Expr) (conds : SqlList)
    (hc : checkConditions sch d e conds = true) (hL : LikeOK L d) (pk : Int) (children : List Child) (hwt : ChildrenWT sch children) :
    sqlNotExists L d pk conds children = some (!pyExists pk children e) := by
  simp [sqlNotExists, C01_exists_collection sch d L e conds hc hL pk children hwt]

/-- **C01_count_collection** — `count(e for e in p.es if cond)` = `len([e for e in p.es if cond(e)])`. -/
theorem C01_count_collection (sch : Schema) (d : Dialect) (L : LikeFn) (e : Expr) (conds : SqlList)
    (hc : checkConditions sch d e conds = true) (hL : LikeOK L d) (pk : Int) (children : List Child) (hwt : ChildrenWT sch children) :
    sqlCountWhere L d pk conds children = some (pyCountWhere pk children e) := by
  simp only [sqlCountWhere, subRows_eq L d pk conds e children (inner_ok sch d L e conds hc hL children hwt), filter_members, Option.map_some, pyCountWhere]

/-- **C01_in_collection_attr** — `v in p.es.attr` / `v not in p.es.attr` with the IS NOT NULL guard Pony emits: IN / NOT IN over the
    attribute values of the members is Python's membership among the values that are present. -/
theorem C01_in_collection_attr (v pk : Int) (children : List Child) (attr : Child → Option Int) :
    (sqlIn (some v) (subselect true (memberVals pk children attr)) = .tt ↔ pyIn v (memberVals pk children attr) = true) ∧
    sqlNotIn (some v) (subselect true (memberVals pk children attr)) = K.ofBool (!pyIn v (memberVals pk children attr)) :=
  ⟨C01_in_subquery v _ true, C01_not_in_guarded v _⟩

/-- non-vacuity: two children, one with a NULL reference; `exists(e for e in p.es if not e.n)` -/
example : sqlExists likeExec .sqlite 1
    (.cons (.or (.cons (.cmp .eq (.column "n") (.value (.int 0))) (.cons (.isNull (.column "n")) .nil))) .nil)
    [⟨some 1, env0⟩, ⟨none, env0⟩] = some true := by decide

theorem joinedM_wt (sch : Schema) (links : List Link) (children : List MChild) (h : ∀ m ∈ children, WT sch m.env) :
    ChildrenWT sch (joinedM links children) := by
  intro c hc
  simp only [joinedM, List.mem_flatMap, List.mem_map, List.mem_filter] at hc
  obtain ⟨l, _, m, ⟨hm, _⟩, rfl⟩ := hc
  exact h m hm

/-- **C01_exists_m2m** — many-to-many collection (`exists(c for c in s.cs if cond)`, `s.cs` as a truth test): for every parent key,
    every link table (any multiplicity, dangling links included), every child table and every inner condition the checker accepts,
    `EXISTS (SELECT 1 FROM link t, C c WHERE t.c = c.id AND s.id = t.s AND conds)` is Python's `any(cond(c) for c in s.cs)`, and
    NOT EXISTS its negation. -/
theorem C01_exists_m2m (sch : Schema) (d : Dialect) (L : LikeFn) (e : Expr) (conds : SqlList)
    (hc : checkConditions sch d e conds = true) (hL : LikeOK L d) (pk : Int) (links : List Link) (children : List MChild)
    (hwt : ∀ m ∈ children, WT sch m.env) :
    sqlExistsM L d pk conds links children = some (pyExistsM pk links children e) ∧
    sqlNotExistsM L d pk conds links children = some (!pyExistsM pk links children e) := by
  have hw := joinedM_wt sch links children hwt
  simp only [sqlExistsM, sqlNotExistsM, C01_exists_collection sch d L e conds hc hL pk _ hw,
    C01_not_exists_collection sch d L e conds hc hL pk _ hw, pyExists_joinedM, and_self]

/-! ### navigation through a to-one reference (inner join) -/

/-- **C01_join** — a condition that reads attributes of the referenced object (`e.parent.k`; modelled as attributes `parent.k` of the
    joined row): for every table of (child, referenced parent or none) rows whose joined rows are well typed, and every condition of
    the fragment the checker accepts, the inner join Pony emits returns exactly the rows whose reference is PRESENT and on which the
    Python reading is true. -/
theorem C01_join (sch : Schema) (d : Dialect) (L : LikeFn) (e : Expr) (conds : SqlList)
    (hc : checkConditions sch d e conds = true) (hL : LikeOK L d) (rows : List JRow)
    (hwt : ∀ r ∈ rows, ∀ p, r.parent = some p → WT sch (mergeEnv r.child p)) :
    sqlJoin L d conds rows = some (rows.filter (fun r => r.parent.isSome && pySelected (pyRow r) e)) :=
  sqlJoin_eq L d conds e rows (fun r hr p hp => C01_checker_sound sch d L e conds hc hL _ (hwt r hr p hp))

/-- **C01_join_required** — for a REQUIRED reference (every row has its parent) the query returns what Python returns. -/
theorem C01_join_required (sch : Schema) (d : Dialect) (L : LikeFn) (e : Expr) (conds : SqlList)
    (hc : checkConditions sch d e conds = true) (hL : LikeOK L d) (rows : List JRow)
    (hwt : ∀ r ∈ rows, ∀ p, r.parent = some p → WT sch (mergeEnv r.child p)) (hreq : ∀ r ∈ rows, r.parent.isSome = true) :
    sqlJoin L d conds rows = some (rows.filter (fun r => pySelected (pyRow r) e)) := by
  rw [C01_join sch d L e conds hc hL rows hwt]
  congr 1
  apply List.filter_congr
  intro r hr; simp [hreq r hr]

/-- the statement for an OPTIONAL reference (rows may lack their parent), LIKE-free expressions -/
def C01_join_optional_full : Prop :=
  ∀ (sch : Schema) (d : Dialect) (L : LikeFn) (e : Expr) (conds : SqlList) (rows : List JRow),
    checkConditions sch d e conds = true → hasLike e = false → (∀ r ∈ rows, ∀ p, r.parent = some p → WT sch (mergeEnv r.child p)) →
    sqlJoin L d conds rows = some (rows.filter (fun r => pySelected (pyRow r) e))

def schJ : Schema where
  attr n := if n = "op" then some (.int, true) else if n = "parent.k" then some (.int, false) else none
  par _ := none

/-- `e.op is None or e.op.k > 1` (the reference column `op` read as a nullable int) -/
def eJ : Expr := .or (.cmp .is_ (.attr "op") .cNone) (.cmp .gt (.attr "parent.k") (.cInt 1))

/-- It is false (known finding `optional-reference-navigation-inner-join-drops-rows`): a row whose reference is missing satisfies
    `e.op is None` in Python, but the inner join drops it. -/
theorem C01_join_optional_full_false : ¬ C01_join_optional_full := by
  intro h
  have hc : checkConditions schJ .sqlite eJ
      (.cons (.or (.cons (.isNull (.column "op")) (.cons (.cmp .gt (.column "parent.k") (.value (.int 1))) .nil))) .nil) = true := by decide
  let r : JRow := ⟨⟨fun _ => none, fun _ => .int 0⟩, none⟩
  have hpy : pySelected (pyRow r) eJ = true := by decide
  have := h schJ .sqlite likeExec eJ _ [r] hc (by decide) (by intro r' hr' p hp; simp at hr'; subst hr'; simp [r] at hp)
  simp [sqlJoin, r, hpy] at this

end PonyVerif.Props.C01
