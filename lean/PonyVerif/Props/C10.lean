/-
  C10 — lookups and queries inside a session see the session's own unflushed changes.

  Part 1 (this section): theorems about Model/SessStore.lean, the model shared with C09 — the cache-first lookup by primary
  key (`_find_in_cache_`), the auto-flush in front of every query (`prepare_connection_for_query_execution`), membership
  reads on many-to-many collections, and, through the refinement of C09, the statement for ALL histories: every read
  returns what the program has.
  Part 2: the `count ± added ∓ removed` arithmetic of SetData (Model/SetCount.lean).
-/
import PonyVerif.Lemmas.SessStoreOps
import PonyVerif.Lemmas.SetCount
import PonyVerif.Lemmas.KeyLookup
import PonyVerif.Model.QueryCache
namespace PonyVerif.Props.C10
open PonyVerif.Model.SessStore

/-- what a flush makes of a state in which the cache answers a primary-key lookup -/
private theorem absRow_of_found {w : World} {k : Key} {ans : Outcome} (hf : findInCache w k = some ans) :
    ans = queryDb (abs w) k := by
  unfold findInCache at hf
  cases hi : w.cache.inIndex k
  · simp [hi] at hf
  · simp only [hi, if_true] at hf
    unfold queryDb
    rw [abs_rows]; unfold absRow
    unfold Cache.inIndex at hi
    cases ho : w.cache.objs k with
    | none => simp [ho] at hi
    | some o =>
      simp only [ho] at hf hi
      by_cases hs : o.status = .markedToDelete
      · simp [hs] at hf ⊢; exact hf.symm
      · simp only [hs, if_false, Option.some.injEq] at hf
        cases hst : o.status <;> simp [hst, Status.indexed] at hi hs ⊢ <;> exact hf.symm

/-- `C10_cache_lookup`: whenever the session cache answers a lookup by primary key — with the object and its current
    values, or with ObjectNotFound for an object marked for deletion — the answer is the one the database query gives after
    a flush: `findInCache w k = queryDb (flush w).txn k`. -/
theorem C10_cache_lookup (w : World) (h : Inv w) (k : Key) (ans : Outcome) (hf : findInCache w k = some ans) :
    ∃ w' ws, flushIfModified w = .ok (w', ws) ∧ ans = queryDb w'.txn k := by
  obtain ⟨w', ws, e, hi, hcl, ha, _⟩ := flushIfModified_spec h
  refine ⟨w', ws, e, ?_⟩
  have : w'.txn = abs w := by rw [← ha]; exact (abs_eq_txn_of_clean hi.q.objs hcl).symm
  rw [this]; exact absRow_of_found hf

/-- `E[pk]` is answered by the cache whenever the cache can answer, without touching the session -/
theorem C10_lookup_uses_cache (w : World) (k : Key) (ans : Outcome) (hf : findInCache w k = some ans) :
    step w (.load k) = (w, ans, []) := by
  unfold findInCache at hf
  simp only [step, loadObj]
  cases hi : w.cache.inIndex k
  · simp [hi] at hf
  · simp only [hi, if_true] at hf ⊢
    cases ho : w.cache.objs k with
    | none => simp [ho] at hf ⊢; exact hf
    | some o =>
      simp only [ho] at hf ⊢
      by_cases hs : o.status = .markedToDelete
      · simp [hs] at hf ⊢; exact hf
      · simp [hs] at hf ⊢; exact hf

/-- `C10_autoflush`: a lookup the cache cannot answer runs a query, and the query is preceded by a flush exactly when the
    session is modified (`if cache.modified: cache.flush()` inside `_exec_sql`): the statement reaches the database only
    after every pending INSERT / UPDATE / DELETE and link-row change. -/
theorem C10_autoflush (w : World) (k : Key) (hf : findInCache w k = none) :
    step w (.load k) =
      (match flushIfModified w with
       | .error e => (abort w, Outcome.dbError e, [])
       | .ok (w', ws) => ((fetch w' k).1, (fetch w' k).2, ws))
    ∧ (w.cache.modified = true → flushIfModified w = flushCore w)
    ∧ (w.cache.modified = false → flushIfModified w = .ok (w, [])) := by
  refine ⟨?_, fun hm => by simp [flushIfModified, hm], fun hm => by simp [flushIfModified, hm]⟩
  unfold findInCache at hf
  cases hi : w.cache.inIndex k
  · simp only [step, loadObj, hi, Bool.false_eq_true, if_false]
    cases flushIfModified w with
    | error e => rfl
    | ok r => cases r; rfl
  · simp only [hi, if_true] at hf
    cases ho : w.cache.objs k with
    | none => simp [ho] at hf
    | some o => simp only [ho] at hf; split at hf <;> simp at hf

/-- the answer of any primary-key lookup — from the cache or from the database after the auto-flush — is the row the
    session's logical view holds: all earlier modifications are reflected, flushed or not -/
theorem C10_lookup_sees_changes (w : World) (h : Inv w) (k : Key) :
    (step w (.load k)).2.1 = queryDb (abs w) k := by
  cases hf : findInCache w k with
  | some ans => rw [C10_lookup_uses_cache w k ans hf]; exact absRow_of_found hf
  | none =>
    rw [(C10_autoflush w k hf).1]
    obtain ⟨w', ws, e, hi, hcl, ha, _⟩ := flushIfModified_spec h
    rw [e]
    obtain ⟨_, _, _, _, f5⟩ := fetch_spec hi k (fun o ho => hcl.1 k o ho)
    show (fetch w' k).2 = _
    rw [f5, ha]; rfl

/-- membership in a many-to-many collection is read off the pending additions / removals over the link table, and is the
    membership in the session's logical view -/
theorem C10_membership_sees_changes (w : World) (l : Link) :
    (step w (.hasLink l)).2.1 = .bool ((abs w).links l) ∧ (step w (.hasLink l)).1 = w := ⟨rfl, rfl⟩

/-- For ALL histories of a well-formed program: a lookup by primary key returns the object with exactly the values the
    program has given it (or ObjectNotFound if the program deleted or never created it), and `in` on a many-to-many
    collection returns whether the program has the link — whether or not anything was flushed. -/
theorem C10_reads_see_own_changes (d : Db) (ops : List Op) (hv : ValidFrom ⟨World.init d, Spec.init d⟩ ops) :
    let r := runBoth ⟨World.init d, Spec.init d⟩ ops
    (∀ k, (step r.w (.load k)).2.1 = queryDb r.s.working k) ∧
    (∀ l, (step r.w (.hasLink l)).2.1 = .bool (r.s.working.links l)) := by
  have hs := run_sim ops _ (sim_init d) hv
  refine ⟨fun k => ?_, fun l => ?_⟩
  · rw [← hs.view]; exact C10_lookup_sees_changes _ hs.inv k
  · rw [← hs.view]; rfl

def outCell (c : Nat) : Outcome → Option Cell
  | .found row => some (row c)
  | _ => none

def isNotFound : Outcome → Bool
  | .notFound => true
  | _ => false

/-- non-trivial instance: the value assigned before any flush is what the lookup returns; a deleted object is not found -/
example :
    let ops : List Op := [.create ⟨0, 1⟩ [.int 5], .create ⟨0, 2⟩ [.null], .endOk, .load ⟨0, 1⟩, .load ⟨0, 2⟩,
                          .set ⟨0, 1⟩ 0 (.int 7), .delete ⟨0, 2⟩]
    let r := runBoth ⟨World.init Db.empty, Spec.init Db.empty⟩ ops
    ValidFrom ⟨World.init Db.empty, Spec.init Db.empty⟩ ops ∧
    outCell 0 (step r.w (.load ⟨0, 1⟩)).2.1 = some (.int 7) ∧
    isNotFound (step r.w (.load ⟨0, 2⟩)).2.1 = true ∧
    r.w.cache.modified = true := by decide

end PonyVerif.Props.C10

/-! ## Part 2: `SetInstance.count` / `__len__` and the `count ± added ∓ removed` arithmetic (Model/SetCount.lean) -/

namespace PonyVerif.Props.C10
open PonyVerif.Model.SetCount

/-- the code with both bookkeeping repairs (fixes/C10-o2m-remove-double-bookkeeping.diff,
    fixes/C10-m2m-reverse-side-pending-after-flush.diff) -/
def repaired (m2m owning : Bool) : Cfg := ⟨m2m, owning, true, true⟩
/-- the code as it is -/
def asFound (m2m owning : Bool) : Cfg := ⟨m2m, owning, false, false⟩

/-- `C10_count`, the full statement: for every kind of collection, every starting database content and every history of
    loads, relationship assignments from the other side, `add`, `remove`, `len`, `count()`, `is_empty()`, `bool()`,
    `select()`, membership tests and flushes made under their callers' guarantees, every `count()`, `len()` and
    `len(coll.select())` returns the number of items the program has in the collection (= the size of the collection in the
    database after a flush), `is_empty()` / `bool()` whether that number is zero, and every `item in coll` whether the program
    has the item in it -/
def C10_count_full (cfg : Cfg) : Prop :=
  ∀ (db : List Item) (ops : List Op), db.Nodup → CallersOk cfg ⟨SetData.new, db⟩ db ops →
    ∀ c l rs, run cfg ⟨SetData.new, db⟩ db ops = .ok (c, l, rs) → ∀ p, p ∈ rs → p.1 = p.2

/-- `C10_count` for every history that stays away from the two defective places (`OpSafe`), for the code as it is and for
    every kind of collection: the history runs without an internal assertion, every `count()` / `len()` returns the number
    of items the program has, every membership test — answered from the SetData, from the negative cache `absent`, or by a
    load — returns membership in what the program has, `database count + |added| − |removed|` is the number of items in every
    reachable state, and the negative cache never holds an item the program has unless the SetData holds it too. -/
theorem C10_count_partial (cfg : Cfg) (db : List Item) (hdb : db.Nodup) (ops : List Op)
    (hv : ValidFrom cfg ⟨SetData.new, db⟩ db ops) :
    ∃ c l rs, run cfg ⟨SetData.new, db⟩ db ops = .ok (c, l, rs) ∧ (∀ p, p ∈ rs → p.1 = p.2) ∧
      ((l.length : Int) = c.db.length + c.sd.added.length - c.sd.removed.length) ∧
      (c.sd.fully = true → c.sd.items.length = l.length) ∧
      (∀ x, x ∈ c.sd.absent → x ∈ l → x ∈ c.sd.items) := by
  obtain ⟨c, l, rs, e, hj, hr⟩ := run_spec cfg ops _ _ (J_init db hdb) hv
  exact ⟨c, l, rs, e, hr, hj.card, fun hf => length_eq_of_same_members hj.ind hj.lnd (fun a => ⟨hj.itemsSub a, hj.full hf a⟩), hj.absentOk⟩

/-- with the repairs the callers' guarantees are all that is needed: the full statement holds -/
theorem C10_count_repaired (m2m owning : Bool) : C10_count_full (repaired m2m owning) := by
  intro db ops hdb hc c l rs hrun p hp
  have hv : ∀ (ops : List Op) (c : Coll) (l : List Item), CallersOk (repaired m2m owning) c l ops → ValidFrom (repaired m2m owning) c l ops := by
    intro ops
    induction ops with
    | nil => intro _ _ _; trivial
    | cons op ops ih =>
      intro c l h
      refine ⟨h.1, by cases op <;> simp [OpSafe, repaired], ?_⟩
      have h2 := h.2
      cases hs : step (repaired m2m owning) c op with
      | error e => trivial
      | ok r => rw [hs] at h2; exact ih _ _ h2
  obtain ⟨c', l', rs', e, hr, _⟩ := C10_count_partial _ db hdb ops (hv ops _ _ hc)
  rw [e] at hrun; cases hrun
  exact hr p hp

/-- `C10_contains_after_add`: for EVERY cache state whatsoever — any SetData, fully loaded or not, whatever the negative cache
    `absent` holds (in particular when an earlier membership test has recorded the item there), no invariant assumed — after
    `obj.coll.add(item)` returned, `item in obj.coll` is True: the SetData is consulted before the negative cache. -/
theorem C10_contains_after_add (cfg : Cfg) (c c' : Coll) (x : Item) (r : Option Int)
    (h : step cfg c (.add x) = .ok (c', r)) :
    ∃ c'', step cfg c' (.contains x) = .ok (c'', some 1) ∧ c''.sd = c'.sd := by
  have hx : x ∈ c'.sd.items := by
    simp only [step] at h
    by_cases hi : x ∈ c.sd.items
    · simp only [hi, if_true] at h; injection h with h; rw [← (Prod.mk.inj h).1]; exact hi
    · simp only [hi, if_false] at h; injection h with h; rw [← (Prod.mk.inj h).1]
      simp only [addTail]; split <;> exact mem_ins.mpr (Or.inr rfl)
  refine ⟨{ c' with sd := (containsSd c' x).1 }, ?_, ?_⟩ <;> simp [step, containsSd, hx, b2i]

/-- the same when the item was linked from the other side (`item.rev.add(obj)` runs `reverse_add` on this SetData) -/
theorem C10_contains_after_reverse_add (cfg : Cfg) (c c' : Coll) (x : Item) (r : Option Int)
    (h : step cfg c (.revAdd x) = .ok (c', r)) :
    ∃ c'', step cfg c' (.contains x) = .ok (c'', some 1) ∧ c''.sd = c'.sd := by
  have hx : x ∈ c'.sd.items := by
    simp only [step] at h
    cases hr : revAdd c.sd x with
    | error e => rw [hr] at h; simp at h
    | ok sd =>
      rw [hr] at h; simp only [Except.ok.injEq, Prod.mk.injEq] at h
      rw [← h.1]
      unfold revAdd at hr
      split at hr
      · simp at hr
      · split at hr <;> (injection hr with hr; rw [← hr]; simp)
  refine ⟨{ c' with sd := (containsSd c' x).1 }, ?_, ?_⟩ <;> simp [step, containsSd, hx, b2i]

/-- the situation of the seeded change c10-2 in the model: a membership test on a collection that is not fully loaded
    answers False and records the item in `absent`; the item is added; the negative cache STILL holds it, and membership is
    True nevertheless (before any flush); the flush then empties the negative cache -/
example : (run (repaired true true) ⟨SetData.new, [1]⟩ [1] [.contains 2, .add 2, .contains 2, .flush, .contains 2]).toOption.map
    (fun r => (r.1.sd.absent, r.2.2)) = some ([], [(0, 0), (1, 1), (1, 1)]) := by decide
example : (run (repaired true true) ⟨SetData.new, [1]⟩ [1] [.contains 2, .add 2]).toOption.map (fun r => (r.1.sd.absent, r.1.sd.items))
    = some ([2], [2]) := by decide
example : (run (repaired true false) ⟨SetData.new, [1]⟩ [1] [.contains 2, .revAdd 2, .contains 2]).toOption.map (·.2.2)
    = some [(0, 0), (1, 1)] := by decide

/-- every read form of the model in one many-to-many history (collection not loaded at the start, database holds {1, 2}):
    `is_empty()` asks the database and gets item 1, the item is removed, `bool()` loads the rest, item 2 is unlinked from the
    other side, `is_empty()` now answers from the fully loaded SetData, `select()` flushes and reads the rows -/
example : CallersOk (repaired true true) ⟨SetData.new, [1, 2]⟩ [1, 2]
    [.isEmpty (some 1), .remove 1, .count, .nonzero, .revRemove 2, .isEmpty none, .nonzero, .select, .add 3, .select, .isEmpty none] := by decide
example : (run (repaired true true) ⟨SetData.new, [1, 2]⟩ [1, 2]
    [.isEmpty (some 1), .remove 1, .count, .nonzero, .revRemove 2, .isEmpty none, .nonzero, .select, .add 3, .select, .isEmpty none]).toOption.map (·.2.2)
    = some [(0, 0), (1, 1), (1, 1), (1, 1), (0, 0), (0, 0), (1, 1), (0, 0)] := by decide
/-- `is_empty()` on an unloaded empty collection makes it fully loaded with count 0 -/
example : (run (repaired false true) ⟨SetData.new, []⟩ [] [.isEmpty none, .count]).toOption.map (fun r => (r.1.sd.fully, r.1.sd.count, r.2.2))
    = some (true, some 0, [(1, 1), (0, 0)]) := by decide

/-- a one-to-many history with `remove`s, on the repaired code: hypotheses satisfiable, reads right -/
example : CallersOk (repaired false false) ⟨SetData.new, [5]⟩ [5]
    [.add 9, .count, .remove 9, .count, .seen 5, .remove 5, .loadAll, .flush, .count] := by decide
example : (run (repaired false false) ⟨SetData.new, [5]⟩ [5]
    [.add 9, .count, .remove 9, .count, .seen 5, .remove 5, .loadAll, .flush, .count]).toOption.map (·.2.2)
    = some [(2, 2), (1, 1), (0, 0), (0, 0)] := by decide

/-- The code as it is violates the full statement on a one-to-many collection: an object with one committed item (5) gets a
    new item (9) added and removed again; `remove` records the never-saved item in `removed`, and `count()` answers
    1 + 0 − 1 = 0 although the program has one item. -/
theorem C10_count_full_false_remove : ¬ C10_count_full (asFound false false) := by
  intro h
  have := h [5] [.add 9, .remove 9, .count] (by decide) (by decide)
    ⟨⟨[], false, some 0, [], [9], [], true⟩, [5]⟩ [5] [(0, 1)] (by rfl) (0, 1) (by simp)
  simp at this

/-- The code as it is violates the full statement on the side of a many-to-many relationship from which the flush does not
    collect the pairs: the item (7) is unlinked from the other side, the flush deletes the link row but keeps this side's
    `removed`, and `count()` answers 0 + 0 − 1 = −1. -/
theorem C10_count_full_false_flush : ¬ C10_count_full (asFound true false) := by
  intro h
  have := h [7] [.seen 7, .revRemove 7, .flush, .count] (by decide) (by decide)
    ⟨⟨[], false, some (-1), [], [7], [], false⟩, []⟩ [] [(-1, 0)] (by rfl) (-1, 0) (by simp)
  simp at this

end PonyVerif.Props.C10

/-! ## Part 3: lookups by a unique or composite key (Model/KeyLookup.lean) -/

namespace PonyVerif.Props.C10
open PonyVerif.Model.KeyLookup

/-- `C10_cache_lookup` for the unique-key and composite-key shortcuts of `_find_in_cache_`: whenever the key index of the session
    cache answers a lookup, then after a flush (when the database accepts it) the table holds the key in exactly one row, the row
    of that object — the query `SELECT .. WHERE key = v` would return the same object. -/
theorem C10_key_lookup (w w' : World) (h : Inv w) (v : KV) (i : Id) (hidx : w.idx v = some i) (hf : flush w = .ok w') :
    (getBy w v) = (w, .found i) ∧ w'.rows i = some (some v) ∧ ∀ j, w'.rows j = some (some v) → j = i := by
  obtain ⟨o, ho, ha, hk⟩ := (h.idxOk v i).mp hidx
  obtain ⟨hi', hrows, _⟩ := flush_spec h hf
  have hv : view w i = some (some v) := by unfold view; simp [ho, ha, hk]
  refine ⟨by simp [getBy, hidx], by rw [hrows i, hv], fun j hj => hi'.uniq j i v hj (by rw [hrows i, hv])⟩

/-- every lookup by key — answered by the index, or by the query after the implicit flush — returns what the program has:
    `found i` only if the program's object `i` has the key, `notFound` only if no object of the program has it; the lookup does
    not change what the program has and keeps the invariant -/
theorem C10_getBy_sees_changes (w : World) (h : Inv w) (v : KV) :
    (∀ i, (getBy w v).2 = .found i → view w i = some (some v)) ∧
    ((getBy w v).2 = .notFound → ∀ i, view w i ≠ some (some v)) ∧
    ((∀ e, (getBy w v).2 ≠ .error e) → Inv (getBy w v).1 ∧ ∀ j, view (getBy w v).1 j = view w j) := by
  cases hidx : w.idx v with
  | some i =>
    obtain ⟨o, ho, ha, hk⟩ := (h.idxOk v i).mp hidx
    have e : getBy w v = (w, .found i) := by simp [getBy, hidx]
    rw [e]
    refine ⟨?_, by simp, fun _ => ⟨h, fun _ => rfl⟩⟩
    intro j hj; injection hj with hj; subst hj; unfold view; simp [ho, ha, hk]
  | none =>
    cases hf : flush w with
    | error e =>
      have e' : getBy w v = (w, .error e) := by simp [getBy, hidx, hf]
      rw [e']; exact ⟨by simp, by simp, fun hne => absurd rfl (hne e)⟩
    | ok w' =>
      obtain ⟨hi', hrows, hview, _, hm', _⟩ := flush_spec h hf
      have hmemq : ∀ i, i ∈ queryKey w' v ↔ view w i = some (some v) := by
        intro i
        unfold queryKey
        simp only [List.mem_filter, decide_eq_true_eq]
        rw [hrows i]
        constructor
        · exact fun hh => hh.2
        · intro hh; exact ⟨hi'.cover i (by rw [hrows i, hh]; simp), hh⟩
      cases hq : queryKey w' v with
      | nil =>
        have e' : getBy w v = (w', .notFound) := by simp [getBy, hidx, hf, hq]
        rw [e']
        refine ⟨by simp, fun _ i hi => ?_, fun _ => ⟨hi', hview⟩⟩
        have := (hmemq i).mpr hi; rw [hq] at this; cases this
      | cons i rest =>
        cases rest with
        | nil =>
          have e' : getBy w v = fetch w' i := by simp [getBy, hidx, hf, hq]
          rw [e']
          obtain ⟨f1, f2, f3, _⟩ := fetch_spec hi' hm' i
          have hvi : view w i = some (some v) := (hmemq i).mp (by rw [hq]; simp)
          have hvi' : view w' i = some (some v) := by rw [hview i, hvi]
          rw [hvi'] at f1
          refine ⟨?_, by rw [f1]; simp, fun _ => ⟨f2, fun j => (f3 j).trans (hview j)⟩⟩
          intro j hj; rw [f1] at hj; injection hj with hj; subst hj; exact hvi
        | cons i2 rest2 =>
          have e' : getBy w v = (w', .error .multiple) := by simp [getBy, hidx, hf, hq]
          rw [e']; exact ⟨by simp, by simp, fun hne => absurd rfl (hne _)⟩

/-- the same for `E[pk]` in this model (pk index first, `marked_to_delete` → ObjectNotFound, else flush + SELECT) -/
theorem C10_loadPk_sees_changes (w : World) (h : Inv w) (i : Id) :
    ((loadPk w i).2 = .found i → (view w i).isSome = true) ∧
    ((loadPk w i).2 = .notFound → view w i = none) ∧
    ((∀ e, (loadPk w i).2 ≠ .error e) → Inv (loadPk w i).1 ∧ ∀ j, view (loadPk w i).1 j = view w j) := by
  have viaDb : ((loadPk.viaDb w i).2 = .found i → (view w i).isSome = true) ∧
      ((loadPk.viaDb w i).2 = .notFound → view w i = none) ∧
      ((∀ e, (loadPk.viaDb w i).2 ≠ .error e) → Inv (loadPk.viaDb w i).1 ∧ ∀ j, view (loadPk.viaDb w i).1 j = view w j) := by
    unfold loadPk.viaDb
    cases hf : flush w with
    | error e => exact ⟨by simp, by simp, fun hne => absurd rfl (hne e)⟩
    | ok w' =>
      obtain ⟨hi', _, hview, _, hm', _⟩ := flush_spec h hf
      obtain ⟨f1, f2, f3, _⟩ := fetch_spec hi' hm' i
      simp only []
      rw [f1, hview i]
      refine ⟨?_, ?_, fun _ => ⟨f2, fun j => (f3 j).trans (hview j)⟩⟩
      · cases view w i <;> simp
      · cases view w i <;> simp
  unfold loadPk
  cases ho : w.objs i with
  | none => exact viaDb
  | some o =>
    by_cases hg : o.st = .gone
    · simp only [hg, if_true]; exact viaDb
    · simp only [hg, if_false]
      by_cases hmk : o.st = .marked
      · simp only [hmk, if_true]
        exact ⟨by simp, fun _ => by unfold view; simp [ho, hmk, St.alive], fun _ => ⟨h, fun _ => trivial⟩⟩
      · simp only [hmk, if_false]
        have ha : o.st.alive = true := by cases hs : o.st <;> simp [hs, St.alive] at hg hmk ⊢
        exact ⟨fun _ => by unfold view; simp [ho, ha], by simp, fun _ => ⟨h, fun _ => trivial⟩⟩

/-- every call of a well-formed program that does not end the session with a database error keeps the invariant -/
theorem C10_key_step_inv (w : World) (h : Inv w) (op : Op) (hok : OpOk w op) (hne : ∀ e, (step w op).2 ≠ .error e) :
    Inv (step w op).1 := by
  cases op with
  | create i kv => exact create_inv h i kv hok
  | setKey i kv => exact setKey_inv h i kv
  | delete i => exact delete_inv h i
  | loadPk i => exact ((C10_loadPk_sees_changes w h i).2.2 hne).1
  | getBy v => exact ((C10_getBy_sees_changes w h v).2.2 hne).1
  | flush =>
    simp only [step] at hne ⊢
    cases hf : flush w with
    | error e => rw [hf] at hne; exact absurd rfl (hne e)
    | ok w' => exact (flush_spec h hf).1
  | newSession =>
    simp only [step] at hne ⊢
    cases hf : flush w with
    | error e => rw [hf] at hne; exact absurd rfl (hne e)
    | ok w' =>
      obtain ⟨hi', _, _, _, hm', _⟩ := flush_spec h hf
      simp only []
      refine ⟨?_, hi'.cover, ?_, ?_, ?_, hi'.uniq⟩ <;> simp

/-- the states a well-formed program can reach from a table that satisfies its UNIQUE constraint -/
inductive Reachable (w0 : World) : World → Prop
  | start : Reachable w0 w0
  | step (w : World) (op : Op) : Reachable w0 w → OpOk w op → (∀ e, (step w op).2 ≠ .error e) → Reachable w0 (step w op).1

/-- For ALL histories: in every state a well-formed program reaches — whatever it created, re-keyed, deleted, flushed or loaded,
    over any number of sessions — a lookup by unique / composite key and a lookup by primary key return what the program has. -/
theorem C10_key_reads_all_histories (ids : List Id) (rows : Id → Option (Option KV))
    (hc : ∀ i, rows i ≠ none → i ∈ ids) (hu : ∀ i j v, rows i = some (some v) → rows j = some (some v) → i = j)
    (w : World) (hr : Reachable (World.init ids rows) w) (v : KV) :
    (∀ i, (getBy w v).2 = .found i → view w i = some (some v)) ∧
    ((getBy w v).2 = .notFound → ∀ i, view w i ≠ some (some v)) := by
  have hinv : Inv w := by
    induction hr with
    | start => exact inv_init ids rows hc hu
    | step w op _ hok hne ih => exact C10_key_step_inv w ih op hok hne
  exact ⟨(C10_getBy_sees_changes w hinv v).1, (C10_getBy_sees_changes w hinv v).2.1⟩

/-- non-trivial instance: a committed object with key [1] is re-keyed to [2] (unflushed), a new object takes key [1]; the index
    answers both lookups without a query, `[3]` is answered `notFound` after the implicit flush; a clash with a row that is not
    loaded is refused by the database at the flush -/
example : (run (World.init [7, 8] (fun i => if i = 7 then some (some [1]) else if i = 8 then some (some [5]) else none))
    [.loadPk 7, .setKey 7 (some [2]), .create 9 (some [1]), .getBy [1], .getBy [2], .getBy [3], .getBy [5], .delete 8, .getBy [5]]).2
    = [.found 7, .ok, .ok, .found 9, .found 7, .notFound, .found 8, .ok, .notFound] := by decide
example : (run (World.init [7, 8] (fun i => if i = 7 then some (some [1]) else if i = 8 then some (some [5]) else none))
    [.loadPk 7, .setKey 7 (some [5]), .getBy [5], .flush]).2 = [.found 7, .ok, .found 7, .error .uniqueViolation] := by decide

end PonyVerif.Props.C10

/-! ## Part 4: the query-result cache across flushes (Model/QueryCache.lean over the GENERATED event order of SessionCache.flush) -/

namespace PonyVerif.Props.C10
open PonyVerif.Model.QueryCache PonyVerif.Gen.FlushQueryCache

private theorem query_fresh (s : St) (h : Fresh s) : Fresh (query s).1 ∧ (query s).2 = s.db ∧ (query s).1.db = s.db := by
  unfold query
  cases hq : s.qc with
  | none => simp [Fresh]
  | some v => rcases h with h | h <;> simp_all [Fresh]

/-- one round of the flush, with the events in the order they have in the source NOW (generated), leaves no stale entry, whether
    the before_* hooks and the after_* hooks run the query or not - the entry a before-hook's query stored is dropped before the
    rows are written -/
theorem C10_flush_round_keeps_cache_fresh (s : St) (q : Bool × Bool) (h : Fresh s) : Fresh (round flushEvents s q) := by
  obtain ⟨qb, qa⟩ := q
  have h1 := query_fresh s h
  cases qb <;> cases qa <;> simp only [round, flushEvents, List.foldl, ev, if_true, if_false, Bool.false_eq_true] <;>
    first
      | (simp [Fresh]; done)
      | (apply (query_fresh _ _).1; simp [Fresh])

private theorem rounds_fresh (rs : List (Bool × Bool)) (s : St) (h : Fresh s) : Fresh (rs.foldl (round flushEvents) s) := by
  induction rs generalizing s with
  | nil => exact h
  | cons q rs ih => exact ih _ (C10_flush_round_keeps_cache_fresh s q h)

private theorem flush_fresh (rs : List (Bool × Bool)) (s : St) (h : Fresh s) : Fresh (flush flushEvents rs s) := by
  unfold flush
  by_cases hp : s.pending = true
  · simp only [hp, Bool.not_true, Bool.false_eq_true, if_false]
    have := rounds_fresh rs s h
    unfold Fresh at this ⊢; exact this
  · simp [hp, h]

/-- `C10_query_cache`: for ALL histories of modifications, explicit flushes and queries (any number of flush rounds, hooks that
    run the same query or not) every answer of the application's query is the result for the database as it is at that moment,
    i.e. after the flush that the query itself triggered: never an entry stored before rows were written. -/
theorem C10_query_cache_all_histories (ops : List Op) (s : St) (h : Fresh s) :
    ∀ a ∈ run flushEvents s ops, a.1 = a.2 := by
  induction ops generalizing s with
  | nil => intro a ha; cases ha
  | cons op ops ih =>
    cases op with
    | modify =>
      simp only [run, step]
      exact ih _ (by unfold Fresh at h ⊢; exact h)
    | flush rs =>
      simp only [run, step]
      exact ih _ (flush_fresh _ s h)
    | read rs =>
      simp only [run, step]
      have hf := flush_fresh ((true, false) :: rs) s h
      obtain ⟨q1, q2, _⟩ := query_fresh _ hf
      intro a ha
      rcases List.mem_cons.mp ha with rfl | ha
      · exact q2
      · exact ih _ q1 a ha

/-- the order matters: with the cache emptied BEFORE the before_* hooks (the order of the seeded change c10-3) a hook's query
    stores the old result, the rows are written, and the application's next query gets the old result -/
theorem C10_query_cache_clear_before_hooks_is_stale :
    ∃ a ∈ run [.clearQueryResults, .hooks, .write, .write, .write, .afterHooks] ⟨0, none, false⟩ [.modify, .read []], a.1 ≠ a.2 := by
  refine ⟨(0, 3), ?_, by decide⟩
  decide

/-- nothing that touches the query-result cache or writes rows sits outside the round loop of `SessionCache.flush` -/
theorem C10_bridge_flush_events_inside_loop : outsideLoop = [] := rfl

/-- non-trivial instance on the generated order: create, read (the hook's query runs inside the implicit flush), read again -/
example : run flushEvents ⟨0, none, false⟩ [.modify, .read [], .read [], .modify, .flush [(true, true)], .read []] = [(3, 3), (3, 3), (9, 9)] := by decide

end PonyVerif.Props.C10

/-! ## Part 5: EVERY query - keyword filters, generator / lambda queries, aggregates, exists - sees the session's own changes
    (session model; the auto-flush in front of the statement is tied to the source by a generated bridge) -/

namespace PonyVerif.Props.C10
open PonyVerif.Model.SessStore PonyVerif.Gen.FlushQueryCache

/-- A query the database evaluates: ANY function `q` of the database as the session's transaction sees it (rows and link rows) -
    `E.select(**kw)`, `select(x for x in E if ..)`, `E.select(lambda ..)`, `exists`, `count` / `sum` / `min` / `max` / `avg`, `E.get(**kw)`,
    a collection's `select()` ... differ only in `q`.  `Database._exec_sql`: `prepare_connection_for_query_execution` flushes the
    session when it is modified, then the statement runs. -/
def runQuery {α : Type} (q : Db → α) (w : World) : Except DbErr (World × α) :=
  match flushIfModified w with
  | .error e => .error e
  | .ok (w', _) => .ok (w', q w'.txn)

/-- `C10_query_sees_changes`: for EVERY query `q` whatsoever, in every state that satisfies the session invariant, the auto-flush
    succeeds and the query returns `q` of the session's logical view - the database as the program has it, every unflushed
    creation, assignment, deletion and link change included; the session keeps its invariant and its logical view, and what the
    query did to the session is exactly an explicit `flush()`. -/
theorem C10_query_sees_changes {α : Type} (q : Db → α) (w : World) (h : Inv w) :
    ∃ w', runQuery q w = .ok (w', q (abs w)) ∧ Inv w' ∧ abs w' = abs w ∧ (step w .flush).1 = w' := by
  obtain ⟨w', ws, e, hi, hcl, ha, _⟩ := flushIfModified_spec h
  have ht : w'.txn = abs w := by rw [← ha]; exact (abs_eq_txn_of_clean hi.q.objs hcl).symm
  refine ⟨w', ?_, hi, ha, ?_⟩
  · simp [runQuery, e, ht]
  · simp [step, e]

/-- For ALL histories of a well-formed program (creates, assignments, link changes, deletes, loads, flushes, commits, rollbacks,
    session ends, any number of sessions) and EVERY query: issued at any point, the query returns its value on the state the
    program has at that point (the reference machine's working state), flushed or not. -/
theorem C10_queries_see_own_changes {α : Type} (q : Db → α) (d : Db) (ops : List Op)
    (hv : ValidFrom ⟨World.init d, Spec.init d⟩ ops) :
    let r := runBoth ⟨World.init d, Spec.init d⟩ ops
    ∃ w', runQuery q r.w = .ok (w', q r.s.working) ∧ Sim ⟨w', r.s⟩ := by
  have hs := run_sim ops _ (sim_init d) hv
  obtain ⟨w', e, hi, ha, hf⟩ := C10_query_sees_changes q _ hs.inv
  refine ⟨w', by rw [e, hs.view], hi, ?_, by rw [ha]; exact hs.view⟩
  -- the committed state is untouched by a flush
  obtain ⟨w'', ws, e', _, _, _, hc⟩ := flushIfModified_spec hs.inv
  have : w' = w'' := by
    have := hf; simp [step, e'] at this; exact this.symm
  show w'.committed = _
  rw [this, hc]; exact hs.committed

/-- the auto-flush the model assumes is what the source does NOW (regenerated on every run, harness/gen_c10.py): in
    `Database._exec_sql` the connection is prepared before the statement is executed (also before the retry after a reconnect), and
    `prepare_connection_for_query_execution` calls `cache.flush()` under exactly the test `not cache.noflush_counter and cache.modified`
    (inside a `flush_disabled()` block - hooks, the internals of collection calls - queries deliberately do not flush). -/
theorem C10_bridge_query_flushes_first :
    queryPath.head? = some QueryEv.prepare ∧ QueryEv.execute ∈ queryPath ∧
    prepareFlushTests = ["not cache.noflush_counter and cache.modified"] := by decide

/-- non-trivial instances: a count over a predicate and a sum, with an unflushed create, assignment and delete -/
def countWhere (keys : List Key) (p : (Nat → Cell) → Bool) (d : Db) : Nat :=
  (keys.filter fun k => match d.rows k with | some r => p r | none => false).length

example :
    let ops : List Op := [.create ⟨0, 1⟩ [.int 5], .create ⟨0, 2⟩ [.int 1], .create ⟨0, 3⟩ [.int 9], .endOk, .load ⟨0, 1⟩, .load ⟨0, 2⟩,
                          .set ⟨0, 2⟩ 0 (.int 7), .delete ⟨0, 1⟩, .create ⟨0, 4⟩ [.int 8]]
    let r := runBoth ⟨World.init Db.empty, Spec.init Db.empty⟩ ops
    let big := countWhere [⟨0, 1⟩, ⟨0, 2⟩, ⟨0, 3⟩, ⟨0, 4⟩] (fun row => match row 0 with | .int v => decide (v > 6) | _ => false)
    ValidFrom ⟨World.init Db.empty, Spec.init Db.empty⟩ ops ∧ r.w.cache.modified = true ∧
    (runQuery big r.w).toOption.map (·.2) = some 3 ∧ big r.w.txn = 1 := by decide

end PonyVerif.Props.C10

/-! ## Part 6: lookups that the cache answers, with ADDITIONAL criteria on other attributes (`E.get(id=1, rank=None)`,
    `E.exists(code='A', owner=x)`): the object found is checked against every criterion - a value, None (`.null`), a reference, a
    None reference alike (session model) -/

namespace PonyVerif.Props.C10
open PonyVerif.Model.SessStore PonyVerif.Gen.FlushQueryCache

/-- the criteria of a keyword lookup on the other attributes: column ↦ required cell (`.null` for `attr=None`) -/
abbrev Criteria := List (Nat × Cell)

def meets (row : Nat → Cell) (crit : Criteria) : Bool := crit.all fun c => row c.1 = c.2

/-- what the database answers to `SELECT .. WHERE pk = k AND col = v AND ..` -/
def queryWhere (d : Db) (k : Key) (crit : Criteria) : Outcome :=
  match queryDb d k with
  | .found row => if meets row crit then .found row else .notFound
  | o => o

/-- `_find_one_` with additional criteria: the lookup by key (cache first, else auto-flush + SELECT), then the verification loop of
    `_find_in_cache_` - `if val != attr.__get__(obj): throw ObjectNotFound` for EVERY criterion, `None` included -/
def lookupWhere (w : World) (k : Key) (crit : Criteria) : Outcome :=
  match (step w (.load k)).2.1 with
  | .found row => if meets row crit then .found row else .notFound
  | o => o

/-- `C10_lookup_with_criteria`: whatever the session did to the other attributes - assigned a value over None, None over a value,
    a reference, dropped a reference; flushed or not - a keyword lookup with additional criteria returns what the database answers
    after a flush: the object iff EVERY criterion equals the value the program has given the attribute (`None` criteria are
    compared like any other), else ObjectNotFound / None / False. -/
theorem C10_lookup_with_criteria (w : World) (h : Inv w) (k : Key) (crit : Criteria) :
    lookupWhere w k crit = queryWhere (abs w) k crit := by
  unfold lookupWhere queryWhere
  rw [C10_lookup_sees_changes w h k]

/-- for ALL histories of a well-formed program -/
theorem C10_lookups_with_criteria_see_own_changes (d : Db) (ops : List Op) (hv : ValidFrom ⟨World.init d, Spec.init d⟩ ops)
    (k : Key) (crit : Criteria) :
    let r := runBoth ⟨World.init d, Spec.init d⟩ ops
    lookupWhere r.w k crit = queryWhere r.s.working k crit := by
  have hs := run_sim ops _ (sim_init d) hv
  show lookupWhere _ k crit = queryWhere _ k crit
  rw [← hs.view]; exact C10_lookup_with_criteria _ hs.inv k crit

/-- skipping `None` criteria in the verification (the seeded change c10-4) answers wrongly: the object whose column 0 was set from
    NULL to 7 (not flushed) is still found by `get(pk, col0=None)` -/
def lookupWhereSkippingNone (w : World) (k : Key) (crit : Criteria) : Outcome :=
  lookupWhere w k (crit.filter fun c => c.2 ≠ .null)

theorem C10_lookup_skipping_none_criteria_is_wrong :
    let ops : List Op := [.create ⟨0, 1⟩ [.null], .endOk, .load ⟨0, 1⟩, .set ⟨0, 1⟩ 0 (.int 7)]
    let r := runBoth ⟨World.init Db.empty, Spec.init Db.empty⟩ ops
    ValidFrom ⟨World.init Db.empty, Spec.init Db.empty⟩ ops ∧
    isNotFound (queryWhere r.s.working ⟨0, 1⟩ [(0, .null)]) = true ∧
    isNotFound (lookupWhere r.w ⟨0, 1⟩ [(0, .null)]) = true ∧
    isNotFound (lookupWhereSkippingNone r.w ⟨0, 1⟩ [(0, .null)]) = false := by decide

/-- the verification loop of `EntityMeta._find_in_cache_` as it is in the source NOW (regenerated on every run): one statement,
    the comparison of EVERY criterion with the object's current value - no criterion is skipped -/
theorem C10_bridge_cache_lookup_verifies_all_criteria :
    cacheVerify = ["if val != attr.__get__(obj): ;     throw(ObjectNotFound, entity, pkval)"] := by decide

end PonyVerif.Props.C10
