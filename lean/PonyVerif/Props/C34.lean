/-
  C34 — permission checks follow the declared access rules.  Property theorems only.
  Model: `PonyVerif/Model/Perm.lean` (hand model of `has_perm`, its `perm_cache`, `can_*`, `AccessRule.exclude`,
  the object filter of `Database.to_json`); tie: `harness/engines/c34.py`.
-/
import PonyVerif.Lemmas.Perm
namespace PonyVerif.Props.C34
open PonyVerif.Model.Perm

/-! ### the declarative reading of the declared rules -/

/-- rule `r` was declared for permission `perm` on entity `e` -/
def RuleFor (r : Rule) (e : Nat) (perm : String) : Prop := e ∈ r.entities ∧ perm ∈ r.perms
/-- every group the rule names is a group of the user (`'anybody'` is in both) -/
def GroupsOk (env : Env) (user : User) (r : Rule) : Prop := ∀ g ∈ r.groups, g ∈ getUserGroups env user

def SpecEntity (env : Env) (user : User) (perm : String) (e : Nat) : Prop :=
  ∃ r ∈ env.rules, RuleFor r e perm ∧ GroupsOk env user r ∧ e ∉ r.exclE

/-- some rule of entity `e` grants attribute `a` of `e` -/
def DirectAttr (env : Env) (user : User) (perm : String) (e a : Nat) : Prop :=
  ∃ r ∈ env.rules, RuleFor r e perm ∧ GroupsOk env user r ∧ e ∉ r.exclE ∧ a ∉ r.exclA

/-- the attribute is one side of a relationship and the rules of the OTHER entity grant the other side -/
def ViaReverse (env : Env) (user : User) (perm : String) (a : AttrRef) : Prop :=
  ∃ ra re, a.reverse = some (ra, re) ∧ DirectAttr env user perm re ra

/-- the declarative reading for an attribute -/
def SpecAttr (env : Env) (user : User) (perm : String) (a : AttrRef) : Prop :=
  a.hidden = false ∧ (DirectAttr env user perm a.entity a.id ∨ ViaReverse env user perm a)

/-- the attribute's own entity has at least one rule for `perm` — whatever that rule says -/
def HasRule (env : Env) (e : Nat) (perm : String) : Prop := ∃ r ∈ env.rules, RuleFor r e perm

/-- what the code computes for an attribute -/
def SpecAttrExact (env : Env) (user : User) (perm : String) (a : AttrRef) : Prop :=
  a.hidden = false ∧ HasRule env a.entity perm ∧ (DirectAttr env user perm a.entity a.id ∨ ViaReverse env user perm a)

def SpecObj (env : Env) (user : User) (perm : String) (o : Obj) : Prop :=
  ∃ r ∈ env.rules, RuleFor r o.entity perm ∧ GroupsOk env user r ∧
    (∀ x ∈ r.roles, x ∈ getUserRoles env user o) ∧ (∀ x ∈ r.labels, x ∈ getObjectLabels env o) ∧ o.entity ∉ r.exclE

/-- the reading of `has_perm(user, perm, x)` for any `x` (exact for attributes) -/
def Spec (env : Env) (user : User) (perm : String) : Target → Prop
  | .entity e => SpecEntity env user perm e
  | .attr a => SpecAttrExact env user perm a
  | .obj o => SpecObj env user perm o

private theorem any_guard {α} (l : List α) (p : α → Bool) : (if l.isEmpty then false else l.any p) = l.any p := by
  cases l <;> simp

private theorem mem_accessRules (rules : List Rule) (e : Nat) (perm : String) (r : Rule) :
    r ∈ accessRules rules e perm ↔ r ∈ rules ∧ RuleFor r e perm := by
  simp [accessRules, List.mem_filter, RuleFor]

private theorem accessRules_nonempty (rules : List Rule) (e : Nat) (perm : String) :
    (accessRules rules e perm).isEmpty = false ↔ ∃ r ∈ rules, RuleFor r e perm := by
  constructor
  · intro h
    cases hl : accessRules rules e perm with
    | nil => simp [hl] at h
    | cons r rs =>
      have : r ∈ accessRules rules e perm := by rw [hl]; exact List.mem_cons_self
      exact ⟨r, (mem_accessRules rules e perm r).mp this⟩
  · rintro ⟨r, hr⟩
    have : r ∈ accessRules rules e perm := (mem_accessRules rules e perm r).mpr hr
    cases hl : accessRules rules e perm with
    | nil => rw [hl] at this; cases this
    | cons _ _ => rfl

private theorem directAttr_iff (env : Env) (user : User) (perm : String) (e a : Nat) :
    (accessRules env.rules e perm).any (grantsAttr (getUserGroups env user) e a) = true ↔ DirectAttr env user perm e a := by
  simp only [List.any_eq_true, mem_accessRules, grantsAttr, Bool.and_eq_true, subset_iff, Bool.not_eq_true',
    List.contains_eq_mem, decide_eq_false_iff_not, DirectAttr, GroupsOk]
  constructor
  · rintro ⟨r, ⟨hr, hf⟩, ⟨hg, he⟩, ha⟩; exact ⟨r, hr, hf, hg, he, ha⟩
  · rintro ⟨r, hr, hf, hg, he, ha⟩; exact ⟨r, ⟨hr, hf⟩, ⟨hg, he⟩, ha⟩

/-! ### `has_perm` = the declarative reading, for all rule lists, users, permissions -/

/-- entity classes: ALL rule lists, users, permissions, entities -/
theorem C34_entity (env : Env) (user : User) (perm : String) (e : Nat) :
    hasPerm env user perm (.entity e) = true ↔ SpecEntity env user perm e := by
  rw [hasPerm_eq]
  simp only [hasPerm0, Target.hidden, Target.entityOf, evalRules, entityLoop_eq, any_guard, Bool.false_eq_true, if_false,
    List.any_eq_true, mem_accessRules, grantsEntity, Bool.and_eq_true, subset_iff, Bool.not_eq_true',
    List.contains_eq_mem, decide_eq_false_iff_not, SpecEntity, GroupsOk]
  constructor
  · rintro ⟨r, ⟨hr, hf⟩, hg, he⟩; exact ⟨r, hr, hf, hg, he⟩
  · rintro ⟨r, hr, hf, hg, he⟩; exact ⟨r, ⟨hr, hf⟩, hg, he⟩

/-- entity instances: groups, the user's roles on the object, the object's labels, entity exclusions -/
theorem C34_object (env : Env) (user : User) (perm : String) (o : Obj) :
    hasPerm env user perm (.obj o) = true ↔ SpecObj env user perm o := by
  rw [hasPerm_eq]
  simp only [hasPerm0, Target.hidden, Target.entityOf, evalRules, objLoop_eq, any_guard, Bool.false_eq_true, if_false,
    List.any_eq_true, mem_accessRules, grantsObj, Bool.and_eq_true, subset_iff, Bool.not_eq_true',
    List.contains_eq_mem, decide_eq_false_iff_not, SpecObj, GroupsOk]
  constructor
  · rintro ⟨r, ⟨hr, hf⟩, ⟨⟨he, hg⟩, hro⟩, hl⟩; exact ⟨r, hr, hf, hg, hro, hl, he⟩
  · rintro ⟨r, hr, hf, hg, hro, hl, he⟩; exact ⟨r, ⟨hr, hf⟩, ⟨⟨he, hg⟩, hro⟩, hl⟩

/-- attributes, exactly what the code grants: not hidden, the attribute's entity has SOME rule for the permission, and
    a rule of that entity grants the attribute or a rule of the reverse entity grants the reverse attribute -/
theorem C34_attr_exact (env : Env) (user : User) (perm : String) (a : AttrRef) :
    hasPerm env user perm (.attr a) = true ↔ SpecAttrExact env user perm a := by
  rw [hasPerm_eq]
  unfold hasPerm0 SpecAttrExact
  simp only [Target.hidden, Target.entityOf, evalRules, attrLoop_eq]
  cases hh : a.hidden
  · simp only [Bool.false_eq_true, if_false, true_and]
    cases hne : (accessRules env.rules a.entity perm).isEmpty
    · have hr : HasRule env a.entity perm := (accessRules_nonempty _ _ _).mp hne
      simp only [Bool.false_eq_true, if_false, Bool.not_false, Bool.true_and, Bool.or_eq_true, directAttr_iff, hr, true_and]
      apply or_congr Iff.rfl
      unfold reverseGrant ViaReverse
      cases hrev : a.reverse with
      | none => simp
      | some p =>
        obtain ⟨ra, re⟩ := p
        simp only [directAttr_iff]
        constructor
        · intro h; exact ⟨ra, re, rfl, h⟩
        · rintro ⟨ra', re', h1, h2⟩
          cases h1; exact h2
    · have hn : ¬ HasRule env a.entity perm := by
        intro h
        have := (accessRules_nonempty _ _ _).mpr h
        rw [hne] at this; cases this
      simp [hn]
  · simp

/-- hidden attributes are never granted -/
theorem C34_hidden (env : Env) (user : User) (perm : String) (a : AttrRef) (h : a.hidden = true) :
    hasPerm env user perm (.attr a) = false := by
  rw [hasPerm_eq]; simp [hasPerm0, Target.hidden, h]

/-- the FULL declarative statement for attributes: "granted by a rule of its entity, or through the reverse attribute's rules" -/
def C34_attr_full : Prop :=
  ∀ (env : Env) (user : User) (perm : String) (a : AttrRef),
    hasPerm env user perm (.attr a) = true ↔ SpecAttr env user perm a

/-- witness: the only rule is `with db.set_perms_for(B): perm('view', group='g')`, the user is in group g, and the question
    is about `A.b`, whose reverse `B.as_` the rule grants.  (entity A = 0, B = 2; attribute A.b = 3, B.as_ = 7) -/
def witnessEnv : Env :=
  { rules := [{ entities := [2], perms := ["view"], groups := ["anybody", "g"], roles := [], labels := [], exclE := [], exclA := [] }],
    groupsOf := fun _ => ["g"], rolesOf := fun _ _ => [], labelsOf := fun _ => [], userObj := fun _ => none }
def witnessAttr : AttrRef := { id := 3, entity := 0, hidden := false, pk := false, reverse := some (7, 2) }
def witnessRev : AttrRef := { id := 7, entity := 2, hidden := false, pk := false, reverse := some (3, 0) }

/-- the code does NOT implement the full statement: with no rule at all on A for 'view', `A.b` is refused although the
    reverse side `B.as_` is granted -/
theorem C34_attr_full_false : ¬ C34_attr_full := by
  intro h
  have h1 := (h witnessEnv (some 0) "view" witnessAttr).mpr
  have : hasPerm witnessEnv (some 0) "view" (.attr witnessAttr) = false := by decide
  rw [this] at h1
  apply Bool.false_ne_true
  apply h1
  refine ⟨rfl, Or.inr ⟨7, 2, rfl, ?_⟩⟩
  refine ⟨_, List.mem_singleton.mpr rfl, ⟨by decide, by decide⟩, ?_, by decide, by decide⟩
  intro g hg
  simp [getUserGroups, witnessEnv] at hg ⊢
  rcases hg with rfl | rfl <;> simp

/-- the reverse attribute of the witness IS granted, and adding a rule on A for a group the user is NOT in turns the
    answer for `A.b` into `true` -/
theorem C34_attr_witness_flips :
    hasPerm witnessEnv (some 0) "view" (.attr witnessRev) = true ∧
    hasPerm { witnessEnv with rules := witnessEnv.rules ++
      [{ entities := [0], perms := ["view"], groups := ["anybody", "other"], roles := [], labels := [], exclE := [], exclA := [] }] }
      (some 0) "view" (.attr witnessAttr) = true := by
  constructor <;> decide

/-- the strongest guarded statement: whenever the attribute's entity has a rule for the permission (or the attribute is
    not a relationship), `has_perm` is the full declarative reading -/
theorem C34_attr_partial (env : Env) (user : User) (perm : String) (a : AttrRef)
    (guard : HasRule env a.entity perm ∨ a.reverse = none) :
    hasPerm env user perm (.attr a) = true ↔ SpecAttr env user perm a := by
  rw [C34_attr_exact]
  unfold SpecAttrExact SpecAttr
  constructor
  · rintro ⟨h1, _, h3⟩; exact ⟨h1, h3⟩
  · rintro ⟨h1, h3⟩
    refine ⟨h1, ?_, h3⟩
    rcases guard with g | g
    · exact g
    · rcases h3 with ⟨r, hr, hf, _⟩ | ⟨ra, re, hrev, _⟩
      · exact ⟨r, hr, hf⟩
      · rw [g] at hrev; cases hrev

example : HasRule witnessEnv 2 "view" ∨ witnessRev.reverse = none :=
  Or.inl ⟨_, List.mem_singleton.mpr rfl, by decide, by decide⟩

/-- all three kinds of target at once -/
theorem C34_spec (env : Env) (user : User) (perm : String) (x : Target) :
    hasPerm env user perm x = true ↔ Spec env user perm x := by
  cases x with
  | entity e => exact C34_entity env user perm e
  | attr a => exact C34_attr_exact env user perm a
  | obj o => exact C34_object env user perm o

/-! ### order independence: `entity._access_rules_[perm]` is a Python set -/

private theorem spec_perm (env : Env) (rules' : List Rule) (hp : env.rules.Perm rules') (user : User) (perm : String) (x : Target) :
    Spec env user perm x ↔ Spec { env with rules := rules' } user perm x := by
  have hm : ∀ r, r ∈ env.rules ↔ r ∈ rules' := fun r => hp.mem_iff
  cases x <;>
    simp only [Spec, SpecEntity, SpecAttrExact, SpecObj, HasRule, DirectAttr, ViaReverse, GroupsOk, hm] <;> rfl

/-- the answer does not depend on the order in which the rules are stored or iterated: for every permutation of the rule list -/
theorem C34_order_independent (env : Env) (rules' : List Rule) (hp : env.rules.Perm rules')
    (user : User) (perm : String) (x : Target) :
    hasPerm { env with rules := rules' } user perm x = hasPerm env user perm x := by
  rw [Bool.eq_iff_iff, C34_spec, C34_spec]
  exact (spec_perm env rules' hp user perm x).symm

/-! ### the cache: repeated calls, whole sessions -/

/-- no reachable cache ever answers a lookup: everything `has_perm` stores is keyed by the permission name, everything it
    looks up is keyed by `x` -/
theorem C34_cache_never_hit (env : Env) (calls : List (User × String × Target)) (u : User) (p : String) (x : Target) :
    ∀ c, CacheInv c → CacheInv (calls.foldl (fun c q => (hasPermC env c q.1 q.2.1 q.2.2).2) c) ∧
      (calls.foldl (fun c q => (hasPermC env c q.1 q.2.1 q.2.2).2) c).get (u, p, .x x) = none := by
  induction calls with
  | nil => intro c h; exact ⟨h, cache_miss c h u p x⟩
  | cons q rest ih => intro c h; exact ih _ (hasPermC_inv env c h q.1 q.2.1 q.2.2)

/-- cache soundness for ALL histories: in a session (starting with the empty `perm_cache`), after any sequence of
    `has_perm` calls by any users, every call returns what it returns in a fresh session -/
theorem C34_session (env : Env) (calls : List (User × String × Target)) :
    runCalls env [] calls = calls.map (fun q => hasPerm env q.1 q.2.1 q.2.2) := by
  suffices h : ∀ c, CacheInv c → runCalls env c calls = calls.map (fun q => hasPerm env q.1 q.2.1 q.2.2) from
    h [] cacheInv_nil
  induction calls with
  | nil => intro c _; rfl
  | cons q rest ih =>
    intro c hc
    obtain ⟨u, p, x⟩ := q
    simp only [runCalls, List.map_cons]
    rw [hasPermC_fst env c hc, ih _ (hasPermC_inv env c hc u p x)]

/-- repeat-call stability: the same question asked again later in the same session gets the same answer -/
theorem C34_repeat (env : Env) (before between : List (User × String × Target)) (q : User × String × Target) :
    ∃ r, runCalls env [] (before ++ q :: between ++ [q]) =
      (before.map (fun q => hasPerm env q.1 q.2.1 q.2.2)) ++ r :: (between.map (fun q => hasPerm env q.1 q.2.1 q.2.2)) ++ [r] := by
  refine ⟨hasPerm env q.1 q.2.1 q.2.2, ?_⟩
  rw [C34_session]; simp

/-! ### the thread-local group / role caches across db_sessions -/

/-- for ALL histories of db_sessions on one thread — any number of sessions, each ending by commit, by rollback or by a
    failing commit, the rules and the answers of the getters changing arbitrarily BETWEEN sessions — every `has_perm`
    answer of a session is computed from the groups and roles the getters return in THAT session: it equals the answer of
    a fresh thread in the session's own world -/
theorem C34_sessions_current (sessions : List (Env × List (User × String × Target) × ExitKind)) :
    runThread { groups := [], roles := [] } sessions =
      sessions.map (fun s => s.2.1.map (fun q => hasPerm s.1 q.1 q.2.1 q.2.2)) := by
  suffices h : ∀ l : Local, l.groups = [] → l.roles = [] →
      runThreadWith exitSession l sessions = sessions.map (fun s => s.2.1.map (fun q => hasPerm s.1 q.1 q.2.1 q.2.2)) from
    h _ rfl rfl
  induction sessions with
  | nil => intro l _ _; rfl
  | cons s rest ih =>
    intro l hg hr
    obtain ⟨env, calls, k⟩ := s
    simp only [runThreadWith, List.map_cons]
    have h1 := runSessionCalls_inv env calls { perm := [], loc := l, labels := [] } cacheInv_nil (lInv_empty env l hg hr)
      (by intro kv h; cases h)
    generalize runSessionCalls env { perm := [], loc := l, labels := [] } calls = res at h1
    obtain ⟨rs, s1⟩ := res
    simp only at h1 ⊢
    rw [h1, ih (exitSession k s1.loc) (by cases k <;> rfl) (by cases k <;> rfl)]

/-- every kind of exit empties both caches -/
theorem C34_exit_clears (k : ExitKind) (l : Local) : (exitSession k l).groups = [] ∧ (exitSession k l).roles = [] := by
  cases k <;> exact ⟨rfl, rfl⟩

/-- the theorem is sensitive to WHERE the caches are cleared: if they were cleared only after a successful commit, a user
    demoted after a rolled-back session would keep the old answer (session 1: user 0 is in group g and is asked about;
    it ends by rollback; session 2: user 0 is in no group) -/
theorem C34_clear_on_commit_only_is_stale :
    ∃ sessions, runThreadWith exitSessionCommitOnly { groups := [], roles := [] } sessions ≠
      sessions.map (fun s => s.2.1.map (fun q => hasPerm s.1 q.1 q.2.1 q.2.2)) :=
  ⟨[(witnessEnv, [(some 0, "view", .entity 2)], .rollback),
    ({ witnessEnv with groupsOf := fun _ => [] }, [(some 0, "view", .entity 2)], .commit)], by decide⟩

/-! ### the getter registries -/

private theorem foldl_getters (gs : List (Bool × Answer)) (acc : List String) (x : String) :
    x ∈ gs.foldl (fun acc g => if g.1 then collect acc g.2 else acc) acc ↔
      x ∈ acc ∨ ∃ g ∈ gs, g.1 = true ∧ (g.2 = .single x ∨ ∃ l, g.2 = .many l ∧ x ∈ l) := by
  induction gs generalizing acc with
  | nil => simp
  | cons g r ih =>
    simp only [List.foldl_cons, ih, List.mem_cons, exists_eq_or_imp]
    obtain ⟨b, a⟩ := g
    cases b
    · simp
    · cases a with
      | single s =>
        simp only [collect, List.mem_append, List.mem_singleton, if_true, true_and, Answer.single.injEq]
        constructor
        · rintro ((h | h) | h)
          · exact Or.inl h
          · exact Or.inr (Or.inl (Or.inl h.symm))
          · exact Or.inr (Or.inr h)
        · rintro (h | (h | ⟨l, h, _⟩) | h)
          · exact Or.inl (Or.inl h)
          · exact Or.inl (Or.inr h.symm)
          · cases h
          · exact Or.inr h
      | nothing => simp [collect]
      | many l =>
        simp only [collect, List.mem_append, if_true, true_and]
        constructor
        · rintro ((h | h) | h)
          · exact Or.inl h
          · exact Or.inr (Or.inl (Or.inr ⟨l, rfl, h⟩))
          · exact Or.inr (Or.inr h)
        · rintro (h | (h | ⟨l', h, hx⟩) | h)
          · exact Or.inl (Or.inl h)
          · cases h
          · cases h; exact Or.inl (Or.inr hx)
          · exact Or.inr h

/-- the user's groups are 'anybody' and exactly the union of what the APPLICABLE getters answer — a `str` answer counts
    as one name, `None` as nothing — for every registry and every combination of answers -/
theorem C34_getters_union (gs : List (Bool × Answer)) (x : String) :
    x ∈ groupsFromGetters gs ↔
      x = "anybody" ∨ ∃ g ∈ gs, g.1 = true ∧ (g.2 = .single x ∨ ∃ l, g.2 = .many l ∧ x ∈ l) := by
  unfold groupsFromGetters foldGetters
  rw [List.mem_cons, foldl_getters]
  simp

/-- the same for roles (plus `'self'` exactly when the user is the object) and for labels -/
theorem C34_role_label_getters_union (isSelf : Bool) (gs : List (Bool × Answer)) (x : String) :
    (x ∈ rolesFromGetters isSelf gs ↔
      (isSelf = true ∧ x = "self") ∨ ∃ g ∈ gs, g.1 = true ∧ (g.2 = .single x ∨ ∃ l, g.2 = .many l ∧ x ∈ l)) ∧
    (x ∈ labelsFromGetters gs ↔ ∃ g ∈ gs, g.1 = true ∧ (g.2 = .single x ∨ ∃ l, g.2 = .many l ∧ x ∈ l)) := by
  unfold rolesFromGetters labelsFromGetters foldGetters
  constructor
  · rw [List.mem_append, foldl_getters]
    cases isSelf <;> simp
  · rw [foldl_getters]; simp

example : groupsFromGetters [(true, .single "a b"), (false, .many ["x"]), (true, .nothing), (true, .many ["g", "h"])] =
    ["anybody", "a b", "g", "h"] := by decide

/-! ### `can_view`, `can_edit`, `can_create`, `can_delete` -/

theorem C34_can_view (env : Env) (user : User) (x : Target) :
    canView env user x = true ↔ Spec env user "view" x ∨ Spec env user "edit" x := by
  rw [canView_eq, Bool.or_eq_true, C34_spec, C34_spec]

theorem C34_can_edit_create_delete (env : Env) (user : User) (x : Target) :
    (canEdit env user x = true ↔ Spec env user "edit" x) ∧ (canCreate env user x = true ↔ Spec env user "create" x) ∧
    (canDelete env user x = true ↔ Spec env user "delete" x) :=
  ⟨C34_spec env user "edit" x, C34_spec env user "create" x, C34_spec env user "delete" x⟩

/-! ### `AccessRule.exclude` -/

/-- excluding an entity excludes all its subclasses: afterwards the rule grants nothing on the entity, any subclass, or
    any of their objects — whatever the user's groups, roles and the labels are -/
theorem C34_exclude_entity (sub : Nat → List Nat) (r r' : Rule) (e e' : Nat)
    (h : r.exclude sub (.entity e) = .ok r') (he : e' = e ∨ e' ∈ sub e) (ug ur ol : List String) (a : Nat) :
    grantsEntity ug e' r' = false ∧ grantsAttr ug e' a r' = false ∧ grantsObj ug ur ol e' r' = false := by
  simp only [Rule.exclude, Except.ok.injEq] at h
  subst h
  have hm : e' ∈ e :: (sub e ++ r.exclE) := by
    rcases he with rfl | h
    · exact List.mem_cons_self
    · exact List.mem_cons_of_mem _ (List.mem_append_left _ h)
  have hc : (e :: (sub e ++ r.exclE)).contains e' = true := by simpa using hm
  refine ⟨?_, ?_, ?_⟩ <;> simp only [grantsEntity, grantsAttr, grantsObj, hc] <;> simp

/-- an exclusion only ever removes grants (entity or attribute argument), and primary-key attributes cannot be excluded -/
theorem C34_exclude_antitone (sub : Nat → List Nat) (r r' : Rule) (arg : ExclArg) (h : r.exclude sub arg = .ok r')
    (ug ur ol : List String) (e a : Nat) :
    (grantsEntity ug e r' = true → grantsEntity ug e r = true) ∧ (grantsAttr ug e a r' = true → grantsAttr ug e a r = true) ∧
    (grantsObj ug ur ol e r' = true → grantsObj ug ur ol e r = true) ∧
    r'.entities = r.entities ∧ r'.perms = r.perms := by
  cases arg with
  | entity e0 =>
    simp only [Rule.exclude, Except.ok.injEq] at h
    subst h
    refine ⟨?_, ?_, ?_, rfl, rfl⟩ <;>
      simp only [grantsEntity, grantsAttr, grantsObj, Bool.and_eq_true, Bool.not_eq_true', List.contains_eq_mem,
        decide_eq_false_iff_not, List.mem_cons, List.mem_append, not_or]
    · rintro ⟨hg, _, _, he⟩; exact ⟨hg, he⟩
    · rintro ⟨⟨hg, _, _, he⟩, ha⟩; exact ⟨⟨hg, he⟩, ha⟩
    · rintro ⟨⟨⟨⟨_, _, he⟩, hg⟩, hr⟩, hl⟩; exact ⟨⟨⟨he, hg⟩, hr⟩, hl⟩
  | attr at0 =>
    simp only [Rule.exclude] at h
    split at h
    · cases h
    · simp only [Except.ok.injEq] at h
      subst h
      refine ⟨id, ?_, id, rfl, rfl⟩
      simp only [grantsAttr, Bool.and_eq_true, Bool.not_eq_true', List.contains_eq_mem,
        decide_eq_false_iff_not, List.mem_cons, not_or]
      rintro ⟨hg, _, ha⟩; exact ⟨hg, ha⟩

theorem C34_exclude_pk_refused (sub : Nat → List Nat) (r : Rule) (a : AttrRef) (h : a.pk = true) :
    r.exclude sub (.attr a) = .error "TypeError" := by
  simp [Rule.exclude, h]

/-- `set_perms_for(E)` covers the subclasses of E -/
theorem C34_set_perms_for_subclasses (sub : Nat → List Nat) (ents : List Nat) (e e' : Nat) (he : e ∈ ents) (h : e' = e ∨ e' ∈ sub e) :
    e' ∈ setPermsFor sub ents := by
  unfold setPermsFor
  rcases h with rfl | h
  · exact List.mem_append_left _ he
  · exact List.mem_append_right _ (List.mem_flatMap.mpr ⟨e, he, h⟩)

/-! ### `Database.to_json` never outputs an object the user may not view -/

private theorem convertData_sound (env : Env) (user : User) (data : List Obj) :
    ∀ (c : Cache) (set set' : List Obj) (c' : Cache), CacheInv c → (∀ o ∈ set, canView env user (.obj o) = true) →
      convertData env user c data set = .ok (set', c') →
      CacheInv c' ∧ (∀ o ∈ set', canView env user (.obj o) = true) ∧ (∀ o ∈ data, o ∈ set') ∧ (∀ o ∈ set, o ∈ set') := by
  induction data with
  | nil =>
    intro c set set' c' hc hs h
    simp only [convertData, Except.ok.injEq, Prod.mk.injEq] at h
    obtain ⟨rfl, rfl⟩ := h
    exact ⟨hc, hs, (by intro o ho; cases ho), fun o h => h⟩
  | cons o rest ih =>
    intro c set set' c' hc hs h
    simp only [convertData] at h
    have h1 := canViewC_fst env c hc user (.obj o)
    have i1 := canViewC_inv env c hc user (.obj o)
    generalize canViewC env c user (.obj o) = res at h h1 i1
    obtain ⟨ok, c1⟩ := res
    simp only at h h1 i1
    cases ok
    · simp at h
    · simp only [Bool.not_true, Bool.false_eq_true, if_false] at h
      have hs' : ∀ o' ∈ (if set.contains o then set else set ++ [o]), canView env user (.obj o') = true := by
        intro o' ho'
        split at ho'
        · exact hs o' ho'
        · rcases List.mem_append.mp ho' with h' | h'
          · exact hs o' h'
          · rw [List.mem_singleton.mp h']; exact h1.symm
      obtain ⟨a1, a2, a3, a4⟩ := ih c1 _ set' c' i1 hs' h
      refine ⟨a1, a2, ?_, ?_⟩
      · intro o' ho'
        rcases List.mem_cons.mp ho' with rfl | h'
        · apply a4
          split
          · rename_i hc'; simpa using hc'
          · exact List.mem_append_right _ (List.mem_singleton.mpr rfl)
        · exact a3 o' h'
      · intro o' ho'
        apply a4
        split
        · exact ho'
        · exact List.mem_append_left _ ho'

private theorem walk_sound (env : Env) (user : User) (related : Obj → List Obj) (fuel : Nat) :
    ∀ (c : Cache) (pending seen out res : List Obj), CacheInv c → (∀ o ∈ out, canView env user (.obj o) = true) →
      walk env user related fuel c pending seen out = .ok res → ∀ o ∈ res, canView env user (.obj o) = true := by
  induction fuel with
  | zero =>
    intro c pending seen out res hc ho h
    cases pending with
    | nil =>
      simp only [walk, Except.ok.injEq] at h
      subst h; intro o hm; exact ho o (List.mem_reverse.mp hm)
    | cons p ps => simp [walk] at h
  | succ n ih =>
    intro c pending seen out res hc ho h
    cases pending with
    | nil =>
      simp only [walk, Except.ok.injEq] at h
      subst h; intro o hm; exact ho o (List.mem_reverse.mp hm)
    | cons p ps =>
      simp only [walk] at h
      have h1 := canViewC_fst env c hc user (.obj p)
      have i1 := canViewC_inv env c hc user (.obj p)
      generalize canViewC env c user (.obj p) = r at h h1 i1
      obtain ⟨ok, c1⟩ := r
      simp only at h h1 i1
      cases ok
      · simp at h
      · simp only [Bool.not_true, Bool.false_eq_true, if_false] at h
        refine ih c1 _ _ (p :: out) res i1 ?_ h
        intro o hm
        rcases List.mem_cons.mp hm with rfl | h'
        · exact h1.symm
        · exact ho o h'

/-- for every rule list, user, object graph, `include` list (through `related`), data and iteration bound: if `to_json`
    returns, every object in its "objects" part — and every object referenced from the "data" part — passes `can_view` -/
theorem C34_to_json (env : Env) (user : User) (related : Obj → List Obj) (fuel : Nat) (data out : List Obj)
    (h : toJsonObjects env user related fuel data = .ok out) :
    (∀ o ∈ out, canView env user (.obj o) = true) ∧ (∀ o ∈ data, canView env user (.obj o) = true) := by
  unfold toJsonObjects at h
  cases hcv : convertData env user [] data [] with
  | error e => rw [hcv] at h; cases h
  | ok p =>
    obtain ⟨set, c⟩ := p
    rw [hcv] at h
    simp only at h
    obtain ⟨hc, hs, hd, _⟩ := convertData_sound env user data [] [] set c cacheInv_nil (by intro o ho; cases ho) hcv
    exact ⟨walk_sound env user related fuel c set set [] out hc (by intro o ho; cases ho) h, fun o ho => hs o (hd o ho)⟩

private theorem convertData_error (env : Env) (user : User) (data : List Obj) :
    ∀ (c : Cache) (set : List Obj) (e : JErr), convertData env user c data set = .error e → ∃ o, e = .permission o := by
  induction data with
  | nil => intro c set e h; simp [convertData] at h
  | cons o rest ih =>
    intro c set e h
    simp only [convertData] at h
    generalize canViewC env c user (.obj o) = res at h
    obtain ⟨ok, c1⟩ := res
    cases ok
    · simp only [Bool.not_false, if_true, Except.error.injEq] at h
      exact ⟨o, h.symm⟩
    · simp only [Bool.not_true, Bool.false_eq_true, if_false] at h
      exact ih _ _ e h

/-- … and an object of the data that may not be viewed makes `to_json` fail with PermissionError (it is never left out
    silently, and the bound on the iteration plays no role) -/
theorem C34_to_json_refuses (env : Env) (user : User) (related : Obj → List Obj) (fuel : Nat) (data : List Obj) (o : Obj)
    (ho : o ∈ data) (hv : canView env user (.obj o) = false) :
    ∃ o', toJsonObjects env user related fuel data = .error (.permission o') := by
  unfold toJsonObjects
  cases hcv : convertData env user [] data [] with
  | error e =>
    obtain ⟨o', rfl⟩ := convertData_error env user data [] [] e hcv
    exact ⟨o', rfl⟩
  | ok p =>
    obtain ⟨set, c⟩ := p
    obtain ⟨_, hs, hd, _⟩ := convertData_sound env user data [] [] set c cacheInv_nil (by intro o ho; cases ho) hcv
    have := hs o (hd o ho)
    rw [hv] at this; cases this

/-- the schema part lists only viewable entities and attributes (and a relationship only if both ends are viewable) -/
theorem C34_schema (env : Env) (user : User) (ents : List Nat) (a : AttrRef) (rev : Option AttrRef) :
    (∀ e ∈ schemaEntities env user ents, canView env user (.entity e) = true) ∧
    (schemaAttrListed env user a rev = true → canView env user (.attr a) = true ∧
      ∀ r, rev = some r → canView env user (.entity r.entity) = true ∧ canView env user (.attr r) = true) := by
  constructor
  · intro e he; exact (List.mem_filter.mp he).2
  · intro h
    unfold schemaAttrListed at h
    cases hv : canView env user (.attr a)
    · simp [hv] at h
    · refine ⟨rfl, ?_⟩
      intro r hr
      subst hr
      simp only [hv, Bool.not_true, Bool.false_eq_true, if_false] at h
      cases hv2 : canView env user (.entity r.entity)
      · simp [hv2] at h
      · simp only [hv2, Bool.not_true, Bool.false_eq_true, if_false] at h
        exact ⟨rfl, h⟩

end PonyVerif.Props.C34
