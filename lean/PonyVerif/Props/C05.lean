/-
  C05 — query, SQL and result caches are transparent.  Property theorems only.
  Model: `PonyVerif/Model/Memo.lean` (memo protocol; keys as tuples of input fields; structured keys; the per-session result
  cache), keys AS CODED: `PonyVerif/Gen/CacheKeys.lean` (regenerated from /repo by harness/gen_c05.py on every run);
  tie: `harness/engines/c05.py`.  The `adapted_sql_cache` history theorem is `Props/C30.lean: C30_cache_transparent`, the
  translator cache under threads is `Props/C22.lean`.
-/
import PonyVerif.Lemmas.Memo
import PonyVerif.Gen.CacheKeys
namespace PonyVerif.Props.C05
open PonyVerif.Model.Memo
open PonyVerif.Gen

/-! ### the memo protocol: transparency of the key ⇔ every history answers as with cold caches -/

/-- for every memo whose key is transparent and EVERY history of calls, `clear`s and `pop`s: each call returns what it
    returns with all caches cold (induction over the history) -/
theorem C05_memo_history {I K V : Type} [DecidableEq K] (m : Memo I K V) (ht : Transparent m) (hist : List (Op I K)) :
    run m [] hist = hist.map (cold m) :=
  run_correct (fun _ => True) m ht hist [] (inv_nil _ m) (fun op _ => by cases op <;> trivial)

/-- the same for histories whose calls satisfy a precondition `P` of the cache's callers -/
theorem C05_memo_history_on {I K V : Type} [DecidableEq K] (P : I → Prop) (m : Memo I K V) (ht : TransparentOn P m)
    (hist : List (Op I K)) (hc : CallsOn P hist) : run m [] hist = hist.map (cold m) :=
  run_correct P m ht hist [] (inv_nil _ m) hc

/-- conversely: a key under which two inputs with different values meet is observable — the two-call history
    `[call j, call i]` answers the second call with `j`'s value -/
theorem C05_memo_converse {I K V : Type} [DecidableEq K] (m : Memo I K V) (i j : I) (hk : m.key i = m.skey j)
    (hc : m.cacheable j = true) (ha : m.accept i (m.compute j) = true) (hne : m.compute j ≠ m.compute i) :
    run m [] [.call j, .call i] ≠ [Op.call j, Op.call i].map (cold m) := by
  simp only [run, step, call, tget, store, hc, if_true, List.map_cons, List.map_nil, cold]
  rw [hk, tget_tset_self]
  simp only [ha, if_true]
  intro h
  injection h with _ h2
  injection h2 with h3 _
  injection h3 with h4
  exact hne h4

/-! ### the stored value must not be mutated after the store (aliasing) -/

/-- an obligation of the memo protocol that the key cannot discharge: a hit hands out the stored OBJECT.  For histories without
    in-place mutation of a stored value the history theorem holds as before … -/
theorem C05_memo_alias_free {I K V : Type} [DecidableEq K] (m : Memo I K V) (ht : Transparent m) (hist : List (AOp I K V))
    (hno : ∀ a ∈ hist, a.isMutate = false) : arun m [] hist = hist.map (AOp.cold m) := by
  suffices h : ∀ t, InvOn (fun _ => True) m t → arun m t hist = hist.map (AOp.cold m) from h [] (inv_nil _ m)
  induction hist with
  | nil => intro t _; rfl
  | cons a rest ih =>
    intro t hi
    have hrest : ∀ x ∈ rest, x.isMutate = false := fun x hx => hno x (List.mem_cons_of_mem _ hx)
    cases a with
    | mutate k v =>
      have := hno _ List.mem_cons_self
      simp [AOp.isMutate] at this
    | op o =>
      cases o with
      | call i =>
        obtain ⟨h1, h2⟩ := call_correct (fun _ => True) m ht t hi i trivial
        simp only [arun, step, List.map_cons, AOp.cold, cold, h1]
        rw [ih hrest _ h2]
      | clear =>
        simp only [arun, step, List.map_cons, AOp.cold, cold]
        rw [ih hrest _ (inv_nil _ m)]
      | pop k =>
        simp only [arun, step, List.map_cons, AOp.cold, cold]
        rw [ih hrest _ (inv_tdel _ m k t hi)]

/-- … and ONE mutation of a stored value is enough to break it, whatever the key: the consumer of a hit that changes the object
    in place (a query derived from a cached translator without `deepcopy()`) changes what every later hit returns -/
theorem C05_memo_aliasing_breaks :
    ∃ hist : List (AOp Nat Nat Nat), arun (plain id id) [] hist ≠ hist.map (AOp.cold (plain id id)) :=
  ⟨[.op (.call 1), .mutate 1 99, .op (.call 1)], by decide⟩

/-- the code as it is: every consumer of a cached translator — `for x in <query>` (first generator and nested), query-typed external
    values, `order_by` / `filter` / `where` / keyword-filter derivations — works on `translator.deepcopy()` (regenerated from
    sqltranslation.py) -/
theorem C05_cached_translators_copied : CacheKeys.cachedTranslatorsCopiedBeforeMutation = true := by decide

/-! ### keys that are tuples of input fields -/

/-- a key that contains every field the miss branch reads is transparent, whatever the miss branch computes from them -/
theorem C05_field_key {V : Type} (fs ds : List Field) (hsub : ∀ d ∈ ds, d ∈ fs) (F : List Val → V) :
    Transparent (fieldMemo fs ds F) := by
  intro e e' _ _ hk _ _
  simp only [fieldMemo, plain] at hk ⊢
  rw [keyOf_eq_of_subset fs ds hsub e e' hk]

/-- and a key that omits a field the miss branch reads is not: some computation tells the two inputs apart -/
theorem C05_field_key_needed (fs ds : List Field) (d : Field) (hd : d ∈ ds) (hn : d ∉ fs) :
    ∃ F : List Val → List Val, ¬ Transparent (fieldMemo fs ds F) := by
  refine ⟨id, ?_⟩
  intro ht
  let e : Env := fun _ => []
  let e' : Env := fun f => if f = d then [1] else []
  have hk : keyOf fs e = keyOf fs e' := by
    unfold keyOf
    apply List.map_inj_left.mpr
    intro f hf
    have : f ≠ d := fun h => hn (h ▸ hf)
    simp [e, e', this]
  have := ht e e' trivial trivial hk rfl rfl
  simp only [fieldMemo, plain, id] at this
  have h2 : e' d = e d := by
    unfold keyOf at this
    exact List.map_inj_left.mp this d hd
  simp [e, e'] at h2

/-- all histories through a field-keyed cache -/
theorem field_history {V : Type} (fs ds : List Field) (hsub : ∀ d ∈ ds, d ∈ fs) (F : List Val → V)
    (hist : List (Op Env (List Val))) : run (fieldMemo fs ds F) [] hist = hist.map (cold (fieldMemo fs ds F)) :=
  C05_memo_history _ (C05_field_key fs ds hsub F) hist

/-! ### the caches of pony/orm, with the keys as they are coded now (`Gen.CacheKeys`) -/

/-- `Entity._batchload_sql_cache_` (`_construct_batchload_sql_`) -/
theorem C05_batchload_sql {V : Type} (F : List Val → V) (hist : List (Op Env (List Val))) :
    run (fieldMemo CacheKeys.batchloadKey batchloadDeps F) [] hist = hist.map (cold (fieldMemo CacheKeys.batchloadKey batchloadDeps F)) :=
  field_history _ _ (by decide) F hist

/-- `Entity._find_sql_cache_` (`_construct_sql_`): WHERE / ORDER BY / LIMIT / FOR UPDATE — the rows the statement selects -/
theorem C05_find_sql_rows {V : Type} (F : List Val → V) (hist : List (Op Env (List Val))) :
    run (fieldMemo CacheKeys.findKey findRowDeps F) [] hist = hist.map (cold (fieldMemo CacheKeys.findKey findRowDeps F)) :=
  field_history _ _ (by decide) F hist

/-- `Entity._insert_sql_cache_` (`_save_created_`) -/
theorem C05_insert_sql {V : Type} (F : List Val → V) (hist : List (Op Env (List Val))) :
    run (fieldMemo CacheKeys.insertSqlKey insertDeps F) [] hist = hist.map (cold (fieldMemo CacheKeys.insertSqlKey insertDeps F)) :=
  field_history _ _ (by decide) F hist

/-- `Entity._update_sql_cache_` (`_save_updated_`): `(update_columns, optimistic_columns, optimistic_ops)` -/
theorem C05_update_sql {V : Type} (F : List Val → V) (hist : List (Op Env (List Val))) :
    run (fieldMemo CacheKeys.updateSqlKey updateDeps F) [] hist = hist.map (cold (fieldMemo CacheKeys.updateSqlKey updateDeps F)) :=
  field_history _ _ (by decide) F hist

/-- the statement is sensitive to the key: without `optimistic_ops` (`= ?` vs `IS NULL`) the cache is not transparent -/
theorem C05_update_sql_needs_ops :
    ∃ F : List Val → List Val, ¬ Transparent (fieldMemo [.update_columns, .optimistic_columns] updateDeps F) :=
  C05_field_key_needed _ _ .optimistic_ops (by decide) (by decide)

/-- `Entity._delete_sql_cache_` (`_save_deleted_`, key `()`): the statement depends on the entity only -/
theorem C05_delete_sql {V : Type} (F : List Val → V) (hist : List (Op Env (List Val))) :
    run (fieldMemo CacheKeys.deleteSqlKey deleteDeps F) [] hist = hist.map (cold (fieldMemo CacheKeys.deleteSqlKey deleteDeps F)) :=
  field_history _ _ (by decide) F hist

/-- `database._constructed_sql_cache` (`Query._construct_sql_and_arguments`): every argument of `construct_sql_ast`, the
    translator's identity (`query._key`, pinned values, function vartypes) and `options.INNER_JOIN_SYNTAX` are in `sql_key` -/
theorem C05_constructed_sql_rows {V : Type} (F : List Val → V) (hist : List (Op Env (List Val))) :
    run (fieldMemo CacheKeys.constructedSqlKey constructedRowDeps F) [] hist =
      hist.map (cold (fieldMemo CacheKeys.constructedSqlKey constructedRowDeps F)) :=
  field_history _ _ (by decide) F hist

/-- the DELETE statement of `Query.delete(bulk=True)` shares the dict; its key carries `sql_command` -/
theorem C05_bulk_delete_sql {V : Type} (F : List Val → V) (hist : List (Op Env (List Val))) :
    run (fieldMemo CacheKeys.bulkDeleteSqlKey deleteSqlDeps F) [] hist = hist.map (cold (fieldMemo CacheKeys.bulkDeleteSqlKey deleteSqlDeps F)) :=
  field_history _ _ (by decide) F hist

/-- `cache.query_results` key = `sql_key` + the argument values -/
theorem C05_result_key {V : Type} (F : List Val → V) (hist : List (Op Env (List Val))) :
    run (fieldMemo CacheKeys.resultKey resultDeps F) [] hist = hist.map (cold (fieldMemo CacheKeys.resultKey resultDeps F)) :=
  field_history _ _ (by decide) F hist

/-- `string2ast_cache` (source text) and `ast_cache` (pinned code-object id) -/
theorem C05_string2ast {V : Type} (F : List Val → V) (hist : List (Op Env (List Val))) :
    run (fieldMemo CacheKeys.string2astKey string2astDeps F) [] hist = hist.map (cold (fieldMemo CacheKeys.string2astKey string2astDeps F)) :=
  field_history _ _ (by decide) F hist

theorem C05_ast_cache {V : Type} (F : List Val → V) (hist : List (Op Env (List Val))) :
    run (fieldMemo CacheKeys.astKey astDeps F) [] hist = hist.map (cold (fieldMemo CacheKeys.astKey astDeps F)) :=
  field_history _ _ (by decide) F hist

/-- `adapted_sql_cache`: the entry is stored under the key it is looked up with (the history theorem on the token model is C30_cache_transparent) -/
theorem C05_adapt_store_key : CacheKeys.adaptStoreKey = CacheKeys.adaptLookupKey := by decide

/-- the SELECT LIST of `_construct_sql_` / `construct_sql_ast` also reads the ACTIVE prefetch context (`local.prefetch_context`:
    which lazy columns to include), which is in neither key: the statement TEXT is not a function of the key (only the
    set of eagerly loaded lazy columns varies — the rows and values do not: see `C05_find_sql_rows`, `C05_constructed_sql_rows`) -/
theorem C05_sql_text_depends_on_active_prefetch_context :
    (∃ F : List Val → List Val, ¬ Transparent (fieldMemo CacheKeys.findKey findTextDeps F)) ∧
    (∃ F : List Val → List Val, ¬ Transparent (fieldMemo CacheKeys.constructedSqlKey constructedTextDeps F)) :=
  ⟨C05_field_key_needed _ _ .active_prefetch_context (by decide) (by decide),
   C05_field_key_needed _ _ .active_prefetch_context (by decide) (by decide)⟩

/-! ### the same, with the reads of each miss branch REGENERATED from the source -/

/-- `_batchload_sql_cache_`, `_insert_sql_cache_`, `_update_sql_cache_`, `_delete_sql_cache_`: every input the miss branch reads (the free
    names and attribute paths of the block as they are in core.py now — `Gen.CacheKeys.*Reads`) is a component of the key as coded
    now; hence every history answers cold, whatever the statement builder computes from what it reads -/
theorem C05_entity_sql_caches_from_source {V : Type} (F : List Val → V) (hist : List (Op Env (List Val))) :
    run (fieldMemo CacheKeys.batchloadKey CacheKeys.batchloadReads F) [] hist = hist.map (cold (fieldMemo CacheKeys.batchloadKey CacheKeys.batchloadReads F)) ∧
    run (fieldMemo CacheKeys.insertSqlKey CacheKeys.insertSqlReads F) [] hist = hist.map (cold (fieldMemo CacheKeys.insertSqlKey CacheKeys.insertSqlReads F)) ∧
    run (fieldMemo CacheKeys.updateSqlKey CacheKeys.updateSqlReads F) [] hist = hist.map (cold (fieldMemo CacheKeys.updateSqlKey CacheKeys.updateSqlReads F)) ∧
    run (fieldMemo CacheKeys.deleteSqlKey CacheKeys.deleteSqlReads F) [] hist = hist.map (cold (fieldMemo CacheKeys.deleteSqlKey CacheKeys.deleteSqlReads F)) :=
  ⟨field_history _ _ (by decide) F hist, field_history _ _ (by decide) F hist, field_history _ _ (by decide) F hist, field_history _ _ (by decide) F hist⟩

/-- `ormtypes.raw_sql_cache` (`parse_raw_sql`, used by `raw_sql()` fragments): keyed by the fragment text, and the text is all the miss
    branch reads (key and reads regenerated from ormtypes.py) -/
theorem C05_raw_sql_cache_from_source {V : Type} (F : List Val → V) (hist : List (Op Env (List Val))) :
    run (fieldMemo CacheKeys.rawSqlKey CacheKeys.rawSqlReads F) [] hist = hist.map (cold (fieldMemo CacheKeys.rawSqlKey CacheKeys.rawSqlReads F)) :=
  field_history _ _ (by decide) F hist

/-- `_find_sql_cache_` and `_constructed_sql_cache`: the only input a miss branch reads that is not in its key is the ACTIVE prefetch
    context (the select list's lazy columns); everything else it reads is a key component -/
theorem C05_find_and_constructed_reads_from_source :
    (∀ d ∈ CacheKeys.findReads, d ∈ CacheKeys.findKey ∨ d = .active_prefetch_context) ∧
    (∀ d ∈ CacheKeys.constructedSqlReads, d ∈ CacheKeys.constructedSqlKey ∨ d = .active_prefetch_context) ∧
    (∀ d ∈ CacheKeys.findReads, d ∈ findTextDeps) ∧ (∀ d ∈ CacheKeys.constructedSqlReads, d ∈ constructedTextDeps) := by decide

/-! ### `extractors_cache` -/

/-- `create_extractors` is transparent as soon as its key carries the classification of the called names in the caller's
    scope and the outer names … -/
theorem C05_extractors {V : Type} (F : List Val → V) (hkey : ∀ d ∈ extractorsDeps, d ∈ CacheKeys.extractorsKey)
    (hist : List (Op Env (List Val))) :
    run (fieldMemo CacheKeys.extractorsKey extractorsDeps F) [] hist = hist.map (cold (fieldMemo CacheKeys.extractorsKey extractorsDeps F)) :=
  field_history _ _ hkey F hist

/-- … and is NOT while the key is the code key alone (the code as it is: `Gen.CacheKeys.extractorsKey = [.code_key]`): the
    same code object used where a called name is a special function and where it is an ordinary one shares the extractors.
    Replayed on the real code by the engine (`select(p.a for p in P if p.a < f(y))` with `f = len`, then `f = count`). -/
theorem C05_extractors_code_key_only (h : Field.scope_classification ∉ CacheKeys.extractorsKey) :
    ∃ (F : List Val → List Val) (hist : List (Op Env (List Val))),
      run (fieldMemo CacheKeys.extractorsKey extractorsDeps F) [] hist ≠ hist.map (cold (fieldMemo CacheKeys.extractorsKey extractorsDeps F)) := by
  refine ⟨id, ?_⟩
  let e : Env := fun _ => []
  let e' : Env := fun f => if f = Field.scope_classification then [1] else []
  have hk : keyOf CacheKeys.extractorsKey e' = keyOf CacheKeys.extractorsKey e := by
    unfold keyOf
    apply List.map_inj_left.mpr
    intro f hf
    have : f ≠ Field.scope_classification := fun hh => h (hh ▸ hf)
    simp [e, e', this]
  refine ⟨[.call e, .call e'], ?_⟩
  apply C05_memo_converse (fieldMemo CacheKeys.extractorsKey extractorsDeps id) e' e hk rfl rfl
  simp only [fieldMemo, plain, id, keyOf, extractorsDeps, List.map_cons, List.map_nil, e, e']
  decide

example : Field.scope_classification ∉ [Field.code_key, Field.tree_kind] := by decide

/-- the kind of tree (`tree.__class__`: a generator expression for `Entity.select(f)` / a whole query, the lambda body for
    `filter(f)` / `where(f)` / `order_by(f)`) is part of the key as coded now (34cb497) … -/
theorem C05_extractors_key_has_tree_kind : Field.tree_kind ∈ CacheKeys.extractorsKey := by decide

/-- … and is needed: under the code key alone one lambda used as `Entity.select(f)` and then as `query.filter(f)` gets the
    extractors of the other tree (`.0` included) -/
theorem C05_extractors_needs_tree_kind :
    ∃ F : List Val → List Val, ¬ Transparent (fieldMemo [.code_key] extractorsDeps F) :=
  C05_field_key_needed _ _ .tree_kind (by decide) (by decide)

/-- the repair that keeps the key and RE-VALIDATES a hit (the stored classification of the called names and the outer names
    against the new scope): transparent for every history, whatever the split computes -/
theorem C05_extractors_recheck {V : Type} (F : ExIn → V) (hist : List (Op ExIn (Int × Int))) :
    run (exMemo true F) [] hist = hist.map (cold (exMemo true F)) := by
  apply C05_memo_history
  intro i j _ _ hk _ ha
  obtain ⟨ci, ki, si, oi⟩ := i
  obtain ⟨cj, kj, sj, oj⟩ := j
  simp only [exMemo, Bool.not_true, Bool.false_or, Bool.and_eq_true, decide_eq_true_eq, Prod.mk.injEq] at hk ha ⊢
  obtain ⟨h1, h2⟩ := ha
  obtain ⟨hc, hkd⟩ := hk
  subst hc; subst hkd; subst h1; subst h2
  exact ⟨rfl, rfl⟩

/-- without the re-validation the same two-call history as above goes wrong -/
theorem C05_extractors_no_recheck :
    ∃ hist : List (Op ExIn (Int × Int)), run (exMemo false id) [] hist ≠ hist.map (cold (exMemo false id)) :=
  ⟨[.call ⟨1, 0, [0], []⟩, .call ⟨1, 0, [1], []⟩], by decide⟩

/-- the code as it is (flag regenerated from the source) -/
theorem C05_extractors_current {V : Type} (F : ExIn → V) (h : CacheKeys.extractorsRecheck = true) (hist : List (Op ExIn (Int × Int))) :
    run (exMemo CacheKeys.extractorsRecheck F) [] hist = hist.map (cold (exMemo CacheKeys.extractorsRecheck F)) := by
  rw [h]; exact C05_extractors_recheck F hist

/-! ### `Database.insert` -/

/-- the flat key `(table,) + columns [+ (returning,)]` lets two different statements meet:
    `insert(T, a=…, returning='b')` and `insert(T, a=…, b=…)` -/
theorem C05_db_insert_flat_collides :
    ∃ i j : InsertIn, insertKeyFlat i = insertKeyFlat j ∧ i ≠ j ∧
      ∀ F : InsertIn → InsertIn, F = id → run (plain insertKeyFlat F) [] [.call i, .call j] ≠ [Op.call i, Op.call j].map (cold (plain insertKeyFlat F)) := by
  refine ⟨⟨0, [1], some 2⟩, ⟨0, [1, 2], none⟩, by decide, by decide, ?_⟩
  intro F hF
  subst hF
  decide

/-- among calls that agree on whether `returning` is given, the flat key is injective (what the code relies on) -/
theorem C05_db_insert_flat_partial (i j : InsertIn) (hr : i.returning.isSome = j.returning.isSome)
    (hk : insertKeyFlat i = insertKeyFlat j) : i = j := by
  obtain ⟨ti, ci, ri⟩ := i
  obtain ⟨tj, cj, rj⟩ := j
  simp only [insertKeyFlat] at hk
  injection hk with ht hrest
  cases ri with
  | none =>
    cases rj with
    | none => simp at hrest; simp [ht, hrest]
    | some r => simp at hr
  | some r =>
    cases rj with
    | none => simp at hr
    | some r' =>
      have := List.append_inj' hrest rfl
      simp at this
      simp [ht, this.1, this.2]

/-- the repaired key `(table, columns, returning)` is injective: transparent for every statement builder and every history -/
theorem C05_db_insert_nested {V : Type} (F : InsertIn → V) (hist : List (Op InsertIn (Int × List Int × Option Int))) :
    run (plain insertKeyNested F) [] hist = hist.map (cold (plain insertKeyNested F)) := by
  apply C05_memo_history
  intro i j _ _ hk _ _
  obtain ⟨ti, ci, ri⟩ := i
  obtain ⟨tj, cj, rj⟩ := j
  simp only [plain, insertKeyNested, Prod.mk.injEq] at hk
  obtain ⟨h1, h2, h3⟩ := hk
  simp [plain, h1, h2, h3]

/-! ### `Set.cached_load_sql` -/

/-- `construct_sql_m2m`: under the callers' preconditions (`batch_size ≥ 1`, `items_count ≥ 0`, `items_count ≠ 0 → batch_size = 1`,
    the `assert` in the code) the key `-items_count` / `batch_size` determines both inputs -/
theorem C05_m2m_load_key (b b' n n' : Int) (hb : 1 ≤ b) (hb' : 1 ≤ b') (hn : 0 ≤ n) (hn' : 0 ≤ n')
    (ha : n ≠ 0 → b = 1) (ha' : n' ≠ 0 → b' = 1) (hk : m2mKey b n = m2mKey b' n') : b = b' ∧ n = n' := by
  unfold m2mKey at hk
  split at hk <;> split at hk <;> omega

example : m2mKey 1 3 = -3 ∧ m2mKey 5 0 = 5 := by decide

/-! ### `Entity._load_sql_cache_` (`Entity.load`) -/

/-- the entry is stored under `pk_attrs + (discriminator,)? + attrs` and looked up with `attrs`; the attributes to load never
    contain a primary-key attribute (`entity._bits_[pk] = 0`) and the key is never empty, so a lookup never meets a stored
    entry: every history answers cold (the cache is dead weight, not wrong) -/
theorem C05_load_sql {V : Type} (c : LoadCfg) (F : List Int → V) (p : Int) (ps : List Int) (hpk : c.pk = p :: ps)
    (hist : List (Op (List Int) (List Int))) (hc : CallsOn (fun attrs => p ∉ attrs) hist) :
    run (loadMemo c F) [] hist = hist.map (cold (loadMemo c F)) := by
  apply C05_memo_history_on (fun attrs => p ∉ attrs) _ _ hist hc
  intro i j hi _ hk _ _
  exfalso
  simp only [loadMemo, id, loadStoreKey, hpk] at hk
  apply hi
  rw [hk]
  simp

example : CallsOn (K := List Int) (fun attrs => (1 : Int) ∉ attrs) [Op.call [2, 3], Op.clear, Op.call [2, 3]] := by
  intro op h
  simp only [List.mem_cons, List.not_mem_nil, or_false] at h
  rcases h with rfl | rfl | rfl <;> simp

/-! ### the translator cache: the re-check of pinned parameter values makes the key transparent -/

/-- for every set of pinned parameters, every idempotent normalisation (`None ↦ 0 / -1` for slice bounds), every history of
    queries with ANY parameter values: the translator a query ends up with is the one built from its OWN values -/
theorem C05_translator_cache (pins : List Int → List Int) (norm : Option Int → Option Int) (hn : ∀ v, norm (norm v) = norm v)
    (hist : List (Op TrIn (List Int))) :
    run (trMemo pins norm) [] hist = hist.map (fun op => match op with | .call i => some (trSpec pins norm i) | _ => none) := by
  have : Transparent (trMemo pins norm) := by
    intro i j _ _ hk _ ha
    simp only [trMemo, trCompute, trAccept, List.all_map, List.all_eq_true, Function.comp, decide_eq_true_eq] at hk ha ⊢
    have hfix : ∀ p ∈ pins i.key, norm (i.vars p) = norm (j.vars p) := by
      intro p hp
      have := ha p (hk ▸ hp)
      rw [this, hn]
    rw [hk.symm]
    congr 1
    apply List.map_inj_left.mpr
    intro p hp
    rw [hfix p hp]
  rw [C05_memo_history _ this hist]
  apply List.map_congr_left
  intro op _
  cases op <;> rfl

/-- the re-check the theorem above rests on is in the code (both branches of `Query._get_translator`: function vartypes, pinned
    values with `pop`; regenerated from core.py) -/
theorem C05_translator_hit_rechecked : CacheKeys.translatorHitRechecked = true := by decide

/-- without the re-check the key alone is not enough as soon as one parameter is pinned -/
theorem C05_translator_needs_recheck :
    ∃ (i j : TrIn), i.key = j.key ∧ trCompute (fun _ => [0]) id j ≠ trCompute (fun _ => [0]) id i :=
  ⟨⟨[7], fun _ => some 1, true⟩, ⟨[7], fun _ => some 2, true⟩, rfl, by simp [trCompute]⟩

/-! ### the `aggr_func` component of `sql_key`: three-valued `distinct` -/

/-- as coded (`(aggr_func_name, aggr_func_distinct, sep)`, each input unchanged — checked by the generator) the component is
    injective: transparent for every SQL builder and every history -/
theorem C05_aggr_key {V : Type} (F : AggrIn → V) (hist : List (Op AggrIn (Nat × Option Bool × Option Nat))) :
    run (plain aggrKey F) [] hist = hist.map (cold (plain aggrKey F)) := by
  apply C05_memo_history
  intro i j _ _ hk _ _
  obtain ⟨n, d, s⟩ := i
  obtain ⟨n', d', s'⟩ := j
  simp only [plain, aggrKey, Prod.mk.injEq] at hk
  obtain ⟨h1, h2, h3⟩ := hk
  simp [plain, h1, h2, h3]

/-- a component that keeps only the truthiness of `aggr_func_distinct` collapses `None` (COUNT DISTINCT) and `False` (COUNT ALL):
    `q.count()` then `q.count(distinct=False)` answers the second with the first's statement -/
theorem C05_aggr_key_bool_collapses :
    ∃ i j : AggrIn, aggrKeyBool i = aggrKeyBool j ∧ countDistinct i ≠ countDistinct j ∧
      run (plain aggrKeyBool countDistinct) [] [.call i, .call j] ≠ [Op.call i, Op.call j].map (cold (plain aggrKeyBool countDistinct)) :=
  ⟨⟨0, none, none⟩, ⟨0, some false, none⟩, by decide, by decide, by decide⟩

/-! ### caches keyed by `id(code object)` -/

/-- every cached entry belongs to a pinned, live object with that content; pinned objects are live -/
def HInv (h : Heap) : Prop :=
  (∀ a v, tget a h.table = some v → a ∈ h.pinned ∧ ∃ o, liveAt h a = some o ∧ o.content = v) ∧
  (∀ a ∈ h.pinned, ∃ o, liveAt h a = some o)

private theorem liveAt_cons_ne (h : Heap) (o : CodeObj) (a : Nat) (hne : o.addr ≠ a) :
    liveAt { h with live := o :: h.live } a = liveAt h a := by
  simp [liveAt, hne]

private theorem liveAt_filter_ne (h : Heap) (a b : Nat) (hne : a ≠ b) :
    liveAt { h with live := h.live.filter (fun o => o.addr != b) } a = liveAt h a := by
  simp only [liveAt]
  induction h.live with
  | nil => rfl
  | cons x xs ih =>
    simp only [List.filter_cons]
    by_cases hx : x.addr = b
    · have h1 : (x.addr != b) = false := by simp [hx]
      have h2 : (x.addr == a) = false := by simp [hx, Ne.symm hne]
      simp only [h1, Bool.false_eq_true, if_false, List.find?_cons, h2, ih]
    · have h1 : (x.addr != b) = true := by simp [hx]
      simp only [h1, if_true, List.find?_cons]
      cases hxa : (x.addr == a) <;> simp [ih]

private theorem tget_tdel_ne {V : Type} (a b : Nat) (t : Table Nat V) (hb : b ≠ a) : tget a (tdel b t) = tget a t := by
  induction t with
  | nil => rfl
  | cons x xs ih =>
    obtain ⟨k, w⟩ := x
    by_cases hk : k = b
    · have hka : ¬ k = a := fun e => hb (hk ▸ e)
      simp only [tdel, hk, if_true, ih]
      simp only [tget, hk ▸ hka, if_false]
    · simp only [tdel, hk, if_false, tget, ih]

private theorem tget_tset {V : Type} (a b : Nat) (v : V) (t : Table Nat V) :
    tget a (tset b v t) = if b = a then some v else tget a t := by
  by_cases hb : b = a
  · subst hb; simp [tset, tget]
  · simp only [tset, tget, hb, if_false]
    exact tget_tdel_ne a b t hb

private theorem hstep_pinned (warm : Bool) (h : Heap) (hi : HInv h) (op : HOp) :
    HInv (hstep true warm h op).1 ∧ (hstep true warm h op).2 = (hstep true false h op).2 := by
  cases op with
  | alloc o =>
    simp only [hstep]
    cases hl : liveAt h o.addr with
    | some _ => exact ⟨hi, by first | rfl | trivial⟩
    | none =>
      refine ⟨⟨?_, ?_⟩, by first | rfl | trivial⟩
      · intro a v ht
        obtain ⟨hp, o', ho', hc⟩ := hi.1 a v ht
        have hne : o.addr ≠ a := fun e => by rw [e] at hl; rw [hl] at ho'; cases ho'
        exact ⟨hp, o', by rw [liveAt_cons_ne h o a hne]; exact ho', hc⟩
      · intro a ha
        obtain ⟨o', ho'⟩ := hi.2 a ha
        have hne : o.addr ≠ a := fun e => by rw [e] at hl; rw [hl] at ho'; cases ho'
        exact ⟨o', by rw [liveAt_cons_ne h o a hne]; exact ho'⟩
  | drop b =>
    simp only [hstep]
    by_cases hb : b ∈ h.pinned
    · simp only [hb, if_true]; exact ⟨hi, by first | rfl | trivial⟩
    · simp only [hb, if_false]
      refine ⟨⟨?_, ?_⟩, by first | rfl | trivial⟩
      · intro a v ht
        obtain ⟨hp, o', ho', hc⟩ := hi.1 a v ht
        have hne : a ≠ b := fun e => hb (e ▸ hp)
        exact ⟨hp, o', by rw [liveAt_filter_ne h a b hne]; exact ho', hc⟩
      · intro a ha
        obtain ⟨o', ho'⟩ := hi.2 a ha
        have hne : a ≠ b := fun e => hb (e ▸ ha)
        exact ⟨o', by rw [liveAt_filter_ne h a b hne]; exact ho'⟩
  | use b =>
    simp only [hstep, if_true, Bool.false_eq_true, if_false]
    cases hl : liveAt h b with
    | none => exact ⟨hi, by first | rfl | trivial⟩
    | some o =>
      simp only
      have hlive : ∀ a, liveAt { h with pinned := b :: h.pinned } a = liveAt h a := fun _ => rfl
      cases warm with
      | false =>
        simp only [Bool.false_eq_true, if_false]
        refine ⟨⟨?_, ?_⟩, by first | rfl | trivial⟩
        · intro a v ht
          simp only [tget_tset] at ht
          by_cases hba : b = a
          · subst hba
            simp only [if_true, Option.some.injEq] at ht
            exact ⟨List.mem_cons_self, o, hl, ht⟩
          · simp only [hba, if_false] at ht
            obtain ⟨hp, o', ho', hc⟩ := hi.1 a v ht
            exact ⟨List.mem_cons_of_mem _ hp, o', ho', hc⟩
        · intro a ha
          rcases List.mem_cons.mp ha with rfl | ha'
          · exact ⟨o, hl⟩
          · exact hi.2 a ha'
      | true =>
        simp only [if_true]
        cases ht : tget b h.table with
        | some v =>
          obtain ⟨_, o', ho', hc⟩ := hi.1 b v ht
          rw [hl] at ho'
          simp only [Option.some.injEq] at ho'
          subst ho'
          refine ⟨⟨?_, ?_⟩, by simp [hc]⟩
          · intro a w hw
            obtain ⟨hp, o'', ho'', hc'⟩ := hi.1 a w hw
            exact ⟨List.mem_cons_of_mem _ hp, o'', ho'', hc'⟩
          · intro a ha
            rcases List.mem_cons.mp ha with rfl | ha'
            · exact ⟨o, hl⟩
            · exact hi.2 a ha'
        | none =>
          refine ⟨⟨?_, ?_⟩, by first | rfl | trivial⟩
          · intro a v hv
            simp only [tget_tset] at hv
            by_cases hba : b = a
            · subst hba
              simp only [if_true, Option.some.injEq] at hv
              exact ⟨List.mem_cons_self, o, hl, hv⟩
            · simp only [hba, if_false] at hv
              obtain ⟨hp, o', ho', hc⟩ := hi.1 a v hv
              exact ⟨List.mem_cons_of_mem _ hp, o', ho', hc⟩
          · intro a ha
            rcases List.mem_cons.mp ha with rfl | ha'
            · exact ⟨o, hl⟩
            · exact hi.2 a ha'

/-- the heap part (live objects, pins) evolves identically with warm and cold caches -/
private theorem hstep_heap (warm : Bool) (h h' : Heap) (e1 : h.live = h'.live) (e2 : h.pinned = h'.pinned) (op : HOp) :
    (hstep true warm h op).1.live = (hstep true false h' op).1.live ∧ (hstep true warm h op).1.pinned = (hstep true false h' op).1.pinned := by
  have el : ∀ a, liveAt h a = liveAt h' a := fun a => by simp [liveAt, e1]
  cases op with
  | alloc o =>
    simp only [hstep, el]
    cases liveAt h' o.addr <;> simp [e1, e2]
  | drop b =>
    simp only [hstep, e2]
    by_cases hb : b ∈ h'.pinned <;> simp [hb, e1, e2]
  | use b =>
    simp only [hstep, el, if_true, Bool.false_eq_true, if_false]
    cases liveAt h' b with
    | none => exact ⟨e1, e2⟩
    | some o =>
      simp only
      cases warm with
      | false => simp [e1, e2]
      | true =>
        simp only [if_true]
        cases tget b h.table <;> simp [e1, e2]

/-- with the pin (the code as it is: `Gen.CacheKeys.codeobjectsPinned`), for EVERY history of allocations, drops (garbage
    collection, address re-use) and uses: each use is answered with the content of the object that is live at that address now -/
theorem C05_id_keyed_pinned (hist : List HOp) : hrun true true Heap.init hist = hrun true false Heap.init hist := by
  suffices hgen : ∀ (h h' : Heap), HInv h → h.live = h'.live → h.pinned = h'.pinned → HInv h' → hrun true true h hist = hrun true false h' hist from
    hgen _ _ ⟨fun a v ht => by simp [Heap.init, tget] at ht, fun a ha => by simp [Heap.init] at ha⟩ rfl rfl
      ⟨fun a v ht => by simp [Heap.init, tget] at ht, fun a ha => by simp [Heap.init] at ha⟩
  induction hist with
  | nil => intro _ _ _ _ _ _; rfl
  | cons op rest ih =>
    intro h h' hi e1 e2 hi'
    obtain ⟨w1, w2⟩ := hstep_pinned true h hi op
    obtain ⟨c1, _⟩ := hstep_pinned false h' hi' op
    obtain ⟨g1, g2⟩ := hstep_heap true h h' e1 e2 op
    have ans : (hstep true false h op).2 = (hstep true false h' op).2 := by
      have el : ∀ a, liveAt h a = liveAt h' a := fun a => by simp [liveAt, e1]
      cases op with
      | alloc o => simp only [hstep, el]; cases liveAt h' o.addr <;> rfl
      | drop b => simp only [hstep, e2]; by_cases hb : b ∈ h'.pinned <;> simp [hb]
      | use b => simp only [hstep, el, Bool.false_eq_true, if_false]; cases liveAt h' b <;> rfl
    simp only [hrun]
    rw [w2, ans, ih _ _ w1 g1 g2 c1]

/-- without the pin `id()` is not a key: an object is decompiled, dies, another one is allocated at its address and gets the
    dead object's tree -/
theorem C05_id_keyed_unpinned :
    ∃ hist, hrun false true Heap.init hist ≠ hrun false false Heap.init hist :=
  ⟨[.alloc ⟨1, 10⟩, .use 1, .drop 1, .alloc ⟨1, 20⟩, .use 1], by decide⟩

/-- an AST cache looked up by the code object ITSELF (equality) in front of id-keyed caches is not transparent: the second, equal but
    distinct code object hits, is not kept alive, dies, and a different code object allocated at its address inherits its id-keyed
    entries (extractors, translator, SQL, results) — seven steps -/
theorem C05_ast_cache_by_equality_breaks :
    ∃ hist, hrun2 true true Heap2.init hist ≠ hrun2 true false Heap2.init hist :=
  ⟨[.alloc ⟨1, 10⟩, .use 1, .alloc ⟨2, 10⟩, .use 2, .drop 2, .alloc ⟨2, 20⟩, .use 2], by decide⟩

/-- with the id as key and a pin on every use the same seven steps — and the rounds the engine runs — answer cold -/
example : hrun2 false true Heap2.init [.alloc ⟨1, 10⟩, .use 1, .alloc ⟨2, 10⟩, .use 2, .drop 2, .alloc ⟨3, 20⟩, .use 3, .drop 3, .alloc ⟨4, 10⟩, .use 4]
    = hrun2 false false Heap2.init [.alloc ⟨1, 10⟩, .use 1, .alloc ⟨2, 10⟩, .use 2, .drop 2, .alloc ⟨3, 20⟩, .use 3, .drop 3, .alloc ⟨4, 10⟩, .use 4] := by decide

/-- the code as it is keeps the pin (flag regenerated from pony/utils/utils.py) -/
theorem C05_codeobjects_pinned : CacheKeys.codeobjectsPinned = true := by decide

/-! ### the refinement label in the translator key -/

/-- `apply_lambda` reads `order_by` and the effective `original_names`; the `func_id` in the same key entry fixes whether the lambda
    has arguments.  For every two ways `filter` / `where` / `order_by` can reach `_process_lambda` with the SAME kind of lambda, an
    equal label means equal `(order_by, original_names)`: the label (with `func_id`) determines what `apply_lambda` is called with.
    (Rows regenerated from the source by evaluating the label expression.) -/
theorem C05_lambda_label_separates :
    ∀ a ∈ CacheKeys.lambdaLabels, ∀ b ∈ CacheKeys.lambdaLabels,
      a.1 = b.1 → a.2.2.2 = b.2.2.2 → a.2.1 = b.2.1 ∧ a.2.2.1 = b.2.2.1 := by decide

/-- a label that lets an argument-less `order_by` expression share its entry with `filter` / `where` is not transparent -/
theorem C05_lambda_label_collision_breaks :
    ¬ (∀ a ∈ [(false, true, true, 1), (false, false, true, 1)], ∀ b ∈ [((false, true, true, 1) : Bool × Bool × Bool × Nat), (false, false, true, 1)],
      a.1 = b.1 → a.2.2.2 = b.2.2.2 → a.2.1 = b.2.1 ∧ a.2.2.1 = b.2.2.1) := by decide

/-! ### pinned parameters must be recorded where the re-check looks -/

/-- a translator that bakes in a parameter it does not record in the root's `fixed_param_values` (a bound pinned inside a nested
    generator and recorded on the sub-translator) defeats the re-check: the second query gets the first one's constant -/
theorem C05_translator_unrecorded_pin :
    ∃ hist : List (Op TrIn (List Int)),
      run (trMemoHidden (fun _ => []) (fun _ => [0]) id) [] hist ≠ hist.map (cold (trMemoHidden (fun _ => []) (fun _ => [0]) id)) := by
  refine ⟨[.call ⟨[7], fun _ => some 2, true⟩, .call ⟨[7], fun _ => some 3, true⟩], ?_⟩
  simp [run, step, call, tget, tset, tdel, store, trMemoHidden, trCompute, trAccept, cold]

/-- every site that bakes a parameter value into a translator records it on the ROOT translator (regenerated from sqltranslation.py) -/
theorem C05_pins_recorded_at_root : CacheKeys.pinsRecordedAtRoot = true := by decide

/-! ### aggregates: what is cached is the value that is returned -/

private theorem tget_tdel_ne_gen {K V : Type} [DecidableEq K] (a b : K) (t : Table K V) (hb : b ≠ a) : tget a (tdel b t) = tget a t := by
  induction t with
  | nil => rfl
  | cons x xs ih =>
    obtain ⟨k, w⟩ := x
    by_cases hk : k = b
    · have hka : ¬ k = a := fun e => hb (hk ▸ e)
      simp only [tdel, hk, if_true, ih]
      simp only [tget, hk ▸ hka, if_false]
    · simp only [tdel, hk, if_false, tget, ih]

/-- `Query._aggregate` as it is: the value stored in `cache.query_results` is the post-processed one (SUM default, `sql2py`), so for
    EVERY history of aggregate calls, every fetch function and every post-processing, each call returns the post-processed fetch — value and type -/
theorem C05_aggregate_cached_value {I V : Type} [DecidableEq I] (raw : I → V) (post : I → V → V) (hist : List I) :
    aggRun false raw post [] hist = hist.map (fun i => post i (raw i)) := by
  suffices h : ∀ t : Table I V, (∀ k v, tget k t = some v → v = post k (raw k)) → aggRun false raw post t hist = hist.map (fun i => post i (raw i)) from
    h [] (by intro k v hk; simp [tget] at hk)
  induction hist with
  | nil => intro t _; rfl
  | cons i rest ih =>
    intro t ht
    simp only [aggRun, aggCall, List.map_cons]
    cases hg : tget i t with
    | some v =>
      simp only
      rw [ht i v hg, ih t ht]
    | none =>
      simp only [Bool.false_eq_true, if_false]
      rw [ih]
      intro k v hk
      by_cases hki : i = k
      · subst hki
        simp only [tset, tget, if_true, Option.some.injEq] at hk
        exact hk.symm
      · have : tget k (tset i (post i (raw i)) t) = tget k t := by
          simp only [tset, tget, hki, if_false]
          exact tget_tdel_ne_gen k i t hki
        exact ht k v (this ▸ hk)

/-- storing the fetched value BEFORE the post-processing is observable as soon as the post-processing changes it: the second call
    returns the raw value (a `str` instead of a `date`, `None` instead of 0) -/
theorem C05_aggregate_raw_store_breaks {I V : Type} [DecidableEq I] (raw : I → V) (post : I → V → V) (i : I) (h : post i (raw i) ≠ raw i) :
    aggRun true raw post [] [i, i] ≠ [i, i].map (fun i => post i (raw i)) := by
  simp only [aggRun, aggCall, tget, if_true, tset, tdel, List.map_cons, List.map_nil]
  intro hc
  injection hc with _ h2
  injection h2 with h3 _
  exact h h3.symm

/-- the store of `Query._aggregate` comes after the SUM default and after `converter.sql2py` (regenerated from core.py) -/
theorem C05_aggregate_stores_final_value : CacheKeys.aggregateStoresFinalValue = true := by decide

/-! ### the per-session result cache -/

/-- FULL statement: for every history of modifications, queries (cacheable or not), flushes, commits, rollbacks, bulk
    deletes, `obj.flush()` calls and hooks, every query returns what it returns when the lookup never hits -/
def C05_results_full (cfg : ResultCache.Cfg) : Prop :=
  ∀ hist, (ResultCache.run cfg true ResultCache.Sess.init hist).map ResultCache.Out.result = (ResultCache.run cfg false ResultCache.Sess.init hist).map ResultCache.Out.result

/-- the result cache is cleared (or the session replaced) at every point where the transaction's database state changes —
    `SessionCache.flush` (taken by the auto-flush of BOTH `_actual_fetch` and `_aggregate` before the lookup), `commit`,
    `rollback`, `Query.delete(bulk=True)` — so lookups after ANY modification history are recomputed … -/
theorem C05_results (cfg : ResultCache.Cfg) (hist : List ResultCache.Op)
    (h : cfg.objFlushClears = true ∨ ∀ op ∈ hist, op.isObjFlush = false) :
    (ResultCache.run cfg true ResultCache.Sess.init hist).map ResultCache.Out.result = (ResultCache.run cfg false ResultCache.Sess.init hist).map ResultCache.Out.result :=
  ResultCache.run_sim cfg hist h ResultCache.Sess.init ResultCache.Sess.init rfl (by intro kv hkv; cases hkv)

example : ∀ op ∈ [ResultCache.Op.query 0 true, ResultCache.Op.modify 1, ResultCache.Op.query 0 true, ResultCache.Op.commit, ResultCache.Op.bulkDelete 2, ResultCache.Op.query 0 true], op.isObjFlush = false := by
  decide

/-- … with ONE gap in the code as it is: `Entity.flush` writes the object and leaves `query_results` alone; a query run inside
    a `before_*` hook (flush disabled, so no auto-flush clears the cache) after it answers from the stale entry.
    Replayed on the real code by the engine on every run. -/
theorem C05_results_full_false : ¬ C05_results_full ⟨false⟩ := by
  intro h
  have := h [.modify 1, .modify 2, .enterHook, .query 0 true, .exitHook, .objFlush 1, .enterHook, .query 0 true, .exitHook]
  revert this
  decide

/-- with `query_results.clear()` in `Entity.flush` the full statement holds -/
theorem C05_results_repaired : C05_results_full ⟨true⟩ :=
  fun hist => C05_results ⟨true⟩ hist (Or.inl rfl)

/-- the same for the code as it is (the flag is regenerated from the source): full once `Entity.flush` clears the cache -/
theorem C05_results_current (hist : List ResultCache.Op) (h : CacheKeys.entityFlushClearsResults = true ∨ ∀ op ∈ hist, op.isObjFlush = false) :
    (ResultCache.run ⟨CacheKeys.entityFlushClearsResults⟩ true ResultCache.Sess.init hist).map ResultCache.Out.result =
      (ResultCache.run ⟨CacheKeys.entityFlushClearsResults⟩ false ResultCache.Sess.init hist).map ResultCache.Out.result :=
  C05_results _ hist h

/-- the auto-flush happens before the lookup on both read paths (505d9d7 moved it for aggregates) -/
theorem C05_flush_before_lookup : CacheKeys.aggregateFlushesBeforeLookup = true ∧ CacheKeys.fetchFlushesBeforeLookup = true := by decide

/-- what a query answers: the result on the database state AFTER the auto-flush of the pending changes -/
theorem C05_query_sees_pending (cfg : ResultCache.Cfg) (s : ResultCache.Sess) (k : ResultCache.QKey) (c : Bool) (hinv : ResultCache.RInv s) :
    (ResultCache.step cfg true s (.query k c)).2.result = some (ResultCache.eval k (ResultCache.flush s).db) := by
  have hfi := ResultCache.flush_rinv hinv
  simp only [ResultCache.step, if_true]
  cases hg : tget k (ResultCache.flush s).results with
  | some r =>
    have := hfi _ (tget_mem hg)
    simp only at this
    simp [ResultCache.Out.result, this]
  | none => simp [ResultCache.Out.result]


end PonyVerif.Props.C05
