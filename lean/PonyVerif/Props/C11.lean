import PonyVerif.Model.KeyIndex
namespace PonyVerif.Props.C11
open PonyVerif.Model.KeyIndex

theorem C11_placeholder : (Sess.empty).n = 0 := rfl

end PonyVerif.Props.C11
