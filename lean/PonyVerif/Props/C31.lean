/-
  C31 — serialised and pickled objects reflect current state and round-trip.
  Property theorems only.  What is proved here is the part of the property that depends on key *contents*:
  the composite-key text `Bag._reduce_composite_pk` builds (model: `Model/Serial.lean`, tied to the real function on
  every run by the engine) is injective on non-empty lists of key-part texts, for ALL strings — including parts made of
  the separator `,` and the escape character `*`, and so are the keys `Bag.to_dict` files objects and collection items under.  `to_dict`/`to_json`/pickling themselves are observed differentially
  by the engine (harness/engines/c31.py); nothing is claimed about them here.
-/
import PonyVerif.Lemmas.Serial
import PonyVerif.Lemmas.BagWalk
import PonyVerif.Gen.ReducePk
namespace PonyVerif.Props.C31
open PonyVerif.Model.Serial

/-- decode ∘ encode = id: every non-empty list of key-part texts is recovered from its encoding. -/
theorem C31_decode_encode (a : List String) (ha : a ≠ []) : decodePk (reducePk a) = some a := by
  unfold decodePk reducePk
  rw [String.toList_ofList, decodeChars_reduceChars _ (by simpa using ha)]
  simp [List.map_map, Function.comp_def, String.ofList_toList]

/-- THE key-encoding theorem: distinct composite keys are encoded distinctly (all strings, all arities ≥ 1). -/
theorem C31_pk_injective (a b : List String) (ha : a ≠ []) (hb : b ≠ []) : reducePk a = reducePk b → a = b := by
  intro h
  have h1 := C31_decode_encode a ha
  have h2 := C31_decode_encode b hb
  rw [h] at h1
  exact Option.some.inj (h1.symm.trans h2)

example : (["a,", "b"] : List String) ≠ [] ∧ (["a", ",b"] : List String) ≠ [] := by decide
example : reducePk ["a,", "b"] = "a*,,b" ∧ reducePk ["a", ",b"] = "a,*,b" ∧ reducePk ["a*", "b"] = "a**,b"
    ∧ reducePk ["p*", ",q"] = "p**,*,q" := by decide
example : decodePk "p**,*,q" = some ["p*", ",q"] ∧ decodePk "a*b" = none ∧ decodePk "a*" = none := by decide

/-- The guard `≠ []` is needed only for the empty key, which no entity has (a composite key has ≥ 2 columns):
    `','.join([]) == ','.join([''])`. -/
theorem C31_empty_key_collides : reducePk [] = reducePk [""] ∧ ([] : List String) ≠ [""] := by decide

/-- the number of key parts is recovered as well: keys of different arity never collide -/
theorem C31_arity (a b : List String) (ha : a ≠ []) (hb : b ≠ []) (h : reducePk a = reducePk b) : a.length = b.length := by
  rw [C31_pk_injective a b ha hb h]

/-- key parts that are not strings go through `str(item)`; for any rendering that is injective on the part type
    (decimal text of an `int`, ISO text of a `date`, …) the encoding of the typed key is injective. -/
theorem C31_pk_injective_rendered {α : Type} (render : α → String) (hr : ∀ x y, render x = render y → x = y)
    (a b : List α) (ha : a ≠ []) (hb : b ≠ []) : reducePk (a.map render) = reducePk (b.map render) → a = b := by
  intro h
  have := C31_pk_injective _ _ (by simpa using ha) (by simpa using hb) h
  exact (List.map_inj_right hr).mp this

/-- `Bag.to_dict` files every object of a composite-key entity under `reducePk pk`: objects with pairwise distinct
    keys get pairwise distinct dictionary keys (no entry overwrites another). -/
theorem C31_dict_keys_nodup : ∀ (pks : List (List String)), (∀ k ∈ pks, k ≠ []) → pks.Nodup → (pks.map reducePk).Nodup
  | [], _, _ => by simp
  | k :: ks, hne, hnd => by
    have hnd' := List.nodup_cons.mp hnd
    simp only [List.map_cons, List.nodup_cons, List.mem_map, not_exists, not_and]
    refine ⟨?_, C31_dict_keys_nodup ks (fun x hx => hne x (List.mem_cons_of_mem _ hx)) hnd'.2⟩
    intro x hx heq
    have : x = k := C31_pk_injective x k (hne x (List.mem_cons_of_mem _ hx)) (hne k (List.mem_cons_self)) heq
    exact hnd'.1 (this ▸ hx)

example : (∀ k ∈ [["a,", "b"], ["a", ",b"]], k ≠ ([] : List String)) ∧ [["a,", "b"], ["a", ",b"]].Nodup := by decide

/-- the list of encoded keys reported for a collection attribute determines the list of keys -/
theorem C31_collection_keys_injective : ∀ (as bs : List (List String)), (∀ k ∈ as, k ≠ []) → (∀ k ∈ bs, k ≠ []) →
    as.map reducePk = bs.map reducePk → as = bs
  | [], [], _, _, _ => rfl
  | [], _ :: _, _, _, h => by simp at h
  | _ :: _, [], _, _, h => by simp at h
  | a :: as, b :: bs, ha, hb, h => by
    simp only [List.map_cons, List.cons.injEq] at h
    have h1 := C31_pk_injective a b (ha a List.mem_cons_self) (hb b List.mem_cons_self) h.1
    have h2 := C31_collection_keys_injective as bs (fun x hx => ha x (List.mem_cons_of_mem _ hx))
      (fun x hx => hb x (List.mem_cons_of_mem _ hx)) h.2
    rw [h1, h2]

/-- the two sequential `str.replace` calls amount to one per-character substitution -/
def escChar (c : Char) : List Char := if c = '*' then ['*', '*'] else if c = ',' then ['*', ','] else [c]

theorem C31_escape_charwise (cs : List Char) : escItem cs = cs.flatMap escChar := by
  induction cs with
  | nil => rfl
  | cons c cs ih => rw [escItem_cons, ih]; simp [escChar]

/-! ### the keys as they appear in `Bag.to_dict` output -/

/-- dictionary keys of objects (test on the number of pk columns): injective for every column count -/
theorem C31_dict_key_injective (a b : List String) (ha : a ≠ []) (hb : b ≠ []) (hl : a.length = b.length) :
    bagDictKey a = bagDictKey b → a = b := by
  unfold bagDictKey
  by_cases h : a.length > 1
  · have h' : b.length > 1 := hl ▸ h
    simp only [h, h', if_true, Option.some.injEq, Key.text.injEq]
    exact C31_pk_injective a b ha hb
  · have h' : ¬ b.length > 1 := hl ▸ h
    simp only [h, h', if_false]
    match a, b, ha, hb, h, h' with
    | [x], [y], _, _, _, _ => simp
    | _ :: _ :: _, _, _, _, h, _ => simp at h
    | _, _ :: _ :: _, _, _, _, h' => simp at h'

/-- keys reported for the items of a collection attribute (test on the number of pk columns since 40bed00): distinct raw
    keys of the related entity are reported distinctly, for every column count. -/
theorem C31_collection_key (a b : List String) (ha : a ≠ []) (hb : b ≠ []) (hl : a.length = b.length) :
    bagCollectionKey a = bagCollectionKey b → a = b :=
  C31_dict_key_injective a b ha hb hl

example : bagCollectionKey ["k", "1"] ≠ bagCollectionKey ["k", "2"] := by decide

/-- WHAT THE FIX 40bed00 REPAIRED (about the OLD test, not about the current code): with the test on the number of pk
    attributes, an entity whose primary key is ONE attribute referencing an entity with a two-column key had only column 0
    of its raw key reported, so two distinct related objects were reported under the same key.  The regression input
    harness/corpus/C31/collection-keys-single-pk-attribute-over-composite-key.json replays this on real Pony. -/
theorem C31_old_attribute_test_collided :
    bagCollectionKeyOld 1 ["k", "1"] = bagCollectionKeyOld 1 ["k", "2"] ∧ (["k", "1"] : List String) ≠ ["k", "2"] := by decide

/-! ### the source still has the shape the hand models mirror (definitions regenerated from /repo on every run) -/

/-- `_reduce_composite_pk` is `','.join(str(item).replace('*', '**').replace(',', '*,') for item in pk)`:
    the separator and the escape chain (in application order) are the ones `Model/Serial.lean` implements. -/
theorem C31_source_encoding :
    PonyVerif.Gen.ReducePk.sep = "," ∧ PonyVerif.Gen.ReducePk.replacements = [("*", "**"), (",", "*,")] := by decide

/-- the three places that choose between the reduced text / raw tuple and the bare column value all test the number of
    pk COLUMNS (`bagDictKey`, `bagCollectionKey`; `Entity.to_dict` reports whole raw tuples under the same test). -/
theorem C31_source_key_tests :
    PonyVerif.Gen.ReducePk.dictKeyTest = "len(entity._pk_columns_) > 1"
    ∧ PonyVerif.Gen.ReducePk.collectionKeyTest = "len(attr.reverse.entity._pk_columns_) > 1"
    ∧ PonyVerif.Gen.ReducePk.entityCollectionKeyTest = "len(attr.reverse.entity._pk_columns_) > 1" := by decide

/-- the traversal has the shape `Model/BagWalk.lean` mirrors: given objects processed unconditionally, exactly two recursive
    calls, both with `process_related=False` and both guarded by "not yet in bag.dicts[<its class>]", entry stored last. -/
theorem C31_source_walk :
    PonyVerif.Gen.ReducePk.walkGivenUnconditional = true ∧ PonyVerif.Gen.ReducePk.walkRecursiveCalls = 2
    ∧ PonyVerif.Gen.ReducePk.walkGuards =
        [("related_obj not in bag.dicts[related_obj.__class__]", "related_obj", "False"),
         ("process_related_objects and value not in bag.dicts[value.__class__]", "value", "False")]
    ∧ PonyVerif.Gen.ReducePk.walkLastStatement = "bag.dicts[entity][obj] = d" := by decide

/-! ### the bag traversal: what `to_dict(objects)` contains, for every object graph and every order -/

open PonyVerif.Model.BagWalk in
/-- For EVERY object graph `rel`, every `related_objects` configuration `ro` and every list of given objects (in any order,
    with repetitions): a given object gets a FULL entry (all configured attributes, collections included); an object that
    is not given but is referred to by a given object whose entity has `related_objects` gets a REDUCED entry; nothing else
    appears. -/
theorem C31_bag_contents (rel : Nat → List Nat) (ro : Nat → Bool) (given : List Nat) (x : Nat) :
    lookup (bagWalk rel ro given) x = spec rel ro given x := by
  have := lookup_foldl rel ro given [] [] (by intro y; simp [lookup, spec]) x
  simpa [bagWalk] using this

open PonyVerif.Model.BagWalk in
/-- the result does not depend on the order in which the objects are given (what 791b025 repaired) -/
theorem C31_bag_order_independent (rel : Nat → List Nat) (ro : Nat → Bool) (g₁ g₂ : List Nat) (h : ∀ o, o ∈ g₁ ↔ o ∈ g₂) (x : Nat) :
    lookup (bagWalk rel ro g₁) x = lookup (bagWalk rel ro g₂) x := by
  rw [C31_bag_contents, C31_bag_contents]
  unfold spec
  have h2 : (g₁.any fun g => ro g && (rel g).contains x) = (g₂.any fun g => ro g && (rel g).contains x) := by
    rw [Bool.eq_iff_iff]; simp only [List.any_eq_true]
    exact ⟨fun ⟨g, hg, hp⟩ => ⟨g, (h g).mp hg, hp⟩, fun ⟨g, hg, hp⟩ => ⟨g, (h g).mpr hg, hp⟩⟩
  rw [h2]
  by_cases hx : x ∈ g₁
  · simp [hx, (h x).mp hx]
  · have : x ∉ g₂ := fun h' => hx ((h x).mpr h')
    simp [hx, this]

open PonyVerif.Model.BagWalk in
example : -- a ↔ b related to each other, both given, in both orders (the input that used to lose `a.bs`)
    let rel : Nat → List Nat := fun o => if o = 0 then [1] else if o = 1 then [0, 2] else []
    lookup (bagWalk rel (fun _ => true) [0, 1]) 0 = some true ∧ lookup (bagWalk rel (fun _ => true) [1, 0]) 0 = some true
    ∧ lookup (bagWalk rel (fun _ => true) [1, 0]) 2 = some false ∧ lookup (bagWalk rel (fun _ => true) [0]) 2 = none := by decide

end PonyVerif.Props.C31
