/-
  C31 — serialised and pickled objects reflect current state and round-trip.
  Property theorems only.  What is proved here is the part of the property that depends on key *contents*:
  the composite-key text `Bag._reduce_composite_pk` builds (model: `Model/Serial.lean`, tied to the real function on
  every run by the engine) is injective on non-empty lists of key-part texts, for ALL strings — including parts made of
  the separator `,` and the escape character `*`, and so are the keys `Bag.to_dict` files objects and collection items under.  `to_dict`/`to_json`/pickling themselves are observed differentially
  by the engine (harness/engines/c31.py); nothing is claimed about them here.
-/
import PonyVerif.Lemmas.Serial
import PonyVerif.Lemmas.BagWalk
import PonyVerif.Lemmas.AttrSel
import PonyVerif.Lemmas.Pickle
import PonyVerif.Lemmas.Report
import PonyVerif.Gen.ReducePk
namespace PonyVerif.Props.C31
open PonyVerif.Model.Serial

/-- decode ∘ encode = id: every non-empty list of key-part texts is recovered from its encoding. -/
theorem C31_decode_encode (a : List String) (ha : a ≠ []) : decodePk (reducePk a) = some a := by
  unfold decodePk reducePk
  rw [String.toList_ofList, decodeChars_reduceChars _ (by simpa using ha)]
  simp [List.map_map, Function.comp_def, String.ofList_toList]

/-- THE key-encoding theorem: distinct composite keys are encoded distinctly (all strings, all arities ≥ 1). -/
theorem C31_pk_injective (a b : List String) (ha : a ≠ []) (hb : b ≠ []) : reducePk a = reducePk b → a = b := by
  intro h
  have h1 := C31_decode_encode a ha
  have h2 := C31_decode_encode b hb
  rw [h] at h1
  exact Option.some.inj (h1.symm.trans h2)

example : (["a,", "b"] : List String) ≠ [] ∧ (["a", ",b"] : List String) ≠ [] := by decide
example : reducePk ["a,", "b"] = "a*,,b" ∧ reducePk ["a", ",b"] = "a,*,b" ∧ reducePk ["a*", "b"] = "a**,b"
    ∧ reducePk ["p*", ",q"] = "p**,*,q" := by decide
example : decodePk "p**,*,q" = some ["p*", ",q"] ∧ decodePk "a*b" = none ∧ decodePk "a*" = none := by decide

/-- The guard `≠ []` is needed only for the empty key, which no entity has (a composite key has ≥ 2 columns):
    `','.join([]) == ','.join([''])`. -/
theorem C31_empty_key_collides : reducePk [] = reducePk [""] ∧ ([] : List String) ≠ [""] := by decide

/-- the number of key parts is recovered as well: keys of different arity never collide -/
theorem C31_arity (a b : List String) (ha : a ≠ []) (hb : b ≠ []) (h : reducePk a = reducePk b) : a.length = b.length := by
  rw [C31_pk_injective a b ha hb h]

/-- key parts that are not strings go through `str(item)`; for any rendering that is injective on the part type
    (decimal text of an `int`, ISO text of a `date`, …) the encoding of the typed key is injective. -/
theorem C31_pk_injective_rendered {α : Type} (render : α → String) (hr : ∀ x y, render x = render y → x = y)
    (a b : List α) (ha : a ≠ []) (hb : b ≠ []) : reducePk (a.map render) = reducePk (b.map render) → a = b := by
  intro h
  have := C31_pk_injective _ _ (by simpa using ha) (by simpa using hb) h
  exact (List.map_inj_right hr).mp this

/-- `Bag.to_dict` files every object of a composite-key entity under `reducePk pk`: objects with pairwise distinct
    keys get pairwise distinct dictionary keys (no entry overwrites another). -/
theorem C31_dict_keys_nodup : ∀ (pks : List (List String)), (∀ k ∈ pks, k ≠ []) → pks.Nodup → (pks.map reducePk).Nodup
  | [], _, _ => by simp
  | k :: ks, hne, hnd => by
    have hnd' := List.nodup_cons.mp hnd
    simp only [List.map_cons, List.nodup_cons, List.mem_map, not_exists, not_and]
    refine ⟨?_, C31_dict_keys_nodup ks (fun x hx => hne x (List.mem_cons_of_mem _ hx)) hnd'.2⟩
    intro x hx heq
    have : x = k := C31_pk_injective x k (hne x (List.mem_cons_of_mem _ hx)) (hne k (List.mem_cons_self)) heq
    exact hnd'.1 (this ▸ hx)

example : (∀ k ∈ [["a,", "b"], ["a", ",b"]], k ≠ ([] : List String)) ∧ [["a,", "b"], ["a", ",b"]].Nodup := by decide

/-- the list of encoded keys reported for a collection attribute determines the list of keys -/
theorem C31_collection_keys_injective : ∀ (as bs : List (List String)), (∀ k ∈ as, k ≠ []) → (∀ k ∈ bs, k ≠ []) →
    as.map reducePk = bs.map reducePk → as = bs
  | [], [], _, _, _ => rfl
  | [], _ :: _, _, _, h => by simp at h
  | _ :: _, [], _, _, h => by simp at h
  | a :: as, b :: bs, ha, hb, h => by
    simp only [List.map_cons, List.cons.injEq] at h
    have h1 := C31_pk_injective a b (ha a List.mem_cons_self) (hb b List.mem_cons_self) h.1
    have h2 := C31_collection_keys_injective as bs (fun x hx => ha x (List.mem_cons_of_mem _ hx))
      (fun x hx => hb x (List.mem_cons_of_mem _ hx)) h.2
    rw [h1, h2]

/-- the two sequential `str.replace` calls amount to one per-character substitution -/
def escChar (c : Char) : List Char := if c = '*' then ['*', '*'] else if c = ',' then ['*', ','] else [c]

theorem C31_escape_charwise (cs : List Char) : escItem cs = cs.flatMap escChar := by
  induction cs with
  | nil => rfl
  | cons c cs ih => rw [escItem_cons, ih]; simp [escChar]

/-! ### the keys as they appear in `Bag.to_dict` output -/

/-- dictionary keys of objects (test on the number of pk columns): injective for every column count -/
theorem C31_dict_key_injective (a b : List String) (ha : a ≠ []) (hb : b ≠ []) (hl : a.length = b.length) :
    bagDictKey a = bagDictKey b → a = b := by
  unfold bagDictKey
  by_cases h : a.length > 1
  · have h' : b.length > 1 := hl ▸ h
    simp only [h, h', if_true, Option.some.injEq, Key.text.injEq]
    exact C31_pk_injective a b ha hb
  · have h' : ¬ b.length > 1 := hl ▸ h
    simp only [h, h', if_false]
    match a, b, ha, hb, h, h' with
    | [x], [y], _, _, _, _ => simp
    | _ :: _ :: _, _, _, _, h, _ => simp at h
    | _, _ :: _ :: _, _, _, _, h' => simp at h'

/-- keys reported for the items of a collection attribute (test on the number of pk columns since 40bed00): distinct raw
    keys of the related entity are reported distinctly, for every column count. -/
theorem C31_collection_key (a b : List String) (ha : a ≠ []) (hb : b ≠ []) (hl : a.length = b.length) :
    bagCollectionKey a = bagCollectionKey b → a = b :=
  C31_dict_key_injective a b ha hb hl

example : bagCollectionKey ["k", "1"] ≠ bagCollectionKey ["k", "2"] := by decide

/-- WHAT THE FIX 40bed00 REPAIRED (about the OLD test, not about the current code): with the test on the number of pk
    attributes, an entity whose primary key is ONE attribute referencing an entity with a two-column key had only column 0
    of its raw key reported, so two distinct related objects were reported under the same key.  The regression input
    harness/corpus/C31/collection-keys-single-pk-attribute-over-composite-key.json replays this on real Pony. -/
theorem C31_old_attribute_test_collided :
    bagCollectionKeyOld 1 ["k", "1"] = bagCollectionKeyOld 1 ["k", "2"] ∧ (["k", "1"] : List String) ≠ ["k", "2"] := by decide

/-! ### the source still has the shape the hand models mirror (definitions regenerated from /repo on every run) -/

/-- `_reduce_composite_pk` is `','.join(str(item).replace('*', '**').replace(',', '*,') for item in pk)`:
    the separator and the escape chain (in application order) are the ones `Model/Serial.lean` implements. -/
theorem C31_source_encoding :
    PonyVerif.Gen.ReducePk.sep = "," ∧ PonyVerif.Gen.ReducePk.replacements = [("*", "**"), (",", "*,")] := by decide

/-- the three places that choose between the reduced text / raw tuple and the bare column value all test the number of
    pk COLUMNS (`bagDictKey`, `bagCollectionKey`; `Entity.to_dict` reports whole raw tuples under the same test). -/
theorem C31_source_key_tests :
    PonyVerif.Gen.ReducePk.dictKeyTest = "len(entity._pk_columns_) > 1"
    ∧ PonyVerif.Gen.ReducePk.collectionKeyTest = "len(attr.reverse.entity._pk_columns_) > 1"
    ∧ PonyVerif.Gen.ReducePk.entityCollectionKeyTest = "len(attr.reverse.entity._pk_columns_) > 1" := by decide

/-- the traversal has the shape `Model/BagWalk.lean` mirrors: given objects processed unconditionally, exactly two recursive
    calls, both with `process_related=False` and both guarded by "not yet in bag.dicts[<its class>]", entry stored last. -/
theorem C31_source_walk :
    PonyVerif.Gen.ReducePk.walkGivenUnconditional = true ∧ PonyVerif.Gen.ReducePk.walkRecursiveCalls = 2
    ∧ PonyVerif.Gen.ReducePk.walkGuards =
        [("related_obj not in bag.dicts[related_obj.__class__]", "related_obj", "False"),
         ("process_related_objects and value not in bag.dicts[value.__class__]", "value", "False")]
    ∧ PonyVerif.Gen.ReducePk.walkLastStatement = "bag.dicts[entity][obj] = d" := by decide

/-- `_get_attrs_` files its result under a key built from ALL its parameters (the ones that influence the selection), looks
    it up and stores it under that same key, and recomputes exactly when the cached value is falsy — the shape
    `Model/AttrSel.lean: cached` mirrors.  (A key that omits a parameter would make `C31_attrs_cache_transparent` false of the code.) -/
theorem C31_source_attrs_cache :
    PonyVerif.Gen.ReducePk.attrsParams = ["only", "exclude", "with_collections", "with_lazy"]
    ∧ PonyVerif.Gen.ReducePk.attrsCacheKey = "(only, exclude, with_collections, with_lazy)"
    ∧ PonyVerif.Gen.ReducePk.attrsCacheLookup = "entity._attrnames_cache_.get(key)"
    ∧ PonyVerif.Gen.ReducePk.attrsCacheMissTest = "not attrs"
    ∧ PonyVerif.Gen.ReducePk.attrsCacheStore = "entity._attrnames_cache_[key] = attrs" := by decide

/-! ### the bag traversal: what `to_dict(objects)` contains, for every object graph and every order -/

open PonyVerif.Model.BagWalk in
/-- For EVERY object graph `rel`, every `related_objects` configuration `ro` and every list of given objects (in any order,
    with repetitions): a given object gets a FULL entry (all configured attributes, collections included); an object that
    is not given but is referred to by a given object whose entity has `related_objects` gets a REDUCED entry; nothing else
    appears. -/
theorem C31_bag_contents (rel : Nat → List Nat) (ro : Nat → Bool) (given : List Nat) (x : Nat) :
    lookup (bagWalk rel ro given) x = spec rel ro given x := by
  have := lookup_foldl rel ro given [] [] (by intro y; simp [lookup, spec]) x
  simpa [bagWalk] using this

open PonyVerif.Model.BagWalk in
/-- the result does not depend on the order in which the objects are given (what 791b025 repaired) -/
theorem C31_bag_order_independent (rel : Nat → List Nat) (ro : Nat → Bool) (g₁ g₂ : List Nat) (h : ∀ o, o ∈ g₁ ↔ o ∈ g₂) (x : Nat) :
    lookup (bagWalk rel ro g₁) x = lookup (bagWalk rel ro g₂) x := by
  rw [C31_bag_contents, C31_bag_contents]
  unfold spec
  have h2 : (g₁.any fun g => ro g && (rel g).contains x) = (g₂.any fun g => ro g && (rel g).contains x) := by
    rw [Bool.eq_iff_iff]; simp only [List.any_eq_true]
    exact ⟨fun ⟨g, hg, hp⟩ => ⟨g, (h g).mp hg, hp⟩, fun ⟨g, hg, hp⟩ => ⟨g, (h g).mpr hg, hp⟩⟩
  rw [h2]
  by_cases hx : x ∈ g₁
  · simp [hx, (h x).mp hx]
  · have : x ∉ g₂ := fun h' => hx ((h x).mpr h')
    simp [hx, this]

open PonyVerif.Model.BagWalk in
example : -- a ↔ b related to each other, both given, in both orders (the input that used to lose `a.bs`)
    let rel : Nat → List Nat := fun o => if o = 0 then [1] else if o = 1 then [0, 2] else []
    lookup (bagWalk rel (fun _ => true) [0, 1]) 0 = some true ∧ lookup (bagWalk rel (fun _ => true) [1, 0]) 0 = some true
    ∧ lookup (bagWalk rel (fun _ => true) [1, 0]) 2 = some false ∧ lookup (bagWalk rel (fun _ => true) [0]) 2 = none := by decide

/-! ### which attributes `to_dict` / the bag report: `_get_attrs_` and its cache -/

open PonyVerif.Model.AttrSel in
/-- CACHE TRANSPARENCY, for every entity (attribute list), every tokenizer and EVERY history of `_get_attrs_` calls
    (any mix of only / exclude given as None, strings or tuples, flags, unknown names): each call returns exactly what the
    uncached computation returns — the per-entity cache `_attrnames_cache_` never changes an answer. -/
theorem C31_attrs_cache_transparent (split : String → List String) (attrs : List Attr) (qs : List Query) :
    runHist split attrs [] qs = qs.map (compute split attrs) :=
  runHist_spec split attrs qs [] (by intro q r h; simp at h)

open PonyVerif.Model.AttrSel in
/-- what a successful selection contains: only attributes of the entity; nothing that was excluded; and, when `only` is not
    given, every attribute that is visible under the flags (non-lazy scalars and to-one relations always, collections iff
    `with_collections`, lazy attributes iff `with_lazy`) and not excluded — and nothing invisible. -/
theorem C31_attrs_selection (split : String → List String) (attrs : List Attr) (q : Query) (r : List String)
    (h : compute split attrs q = .ok r) :
    (∀ n ∈ r, known attrs n = true)
    ∧ (q.exclude.truthy = true → ∀ n ∈ r, n ∉ q.exclude.toks split)
    ∧ (q.only.truthy = false →
        (∀ a ∈ attrs, visible q a = true → ¬ (q.exclude.truthy = true ∧ a.name ∈ q.exclude.toks split) → a.name ∈ r)
        ∧ (∀ n ∈ r, ∃ a ∈ attrs, a.name = n ∧ visible q a = true)) := by
  unfold compute at h
  by_cases ho : q.only.truthy = true
  · simp only [ho, if_true] at h
    cases hu : firstUnknown attrs (q.only.toks split) with
    | some n => simp [hu] at h
    | none =>
      simp only [hu] at h
      have hk : ∀ n ∈ q.only.toks split, known attrs n = true := by
        intro n hn
        have := List.find?_eq_none.mp hu n hn
        simpa using this
      by_cases he : q.exclude.truthy = true
      · simp only [he, if_true] at h
        cases hx : firstUnknown attrs (q.exclude.toks split) with
        | some n => simp [hx] at h
        | none =>
          simp only [hx, Except.ok.injEq] at h
          subst h
          refine ⟨fun n hn => hk n (List.mem_filter.mp hn).1, fun _ n hn => by simpa using (List.mem_filter.mp hn).2, fun hf => by simp [ho] at hf⟩
      · simp only [he] at h
        simp at h
        subst h
        exact ⟨hk, fun hf => absurd hf he, fun hf => by simp [ho] at hf⟩
  · have ho' : q.only.truthy = false := by simpa using ho
    simp only [ho', Bool.false_eq_true, if_false] at h
    have hb : ∀ n, n ∈ (attrs.filter (visible q)).map (·.name) ↔ ∃ a ∈ attrs, a.name = n ∧ visible q a = true := by
      intro n; simp only [List.mem_map, List.mem_filter]
      exact ⟨fun ⟨a, ⟨ha, hv⟩, hn⟩ => ⟨a, ha, hn, hv⟩, fun ⟨a, ha, hn, hv⟩ => ⟨a, ⟨ha, hv⟩, hn⟩⟩
    have hkn : ∀ n, (∃ a ∈ attrs, a.name = n ∧ visible q a = true) → known attrs n = true := by
      intro n ⟨a, ha, hn, _⟩
      simp only [known, List.any_eq_true]
      exact ⟨a, ha, by simp [hn]⟩
    by_cases he : q.exclude.truthy = true
    · simp only [he, if_true] at h
      cases hx : firstUnknown attrs (q.exclude.toks split) with
      | some n => simp [hx] at h
      | none =>
        simp only [hx, Except.ok.injEq] at h
        subst h
        refine ⟨fun n hn => hkn n ((hb n).mp (List.mem_filter.mp hn).1), fun _ n hn => by simpa using (List.mem_filter.mp hn).2, fun _ => ⟨?_, ?_⟩⟩
        · intro a ha hv hne
          refine List.mem_filter.mpr ⟨(hb a.name).mpr ⟨a, ha, rfl, hv⟩, ?_⟩
          have : a.name ∉ q.exclude.toks split := fun hm => hne ⟨he, hm⟩
          simpa using this
        · intro n hn; exact (hb n).mp (List.mem_filter.mp hn).1
    · simp only [he] at h
      simp at h
      subst h
      exact ⟨fun n hn => hkn n ((hb n).mp hn), fun hf => absurd hf he,
             fun _ => ⟨fun a ha hv _ => (hb a.name).mpr ⟨a, ha, rfl, hv⟩, fun n hn => (hb n).mp hn⟩⟩

open PonyVerif.Model.AttrSel in
example : -- a cached empty selection, a string and a tuple form of the same selector, and an unknown name
    let attrs := [Attr.mk "id" false false, Attr.mk "bio" false true, Attr.mk "bs" true false]
    (runHist splitBlank attrs [] [⟨.none, .none, false, false⟩, ⟨.str "bs, id", .none, false, false⟩, ⟨.tup ["bs", "id"], .str "id", false, false⟩,
                                ⟨.none, .tup ["id"], false, false⟩, ⟨.none, .tup ["id"], false, false⟩, ⟨.tup ["nope"], .none, true, true⟩]).map
        (fun r => match r with | .ok l => Sum.inl l | .error e => Sum.inr e)
      = [.inl ["id"], .inl ["bs", "id"], .inl ["bs"], .inl [], .inl [], .inr "nope"] := by decide

/-! ### pickling one entity and unpickling it in another session -/

open PonyVerif.Model.Pickle in
/-- exactly the stored, live objects can be pickled, and the pickle carries the key and every loaded attribute value -/
theorem C31_pickle_reduce (o : Obj) :
    (∀ p, reduce o = .ok p → p.pk = o.pk ∧ p.d = o.vals)
    ∧ ((∃ p, reduce o = .ok p) ↔ (o.status = .loaded ∨ o.status = .inserted ∨ o.status = .updated)) := by
  unfold reduce
  cases hs : o.status <;> simp [Status.isDel]
  all_goals (intro p hp; subst hp; simp)

open PonyVerif.Model.Pickle in
/-- For EVERY session and every pickle: the object handed back has the pickled key, and (unless the session knows the
    object as deleted) each attribute has the value the session had already loaded for it, else the pickled value. -/
theorem C31_unpickle_values (s : Session) (p : Pickled) :
    (unpickle s p).2.pk = p.pk
    ∧ ((unpickle s p).2.status.isDel = false → ∀ a,
        (unpickle s p).2.vals.lookup a =
          ((match s.find? (fun (o : Obj) => o.pk == p.pk) with | some o => o.vals.lookup a | none => none).or (p.d.lookup a))) := by
  unfold unpickle
  cases hf : s.find? (fun o => o.pk == p.pk) with
  | none => exact ⟨rfl, fun _ a => by simp [lookup_setMissing]⟩
  | some o =>
    have hpk : o.pk = p.pk := by simpa using List.find?_some hf
    by_cases hd : o.status.isDel = true
    · simp only [hd, if_true]
      exact ⟨hpk, fun h => by simp at h⟩
    · simp only [hd]
      exact ⟨hpk, fun _ a => by simp [lookup_setMissing]⟩

open PonyVerif.Model.Pickle in
/-- ROUND TRIP: if what the receiving session has loaded of the object agrees with the pickled object wherever both have a
    value (the database was not changed in between — both were read from the same rows), then every attribute value of the
    pickled object is found, equal, on the unpickled object. -/
theorem C31_pickle_roundtrip (s : Session) (o : Obj) (p : Pickled) (hp : reduce o = .ok p)
    (hlive : ∀ o2, s.find? (fun x => x.pk == o.pk) = some o2 → o2.status.isDel = false)
    (hagree : ∀ o2, s.find? (fun x => x.pk == o.pk) = some o2 → ∀ a u v, o2.vals.lookup a = some u → o.vals.lookup a = some v → u = v) :
    (unpickle s p).2.pk = o.pk ∧ ∀ a v, o.vals.lookup a = some v → (unpickle s p).2.vals.lookup a = some v := by
  obtain ⟨hpk, hd⟩ := (C31_pickle_reduce o).1 p hp
  have hv := C31_unpickle_values s p
  refine ⟨hv.1.trans hpk, ?_⟩
  intro a v hav
  have hlive' : (unpickle s p).2.status.isDel = false := by
    unfold unpickle
    cases hf : s.find? (fun x => x.pk == p.pk) with
    | none => rfl
    | some o2 =>
      have := hlive o2 (by rw [← hpk]; exact hf)
      simp [this]
  rw [hv.2 hlive' a, hd]
  cases hf : s.find? (fun x => x.pk == p.pk) with
  | none => simpa using hav
  | some o2 =>
    cases hu : o2.vals.lookup a with
    | none => simpa [hu] using hav
    | some u =>
      have := hagree o2 (by rw [← hpk]; exact hf) a u v hu hav
      simp [hu, this]

open PonyVerif.Model.Pickle in
example : -- the receiving session already holds a NEWER value of `v`: it wins over the pickled one; `s` comes from the pickle
    (unpickle [{ pk := 1, status := .loaded, vals := [("v", 9)] }] { pk := 1, d := [("v", 1), ("s", 5)] }).2.vals = [("v", 9), ("s", 5)]
    ∧ (reduce { pk := 1, status := .modified, vals := [] }).toOption = none := by decide

/-! ### pickling a query result -/

open PonyVerif.Model.Pickle in
/-- For every query result flavour the API hands out (eager slice, lazy `page(n)` / `limit(k, offset=m)`, materialised or not)
    and every limit / offset: the pickle carries exactly the rows of the result's own window of the ordered result — the same
    rows whether or not something materialised the result before it was pickled. -/
theorem C31_result_pickle_rows {α : Type} (full : List α) (r : QResult α) (h : r.wellFormed full) :
    getstateRows full r = fetchWindow r.limit r.offset full := by
  unfold getstateRows
  rcases h with h | h <;> simp [h]

open PonyVerif.Model.Pickle in
example : getstateRows [1, 2, 3, 4, 5, 6] ({ limit := some 2, offset := some 2, items := none } : QResult Nat) = [3, 4]
    ∧ fetchWindow (some 2) none [1, 2, 3, 4, 5, 6] = [1, 2] := by decide

/-- the fetch in `QueryResult._get_items` passes BOTH the limit and the offset, and `__getstate__` pickles `_get_items()` -/
theorem C31_source_result_getstate :
    PonyVerif.Gen.ReducePk.resultFetchCall = "self._query._actual_fetch(self._limit, self._offset)"
    ∧ PonyVerif.Gen.ReducePk.resultGetstate = "return (self._get_items(), self._limit, self._offset, self._expr_type, self._col_names)"
    ∧ PonyVerif.Gen.ReducePk.queryReduce = "return (unpickle_query, (query._fetch(),))" := by decide

/-! ### the value a cell reports determines the current value of the attribute -/

/-- well-formed current value: raw keys are non-empty (every entity has a primary key) -/
def wfVal : PonyVerif.Model.Report.Val → Prop
  | .scalar _ => True
  | .one none => True
  | .one (some raw) => raw ≠ []
  | .many ks => ∀ k ∈ ks, k ≠ []

/-- same value up to the order of a collection -/
def sameVal : PonyVerif.Model.Report.Val → PonyVerif.Model.Report.Val → Prop
  | .scalar a, .scalar b => a = b
  | .one a, .one b => a = b
  | .many a, .many b => a.Perm b
  | _, _ => False

open PonyVerif.Model.Report in
/-- BAG: for EVERY current value (scalar, to-one with a key of any column count, collection of keys of any column count and
    any contents) and every sorting function, reading the reported cell back gives the current value — exactly for scalars
    and to-one relations, up to order for collections.  So the bag reports the current value of the attribute and two different
    states are never reported alike. -/
theorem C31_bag_cell_reports_value (srt : List PonyVerif.Model.Serial.Key → List PonyVerif.Model.Serial.Key)
    (hs : ∀ l, (srt l).Perm l) (v : Val) (hv : wfVal v) :
    ∃ v', unRep (bagCell srt v) = some v' ∧ sameVal v' v := by
  cases v with
  | scalar n => exact ⟨_, rfl, rfl⟩
  | one k =>
    cases k with
    | none => exact ⟨_, rfl, rfl⟩
    | some raw =>
      match raw, hv with
      | [c], _ => exact ⟨_, rfl, rfl⟩
      | a :: b :: r, _ => exact ⟨_, rfl, rfl⟩
  | many ks =>
    refine ⟨_, rfl, ?_⟩
    show ((srt (ks.map collKey)).filterMap unKey).Perm ks
    have h1 : ((srt (ks.map collKey)).filterMap unKey).Perm ((ks.map collKey).filterMap unKey) := (hs _).filterMap _
    rwa [filterMap_unKey_collKey ks hv] at h1

open PonyVerif.Model.Report in
/-- ENTITY.to_dict (related_objects=False): the same, given that every key of the collection has the column count `cols`
    of the related entity. -/
theorem C31_entity_cell_reports_value (srtK : List PonyVerif.Model.Serial.Key → List PonyVerif.Model.Serial.Key)
    (srtT : List (List String) → List (List String)) (hk : ∀ l, (srtK l).Perm l) (ht : ∀ l, (srtT l).Perm l)
    (cols : Nat) (hc : 1 ≤ cols) (v : Val) (hv : wfVal v) (hcols : ∀ ks, v = .many ks → ∀ k ∈ ks, k.length = cols) :
    ∃ v', unRep (entityCell srtK srtT cols v) = some v' ∧ sameVal v' v := by
  cases v with
  | scalar n => exact ⟨_, rfl, rfl⟩
  | one k =>
    cases k with
    | none => exact ⟨_, rfl, rfl⟩
    | some raw =>
      match raw, hv with
      | [c], _ => exact ⟨_, rfl, rfl⟩
      | a :: b :: r, _ => exact ⟨_, rfl, rfl⟩
  | many ks =>
    by_cases h : cols > 1
    · exact ⟨.many (srtT ks), by simp [entityCell, h, unRep], ht ks⟩
    · have h1 : cols = 1 := by omega
      refine ⟨.many ((srtK (ks.map (fun raw => PonyVerif.Model.Serial.Key.single (raw.headD "")))).filterMap unKey), by simp [entityCell, h, unRep], ?_⟩
      show ((srtK _).filterMap unKey).Perm ks
      have hp := (hk (ks.map (fun raw => PonyVerif.Model.Serial.Key.single (raw.headD "")))).filterMap unKey
      have hid : (ks.map (fun raw => PonyVerif.Model.Serial.Key.single (raw.headD ""))).filterMap unKey = ks := by
        have hl : ∀ k ∈ ks, k.length = 1 := fun k hk' => (hcols ks rfl k hk').trans h1
        clear hp hv hcols
        induction ks with
        | nil => rfl
        | cons k ks ih =>
          have := hl k List.mem_cons_self
          match k, this with
          | [c], _ =>
            simp only [List.map_cons, List.filterMap_cons, unKey, List.headD_cons]
            rw [ih (fun x hx => hl x (List.mem_cons_of_mem _ hx))]
      rwa [hid] at hp

open PonyVerif.Model.Report in
example : -- a collection of two-column keys made of separators, and a to-one reference with a two-column key
    bagCell (sortBy (fun a b => decide (keyText a ≤ keyText b))) (.many [["k,", "1"], ["k", ",1"]]) = .keys [.text "k*,,1", .text "k,*,1"]
    ∧ unRep (.keys [.text "k*,,1", .text "k,*,1"]) = some (.many [["k,", "1"], ["k", ",1"]])
    ∧ bagCell id (.one (some ["k", "1"])) = .tuple ["k", "1"] := by decide

example : wfVal (.many [["k,", "1"], ["k", ",1"]]) := by simp [wfVal]

end PonyVerif.Props.C31
