import PonyVerif.Drive.Util
import PonyVerif.Model.Loading
import PonyVerif.Gen.LoadDecisions
namespace PonyVerif.Drive.C23
open Lean PonyVerif.Drive PonyVerif.Model.Loading

def natList (j : Json) : Except String (List Nat) := do
  match j with
  | .arr a => a.toList.mapM (fun v => fromJson? v)
  | _ => throw "list of numbers expected"

def optIntJ (j : Json) : Except String (Option Int) :=
  match j with
  | .null => pure none
  | v => do pure (some (← fromJson? v))

/-- `[[o, a, v], …]` -/
def parseVals (l : List Json) : Except String (List ((Nat × Nat) × Option Int)) :=
  l.mapM fun j => do
    match j with
    | .arr #[o, a, v] => pure (((← fromJson? o), (← fromJson? a)), (← optIntJ v))
    | _ => throw "vals: [o, a, v]"

/-- `[[o, c, [items]], …]` -/
def parseColls (l : List Json) : Except String (List ((Nat × Nat) × List Nat)) :=
  l.mapM fun j => do
    match j with
    | .arr #[o, c, is] => pure (((← fromJson? o), (← fromJson? c)), (← natList is))
    | _ => throw "colls: [o, c, [..]]"

/-- `[[o, c, [items], full, count|null, [absent]], …]` -/
def parseSets (l : List Json) : Except String (List ((Nat × Nat) × SetData)) :=
  l.mapM fun j => do
    match j with
    | .arr #[o, c, is, f, n, ab] =>
      let cnt : Option Nat ← match n with | .null => pure none | v => do pure (some (← fromJson? v))
      pure (((← fromJson? o), (← fromJson? c)), ⟨← natList is, ← fromJson? f, cnt, ← natList ab⟩)
    | _ => throw "sets: [o, c, items, full, count, absent]"

def lookup2 {β : Type} (k : Nat × Nat) : List ((Nat × Nat) × β) → Option β
  | [] => none
  | (k', v) :: r => if k' = k then some v else lookup2 k r

def parseRead (j : Json) : Except String Read := do
  let t ← argStr j "t"
  let o ← argNat j "o"
  let a ← argNat j "a"
  match t with
  | "attr" => pure (.attr o a)
  | "isEmpty" => pure (.isEmpty o a)
  | "count" => pure (.count o a)
  | "contains" => pure (.contains o a (← argNat j "i"))
  | "items" => pure (.items o a)
  | "len" => pure (.len o a)
  | _ => throw s!"read {t}"

def jAns : Ans → Json
  | .val none => Json.mkObj [("val", .null)]
  | .val (some v) => Json.mkObj [("val", .num (JsonNumber.fromInt v))]
  | .bool b => Json.mkObj [("bool", .bool b)]
  | .nat n => Json.mkObj [("nat", .num (JsonNumber.fromNat n))]
  | .rows l => Json.mkObj [("rows", .arr (l.map (fun n => Json.num (JsonNumber.fromNat n))).toArray)]

/-- one request: the database, a snapshot of the real session, one read; the model's answer, how it was obtained, and the
    `SetData` of the collection afterwards -/
def handle (j : Json) : Except String Json := do
  let op ← argStr j "op"
  match op with
  | "read" =>
      let objs ← natList (← j.getObjVal? "objs")
      let dvals ← parseVals (← argArr j "dbvals")
      let dcolls ← parseColls (← argArr j "dbcolls")
      let svals ← parseVals (← argArr j "vals")
      let ssets ← parseSets (← argArr j "sets")
      let db : Db := { objs := objs, val := fun o a => (lookup2 (o, a) dvals).join, coll := fun o c => (lookup2 (o, c) dcolls).getD [] }
      let s : Sess := { vals := fun o a => lookup2 (o, a) svals, sets := fun o c => lookup2 (o, c) ssets }
      let r ← parseRead (← j.getObjVal? "read")
      let x := read db s r
      let (o, c) := match r with
        | .attr o a => (o, a) | .isEmpty o c => (o, c) | .count o c => (o, c) | .contains o c _ => (o, c) | .items o c => (o, c) | .len o c => (o, c)
      let sdJ : Json := match x.1.sets o c with
        | none => .null
        | some sd => Json.mkObj [("items", .arr ((canon db sd.items).map (fun n => Json.num (JsonNumber.fromNat n))).toArray), ("full", .bool sd.full),
                                 ("count", jOptNat sd.count), ("absent", .arr (sd.absent.map (fun n => Json.num (JsonNumber.fromNat n))).toArray)]
      pure (Json.mkObj [("ans", jAns x.2.1), ("how", .str (match x.2.2 with | .cached => "cached" | .loaded => "loaded")),
                        ("db", jAns (dbAnswer db r)), ("set", sdJ)])
  | "loader" =>
      let objs ← natList (← j.getObjVal? "objs")
      let dvals ← parseVals (← argArr j "dbvals")
      let dcolls ← parseColls (← argArr j "dbcolls")
      let svals ← parseVals (← argArr j "vals")
      let ssets ← parseSets (← argArr j "sets")
      let db : Db := { objs := objs, val := fun o a => (lookup2 (o, a) dvals).join, coll := fun o c => (lookup2 (o, c) dcolls).getD [] }
      let s : Sess := { vals := fun o a => lookup2 (o, a) svals, sets := fun o c => lookup2 (o, c) ssets }
      -- schema: rowAttrs [[o, [a..]]], revColl [[a, r]], revM2M [[c, r]]
      let rowA ← (← argArr j "rowAttrs").mapM fun x => do
        match x with
        | .arr #[o, as] => pure ((← fromJson? o : Nat), (← natList as))
        | _ => throw "rowAttrs: [o, [a..]]"
      let pairs (k : String) : Except String (List (Nat × Nat)) := do
        (← argArr j k).mapM fun x => do
          match x with
          | .arr #[a, r] => pure ((← fromJson? a : Nat), (← fromJson? r : Nat))
          | _ => throw s!"{k}: [a, r]"
      let revC ← pairs "revColl"
      let revO ← pairs "revOne"
      let revM ← pairs "revM2M"
      let sch : Schema := { rowAttrs := fun o => ((rowA.find? (fun x => x.1 == o)).map (·.2)).getD [],
                            revColl := fun a => (revC.find? (fun x => x.1 == a)).map (·.2),
                            revOne := fun a => (revO.find? (fun x => x.1 == a)).map (·.2),
                            revM2M := fun c => ((revM.find? (fun x => x.1 == c)).map (·.2)).getD c }
      let lj ← j.getObjVal? "loader"
      let t ← argStr lj "t"
      let l : Loader ← match t with
        | "rows" => pure (.rows (← natList (← lj.getObjVal? "os")))
        | "lazy" => pure (.lazyAttr (← argNat lj "o") (← argNat lj "a"))
        | "collRows" => pure (.collRows (← natList (← lj.getObjVal? "owners")) (← argNat lj "c"))
        | "collLinks" => pure (.collLinks (← natList (← lj.getObjVal? "owners")) (← argNat lj "c"))
        | _ => throw s!"loader {t}"
      let s' := applyLoader db sch s l
      let valKeys ← parseVals (← argArr j "dbvals")      -- the universe of column attributes
      let outVals := valKeys.filterMap fun kv => match s'.vals kv.1.1 kv.1.2 with
        | none => none
        | some v => some (Json.arr #[.num (JsonNumber.fromNat kv.1.1), .num (JsonNumber.fromNat kv.1.2), jOptInt v])
      let setKeys ← (← argArr j "setkeys").mapM fun x => do
        match x with
        | .arr #[o, c] => pure ((← fromJson? o : Nat), (← fromJson? c : Nat))
        | _ => throw "setkeys: [o, c]"
      let outSets := setKeys.filterMap fun k => match s'.sets k.1 k.2 with
        | none => none
        | some sd => some (Json.arr #[.num (JsonNumber.fromNat k.1), .num (JsonNumber.fromNat k.2),
                                      .arr ((canon db sd.items).map (fun n => Json.num (JsonNumber.fromNat n))).toArray, .bool sd.full, jOptNat sd.count])
      pure (Json.mkObj [("vals", .arr outVals.toArray), ("sets", .arr outSets.toArray)])
  | "decide" =>
      -- the batch decisions of Set.load as they are in the source (regenerated): used by the harness to predict which loader a read runs
      let what ← argStr j "what"
      match what with
      | "prefetching" => pure (Json.mkObj [("r", .bool (Gen.LoadDecisions.prefetching (← argBool j "lazy") (← argBool j "thresholdSet") (← argBool j "counterReached")))])
      | "batchSkips" => pure (Json.mkObj [("r", .bool (Gen.LoadDecisions.batchSkips (← argBool j "same") (← argBool j "createdOrDeleted") (← argBool j "hasSd") (← argBool j "full")))])
      | "partialLoad" => pure (Json.mkObj [("r", .bool (Gen.LoadDecisions.partialLoad (← argBool j "hasItems") (← argBool j "lazy") (← argBool j "sdNonEmpty")))])
      | _ => throw s!"decide {what}"
  | "merge" =>
      let rows ← natList (← j.getObjVal? "rows")
      let p : Pending := ⟨← natList (← j.getObjVal? "items"), ← natList (← j.getObjVal? "added"), ← natList (← j.getObjVal? "removed")⟩
      match mergeLinks rows p p.added with
      | .ok l => pure (Json.mkObj [("ok", .arr (l.map (fun n => Json.num (JsonNumber.fromNat n))).toArray),
                                   ("expected", .arr ((expectedItems rows p).map (fun n => Json.num (JsonNumber.fromNat n))).toArray)])
      | .error ph => pure (Json.mkObj [("phantom", .num (JsonNumber.fromNat ph))])
  | _ => throw s!"unknown op {op}"
end PonyVerif.Drive.C23
