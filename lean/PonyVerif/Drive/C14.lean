import PonyVerif.Drive.C11
import PonyVerif.Model.KeyDb
/-
  Line-protocol entry for the table + session model (C14).
  request : {"op":"run","schema":{..as C11..},
             "ops":[{"k":"sess","op":{..a C11 op: create / set / delete / read..}} | {"k":"fetch","cls":0,"pk":[1],"ids":[]}
                    | {"k":"flush","ids":[3,4]} | {"k":"flushOne","o":0,"ids":[],"delAll":true} | {"k":"commit","ids":[]} | {"k":"rollback"} | {"k":"ext","pk":[7],"vals":[1,null]} | {"k":"extUpdate","pk":[7],"a":0,"v":3} | {"k":"extDelete","pk":[7]}]}
  reply   : {"steps":[{"err":null|"TransactionIntegrityError"..,"committed":[[pk,[vals]]..],"txn":[..],"inTxn":bool,"keysOk":bool,
                       "objs":[..],"pk":[..],"ixs":[..],"queue":[..]}]}
-/
namespace PonyVerif.Drive.C14
open Lean PonyVerif.Drive PonyVerif.Model.KeyIndex PonyVerif.Model.KeyDb

def idsOf (j : Json) : Except String (List Int) :=
  match j.getObjVal? "ids" with
  | .ok v => C11.intsOfJson v
  | .error _ => pure []

def wopOfJson (j : Json) : Except String WOp := do
  let k ← argStr j "k"
  match k with
  | "sess" => pure (.sess (← C11.opOfJson (← j.getObjVal? "op")))
  | "fetch" => pure (.fetch (← argNat j "cls") (← C11.intsOfJson (← j.getObjVal? "pk")) (← idsOf j))
  | "flush" => pure (.flush (← idsOf j))
  | "flushOne" => pure (.flushOne (← argNat j "o") (← idsOf j) (C11.boolD j "delAll"))
  | "commit" => pure (.commit (← idsOf j))
  | "rollback" => pure .rollback
  | "ext" =>
      let vals ← (← argArr j "vals").mapM C11.optIntOfJson
      pure (.ext (.insert { pk := ← C11.intsOfJson (← j.getObjVal? "pk"), vals := fun a => (vals[a]?).join }))
  | "extUpdate" => pure (.ext (.update (← C11.intsOfJson (← j.getObjVal? "pk")) (← argNat j "a") (← argOptInt j "v")))
  | "extDelete" => pure (.ext (.delete (← C11.intsOfJson (← j.getObjVal? "pk"))))
  | _ => throw s!"unknown op kind {k}"

def werrName : WErr → String
  | .sess e => C11.errName e
  | .txnIntegrity => "TransactionIntegrityError"
  | .integrity => "IntegrityError"
  | .autoIdUsed => "TransactionIntegrityError"
  | .optimistic => "OptimisticCheckError"
  | .assertion => "AssertionError"
  | .locked => "Locked"
  | .extIntegrity => "ExtIntegrityError"
  | .objectNotFound => "ObjectNotFound"
  | .badOp => "BadOp"

def jTable (sch : Schema) (t : Table) : Json :=
  .arr (t.map fun r => Json.arr #[C11.jKey r.pk, .arr ((List.range sch.nattrs).map fun a => jOptInt (r.vals a)).toArray]).toArray

def handle (j : Json) : Except String Json := do
  let op ← argStr j "op"
  match op with
  | "run" =>
      let sch ← C11.schemaOfJson (← j.getObjVal? "schema")
      let ops ← (← argArr j "ops").mapM wopOfJson
      let (_, outs) := ops.foldl (fun (acc : World × List Json) op =>
        let (w', e) := stepW sch acc.1 op
        (w', Json.mkObj ([("err", match e with | none => Json.null | some e => Json.str (werrName e)),
                          ("committed", jTable sch w'.committed), ("txn", jTable sch w'.txn), ("inTxn", toJson w'.inTxn),
                          ("keysOk", toJson (keysOkB sch w'.committed && keysOkB sch w'.txn)),
                          ("inv", toJson (checkInv sch w'.sess)),
                          ("queueOk", toJson (w'.sess.queue.Nodup && w'.sess.queue.all (fun o => decide (o < w'.sess.n))))] ++ C11.dumpSess sch w'.sess) :: acc.2)) (World.init, [])
      pure (Json.mkObj [("steps", .arr outs.reverse.toArray)])
  | _ => throw s!"unknown op {op}"
end PonyVerif.Drive.C14
