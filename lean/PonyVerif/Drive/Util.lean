/-
  JSON glue for the line-protocol driver (trusted, not verified): PyVal ↔ Json and small accessors.
-/
import Lean.Data.Json
import PonyVerif.Py.Val
namespace PonyVerif.Drive
open Lean PonyVerif.Py

partial def pyOfJson : Json → Except String PyVal
  | .null => pure .none
  | .bool b => pure (.bool b)
  | .num n => if n.exponent == 0 then pure (.int n.mantissa) else throw s!"non-integer number {n}"
  | .str s => pure (.str s)
  | .arr a => do
      let l ← a.toList.mapM pyOfJson
      pure (.list l)
  | .obj o => do
      let f ← (Json.obj o).getObjValAs? String "call"
      let args ← (Json.obj o).getObjVal? "args"
      match ← pyOfJson args with
      | .list l => pure (.call f l)
      | _ => throw "args must be a list"

partial def jsonOfPy : PyVal → Json
  | .none => .null
  | .bool b => .bool b
  | .int i => .num (JsonNumber.fromInt i)
  | .str s => .str s
  | .list l => .arr (l.map jsonOfPy).toArray
  | .call f a => Json.mkObj [("call", .str f), ("args", .arr (a.map jsonOfPy).toArray)]

def jsonOfErr : PyErr → Json
  | .assertion m => Json.mkObj [("error", "AssertionError"), ("msg", .str m)]
  | .typeError m => Json.mkObj [("error", "TypeError"), ("msg", .str m)]
  | .raised c m => Json.mkObj [("error", .str c), ("msg", .str m)]
  | .unbound n => Json.mkObj [("error", "UnboundLocalError"), ("msg", .str n)]

def jsonOfPyM : PyM PyVal → Json
  | .ok v => Json.mkObj [("ok", jsonOfPy v)]
  | .error e => jsonOfErr e

def argPy (j : Json) (k : String) : Except String PyVal := do
  pyOfJson (← j.getObjVal? k)
def argInt (j : Json) (k : String) : Except String Int := j.getObjValAs? Int k
def argNat (j : Json) (k : String) : Except String Nat := j.getObjValAs? Nat k
def argStr (j : Json) (k : String) : Except String String := j.getObjValAs? String k
def argBool (j : Json) (k : String) : Except String Bool := j.getObjValAs? Bool k
def argOptInt (j : Json) (k : String) : Except String (Option Int) := do
  match j.getObjVal? k with
  | .ok .null => pure none
  | .ok v => pure (some (← fromJson? v))
  | .error _ => pure none
def argArr (j : Json) (k : String) : Except String (List Json) := do
  match ← j.getObjVal? k with
  | .arr a => pure a.toList
  | _ => throw s!"{k}: array expected"

def jOptInt : Option Int → Json
  | none => .null
  | some i => .num (JsonNumber.fromInt i)
def jOptNat : Option Nat → Json
  | none => .null
  | some i => .num (JsonNumber.fromNat i)

end PonyVerif.Drive
