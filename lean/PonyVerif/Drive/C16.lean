import PonyVerif.Drive.Util
import PonyVerif.Model.SaveOrder
namespace PonyVerif.Drive.C16
open Lean PonyVerif.Drive PonyVerif.Model.SaveOrder

def statusOfStr : String → Except String Status
  | "created" => pure .created
  | "modified" => pure .modified
  | "marked_to_delete" => pure .markedToDelete
  | "inserted" => pure .inserted
  | "updated" => pure .updated
  | "deleted" => pure .deleted
  | "loaded" | "cancelled" | "none" => pure .other
  | s => throw s!"unknown status {s}"

def natOf (j : Json) : Except String Nat := fromJson? j

def refOf (j : Json) : Except String Ref := do
  match j with
  | .arr #[t, d] => pure { target := ← natOf t, dirty := ← fromJson? d }
  | _ => throw "ref: [target, dirty] expected"

def pairOf (j : Json) : Except String (Nat × Nat) := do
  match j with
  | .arr #[a, b] => pure (← natOf a, ← natOf b)
  | _ => throw "pair expected"

def listOf (f : Json → Except String α) (j : Json) : Except String (List α) := do
  match j with
  | .arr a => a.toList.mapM f
  | _ => throw "array expected"

def optNat (j : Json) : Except String (Option Nat) :=
  match j with
  | .null => pure none
  | j => do pure (some (← natOf j))

def jNat (n : Nat) : Json := .num (JsonNumber.fromNat n)

def jsonOfWrite : Write → Json
  | .insert x => .arr #["insert", jNat x]
  | .update x => .arr #["update", jNat x]
  | .delete x => .arr #["delete", jNat x]
  | .unlink a b => .arr #["unlink", jNat a, jNat b]
  | .link a b => .arr #["link", jNat a, jNat b]

def writeOf (j : Json) : Except String Write := do
  match j with
  | .arr #[.str "insert", x] => pure (.insert (← natOf x))
  | .arr #[.str "update", x] => pure (.update (← natOf x))
  | .arr #[.str "delete", x] => pure (.delete (← natOf x))
  | .arr #[.str "unlink", a, b] => pure (.unlink (← natOf a) (← natOf b))
  | .arr #[.str "link", a, b] => pure (.link (← natOf a) (← natOf b))
  | _ => throw "write expected"

def jsonOfErr : Err → Json
  | .cycle c => Json.mkObj [("error", "UnresolvableCyclicDependency"), ("chain", .arr (c.map jNat).toArray)]
  | .badStatus x => Json.mkObj [("error", "AssertionError"), ("obj", jNat x)]
  | .outOfFuel => Json.mkObj [("error", "outOfFuel")]

def handle (j : Json) : Except String Json := do
  let op ← argStr j "op"
  match op with
  | "flush" =>
      let status ← listOf (fun s => do statusOfStr (← fromJson? s)) (← j.getObjVal? "status")
      let refs ← listOf (listOf refOf) (← j.getObjVal? "refs")
      let queue ← listOf optNat (← j.getObjVal? "queue")
      let removed ← listOf pairOf (← j.getObjVal? "removed")
      let added ← listOf pairOf (← j.getObjVal? "added")
      match flush { status, refs, queue, removed, added } with
      | .ok ws => pure (Json.mkObj [("ok", .arr (ws.map jsonOfWrite).toArray)])
      | .error e => pure (jsonOfErr e)
  | "slots" =>
      -- the same flush with the real queue bookkeeping (slots / _save_pos_); `top` = Entity.flush(obj)
      let status ← listOf (fun s => do statusOfStr (← fromJson? s)) (← j.getObjVal? "status")
      let refs ← listOf (listOf refOf) (← j.getObjVal? "refs")
      let queue ← listOf optNat (← j.getObjVal? "queue")
      let pos ← listOf optNat (← j.getObjVal? "pos")
      let removed ← listOf pairOf (← j.getObjVal? "removed")
      let added ← listOf pairOf (← j.getObjVal? "added")
      let top ← optNat ((j.getObjVal? "top").toOption.getD .null)
      let s0 : St := { status, out := removed.map (fun p => Write.unlink p.1 p.2) }
      let qs : Slots := { queue, pos }
      let r := match top with
        | some x => saveTopS refs (fuelFor status) x (s0, qs)
        | none => loopS refs (fuelFor status) queue.length 0 (s0, qs)
      let jOpt (o : Option Nat) : Json := match o with | none => .null | some n => jNat n
      match r with
      | .ok (s, qs') => pure (Json.mkObj [("ok", .arr ((s.out ++ added.map (fun p => Write.link p.1 p.2)).map jsonOfWrite).toArray),
                                          ("queue", .arr (qs'.queue.map jOpt).toArray), ("pos", .arr (qs'.pos.map jOpt).toArray)])
      | .error e => pure (jsonOfErr e)
  | "txn" =>
      -- the connection flags around the statements of one flush (mode "flush": SessionCache.flush; "exec": Entity.flush(obj))
      let inTxn ← argBool j "inTxn"
      let immediate ← argBool j "immediate"
      let ws ← listOf writeOf (← j.getObjVal? "writes")
      let mode ← argStr j "mode"
      let c : Conn := { inTxn, immediate, committed := [], pending := [] }
      let c' := if mode == "flush" then flushConn true c ws else execAll c ws
      pure (Json.mkObj [("inTxn", .bool c'.inTxn), ("immediate", .bool c'.immediate), ("begin", .bool (!c.inTxn && c'.inTxn)),
                        ("autocommitted", jNat c'.committed.length), ("pending", jNat c'.pending.length)])
  | "accepts" =>
      -- run a statement list against the immediate-FK database model
      let refs ← listOf (listOf refOf) (← j.getObjVal? "refs")
      let rows ← listOf natOf (← j.getObjVal? "rows")
      let ws ← listOf writeOf (← j.getObjVal? "writes")
      pure (Json.mkObj [("accepted", .bool (applyWrites refs rows ws).isSome)])
  | _ => throw s!"unknown op {op}"
end PonyVerif.Drive.C16
