import PonyVerif.Drive.Util
import PonyVerif.Model.SaveOrder
import PonyVerif.Model.DeleteQueue
namespace PonyVerif.Drive.C16
open Lean PonyVerif.Drive PonyVerif.Model.SaveOrder

def statusOfStr : String → Except String Status
  | "created" => pure .created
  | "modified" => pure .modified
  | "marked_to_delete" => pure .markedToDelete
  | "inserted" => pure .inserted
  | "updated" => pure .updated
  | "deleted" => pure .deleted
  | "loaded" | "cancelled" | "none" => pure .other
  | s => throw s!"unknown status {s}"

def natOf (j : Json) : Except String Nat := fromJson? j

def refOf (j : Json) : Except String Ref := do
  match j with
  | .arr #[t, d] => pure { target := ← natOf t, dirty := ← fromJson? d }
  | _ => throw "ref: [target, dirty] expected"

def pairOf (j : Json) : Except String (Nat × Nat) := do
  match j with
  | .arr #[a, b] => pure (← natOf a, ← natOf b)
  | _ => throw "pair expected"

def listOf (f : Json → Except String α) (j : Json) : Except String (List α) := do
  match j with
  | .arr a => a.toList.mapM f
  | _ => throw "array expected"

def optNat (j : Json) : Except String (Option Nat) :=
  match j with
  | .null => pure none
  | j => do pure (some (← natOf j))

def jNat (n : Nat) : Json := .num (JsonNumber.fromNat n)

def jsonOfWrite : Write → Json
  | .insert x => .arr #["insert", jNat x]
  | .update x => .arr #["update", jNat x]
  | .delete x => .arr #["delete", jNat x]
  | .unlink a b => .arr #["unlink", jNat a, jNat b]
  | .link a b => .arr #["link", jNat a, jNat b]

def writeOf (j : Json) : Except String Write := do
  match j with
  | .arr #[.str "insert", x] => pure (.insert (← natOf x))
  | .arr #[.str "update", x] => pure (.update (← natOf x))
  | .arr #[.str "delete", x] => pure (.delete (← natOf x))
  | .arr #[.str "unlink", a, b] => pure (.unlink (← natOf a) (← natOf b))
  | .arr #[.str "link", a, b] => pure (.link (← natOf a) (← natOf b))
  | _ => throw "write expected"

def jsonOfErr : Err → Json
  | .cycle c => Json.mkObj [("error", "UnresolvableCyclicDependency"), ("chain", .arr (c.map jNat).toArray)]
  | .badStatus x => Json.mkObj [("error", "AssertionError"), ("obj", jNat x)]
  | .outOfFuel => Json.mkObj [("error", "outOfFuel")]

/-! JSON for the delete-queue model (same wire format as the C15 driver: schema sides, objects with refs / colls) -/
section DelQ
open PonyVerif.Model.Cascade PonyVerif.Model.DeleteQueue

def sideOfJson (j : Json) : Except String Side := do
  pure { ent := ← j.getObjValAs? Nat "ent", isColl := ← j.getObjValAs? Bool "coll",
         required := ← j.getObjValAs? Bool "req", cascade := ← j.getObjValAs? Bool "casc",
         hasCol := ← j.getObjValAs? Bool "col" }

def relOfJson (j : Json) : Except String RelDecl := do
  pure { a := ← sideOfJson (← j.getObjVal? "a"), b := ← sideOfJson (← j.getObjVal? "b"), sym := false }

def attrOfJson (rel sd : Json) : Except String Attr := do
  pure { rel := ← fromJson? rel, side := ← fromJson? sd }

structure ObjJ where
  ent : Nat
  alive : Bool
  refs : List (Attr × Option Nat)
  colls : List (Attr × List Nat)

def objOfJson (j : Json) : Except String ObjJ := do
  let refs ← (← argArr j "refs").mapM fun r => do
    match r with
    | .arr #[rel, sd, v] => pure (← attrOfJson rel sd, ← optNat v)
    | _ => throw "refs: [rel, side, v] expected"
  let colls ← (← argArr j "colls").mapM fun r => do
    match r with
    | .arr #[rel, sd, l] => pure (← attrOfJson rel sd, ← listOf natOf l)
    | _ => throw "colls: [rel, side, [ids]] expected"
  pure { ent := ← j.getObjValAs? Nat "ent", alive := ← j.getObjValAs? Bool "alive", refs, colls }

def storeOf (objs : List ObjJ) : Store :=
  let arr := objs.toArray
  { n := arr.size
    ent := fun o => match arr[o]? with | some x => x.ent | none => 0
    alive := fun o => match arr[o]? with | some x => x.alive | none => false
    ref := fun o a => match arr[o]? with
      | some x => match x.refs.find? (fun p => p.1 == a) with
        | some (_, v) => v
        | none => none
      | none => none
    mem := fun o a q => match arr[o]? with
      | some x => match x.colls.find? (fun p => p.1 == a) with
        | some (_, l) => l.contains q
        | none => false
      | none => false }

def errNameD : PonyVerif.Model.Cascade.Err → String
  | .constraintError => "ConstraintError" | .recursionError => "RecursionError" | .assertionError => "AssertionError"
  | .objectDeleted => "OperationWithDeletedObjectError" | .valueError => "ValueError"
  | .noSuchAttr => "noSuchAttr" | .noSuchObject => "noSuchObject"

/-- {"op":"delq","schema":[..],"classes":[[[rel,side],..] per entity],"objs":[..],"deletes":[id,..]}
    -> {"order":[ids in death order],"errs":[null|name per delete],"alive":[bool per object],
        "pony_ddl_accepts":bool,"strict_accepts":bool}  (DELETEs in death order against the committed image of objs) -/
def handleDelQ (j : Json) : Except String Json := do
  let sch : Schema ← (← argArr j "schema").mapM relOfJson
  let classes ← (← argArr j "classes").mapM (fun c => do
    (← listOf pure c).mapM (fun a => match a with
      | .arr #[rel, sd] => attrOfJson rel sd
      | _ => throw "classes: [rel, side] expected"))
  let carr := classes.toArray
  let ct : ClassTable := fun e => match carr[e]? with | some l => l | none => []
  let objs ← (← argArr j "objs").mapM objOfJson
  let dels ← listOf natOf (← j.getObjVal? "deletes")
  let s := storeOf objs
  let (q, errs) := deleteAllQ sch ct false dels ⟨s, []⟩
  let db := commit sch s
  pure (Json.mkObj [("order", .arr (q.order.map jNat).toArray),
                    ("errs", .arr (errs.map (fun e => match e with | none => Json.null | some e => Json.str (errNameD e))).toArray),
                    ("alive", .arr ((List.range s.n).map (fun o => Json.bool (q.store.alive o))).toArray),
                    ("pony_ddl_accepts", .bool (execDeletes sch db q.order).isSome),
                    ("strict_accepts", .bool (execDeletesStrict sch db q.order).isSome)])
end DelQ

def handle (j : Json) : Except String Json := do
  let op ← argStr j "op"
  match op with
  | "flush" =>
      let status ← listOf (fun s => do statusOfStr (← fromJson? s)) (← j.getObjVal? "status")
      let refs ← listOf (listOf refOf) (← j.getObjVal? "refs")
      let queue ← listOf optNat (← j.getObjVal? "queue")
      let removed ← listOf pairOf (← j.getObjVal? "removed")
      let added ← listOf pairOf (← j.getObjVal? "added")
      match flush { status, refs, queue, removed, added } with
      | .ok ws => pure (Json.mkObj [("ok", .arr (ws.map jsonOfWrite).toArray)])
      | .error e => pure (jsonOfErr e)
  | "slots" =>
      -- the same flush with the real queue bookkeeping (slots / _save_pos_); `top` = Entity.flush(obj)
      let status ← listOf (fun s => do statusOfStr (← fromJson? s)) (← j.getObjVal? "status")
      let refs ← listOf (listOf refOf) (← j.getObjVal? "refs")
      let queue ← listOf optNat (← j.getObjVal? "queue")
      let pos ← listOf optNat (← j.getObjVal? "pos")
      let removed ← listOf pairOf (← j.getObjVal? "removed")
      let added ← listOf pairOf (← j.getObjVal? "added")
      let top ← optNat ((j.getObjVal? "top").toOption.getD .null)
      let s0 : St := { status, out := removed.map (fun p => Write.unlink p.1 p.2) }
      let qs : Slots := { queue, pos }
      let r := match top with
        | some x => saveTopS refs (fuelFor status) x (s0, qs)
        | none => loopS refs (fuelFor status) queue.length 0 (s0, qs)
      let jOpt (o : Option Nat) : Json := match o with | none => .null | some n => jNat n
      match r with
      | .ok (s, qs') => pure (Json.mkObj [("ok", .arr ((s.out ++ added.map (fun p => Write.link p.1 p.2)).map jsonOfWrite).toArray),
                                          ("queue", .arr (qs'.queue.map jOpt).toArray), ("pos", .arr (qs'.pos.map jOpt).toArray)])
      | .error e => pure (jsonOfErr e)
  | "txn" =>
      -- the connection flags around the statements of one flush (mode "flush": SessionCache.flush; "exec": Entity.flush(obj))
      let inTxn ← argBool j "inTxn"
      let immediate ← argBool j "immediate"
      let ws ← listOf writeOf (← j.getObjVal? "writes")
      let mode ← argStr j "mode"
      let c : Conn := { inTxn, immediate, committed := [], pending := [] }
      let c' := if mode == "flush" then flushConn true c ws else execAll c ws
      pure (Json.mkObj [("inTxn", .bool c'.inTxn), ("immediate", .bool c'.immediate), ("begin", .bool (!c.inTxn && c'.inTxn)),
                        ("autocommitted", jNat c'.committed.length), ("pending", jNat c'.pending.length)])
  | "delq" => handleDelQ j
  | "accepts" =>
      -- run a statement list against the immediate-FK database model
      let refs ← listOf (listOf refOf) (← j.getObjVal? "refs")
      let rows ← listOf natOf (← j.getObjVal? "rows")
      let ws ← listOf writeOf (← j.getObjVal? "writes")
      pure (Json.mkObj [("accepted", .bool (applyWrites refs rows ws).isSome)])
  | _ => throw s!"unknown op {op}"
end PonyVerif.Drive.C16
