import PonyVerif.Drive.Util
import PonyVerif.Drive.C09
import PonyVerif.Drive.C10Key
import PonyVerif.Model.SetCount
/-
  Line-protocol entry for the SetData bookkeeping model (C10, `count ± added ∓ removed`).
  request : {"op":"run","cfg":{"m2m":b,"owning":b,"fixRemove":b,"fixFlush":b},"db":[ids],
             "ops":[{"k":"seen"|"revAdd"|"revRemove"|"add"|"remove"|"contains"|"containsRev","x":id} | {"k":"loadAll"|"count"|"flush"|"nonzero"|"select"} | {"k":"isEmpty","probe":id|null}]}
            a request with "model":"key" is the request of Drive/C10Key (Model/KeyLookup.lean);
            a request with "model":"session" is the request of Drive/C09 (the session model shared with C09) and is forwarded
  reply   : {"steps":[{"err":null|"assertion"|"phantom","ret":int|null,"valid":b,"safe":b,
                       "sd":{"items":[..],"fully":b,"count":int|null,"added":[..],"removed":[..],"absent":[..]},"db":[..],"spec":[..]}]}
            after an error the state stays and the remaining steps repeat it
-/
namespace PonyVerif.Drive.C10
open Lean PonyVerif.Drive PonyVerif.Model.SetCount

def opOfJson (j : Json) : Except String Op := do
  let k ← argStr j "k"
  match k with
  | "seen" => pure (.seen (← argNat j "x"))
  | "revAdd" => pure (.revAdd (← argNat j "x"))
  | "revRemove" => pure (.revRemove (← argNat j "x"))
  | "add" => pure (.add (← argNat j "x"))
  | "remove" => pure (.remove (← argNat j "x"))
  | "contains" => pure (.contains (← argNat j "x"))
  | "containsRev" => pure (.containsRev (← argNat j "x"))
  | "isEmpty" => pure (.isEmpty ((← argOptInt j "probe").map Int.toNat))
  | "nonzero" => pure .nonzero
  | "select" => pure .select
  | "loadAll" => pure .loadAll
  | "count" => pure .count
  | "flush" => pure .flush
  | _ => throw s!"unknown op kind {k}"

def jSd (sd : SetData) : Json := Json.mkObj [
  ("items", toJson sd.items), ("fully", toJson sd.fully), ("count", jOptInt sd.count),
  ("added", toJson sd.added), ("removed", toJson sd.removed), ("absent", toJson sd.absent), ("dirty", toJson sd.dirty)]

def handle (j : Json) : Except String Json := do
  if (j.getObjValAs? String "model").toOption == some "session" then PonyVerif.Drive.C09.handle j else
  if (j.getObjValAs? String "model").toOption == some "key" then PonyVerif.Drive.C10Key.handle j else
  let op ← argStr j "op"
  match op with
  | "run" =>
      let cj ← j.getObjVal? "cfg"
      let cfg : Cfg := { m2m := ← argBool cj "m2m", owning := ← argBool cj "owning",
                         fixRemove := ← argBool cj "fixRemove", fixFlush := ← argBool cj "fixFlush" }
      let db ← (← argArr j "db").mapM fun x => (fromJson? x : Except String Nat)
      let ops ← (← argArr j "ops").mapM opOfJson
      let (_, outs) := ops.foldl (fun (acc : (Coll × List Item) × List Json) op =>
        let (c, l) := acc.1
        let valid := decide (OpValid c l op)
        let safe := decide (OpSafe cfg op)
        match step cfg c op with
        | .error e =>
          (acc.1, Json.mkObj [("err", .str (match e with | .assertion => "assertion" | .phantom => "phantom")), ("ret", Json.null),
                              ("valid", toJson valid), ("safe", toJson safe), ("sd", jSd c.sd), ("db", toJson c.db), ("spec", toJson l)] :: acc.2)
        | .ok (c', r) =>
          let l' := specStep l op
          ((c', l'), Json.mkObj [("err", Json.null), ("ret", jOptInt r), ("valid", toJson valid), ("safe", toJson safe),
                                 ("sd", jSd c'.sd), ("db", toJson c'.db), ("spec", toJson l')] :: acc.2))
        (((⟨SetData.new, db⟩ : Coll), db), [])
      pure (Json.mkObj [("steps", .arr outs.reverse.toArray)])
  | _ => throw s!"unknown op {op}"
end PonyVerif.Drive.C10
