import PonyVerif.Drive.Util
import PonyVerif.Gen.Micro
import PonyVerif.Model.Store
namespace PonyVerif.Drive.C07
open Lean PonyVerif.Py PonyVerif.Drive PonyVerif.Model.Store

def jNat (n : Nat) : Json := .num (JsonNumber.fromNat n)
def jInt (i : Int) : Json := .num (JsonNumber.fromInt i)
def cpJson (s : List Char) : Json := .arr (s.map (fun c => jNat c.toNat)).toArray

def jsonOfSql : Sql → Json
  | .null => .null
  | .int i => Json.mkObj [("i", jInt i)]
  | .text s => Json.mkObj [("t", cpJson s)]       -- code points (raw U+2028 … would break the line protocol)
  | .blob b => Json.mkObj [("b", .arr (b.map jNat).toArray)]

def natList (j : Json) : Except String (List Nat) := do
  match j with
  | .arr a => a.toList.mapM (fun x => fromJson? x)
  | _ => throw "array of naturals expected"

def sqlOfJson (j : Json) : Except String Sql :=
  match j with
  | .null => pure .null
  | _ =>
    match j.getObjVal? "i" with
    | .ok v => do pure (.int (← fromJson? v))
    | .error _ => match j.getObjVal? "t" with
      | .ok v => do
        let cps ← natList v
        pure (.text (cps.map Char.ofNat))
      | .error _ => do
        let b ← natList (← j.getObjVal? "b")
        pure (.blob b)

def jsonOfLoaded (f : α → Json) : Loaded α → Json
  | .val a => Json.mkObj [("val", f a)]
  | .raw s => Json.mkObj [("raw", jsonOfSql s)]

def jDate (d : Date) : Json := .arr #[jNat d.y, jNat d.m, jNat d.d]
def jTime (t : Time) : Json := .arr #[jNat t.h, jNat t.mi, jNat t.s, jNat t.us]
def jDateTime (x : DateTime) : Json := .arr #[jNat x.date.y, jNat x.date.m, jNat x.date.d, jNat x.time.h, jNat x.time.mi, jNat x.time.s, jNat x.time.us]
def jDec (x : Dec) : Json := Json.mkObj [("neg", .bool x.neg), ("coeff", jNat x.coeff), ("exp", jInt x.exp)]

def reply (validated : Json) (sql : Option Sql) (loaded : Json) : Json :=
  Json.mkObj [("validated", validated), ("sql", match sql with | some s => jsonOfSql s | none => Json.mkObj [("error", "OverflowError")]), ("loaded", loaded)]

def handle (j : Json) : Except String Json := do
  let op ← argStr j "op"
  match op with
  | "round" =>
    let us ← argPy j "us"
    let p ← argPy j "prec"
    pure (jsonOfPyM (PonyVerif.Gen.roundMicroseconds us p))
  | "roundT" =>
    let us ← argNat j "us"
    let p ← argNat j "prec"
    pure (Json.mkObj [("ok", jOptNat (roundMicrosT us p))])
  | "store" =>
    let ty ← argStr j "type"
    let v ← j.getObjVal? "value"
    match ty with
    | "bool" =>
      let b : Bool ← fromJson? v
      pure (reply (.bool b) (some (boolToSql b)) (jsonOfLoaded Json.bool (boolFromSql (boolToSql b))))
    | "int" =>
      let i : Int ← fromJson? v
      match intToSql i with
      | some s => pure (reply (jInt i) (some s) (jsonOfLoaded jInt (intFromSql s)))
      | none => pure (reply (jInt i) none .null)
    | "str" =>
      let cps ← natList v
      let s := cps.map Char.ofNat
      pure (reply (cpJson s) (some (strToSql s)) (jsonOfLoaded cpJson (strFromSql (strToSql s))))
    | "bytes" =>
      let b ← natList v
      pure (reply (.arr (b.map jNat).toArray) (some (bytesToSql b)) (jsonOfLoaded (fun b => .arr (b.map jNat).toArray) (bytesFromSql (bytesToSql b))))
    | "uuid" =>
      let u : Nat ← fromJson? v
      pure (reply (jNat u) (some (uuidToSql u)) (jsonOfLoaded jNat (uuidFromSql (uuidToSql u))))
    | "date" =>
      match ← natList v with
      | [y, m, d] =>
        let x : Date := ⟨y, m, d⟩
        pure (reply (jDate x) (some (dateToSql x)) (jsonOfLoaded jDate (dateFromSql (dateToSql x))))
      | _ => throw "date: [y,m,d]"
    | "time" =>
      let p ← argNat j "precision"
      match ← natList v with
      | [h, mi, s, us] =>
        let t := timeValidate p ⟨h, mi, s, us⟩
        pure (reply (jTime t) (some (timeToSql t)) (jsonOfLoaded jTime (timeFromSql (timeToSql t))))
      | _ => throw "time: [h,mi,s,us]"
    | "datetime" =>
      let p ← argNat j "precision"
      match ← natList v with
      | [y, m, d, h, mi, s, us] =>
        let x := datetimeValidate p ⟨⟨y, m, d⟩, ⟨h, mi, s, us⟩⟩
        pure (reply (jDateTime x) (some (datetimeToSql x)) (jsonOfLoaded jDateTime (datetimeFromSql (datetimeToSql x))))
      | _ => throw "datetime: [y,m,d,h,mi,s,us]"
    | "decimal" =>
      let sc ← argNat j "scale"
      let x : Dec := ⟨← v.getObjValAs? Bool "neg", ← v.getObjValAs? Nat "coeff", ← v.getObjValAs? Int "exp"⟩
      -- validate keeps x; py2sql writes quantize x; sql2py quantizes what it reads again
      pure (Json.mkObj [("validated", jDec x), ("stored", jDec (quantize sc x)), ("loaded", jDec (quantize sc (quantize sc x)))])
    | _ => throw s!"store: unknown type {ty}"
  | "intarray" =>
    let items : List Int ← (do
      match ← j.getObjVal? "items" with
      | .arr a => a.toList.mapM (fun x => fromJson? x)
      | _ => throw "items: array")
    let txt := dumpsIntArray items
    pure (Json.mkObj [("text", cpJson txt), ("loaded", match loadsIntArray txt with | some l => .arr (l.map jInt).toArray | none => .null)])
  | "strarray" =>
    let items : List (List Char) ← (do
      match ← j.getObjVal? "items" with
      | .arr a => a.toList.mapM (fun x => do pure ((← natList x).map Char.ofNat))
      | _ => throw "items: array")
    let txt := dumpsStrArray items
    pure (Json.mkObj [("text", cpJson txt), ("loaded", match loadsStrArray txt with | some l => .arr (l.map cpJson).toArray | none => .null)])
  | "const" =>
    let ty ← argStr j "type"
    match ty, ← natList (← j.getObjVal? "value") with
    | "date", [y, m, d] => pure (Json.mkObj [("text", cpJson (constDateText ⟨y, m, d⟩))])
    | "time", [h, mi, s, us] => pure (Json.mkObj [("text", cpJson (constTimeText ⟨h, mi, s, us⟩))])
    | "datetime", [y, m, d, h, mi, s, us] => pure (Json.mkObj [("text", cpJson (constDatetimeText ⟨⟨y, m, d⟩, ⟨h, mi, s, us⟩⟩))])
    | _, _ => throw "const: date/time/datetime with its fields"
  | "affinity" =>
    let decl ← argStr j "decl"
    let cps ← natList (← j.getObjVal? "s")
    let a := affinityOf decl.toList
    let name := match a with | .integer => "integer" | .text => "text" | .blob => "blob" | .real => "real" | .numeric => "numeric"
    pure (Json.mkObj [("aff", .str name), ("stays_text", .bool (textStaysText a (cps.map Char.ofNat)))])
  | "td2str" =>
    let t : TDelta := ⟨← argInt j "days", ← argNat j "seconds", ← argNat j "us"⟩
    let txt := timedelta2str t
    pure (Json.mkObj [("text", cpJson txt), ("back", match str2timedelta txt with | some v => jInt v | none => .null), ("micros", jInt t.micros)])
  | "str2td" =>
    let cps ← natList (← j.getObjVal? "s")
    pure (Json.mkObj [("ok", match str2timedelta (cps.map Char.ofNat) with | some v => jInt v | none => .null)])
  | "load" =>
    let ty ← argStr j "type"
    let s ← sqlOfJson (← j.getObjVal? "sql")
    match ty with
    | "bool" => pure (jsonOfLoaded Json.bool (boolFromSql s))
    | "int" => pure (jsonOfLoaded jInt (intFromSql s))
    | "str" => pure (jsonOfLoaded cpJson (strFromSql s))
    | "bytes" => pure (jsonOfLoaded (fun b => .arr (b.map jNat).toArray) (bytesFromSql s))
    | "uuid" => pure (jsonOfLoaded jNat (uuidFromSql s))
    | "date" => pure (jsonOfLoaded jDate (dateFromSql s))
    | "time" => pure (jsonOfLoaded jTime (timeFromSql s))
    | "datetime" => pure (jsonOfLoaded jDateTime (datetimeFromSql s))
    | _ => throw s!"load: unknown type {ty}"
  | _ => throw s!"unknown op {op}"
end PonyVerif.Drive.C07
