import PonyVerif.Drive.Util
import PonyVerif.Model.RowLock
/-
  line-protocol entry for the C35 model.
  request  {"op":"run", "n":N, "objs":[o..], "db":[[o,v]..], "cfg":[[immediate,checks]..] (per session id),
            "dom":[d..] (per session id), "sched":[[sid,["read",o] | ["lock",o] | ["update",o,v] | ["commit"] | ["commitMid"] | ["rollback"]]..]}
  reply    {"res":[["ok",v|null] | ["blocked"] | ["busy"] | ["OptimisticCheckError"] | ["UnrepeatableReadError"] | ["dead"] ..],
            "db":[[o,v]..], "lost":b, "broken":b, "sessions":[{"status":..,"inTxn":b}..], "trace":[per step: committed rows]}
  request  {"op":"clause", "dialect":"sqlite"|"postgres"|"mysql"|"oracle", "nowait":b, "skip":b}   reply {"clause": text}
-/
namespace PonyVerif.Drive.C35
open Lean PonyVerif.Drive PonyVerif.Model.RowLock

def jNat (n : Nat) : Json := .num (JsonNumber.fromNat n)
def jInt (n : Int) : Json := .num (JsonNumber.fromInt n)

def parseAct (j : Json) : Except String Act := do
  match j with
  | .arr #[.str "read", o] => pure (.read (← fromJson? o))
  | .arr #[.str "lock", o] => pure (.lockRead (← fromJson? o))
  | .arr #[.str "update", o, v] => pure (.update (← fromJson? o) (← fromJson? v))
  | .arr #[.str "commit"] => pure .commit
  | .arr #[.str "commitMid"] => pure .commitMid
  | .arr #[.str "rollback"] => pure .rollback
  | .arr #[.str "begin"] => pure .begin
  | .arr #[.str "refused"] => pure .refused
  | _ => throw s!"bad action {j.compress}"

def resJson : Res → Json
  | .ok none => .arr #[.str "ok", .null]
  | .ok (some v) => .arr #[.str "ok", jInt v]
  | .blocked => .arr #[.str "blocked"]
  | .busy => .arr #[.str "busy"]
  | .optimisticCheckError => .arr #[.str "OptimisticCheckError"]
  | .unrepeatableRead => .arr #[.str "UnrepeatableReadError"]
  | .dead => .arr #[.str "dead"]

def statusName : Status → String
  | .active => "active" | .committed => "committed" | .failed => "failed"

def dbJson (objs : List Nat) (db : Obj → Val) : Json :=
  .arr (objs.map (fun o => Json.arr #[jNat o, jInt (db o)])).toArray

def parseDialect (s : String) : Except String Dialect :=
  match s with
  | "sqlite" => pure .sqlite | "postgres" => pure .postgres | "mysql" => pure .mysql | "oracle" => pure .oracle
  | _ => throw s!"bad dialect {s}"

/-- run the schedule, keeping the committed rows after every step -/
def runTrace (n : Nat) (objs : List Nat) (σ : St) : List (Sid × Act) → List Json × List Json × St
  | [] => ([], [], σ)
  | (s, a) :: t =>
    let (σ', r) := step n σ s a
    let (rs, ds, σ'') := runTrace n objs σ' t
    (resJson r :: rs, dbJson objs σ'.db :: ds, σ'')

def handle (j : Json) : Except String Json := do
  let op ← argStr j "op"
  match op with
  | "run" =>
      let n ← argNat j "n"
      let objs ← (← argArr j "objs").mapM (fun x => (fromJson? x : Except String Nat))
      let rows ← (← argArr j "db").mapM (fun r => do
        match r with
        | .arr #[o, v] => pure ((← fromJson? o : Nat), (← fromJson? v : Int))
        | _ => throw "db: [o,v] expected")
      let cfgL ← (← argArr j "cfg").mapM (fun r => do
        match r with
        | .arr #[.bool i, .bool c] => pure (i, c)
        | _ => throw "cfg: [immediate,checks] expected")
      let domL ← (← argArr j "dom").mapM (fun x => (fromJson? x : Except String Nat))
      let sched ← (← argArr j "sched").mapM (fun r => do
        match r with
        | .arr #[s, a] => pure ((← fromJson? s : Nat), ← parseAct a)
        | _ => throw "sched: [sid, action] expected")
      let db : Obj → Val := fun o => ((rows.find? (fun p => p.1 == o)).map (·.2)).getD 0
      let σ0 := St.init db (fun s => cfgL.getD s (false, true)) (fun s => domL.getD s 0)
      let (rs, ds, σ) := runTrace n objs σ0 sched
      pure (Json.mkObj [
        ("res", .arr rs.toArray), ("trace", .arr ds.toArray), ("db", dbJson objs σ.db),
        ("lost", .bool σ.lost), ("broken", .bool σ.broken), ("unguarded", .bool σ.unguarded),
        ("sessions", .arr ((List.range cfgL.length).map (fun s =>
          Json.mkObj [("status", .str (statusName (σ.sess s).status)), ("inTxn", .bool (σ.sess s).inTxn)])).toArray)])
  | "clause" =>
      let d ← parseDialect (← argStr j "dialect")
      pure (Json.mkObj [("clause", .str (forUpdateClause d (← argBool j "nowait") (← argBool j "skip")))])
  | _ => throw s!"unknown op {op}"
end PonyVerif.Drive.C35
