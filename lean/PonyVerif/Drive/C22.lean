import PonyVerif.Drive.Util
import PonyVerif.Model.SharedCache
import PonyVerif.Model.SharedMemo
/-
  line-protocol entry for the C22 model: one request = pin table, one program of query requests per thread, the list of
  thread picks and the code variant (`old` = `del`, otherwise `pop`).  With `autoLocal` the thread-local comparison step
  that follows a `get` is run in the same pick (the real scheduler only switches at the dict operations).
  Reply: per pick the list of step outcomes, then the final cache and per thread the translators of its query objects.
-/
namespace PonyVerif.Drive.C22
open Lean PonyVerif.Drive PonyVerif.Model.SharedCache

def natList (j : Json) : Except String (List Nat) := do
  match j with
  | .arr a => a.toList.mapM (fun x => fromJson? x)
  | _ => throw "array of naturals expected"

def parseVal (j : Json) : Except String Val :=
  match j with
  | .null => pure none
  | v => do pure (some (← fromJson? v))

def parseKind (n : Nat) : Except String PinKind :=
  match n with
  | 0 => pure .sliceStart | 1 => pure .sliceStop | 2 => pure .attrName
  | _ => throw "pin kind 0..2"

def parseReq (j : Json) : Except String Req := do
  let key ← natList (← j.getObjVal? "key")
  let vars ← (← argArr j "vars").mapM (fun x => do
    match x with
    | .arr #[p, v] => pure ((← fromJson? p : Nat), (← parseVal v))
    | _ => throw "vars: [p, v] expected")
  let base ← match j.getObjVal? "base" with
    | .ok .null => pure none
    | .ok v => do pure (some (← fromJson? v : Nat))
    | .error _ => pure none
  pure ⟨key, vars, base, ← argBool j "cacheable", ← argBool j "funcStale"⟩

def jNat (n : Nat) : Json := .num (JsonNumber.fromNat n)
def jVal : Val → Json
  | none => .null
  | some i => .num (JsonNumber.fromInt i)
def jPinned (p : Pinned) : Json := .arr (p.map (fun x => Json.arr #[jNat x.1, jVal x.2])).toArray
def jTr (tr : Translator) : Json :=
  Json.mkObj [("key", .arr (tr.key.map jNat).toArray), ("pinned", jPinned tr.pinned), ("builder", jNat tr.builder)]

def errStr : Err → String
  | .keyError => "KeyError" | .assertionError => "AssertionError"
  | .translationKeyError => "TranslationKeyError" | .badBase => "BadBase"

def outJson : Out → Json
  | .none => "none" | .hit => "hit" | .miss => "miss" | .cmpSame => "same" | .cmpStale => "stale"
  | .cmpFuncStale => "funcStale" | .built => "built" | .popped true => "popped" | .popped false => "popped-missing"
  | .stored => "stored" | .error e => .str (errStr e)

def phaseStr : Phase → String
  | .idle => "idle" | .got _ => "got" | .needPop => "needPop" | .needStore _ => "needStore"

def isGot : Phase → Bool
  | .got _ => true
  | _ => false

/-- one pick: the dict operation and (autoLocal) the thread-local steps after it -/
def pick (cfg : Cfg) (old auto : Bool) (s : State) (t : Nat) : State × List Out :=
  let (s1, o1) := stepG cfg old s t
  if auto && isGot (s1.th t).phase then
    let (s2, o2) := stepG cfg old s1 t
    (s2, [o1, o2])
  else (s1, [o1])

def handle (j : Json) : Except String Json := do
  let op ← argStr j "op"
  match op with
  | "run" =>
    let old ← argBool j "old"
    let auto ← argBool j "autoLocal"
    let pinTab ← (← argArr j "pins").mapM (fun x => do
      match x with
      | .arr #[k, ps] => do
        let key ← natList k
        let pins ← match ps with
          | .arr a => a.toList.mapM (fun y => do
              match y with
              | .arr #[p, kd] => pure ((← fromJson? p : Nat), (← parseKind (← fromJson? kd)))
              | _ => throw "pin: [p, kind]")
          | _ => throw "pins array"
        pure (key, pins)
      | _ => throw "pins: [key, pins]")
    let cfg : Cfg := ⟨fun k => ((pinTab.find? (fun x => x.1 == k)).map (·.2)).getD []⟩
    let progs ← (← argArr j "progs").mapM (fun p => do
      match p with
      | .arr rs => rs.toList.mapM parseReq
      | _ => throw "progs: arrays expected")
    let sched ← natList (← j.getObjVal? "sched")
    let (sEnd, outs) := sched.foldl (fun (acc : State × List Json) t =>
      let (s', os) := pick cfg old auto acc.1 t
      (s', Json.mkObj [("t", jNat t), ("outs", .arr (os.map outJson).toArray),
                       ("phase", .str (phaseStr (s'.th t).phase))] :: acc.2)) (State.init progs, [])
    let threads := (List.range progs.length).map (fun t =>
      let th := sEnd.th t
      Json.mkObj [("used", .arr (th.used.map (fun x => jTr x.2)).toArray),
                  ("raised", .arr (th.raised.map (fun e => Json.str (errStr e))).toArray),
                  ("todo", jNat th.todo.length), ("phase", .str (phaseStr th.phase))])
    pure (Json.mkObj [("steps", .arr outs.reverse.toArray),
                      ("cache", .arr (sEnd.cache.map (fun x => jTr x.2)).toArray),
                      ("threads", .arr threads.toArray)])
  | "solo" =>
    -- specification value: pinned dict of a key under given vars, built from scratch
    let pinTab ← (← argArr j "pins").mapM (fun x => do
      match x with
      | .arr #[k, ps] => do
        let key ← natList k
        let pins ← match ps with
          | .arr a => a.toList.mapM (fun y => do
              match y with
              | .arr #[p, kd] => pure ((← fromJson? p : Nat), (← parseKind (← fromJson? kd)))
              | _ => throw "pin: [p, kind]")
          | _ => throw "pins array"
        pure (key, pins)
      | _ => throw "pins: [key, pins]")
    let cfg : Cfg := ⟨fun k => ((pinTab.find? (fun x => x.1 == k)).map (·.2)).getD []⟩
    let r ← parseReq j
    pure (match soloPins cfg r.key r.vars with
      | none => Json.mkObj [("solo", .null)]
      | some p => Json.mkObj [("solo", jPinned p)])
  | "memo" =>
    -- a plain memo cache (lookup key = store key, no re-check) under threads: per step the event
    let progs ← (← argArr j "progs").mapM natList
    let sched ← natList (← j.getObjVal? "sched")
    let m : PonyVerif.Model.Memo.Memo Nat Nat Nat := PonyVerif.Model.Memo.plain id id
    let r := PonyVerif.Model.SharedMemo.run m (PonyVerif.Model.SharedMemo.State.init progs) sched
    let evs := r.2.map (fun e => match e with
      | .none => "none" | .hit => "hit" | .miss => "miss" | .reject => "reject"
      | .popped _ => "popped" | .stored => "stored" | .filled => "filled")
    pure (Json.mkObj [("events", .arr (evs.map Json.str).toArray),
                      ("table", .arr (r.1.table.map (fun kv => jNat kv.1)).toArray)])
  | _ => throw s!"unknown op {op}"
end PonyVerif.Drive.C22
