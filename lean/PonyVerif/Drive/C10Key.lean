import PonyVerif.Drive.Util
import PonyVerif.Model.KeyLookup
/-
  Driver glue for Model/KeyLookup.lean (called from Drive/C10.lean for requests with "model":"key").
  request : {"op":"run","model":"key","ids":[..],"rows":[[id, kv],..],"ops":[{"k":"create"|"setKey","i":id,"kv":kv} | {"k":"delete"|"loadPk","i":id}
             | {"k":"getBy","v":[ints]} | {"k":"flush"|"newSession"}]}        kv = [ints] | null (a component is None)
  reply   : {"steps":[{"out":"ok"|"found:<id>"|"notFound"|"refused"|"error:<kind>","valid":b,"modified":b,
                       "objs":[[id,status,kv,written],..],"idx":[[kv,id],..],"rows":[[id,kv],..]}]}   (after an error the state stays)
-/
namespace PonyVerif.Drive.C10Key
open Lean PonyVerif.Drive PonyVerif.Model.KeyLookup

def kvOfJson (j : Json) : Except String (Option KV) := do
  match j with
  | .null => pure none
  | .arr a => pure (some (← a.toList.mapM fun x => (fromJson? x : Except String Int)))
  | _ => throw "kv: list of ints or null expected"

def jKv : Option KV → Json
  | none => .null
  | some v => toJson v

def opOfJson (j : Json) : Except String Op := do
  let k ← argStr j "k"
  match k with
  | "create" => pure (.create (← argNat j "i") (← kvOfJson (← j.getObjVal? "kv")))
  | "setKey" => pure (.setKey (← argNat j "i") (← kvOfJson (← j.getObjVal? "kv")))
  | "delete" => pure (.delete (← argNat j "i"))
  | "loadPk" => pure (.loadPk (← argNat j "i"))
  | "getBy" => match ← kvOfJson (← j.getObjVal? "v") with
      | some v => pure (.getBy v)
      | none => throw "getBy: key value expected"
  | "flush" => pure .flush
  | "newSession" => pure .newSession
  | _ => throw s!"unknown op kind {k}"

def stName : St → String
  | .created => "created" | .loaded => "loaded" | .modified => "modified" | .saved => "saved" | .marked => "marked_to_delete" | .gone => "gone"

def outName : Outcome → String
  | .ok => "ok" | .found i => s!"found:{i}" | .notFound => "notFound" | .refused => "refused"
  | .error (.pkClash _) => "error:pkClash" | .error .uniqueViolation => "error:uniqueViolation"
  | .error (.indexClash _) => "error:indexClash" | .error .multiple => "error:multiple"

def opKvs : Op → List KV
  | .create _ (some v) | .setKey _ (some v) | .getBy v => [v]
  | _ => []

def handle (j : Json) : Except String Json := do
  let ids ← (← argArr j "ids").mapM fun x => (fromJson? x : Except String Nat)
  let rowsL ← (← argArr j "rows").mapM fun r => do
    match r with
    | .arr #[i, kv] => pure ((← (fromJson? i : Except String Nat)), (← kvOfJson kv))
    | _ => throw "rows: [[id, kv], ..] expected"
  let ops ← (← argArr j "ops").mapM opOfJson
  let rows : Id → Option (Option KV) := fun i => (rowsL.find? (·.1 == i)).map (·.2)
  let kvs := ((rowsL.filterMap (·.2)) ++ ops.flatMap opKvs).eraseDups
  let (_, outs) := ops.foldl (fun (acc : (World × Bool) × List Json) op =>
    let (w, dead) := acc.1
    if dead then (acc.1, Json.mkObj [("out", "skipped")] :: acc.2) else
    let valid := decide (OpOk w op)
    let r := step w op
    let w' := r.1
    let isErr := match r.2 with | .error _ => true | _ => false
    ((w', isErr), Json.mkObj [("out", .str (outName r.2)), ("valid", toJson valid), ("modified", toJson w'.modified),
      ("objs", .arr (w'.ids.reverse.filterMap fun i => (w'.objs i).map fun o =>
          Json.arr #[toJson i, .str (stName o.st), jKv o.kv, toJson o.written]).toArray),
      ("idx", .arr (kvs.filterMap fun v => (w'.idx v).map fun i => Json.arr #[toJson v, toJson i]).toArray),
      ("rows", .arr (w'.ids.reverse.filterMap fun i => (w'.rows i).map fun kv => Json.arr #[toJson i, jKv kv]).toArray)]
      :: acc.2)) ((World.init ids rows, false), [])
  pure (Json.mkObj [("steps", .arr outs.reverse.toArray)])
end PonyVerif.Drive.C10Key
