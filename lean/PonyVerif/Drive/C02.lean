/-
  Driver entry for C02: SQL text of an AST per dialect (`render`), and the shared ops of engine Q (translate / evalsql / py) for
  the PostgreSQL and MySQL dialects (delegated to Drive/C01).
-/
import PonyVerif.Drive.C01
import PonyVerif.Model.SqlRender
import PonyVerif.Drive.C25
import PonyVerif.Model.TupleCmp
import PonyVerif.Model.QTemporal
import PonyVerif.Model.QWindow
namespace PonyVerif.Drive.C02
open Lean PonyVerif.Drive PonyVerif.Model.Q


def optNat : Json → Except String (Option Nat)
  | .null => pure none
  | .num n => if n.exponent == 0 && n.mantissa ≥ 0 then pure (some n.mantissa.toNat) else throw "natural number expected"
  | _ => throw "natural number or null expected"

def optInt : Json → Except String (Option Int)
  | .null => pure none
  | .num n => if n.exponent == 0 then pure (some n.mantissa) else throw "integer expected"
  | _ => throw "integer or null expected"

def jOptNat : Option Nat → Json
  | none => .null
  | some n => .num (JsonNumber.fromNat n)

def jOptInt : Option Int → Json
  | none => .null
  | some n => .num (JsonNumber.fromInt n)

def clauseToJson : Clause → Json
  | .absent => Json.mkObj [("kind", .str "absent")]
  | .limit l o => Json.mkObj [("kind", .str "limit"), ("lim", jOptInt l), ("off", jOptNat o)]
  | .rownum l g => Json.mkObj [("kind", .str "rownum"), ("le", jOptNat l), ("gt", jOptNat g)]

def clauseOfJson (j : Json) : Except String Clause := do
  match (← argStr j "kind") with
  | "absent" => pure .absent
  | "limit" => pure (.limit (← optInt (j.getObjValD "lim")) (← optNat (j.getObjValD "off")))
  | "rownum" => pure (.rownum (← optNat (j.getObjValD "le")) (← optNat (j.getObjValD "gt")))
  | k => throw s!"clause kind {k}"

def handle (j : Json) : Except String Json := do
  let op ← argStr j "op"
  match op with
  | "render" =>
      let ds ← argStr j "dialect"
      match RDialect.ofString? ds with
      | none => throw s!"dialect {ds}"
      | some d =>
        let asts ← argArr j "sql"
        let outs := asts.map (fun a => match PonyVerif.Drive.C01.sqlOfJson a with
          | .ok s => Json.mkObj [("ok", .str (renderText d s))]
          | .error e => Json.mkObj [("unsupported", .str e)])
        pure (Json.mkObj [("ok", .arr outs.toArray)])
  | "window" =>
      -- LIMIT / OFFSET of composed windows: the model's clause for the dialect, the meaning of the REAL clause on that backend
      -- (null = the backend rejects it) and the Python reading, on R = [1..n]  (C02_window_dialects)
      let ds ← argStr j "dialect"
      match WDialect.ofString? ds with
      | none => throw s!"dialect {ds}"
      | some d =>
        let ws ← (← argArr j "levels").mapM (fun x => match x with
          | .arr #[l, o] => do pure ((← optNat l), (← optNat o))
          | _ => throw "level")
        let n ← (match j.getObjValD "n" with | .num k => pure k.mantissa.toNat | _ => throw "n")
        let R := (List.range n).map (· + 1)
        let real ← clauseOfJson (j.getObjValD "clause")
        let lo := combineAll ws
        let jl : List Nat → Json := fun xs => .arr (xs.map (fun x => Json.num (JsonNumber.fromNat x))).toArray
        pure (Json.mkObj [("combined", .arr #[jOptNat lo.1, jOptNat lo.2]), ("model_clause", clauseToJson (limitClause d lo)),
          ("real_meaning", match clauseWindow d real R with | some xs => jl xs | none => .null),
          ("expected", jl (windowAll ws R))])
  | "temporaltext" =>
      -- SQLite: model text of the inline literal (C06's temporalStr) and of the bound parameter, for a value given by its fields
      let kind ← argStr j "kind"
      let f ← (← argArr j "f").mapM (fun x => match x with
        | .num n => pure n.mantissa.toNat
        | _ => throw "field")
      let v ← (match kind, f with
        | "date", [y, m, dd] => pure (PonyVerif.Model.SqlText.TVal.date ⟨y, m, dd⟩)
        | "time", [h, mi, sec, us] => pure (PonyVerif.Model.SqlText.TVal.time ⟨h, mi, sec, us⟩)
        | "datetime", [y, m, dd, h, mi, sec, us] => pure (PonyVerif.Model.SqlText.TVal.datetime ⟨y, m, dd⟩ ⟨h, mi, sec, us⟩)
        | _, _ => throw "temporaltext: kind/fields")
      let js : Option (List Char) → Json := fun o => match o with | some t => .str (String.ofList t) | none => .null
      pure (Json.mkObj [("literal", js (PonyVerif.Model.SqlText.temporalStr .sqlite .qmark v)), ("param", js (sqliteParamText v))])
  | "checktuple" =>
      -- the real SQLite AST of `(a1,…,an) OP (b1,…,bn)` against the verified expansion (C02_tuple_checker_sound)
      let opn ← argStr j "cmp"
      let op ← (match opn with
        | "<" => pure CmpOp.lt | "<=" => pure CmpOp.le | ">" => pure CmpOp.gt | ">=" => pure CmpOp.ge
        | o => throw s!"operator {o}")
      let ls ← (← argArr j "left").mapM PonyVerif.Drive.C01.sqlOfJson
      let rs ← (← argArr j "right").mapM PonyVerif.Drive.C01.sqlOfJson
      let real ← PonyVerif.Drive.C01.sqlOfJson (← j.getObjVal? "ast")
      pure (Json.mkObj [("accepted", .bool (ls.length == rs.length && ls.length ≥ 2 && Sql.beq (expandTuple op (ls.zip rs)) real))])
  | "streval" =>
      -- the C25 dialect evaluator for string index / slice ASTs (Model/SqlStr.lean), reached through this property's driver entry
      PonyVerif.Drive.C25.handle (j.setObjVal! "op" (Json.str "eval"))
  | _ => PonyVerif.Drive.C01.handle j
end PonyVerif.Drive.C02
