import PonyVerif.Drive.Util
import PonyVerif.Model.Perm
namespace PonyVerif.Drive.C34
open Lean PonyVerif.Drive PonyVerif.Model.Perm

def natList (j : Json) : Except String (List Nat) := do
  match j with
  | .arr a => a.toList.mapM (fun x => fromJson? x)
  | _ => throw "array of naturals expected"

def strList (j : Json) : Except String (List String) := do
  match j with
  | .arr a => a.toList.mapM (fun x => fromJson? x)
  | _ => throw "array of strings expected"

def field (j : Json) (k : String) : Except String Json := j.getObjVal? k

def objOf (j : Json) : Except String Obj := do
  match ← natList j with
  | [e, k] => pure { entity := e, key := k }
  | _ => throw "object = [entity, key]"

def optField (j : Json) (k : String) : Option Json :=
  match j.getObjVal? k with
  | .ok .null => none
  | .ok v => some v
  | .error _ => none

def attrOf (j : Json) : Except String AttrRef := do
  let id ← j.getObjValAs? Nat "id"
  let e ← j.getObjValAs? Nat "entity"
  let h ← j.getObjValAs? Bool "hidden"
  let pk ← j.getObjValAs? Bool "pk"
  let rev ← match optField j "reverse" with
    | none => pure none
    | some v => do
      match ← natList v with
      | [ra, re] => pure (some (ra, re))
      | _ => throw "reverse = [attr id, entity]"
  pure { id := id, entity := e, hidden := h, pk := pk, reverse := rev }

/-- the raw answers of the registered getters, in registration order: `[{"applies": bool, "answer": "name" | [names] | null}]` -/
def gettersOf (j : Json) : Except String (List (Bool × Answer)) := do
  match j with
  | .arr gs => gs.toList.mapM (fun gj => do
      let applies ← gj.getObjValAs? Bool "applies"
      let a ← match gj.getObjVal? "answer" with
        | .ok (.str s) => pure (Answer.single s)
        | .ok (.arr l) => do pure (Answer.many (← l.toList.mapM (fun x => fromJson? x)))
        | _ => pure Answer.nothing
      pure (applies, a))
  | _ => throw "getters: array expected"

/-- a list of names, or `{"getters": [...]}` -/
def namesOrGetters (j : Json) : Except String (List String) := do
  match optField j "getters" with
  | some gs => do pure (foldGetters (← gettersOf gs))
  | none => strList j

structure World where
  sub : Nat → List Nat
  attrs : List AttrRef
  env : Env
  ruleErrors : List Json

def findAttr (attrs : List AttrRef) (id : Nat) : Except String AttrRef :=
  match attrs.find? (fun a => a.id == id) with
  | some a => pure a
  | none => throw s!"unknown attribute {id}"

def targetOf (attrs : List AttrRef) (j : Json) : Except String Target := do
  match optField j "e", optField j "a", optField j "o" with
  | some e, _, _ => pure (.entity (← fromJson? e))
  | _, some a, _ => pure (.attr (← findAttr attrs (← fromJson? a)))
  | _, _, some o => pure (.obj (← objOf o))
  | _, _, _ => throw "target expected"

def userOf (j : Json) : Except String User :=
  match j with
  | .null => pure none
  | v => do pure (some (← fromJson? v))

/-- one declaration: `with db.set_perms_for(*ents): r = perm(*perms, groups=…, roles=…, labels=…); r.exclude(*excl)` -/
def declOf (sub : Nat → List Nat) (attrs : List AttrRef) (j : Json) : Except String (Except String (Rule × Nat)) := do
  let ents ← natList (← field j "ents")
  let perms ← strList (← field j "perms")
  let groups ← strList (← field j "groups")
  let roles ← strList (← field j "roles")
  let labels ← strList (← field j "labels")
  let excl ← argArr j "excl"
  let args ← excl.mapM (fun x => do
    match optField x "e", optField x "a" with
    | some e, _ => pure (ExclArg.entity (← fromJson? e))
    | _, some a => pure (ExclArg.attr (← findAttr attrs (← fromJson? a)))
    | _, _ => throw "exclusion expected")
  let r0 := mkRule (setPermsFor sub ents) perms groups roles labels
  -- the engine calls `rule.exclude(arg)` once per argument; a TypeError (primary-key attribute) leaves the rule unchanged
  pure (match r0 with
    | .error e => .error e
    | .ok r => .ok (args.foldl (fun (acc : Rule × Nat) a =>
        match acc.1.exclude sub a with
        | .ok r' => (r', acc.2)
        | .error _ => (acc.1, acc.2 + 1)) (r, 0)))

def worldOf (j : Json) : Except String World := do
  let subJ ← argArr j "sub"
  let subL ← subJ.mapM (fun x => do
    match x with
    | .arr #[e, l] => pure ((← fromJson? e : Nat), (← natList l))
    | _ => throw "sub = [[e, [subclasses]]]")
  let sub : Nat → List Nat := fun e => (subL.lookup e).getD []
  let attrs ← (← argArr j "attrs").mapM attrOf
  let decls ← (← argArr j "decls").mapM (declOf sub attrs)
  let rules := decls.filterMap (fun d => match d with | .ok r => some r.1 | .error _ => none)
  let errs := decls.map (fun d => match d with | .ok r => toJson r.2 | .error e => Json.str e)
  let usersJ ← argArr j "users"
  let users ← usersJ.mapM (fun u => do
    let id ← u.getObjValAs? Nat "id"
    -- either the normalised list of names, or (preferred) the raw answers of all registered getters, in registration order
    let g ← match optField u "getters" with
      | none => strList (← field u "groups")
      | some gs => do pure (foldGetters (← gettersOf gs))
    let o ← match optField u "obj" with
      | none => pure none
      | some v => do pure (some (← objOf v))
    pure (id, g, o))
  let rolesJ ← argArr j "roles"
  let roles ← rolesJ.mapM (fun x => do
    match x with
    | .arr #[u, o, l] => pure (((← fromJson? u : Nat), (← objOf o)), (← namesOrGetters l))
    | _ => throw "roles = [[user, obj, [roles]]]")
  let labelsJ ← argArr j "labels"
  let labels ← labelsJ.mapM (fun x => do
    match x with
    | .arr #[o, l] => pure ((← objOf o), (← namesOrGetters l))
    | _ => throw "labels = [[obj, [labels]]]")
  let env : Env := {
    rules := rules
    groupsOf := fun u => ((users.find? (fun x => x.1 == u)).map (·.2.1)).getD []
    rolesOf := fun u o => (roles.lookup (u, o)).getD []
    labelsOf := fun o => (labels.lookup o).getD []
    userObj := fun u => ((users.find? (fun x => x.1 == u)).bind (·.2.2)) }
  pure { sub := sub, attrs := attrs, env := env, ruleErrors := errs }

def jErr : JErr → Json
  | .permission o => Json.mkObj [("error", "PermissionError"), ("obj", toJson [o.entity, o.key])]
  | .fuel => Json.mkObj [("error", "fuel")]

def jRule (r : Rule) : Json :=
  Json.mkObj [("entities", toJson r.entities), ("perms", toJson r.perms), ("groups", toJson r.groups),
    ("roles", toJson r.roles), ("labels", toJson r.labels), ("exclE", toJson r.exclE), ("exclA", toJson r.exclA)]

def handle (j : Json) : Except String Json := do
  let op ← argStr j "op"
  match op with
  | "world" =>
    let w ← worldOf j
    let callsJ ← argArr j "calls"
    let calls ← callsJ.mapM (fun x => do
      match x with
      | .arr #[u, p, t] => pure ((← userOf u), (← fromJson? p : String), (← targetOf w.attrs t))
      | _ => throw "call = [user, perm, target]")
    -- one session for all calls (the cache is threaded) and every call in a fresh session
    let warm := runCalls w.env [] calls
    let cold := calls.map (fun (u, p, x) => hasPerm w.env u p x)
    let can := calls.map (fun (u, _, x) =>
      toJson [canView w.env u x, canEdit w.env u x, canCreate w.env u x, canDelete w.env u x])
    let tjJ := (optField j "tojson").getD (.arr #[])
    let tjs ← match tjJ with
      | .arr a => a.toList.mapM (fun t => do
          let u ← userOf (← field t "user")
          let data ← (← argArr t "data").mapM objOf
          let relL ← (← argArr t "related").mapM (fun x => do
            match x with
            | .arr #[o, l] => do
              let os ← match l with
                | .arr a => a.toList.mapM objOf
                | _ => throw "related objects"
              pure ((← objOf o), os)
            | _ => throw "related = [[obj, [objs]]]")
          let related : Obj → List Obj := fun o => (relL.lookup o).getD []
          let fuel ← t.getObjValAs? Nat "fuel"
          pure (match toJsonObjects w.env u related fuel data with
            | .ok out => Json.mkObj [("ok", toJson (out.map (fun o => [o.entity, o.key])))]
            | .error e => jErr e))
      | _ => throw "tojson: array expected"
    let schemaJ := (optField j "schema").getD (.arr #[])
    let schemas ← match schemaJ with
      | .arr a => a.toList.mapM (fun t => do
          let u ← userOf (← field t "user")
          let ents ← natList (← field t "ents")
          let listedE := schemaEntities w.env u ents
          let listedA := w.attrs.filter (fun a =>
            listedE.contains a.entity &&
            schemaAttrListed w.env u a (a.reverse.bind (fun (ra, _) => w.attrs.find? (fun b => b.id == ra))))
          pure (Json.mkObj [("entities", toJson listedE), ("attrs", toJson (listedA.map (·.id)))]))
      | _ => throw "schema: array expected"
    pure (Json.mkObj [("ruleErrors", .arr w.ruleErrors.toArray), ("rules", .arr (w.env.rules.map jRule).toArray),
      ("warm", toJson warm), ("cold", toJson cold), ("can", .arr can.toArray),
      ("tojson", .arr tjs.toArray), ("schema", .arr schemas.toArray)])
  | "thread" =>
    -- a thread's life: db_sessions one after the other; every session carries its own world (memberships may differ)
    let sessions ← (← argArr j "sessions").mapM (fun sj => do
      let w ← worldOf sj
      let calls ← (← argArr sj "calls").mapM (fun x => do
        match x with
        | .arr #[u, p, t] => pure ((← userOf u), (← fromJson? p : String), (← targetOf w.attrs t))
        | _ => throw "call = [user, perm, target]")
      let k ← match ← argStr sj "exit" with
        | "commit" => pure ExitKind.commit
        | "rollback" => pure ExitKind.rollback
        | "commitFails" => pure ExitKind.commitFails
        | e => throw s!"unknown exit kind {e}"
      pure (w.env, calls, k))
    pure (Json.mkObj [("answers", toJson (runThread { groups := [], roles := [] } sessions))])
  | _ => throw s!"unknown op {op}"
end PonyVerif.Drive.C34
