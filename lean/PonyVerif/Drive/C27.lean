import PonyVerif.Drive.Util
import PonyVerif.Model.Inherit
import PonyVerif.Model.JoinDiscr
import PonyVerif.Model.SeedLoad
/-
  Line-protocol entry for the C27 model (trusted glue).  A hierarchy is sent as `bases` (list of lists of class numbers, definition
  order) and `discr` (one integer code per class; equal discriminator values get equal codes).
-/
namespace PonyVerif.Drive.C27
open Lean PonyVerif.Drive PonyVerif.Model.Inherit

def natList (j : Json) : Except String (List Nat) :=
  match j with
  | .arr a => a.toList.mapM (fun x => (fromJson? x : Except String Nat))
  | _ => throw "list of naturals expected"

def intList (j : Json) : Except String (List Int) :=
  match j with
  | .arr a => a.toList.mapM (fun x => (fromJson? x : Except String Int))
  | _ => throw "list of integers expected"

def getHier (j : Json) : Except String Hier := do
  let bs ← (← argArr j "bases").mapM natList
  let ds ← intList (← j.getObjVal? "discr")
  pure { n := bs.length, bases := fun i => bs.getD i [], discr := fun i => ds.getD i 0 }

def jNats (l : List Nat) : Json := .arr (l.map (fun i => Json.num (JsonNumber.fromNat i))).toArray
def jInts (l : List Int) : Json := .arr (l.map (fun i => Json.num (JsonNumber.fromInt i))).toArray
def jOptNat' : Option Nat → Json
  | none => .null
  | some i => .num (JsonNumber.fromNat i)

def condJson : Cond → Json
  | .true_ => .str "TRUE"
  | .false_ => .str "FALSE"
  | .discrIn vals => jInts vals

def boolList (j : Json) : Except String (List Bool) :=
  match j with
  | .arr a => a.toList.mapM (fun x => match x with | .bool b => pure b | _ => throw "boolean expected")
  | _ => throw "list of booleans expected"

open PonyVerif.Model.JoinDiscr in
def handleJoins (j : Json) : Except String Json := do
  let kind ← argStr j "kind"
  let hasDiscr ← argBool j "hasDiscr"
  let calls ← boolList (← j.getObjVal? "calls")
  let tj (s : TState) := Json.mkObj [("joined", .bool s.joined), ("fromItems", .num (JsonNumber.fromNat s.fromItems)), ("filters", .num (JsonNumber.fromNat s.filters))]
  let jj (s : JState) := Json.mkObj [("joined", .bool s.joined), ("optimized", .bool s.optimized), ("entityJoins", .num (JsonNumber.fromNat s.entityJoins)),
                                      ("filters", .num (JsonNumber.fromNat s.filters)), ("m2mJoins", .num (JsonNumber.fromNat s.m2mJoins))]
  match kind with
  | "tableref" => pure (tj (tableRefRun hasDiscr calls))
  | "star" => pure (tj (starTableRefRun hasDiscr calls))
  | "fkLeft" => pure (jj (joinedRun .fkLeft hasDiscr calls))
  | "o2oRight" => pure (jj (joinedRun .o2oRight hasDiscr calls))
  | "o2m" => pure (jj (joinedRun .o2m hasDiscr calls))
  | "m2m" => pure (jj (joinedRun .m2m hasDiscr calls))
  | _ => throw s!"unknown table reference kind {kind}"

open PonyVerif.Model.SeedLoad PonyVerif.Gen.LoadGuards in
def handleHandout (j : Json) : Except String Json := do
  let site ← argStr j "site"
  let hasSub ← argBool j "hasSub"
  let isSeed ← argBool j "isSeed"
  let s ← match site with
    | "attrGet" => pure Site.attrGet | "setCopy" => pure Site.setCopy | "queryTuple" => pure Site.queryTuple | "findInCache" => pure Site.findInCache
    | _ => throw s!"unknown site {site}"
  -- the situation in which the engine observes the site: a live session, a present value, a first execution of the query
  let c : LoadCtx := { notNone := true, isRef := true, hasSub := hasSub, alive := true, sessionAlive := true, isSeed := isSeed,
                       manyToMany := true, notCached := true, exprIsEntity := false, singleColumn := false, isEntity := true, hasDiscr := hasSub }
  pure (Json.mkObj [("normal", .bool (normal s c)), ("stillSeed", .bool (stillSeed s c))])

def handle (j : Json) : Except String Json := do
  let op ← argStr j "op"
  if op == "joins" then return (← handleJoins j)
  if op == "handout" then return (← handleHandout j)
  let h ← getHier j
  let cls := List.range h.n
  match op with
  | "hier" =>
      pure (Json.mkObj [
        ("allBases", .arr (cls.map (fun i => jNats (h.allBasesOf i))).toArray),
        ("subclasses", .arr (cls.map (fun i => jNats (h.subclasses i))).toArray),
        ("criteria", .arr (cls.map (fun i => jInts (h.criteria i))).toArray),
        ("parse", .arr (cls.map (fun i => jOptNat' (h.parseRow (h.discr i)))).toArray),
        ("selects", .arr (cls.map (fun e => Json.arr (cls.map (fun r => Json.bool (h.selects e (h.discr r)))).toArray)).toArray),
        ("isSub", .arr (cls.map (fun a => Json.arr (cls.map (fun b => Json.bool (h.isSub a b))).toArray)).toArray)])
  | "rowclass" =>
      -- for every entity e and class r: the class `_fetch_objects` gives an object built from a row written by r and fetched for e
      let hasDiscr ← intList (← j.getObjVal? "hasDiscr")
      pure (Json.mkObj [("rows", .arr (cls.map (fun e => Json.arr (cls.map (fun r =>
        jOptNat' (PonyVerif.Model.SeedLoad.rowClass h e (hasDiscr.getD e 0 != 0) (h.discr r)))).toArray)).toArray)])
  | "refine" =>
      let c ← argNat j "cls"
      let e ← argNat j "entity"
      let rb ← argNat j "rbits"
      let wb ← argNat j "wbits"
      let compat ← argBool j "compat"
      match h.refine c e rb wb compat with
      | .ok c' => pure (Json.mkObj [("ok", .num (JsonNumber.fromNat c'))])
      | .error .classChange => pure (Json.mkObj [("error", "TransactionError")])
      | .error .notImplemented => pure (Json.mkObj [("error", "NotImplementedError")])
  | "isinstance" =>
      let e ← argNat j "entity"
      let classes ← natList (← j.getObjVal? "classes")
      let same ← natList (← j.getObjVal? "sameRoot")
      let c := h.isinstanceSql (fun x => same.contains x) e classes
      pure (Json.mkObj [
        ("cond", condJson c),
        ("rows", .arr (cls.map (fun r => Json.bool (evalCond c (h.discr r)))).toArray),
        ("python", .arr (cls.map (fun r => Json.bool (classes.any (fun c => h.isSub r c)))).toArray)])
  | _ => throw s!"unknown op {op}"
end PonyVerif.Drive.C27
