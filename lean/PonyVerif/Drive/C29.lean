import PonyVerif.Drive.Util
import PonyVerif.Model.JsonOps
import PonyVerif.Gen.JsonLits
/-
  Line-protocol entry for the C29 model (trusted glue).
  Documents are sent tagged: null / bool / integer number / string / array; `{"fz": neg}` = ±0.0; `{"fl": "<dumps text>"}` = another
  float; `{"o": [[key, value], …]}` = object with keys already sorted.  `word` = the non-ASCII characters of the request that
  Python's `\w` accepts (the regex class is a parameter of the model).
-/
namespace PonyVerif.Drive.C29
open Lean PonyVerif.Drive PonyVerif.Model.JsonOps

abbrev MJson := PonyVerif.Model.JsonOps.Json

def mkW (extra : String) : Char → Bool :=
  let ex := extra.toList
  fun c => c.isAlphanum || c == '_' || ex.contains c

partial def decDoc : Lean.Json → Except String MJson
  | .null => pure .null
  | .bool b => pure (.bool b)
  | .num n => if n.exponent == 0 then pure (.int n.mantissa) else throw s!"non-integer number {n}"
  | .str s => pure (.str s.toList)
  | .arr a => do pure (.arr (← a.toList.mapM decDoc))
  | .obj o => do
      let j := Lean.Json.obj o
      match j.getObjVal? "fz" with
      | .ok (.bool b) => pure (.fzero b)
      | _ =>
      match j.getObjVal? "fl" with
      | .ok (.str r) => (match r.toList with
          | c :: cs => pure (.float c cs)
          | [] => throw "fl: empty float text")
      | _ =>
      match j.getObjVal? "o" with
      | .ok (.arr kvs) => do
          let l ← kvs.toList.mapM (fun kv => match kv with
            | .arr #[.str k, v] => do pure (k.toList, ← decDoc v)
            | _ => throw "object entry must be [key, value]")
          pure (.obj l)
      | _ => throw "bad tagged value"

partial def encDoc : MJson → Lean.Json
  | .null => .null
  | .bool b => .bool b
  | .int i => .num (JsonNumber.fromInt i)
  | .fzero b => Json.mkObj [("fz", .bool b)]
  | .float c r => Json.mkObj [("fl", .str (String.ofList (c :: r)))]
  | .str s => .str (String.ofList s)
  | .arr xs => .arr (xs.map encDoc).toArray
  | .obj kvs => Json.mkObj [("o", .arr (kvs.map (fun (k, v) => Lean.Json.arr #[.str (String.ofList k), encDoc v])).toArray)]

def decKey : Lean.Json → Except String Key
  | .num n => if n.exponent == 0 then pure (.idx n.mantissa) else throw "integer key expected"
  | .str s => pure (.name s.toList)
  | _ => throw "key must be an integer or a string"

def encKey : Key → Lean.Json
  | .idx i => .num (JsonNumber.fromInt i)
  | .name s => .str (String.ofList s)

def decKeys (j : Lean.Json) (k : String) : Except String (List Key) := do
  (← argArr j k).mapM decKey

def encKeysOpt : Option (List Key) → Lean.Json
  | none => .null
  | some ks => .arr (ks.map encKey).toArray

def navErrName : NavErr → String
  | .keyError => "KeyError" | .indexError => "IndexError" | .typeError => "TypeError"

def encNav (f : α → Lean.Json) : Except NavErr α → Lean.Json
  | .ok v => Json.mkObj [("ok", f v)]
  | .error e => Json.mkObj [("error", .str (navErrName e))]

def encOptText : Option Text → Lean.Json
  | none => .null
  | some t => .str (String.ofList t)

def optIntArg (j : Lean.Json) (k : String) : Except String (Option Int) := argOptInt j k

def intList (j : Lean.Json) (k : String) : Except String (List Int) := do
  (← argArr j k).mapM (fun x => match x with
    | .num n => if n.exponent == 0 then pure n.mantissa else throw "integer expected"
    | _ => throw "integer expected")

def jOptI : Option Int → Lean.Json
  | none => .null
  | some i => .num (JsonNumber.fromInt i)

def jInts (l : List Int) : Lean.Json := .arr (l.map (fun i => Lean.Json.num (JsonNumber.fromInt i))).toArray

def decItem : Lean.Json → Except String PathItem
  | .arr #[.str "p", .num n] => pure (.param n.mantissa.toNat)
  | .arr #[.str "c", k] => do pure (.const (← decKey k))
  | _ => throw "path item must be [\"p\", id] or [\"c\", key]"

def encKeyPart : KeyPart → Lean.Json
  | .p id => .arr #[.str "p", .num (JsonNumber.fromNat id)]
  | .i v => .arr #[.str "i", .num (JsonNumber.fromInt v)]
  | .s v => .arr #[.str "s", .str (String.ofList v)]

def encItem : PathItem → Lean.Json
  | .param id => .arr #[.str "p", .num (JsonNumber.fromNat id)]
  | .const k => .arr #[.str "c", encKey k]

/-- the flags read from the source: does `json_path_re` accept `#`, does the SQLite builder write `[#-N]` for JSON1 -/
def srcHash : Bool := PonyVerif.Gen.JsonLits.jsonPathRe == "\\[#?(-?\\d+)\\]|\\.(?:(\\w+)|\"([^\"]*)\")"
def negHash : Bool := PonyVerif.Gen.JsonLits.json1NegativeHash

def handle (j : Lean.Json) : Except String Lean.Json := do
  let op ← argStr j "op"
  match op with
  | "path" =>
      let W := mkW (← argStr j "word")
      let keys ← decKeys j "keys"
      let p := evalJsonPath W keys
      pure (Json.mkObj [("path", .str (String.ofList p)),
                        ("pg", .str (String.ofList (pgEvalJsonPath W keys))),
                        ("j1path", .str (String.ofList (if negHash then evalJsonPathJ1 W keys else p))),
                        ("j1parsed", encKeysOpt (parsePath W srcHash (if negHash then evalJsonPathJ1 W keys else p))),
                        ("parsed", encKeysOpt (parsePath W srcHash p))])
  | "parse" =>
      let W := mkW (← argStr j "word")
      let t ← argStr j "text"
      pure (Json.mkObj [("parsed", encKeysOpt (parsePath W srcHash t.toList))])
  | "nav" =>
      let doc ← decDoc (← j.getObjVal? "doc")
      let keys ← decKeys j "keys"
      let key ← argStr j "key"
      let lits ← (← argArr j "lits").mapM (fun x => match x with | .str s => pure s.toList | _ => throw "lits: strings")
      let cte := PonyVerif.Gen.JsonLits.traverseCatchesTypeError
      let W := mkW (← argStr j "word")
      -- the helper functions receive the path TEXT and parse it back
      let pk := parsePath W srcHash (evalJsonPath W keys)
      let q := jsonQueryFallback cte doc pk
      let nz : Lean.Json := match q with
        | .ok (some t) => .bool (jsonNonzero lits t)
        | _ => .null
      let tv := traverseKeys cte doc keys
      pure (Json.mkObj [
        ("traverse", encNav encDoc tv),
        ("python", encNav encDoc (pyNavigate doc keys)),
        ("json1", match json1Extract negHash doc keys with
                  | .ok v => Json.mkObj [("ok", encDoc v)]
                  | .error .pathError => Json.mkObj [("error", "pathError")]),
        ("extract1", encNav encDoc (pyJsonExtract1 cte doc pk)),
        ("query", encNav encOptText q),
        ("nonzero", nz),
        ("truthy", match tv with | .ok v => .bool (pyTruthy v) | .error _ => .null),
        ("topOk", match tv with | .ok v => .bool v.topOk | .error _ => .null),
        ("udfNonzero", encNav (fun b => Lean.Json.bool b) (pyJsonNonzero cte doc pk)),
        ("contains", encNav (fun b => Lean.Json.bool b) (pyJsonContains cte doc pk key.toList)),
        ("pyIn", match tv with
                 | .ok v => (match pyIn key.toList v with | some b => .bool b | none => .null)
                 | .error _ => .null),
        ("length", match tv with | .ok v => .num (JsonNumber.fromNat (pyJsonArrayLength v)) | .error _ => .null),
        ("dumps", .str (String.ofList (dumps doc)))])
  | "paramkey" =>
      -- the paths of one statement, in the order the builder meets them: key of each, and which earlier path's parameter is reused
      let paths ← (← argArr j "paths").mapM (fun p => match p with
        | .arr a => a.toList.mapM decItem
        | _ => throw "paths: list of lists")
      let step := fun (acc : Registry × List Lean.Json) (items : List PathItem) =>
        let r := makeComposite acc.1 items
        (r.2, acc.2 ++ [Json.mkObj [("key", .arr ((paramKey items).map encKeyPart).toArray), ("items", .arr (r.1.map encItem).toArray)]])
      let res := paths.foldl step (([] : Registry), ([] : List Lean.Json))
      pure (Json.mkObj [("params", .arr res.2.toArray)])
  | "unwrap" =>
      match j.getObjVal? "text" with
      | .ok (.str s) => pure (Json.mkObj [("ok", encOptText (pyJsonUnwrap (some s.toList)))])
      | _ => pure (Json.mkObj [("ok", encOptText (pyJsonUnwrap none))])
  | "lits" =>
      pure (Json.mkObj [("sqlite", .arr (PonyVerif.Gen.JsonLits.sqliteNonzeroLits.map Lean.Json.str).toArray),
                        ("cte", .bool PonyVerif.Gen.JsonLits.traverseCatchesTypeError),
                        ("clamp", .bool PonyVerif.Gen.JsonLits.arraySliceClampsNegative),
                        ("base", .arr (baseLits.map (fun t => Lean.Json.str (String.ofList t))).toArray)])
  | "index" =>
      let v ← argInt j "value"
      let len ← argInt j "len"
      let f (a b : Bool) := Json.mkObj [("const", .num (JsonNumber.fromInt (indexConst a b v len))),
                                        ("expr", .num (JsonNumber.fromInt (indexExpr a b v len)))]
      pure (Json.mkObj [("ff", f false false), ("ft", f false true), ("tf", f true false), ("tt", f true true)])
  | "array" =>
      let xs ← intList j "xs"
      let i ← optIntArg j "i"
      let a ← optIntArg j "a"
      let b ← optIntArg j "b"
      let clamp := PonyVerif.Gen.JsonLits.arraySliceClampsNegative
      pure (Json.mkObj [
        ("index", match i with | some i => jOptI (sqliteArrayIndex xs i) | none => .null),
        ("udfIndex", match i with | some i => jOptI (pyArrayIndex xs i) | none => .null),
        ("pyIndex", match i with | some i => jOptI (listGet xs i) | none => .null),
        ("pgIndex", match i with | some i => jOptI (pgIndex xs i) | none => .null),
        ("slice", jInts (sqliteArraySlice clamp xs a b)),
        ("udfSlice", jInts (pyArraySlice clamp xs a b)),
        ("pySlice", jInts (pySlice xs a b)),
        ("pgSlice", jInts (pgSlice xs a b))])
  | _ => throw s!"unknown op {op}"
end PonyVerif.Drive.C29
