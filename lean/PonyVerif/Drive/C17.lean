import PonyVerif.Drive.Util
import PonyVerif.Model.TxnProtocol
import PonyVerif.Model.TxnEmit
import PonyVerif.Gen.TxnEntry
/-
  line-protocol entry for the C17 model.
  request  {"op":"run", "phase":"idle"|"auto", "pre":[[k,v],..],
            "events":[["connect",ok] | ["read",ok] | ["begin",ok] | ["write",ok,[[k,v|null],..]] | ["commit",ok]
                      | ["rollback",ok] | ["close",ok], ...]}
  reply    {"accepted":b, "complete":b, "rejectedAt":i|null, "phases":[..], "committed":[store after each event],
            "own":[own view after each event], "txns":[[[..]]], "boundaries":[store,..]}
-/
namespace PonyVerif.Drive.C17
open Lean PonyVerif.Drive PonyVerif.Model.TxnProtocol PonyVerif.Model.TxnEmit

def jNat (n : Nat) : Json := .num (JsonNumber.fromNat n)
def jInt (n : Int) : Json := .num (JsonNumber.fromInt n)

def storeJson (s : Store) : Json := .arr (s.map (fun (k, v) => Json.arr #[jNat k, jInt v])).toArray

def rowWriteJson : RowWrite → Json
  | (k, some v) => .arr #[jNat k, jInt v]
  | (k, none) => .arr #[jNat k, .null]

def parseStore (j : Json) : Except String Store := do
  match j with
  | .arr a => do
      let rows ← a.toList.mapM (fun r => do
        match r with
        | .arr #[k, v] => pure ((← fromJson? k : Nat), (← fromJson? v : Int))
        | _ => throw "store row: [k,v] expected")
      -- canonical form whatever the order sent
      pure (rows.foldl (fun s (k, v) => s.put k v) [])
  | _ => throw "store: array expected"

def parseRowWrite (j : Json) : Except String RowWrite := do
  match j with
  | .arr #[k, .null] => pure ((← fromJson? k : Nat), none)
  | .arr #[k, v] => pure ((← fromJson? k : Nat), some (← fromJson? v : Int))
  | _ => throw "row write: [k,v|null] expected"

def parseEv (j : Json) : Except String Ev := do
  match j with
  | .arr #[.str "connect", .bool ok] => pure ⟨.connect, ok⟩
  | .arr #[.str "read", .bool ok] => pure ⟨.read, ok⟩
  | .arr #[.str "begin", .bool ok] => pure ⟨.begin, ok⟩
  | .arr #[.str "write", .bool ok, .arr ws] => pure ⟨.write (← ws.toList.mapM parseRowWrite), ok⟩
  | .arr #[.str "commit", .bool ok] => pure ⟨.commit, ok⟩
  | .arr #[.str "rollback", .bool ok] => pure ⟨.rollback, ok⟩
  | .arr #[.str "close", .bool ok] => pure ⟨.close, ok⟩
  | _ => throw s!"bad event {j.compress}"

def phaseName : Phase → String
  | .idle => "idle" | .auto => "auto" | .txn => "txn"

def parsePhase (s : String) : Except String Phase :=
  match s with
  | "idle" => pure .idle | "auto" => pure .auto | "txn" => pure .txn
  | _ => throw s!"bad phase {s}"

/-
  request  {"op":"emit", "si":b, "ddl":b, "pool":b, "bodyRaises":b, "faults":[call indices that raise],
            "prog":[[["query"] | ["lockQuery"] | ["direct",entry] | ["flush",[entry..]] | ["commit",[entry..]] | ["rollback"] | ["flushQuery",[entry..],lock] | ["flushDirect",[entry..],entry], caught]..]}
  reply    {"events":[[kind, ok]..], "table":{entry: opens..}, "flushSetsImmediate":b}     (entry-point table = Gen/TxnEntry.lean)
-/
def parseEntry (s : String) : Except String Entry :=
  match s with
  | "dbExecute" => pure .dbExecute | "dbInsert" => pure .dbInsert | "saveCreated" => pure .saveCreated
  | "saveUpdated" => pure .saveUpdated | "saveDeleted" => pure .saveDeleted | "m2mRemove" => pure .m2mRemove
  | "m2mAdd" => pure .m2mAdd | "bulkDelete" => pure .bulkDelete | "rawConn" => pure .rawConn
  | _ => throw s!"bad entry {s}"

def parseEntries (j : Json) : Except String (List (Entry × List RowWrite)) := do
  match j with
  | .arr a => a.toList.mapM (fun x => do pure ((← parseEntry (← fromJson? x)), []))
  | _ => throw "entry list expected"

def parseOp (j : Json) : Except String (Op × Bool) := do
  match j with
  | .arr #[.arr #[.str "query"], .bool c] => pure (.query, c)
  | .arr #[.arr #[.str "lockQuery"], .bool c] => pure (.lockQuery, c)
  | .arr #[.arr #[.str "direct", .str e], .bool c] => pure (.direct (← parseEntry e) [], c)
  | .arr #[.arr #[.str "flush", es], .bool c] => pure (.flush (← parseEntries es), c)
  | .arr #[.arr #[.str "commit", es], .bool c] => pure (.commit (← parseEntries es), c)
  | .arr #[.arr #[.str "rollback"], .bool c] => pure (.rollback, c)
  | .arr #[.arr #[.str "flushQuery", es, .bool lock], .bool c] => pure (.flushQuery (← parseEntries es) lock, c)
  | .arr #[.arr #[.str "flushDirect", es, .str e], .bool c] => pure (.flushDirect (← parseEntries es) (← parseEntry e) [], c)
  | _ => throw s!"bad op {j.compress}"

def stmtName : Stmt → String
  | .connect => "connect" | .read => "read" | .begin => "begin" | .write _ => "write" | .commit => "commit"
  | .rollback => "rollback" | .close => "close"

def allEntries : List (String × Entry) :=
  [("dbExecute", .dbExecute), ("dbInsert", .dbInsert), ("saveCreated", .saveCreated), ("saveUpdated", .saveUpdated),
   ("saveDeleted", .saveDeleted), ("m2mRemove", .m2mRemove), ("m2mAdd", .m2mAdd), ("bulkDelete", .bulkDelete), ("rawConn", .rawConn)]

def handle (j : Json) : Except String Json := do
  let op ← argStr j "op"
  match op with
  | "run" =>
      let p ← parsePhase (← argStr j "phase")
      let pre ← parseStore (← j.getObjVal? "pre")
      let evs ← (← argArr j "events").mapM parseEv
      let dbs := runAll (Db.init pre) evs
      let tx := txns p [] evs
      pure (Json.mkObj [
        ("accepted", .bool (accepts p evs)),
        ("complete", .bool (complete p evs)),
        ("rejectedAt", match rejectedAt p evs 0 with | some i => jNat i | none => .null),
        ("phases", .arr ((phases p evs).map (fun q => Json.str (phaseName q))).toArray),
        ("committed", .arr (dbs.map (fun d => storeJson d.committed)).toArray),
        ("own", .arr (dbs.map (fun d => storeJson (ownView d))).toArray),
        ("txns", .arr (tx.map (fun t => Json.arr (t.map (fun ws => Json.arr (ws.map rowWriteJson).toArray)).toArray)).toArray),
        ("boundaries", .arr ((boundaries pre tx).map storeJson).toArray)])
  | "emit" =>
      let si ← argBool j "si"
      let pool ← argBool j "pool"
      let br ← argBool j "bodyRaises"
      let ddl := (argBool j "ddl").toOption.getD false
      let faults ← (← argArr j "faults").mapM (fun x => (fromJson? x : Except String Nat))
      let prog ← (← argArr j "prog").mapM parseOp
      let r := session PonyVerif.Gen.TxnEntry.opens PonyVerif.Gen.TxnEntry.flushSetsImmediate si ddl (A.start pool si) prog br
                 (fun i => faults.contains i)
      pure (Json.mkObj [
        ("events", .arr (r.evs.map (fun e => Json.arr #[.str (stmtName e.stmt), .bool e.ok])).toArray),
        ("ok", .bool r.ok),
        ("accepted", .bool (accepts (phaseOf (A.start pool si)) r.evs)),
        ("table", Json.mkObj (allEntries.map (fun (n, e) => (n, Json.bool (PonyVerif.Gen.TxnEntry.opens e))))),
        ("flushSetsImmediate", .bool PonyVerif.Gen.TxnEntry.flushSetsImmediate)])
  | _ => throw s!"unknown op {op}"
end PonyVerif.Drive.C17
