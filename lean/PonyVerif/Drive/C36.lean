import PonyVerif.Drive.Util
import PonyVerif.Model.ForkPool
import PonyVerif.Drive.OraJson
namespace PonyVerif.Drive.C36
open Lean PonyVerif.Drive PonyVerif.Model.ForkPool

def jConn (c : Conn) : Json := .arr #[.num (JsonNumber.fromNat c.serial), .num (JsonNumber.fromNat c.creator)]
def jOptConn : Option Conn → Json
  | none => .null
  | some c => jConn c
def jPair (e : Nat × Conn) : Json := .arr #[.num (JsonNumber.fromNat e.1), jConn e.2]

def jOut (o : Out) : Json := Json.mkObj [
  ("returned", jOptConn o.returned), ("isNew", .bool o.isNew), ("stmts", .arr (o.stmts.map jConn).toArray),
  ("closed", .arr (o.closed.map jConn).toArray), ("attrError", .bool o.attrError), ("assertError", .bool o.assertError), ("failed", .bool o.failed),
  ("staleDisconnect", .bool o.staleDisconnect)]

def jProc (q : Proc) : Json := Json.mkObj [
  ("pid", .num (JsonNumber.fromNat q.pid)), ("tid", .num (JsonNumber.fromNat q.tid)), ("con", jOptConn q.pool.con), ("poolpid", jOptNat q.pool.pid),
  ("pidAttr", .bool q.pool.pidAttr),
  ("forked", .arr (q.pool.forked.map (fun e => Json.arr #[jConn e.1, jOptNat e.2])).toArray),
  ("held", jOptConn q.held), ("fresh", .bool q.fresh)]

def parseKind : String → Except String Kind
  | "base" => pure .base
  | "sqliteFile" => pure .sqliteFile
  | "sqliteMemory" => pure .sqliteMemory
  | s => throw s!"unknown kind {s}"

def parseAct : String → Except String Act
  | "connect" => pure .connect
  | "connectFail" => pure .connectFail
  | "connectInitFail" => pure .connectInitFail
  | "stmt" => pure .stmt
  | "release" => pure .release
  | "drop" => pure .drop
  | "disconnect" => pure .disconnect
  | s => throw s!"unknown act {s}"

def parseEv (j : Json) : Except String Ev := do
  match j with
  | .arr #[.str "fork", p] => pure (.fork (← fromJson? p) 0)
  | .arr #[.str "fork", p, t] => pure (.fork (← fromJson? p) (← fromJson? t))
  | .arr #[.str "spawn", p, t] => pure (.spawn (← fromJson? p) (← fromJson? t))
  | .arr #[.str "act", p, .str a] => pure (.act (← fromJson? p) 0 (← parseAct a))
  | .arr #[.str "act", p, t, .str a] => pure (.act (← fromJson? p) (← fromJson? t) (← parseAct a))
  | _ => throw "event: [\"fork\", p(, t)], [\"spawn\", p, t] or [\"act\", p(, t), name]  (t = thread, default 0)"


def handle (j : Json) : Except String Json := do
  let op ← argStr j "op"
  match op with
  | "run" =>
      let k ← parseKind (← argStr j "kind")
      let evs ← (← argArr j "events").mapM parseEv
      let (w, outs) := evs.foldl (fun (acc : World × List Json) e =>
        let o : Json := match e with
          | .act p t a => .arr ((outsOf acc.1 p t a).map jOut).toArray
          | .fork _ _ => .arr #[.num (JsonNumber.fromNat acc.1.nextPid)]
          | .spawn _ _ => .arr #[]
        (step acc.1 e, acc.2 ++ [o])) (init k, [])
      pure (Json.mkObj [
        ("procs", .arr (w.procs.map jProc).toArray), ("outs", .arr outs.toArray),
        ("returned", .arr (w.returned.map jPair).toArray), ("stmts", .arr (w.stmts.map jPair).toArray),
        ("closed", .arr (w.closed.map jPair).toArray), ("attrErrors", .num (JsonNumber.fromNat w.attrErrors)),
        ("assertErrors", .num (JsonNumber.fromNat w.assertErrors)), ("forkWhileHeld", .bool w.forkWhileHeld),
        ("staleDisconnect", .bool w.staleDisconnect)])
  | "ora" =>
      let evs ← (← argArr j "events").mapM PonyVerif.Drive.OraJson.parseEv
      pure (PonyVerif.Drive.OraJson.runJson evs)
  | _ => throw s!"unknown op {op}"
end PonyVerif.Drive.C36
