import PonyVerif.Drive.Util
import PonyVerif.Model.Undo
/-
  Line-protocol entry for the do/undo session model (C13).
  request : {"op":"run","schema":{"attrs":[{"ent":0,"kind":"scalar"|"ref"|"coll","req":..,"casc":..,"rev":..,"unique":..,"bit":..},..],"ckeys":[[a,..],..]},
             "ops":[{"k":"create","e":0,"pk":null|int,"vals":[[a,V],..]} | {"k":"set","o":..,"a":..,"v":V} | {"k":"setm","o":..,"kv":[[a,V],..]}
                    | {"k":"add"|"remove","o":..,"a":..,"items":[..]} | {"k":"clear","o":..,"a":..} | {"k":"delete","o":..} | {"k":"flush","ids":[[o,pk],..]}]}
            V = {"bad":true} | {"s":null|int} | {"ref":null|id} | {"coll":[ids]}
  reply   : {"steps":[{"err":null|"ConstraintError"..,"trail":n,"obs":{..}}]}
-/
namespace PonyVerif.Drive.C13
open Lean PonyVerif.Drive PonyVerif.Model.Undo

def natsOfJson (j : Json) : Except String (List Nat) := do
  match j with
  | .arr a => a.toList.mapM fun x => fromJson? x
  | _ => throw "list of ids expected"

def optNat (j : Json) (k : String) : Except String (Option Nat) := do
  match j.getObjVal? k with
  | .ok .null => pure none
  | .ok v => pure (some (← fromJson? v))
  | .error _ => pure none

def kindOfStr : String → Except String Kind
  | "scalar" => pure .scalar
  | "ref" => pure .ref
  | "coll" => pure .coll
  | s => throw s!"unknown kind {s}"

def declOfJson (j : Json) : Except String AttrDecl := do
  pure { ent := ← argNat j "ent", kind := ← kindOfStr (← argStr j "kind"), required := ← argBool j "req", cascade := ← argBool j "casc",
         rev := ← argNat j "rev", unique := ← argBool j "unique", bit := ← argBool j "bit" }

def schemaOfJson (j : Json) : Except String Schema := do
  pure { attrs := ← (← argArr j "attrs").mapM declOfJson, ckeys := ← (← argArr j "ckeys").mapM natsOfJson }

def argOfJson (j : Json) : Except String Arg := do
  match j.getObjVal? "bad" with
  | .ok _ => pure .bad
  | .error _ =>
    match j.getObjVal? "coll" with
    | .ok l => pure (.coll (← natsOfJson l))
    | .error _ =>
      match j.getObjVal? "ref" with
      | .ok _ => pure (.val (← optNat j "ref"))
      | .error _ => pure (.val (← optNat j "s"))

def kvOfJson (l : List Json) : Except String (List (AttrId × Arg)) :=
  l.mapM fun p => do
    match p with
    | .arr #[a, v] => pure ((← fromJson? a), (← argOfJson v))
    | _ => throw "[[attr, val], ..] expected"

def opOfJson (j : Json) : Except String Op := do
  let k ← argStr j "k"
  match k with
  | "create" => pure (.create (← argNat j "e") (← optNat j "pk") (← kvOfJson (← argArr j "vals")))
  | "set" => pure (.set (← argNat j "o") (← argNat j "a") (← argOfJson (← j.getObjVal? "v")))
  | "setm" => pure (.setMany (← argNat j "o") (← kvOfJson (← argArr j "kv")))
  | "add" => pure (.add (← argNat j "o") (← argNat j "a") (← natsOfJson (← j.getObjVal? "items")))
  | "remove" => pure (.remove (← argNat j "o") (← argNat j "a") (← natsOfJson (← j.getObjVal? "items")))
  | "clear" => pure (.clear (← argNat j "o") (← argNat j "a"))
  | "delete" => pure (.delete (← argNat j "o"))
  | "flush" =>
      let ids ← (← argArr j "ids").mapM fun p => do
        match p with
        | .arr #[o, v] => pure ((← fromJson? o : Nat), (← fromJson? v : Nat))
        | _ => throw "ids: [[o, pk], ..] expected"
      pure (.flush ids)
  | _ => throw s!"unknown op kind {k}"

def errName : Err → String
  | .objectDeleted => "OperationWithDeletedObjectError"
  | .valueError => "ValueError"
  | .typeError => "TypeError"
  | .constraintError => "ConstraintError"
  | .cacheIndexError => "CacheIndexError"
  | .keyError => "KeyError"
  | .assertionError => "AssertionError"
  | .recursionError => "RecursionError"
  | .noSuchObject => "NoSuchObject"
  | .noSuchAttr => "NoSuchAttr"

def statusName : Status → String
  | .created => "created" | .inserted => "inserted" | .updated => "updated" | .modified => "modified"
  | .marked => "marked_to_delete" | .cancelled => "cancelled" | .deleted => "deleted"

def jNats (l : List Nat) : Json := .arr (l.map toJson).toArray

def dumpObj (sch : Schema) (s : Store) (o : ObjId) : Json :=
  let r := s.row o
  let attrs := sch.attrsOf r.ent
  let isColl := fun a => isCollAttr sch a
  Json.mkObj [
    ("ent", toJson r.ent), ("status", toJson (statusName r.status)), ("pk", jOptNat r.pk), ("save_pos", jOptNat r.savePos),
    ("wbits", if r.status = .created || r.status = .cancelled then Json.null else jNats (attrs.filter fun a => r.wbits a)),
    ("vals", .arr ((attrs.filter fun a => !isColl a).map fun a => Json.arr #[toJson a, jOptNat (r.val a)]).toArray),
    ("colls", .arr ((attrs.filter isColl).map fun a => Json.arr #[toJson a, jNats (s.elems (r.items a)), jNats (s.elems (r.added a)),
        jNats (s.elems (r.removed a)), .num (JsonNumber.fromInt (r.count a))]).toArray)]

def dedup {α : Type} [DecidableEq α] : List α → List α
  | [] => []
  | x :: xs => if xs.contains x then dedup xs else x :: dedup xs

def dump (sch : Schema) (s : Store) : Json :=
  let keys := dedup s.seen
  let pk := keys.filterMap fun k => match k with
    | .pk e p => (s.pkIdx e p).map fun o => Json.arr #[toJson e, toJson p, toJson o]
    | _ => none
  let si := keys.filterMap fun k => match k with
    | .simple a v => (s.idx a v).map fun o => Json.arr #[toJson a, toJson v, toJson o]
    | _ => none
  let ci := keys.filterMap fun k => match k with
    | .comp c vs => (s.cidx c vs).map fun o => Json.arr #[toJson c, jNats vs, toJson o]
    | _ => none
  let mc := (List.range sch.attrs.length).filterMap fun a =>
    let l := (List.range s.n).filter fun o => s.modColl a o
    if l.isEmpty then none else some (Json.arr #[toJson a, jNats l])
  Json.mkObj [
    ("objs", .arr ((List.range s.n).map (dumpObj sch s)).toArray),
    ("to_save", .arr (s.toSave.map jOptNat).toArray),
    ("pkidx", .arr pk.toArray), ("idx", .arr si.toArray), ("cidx", .arr ci.toArray), ("modcoll", .arr mc.toArray),
    ("modified", toJson s.modified)]

/-- executable form of the hypothesis `WF` of the theorems (index entries are enumerated through the ghost list of all keys ever inserted) -/
def saveOkB (s : Store) : Bool :=
  (List.range s.n).all fun o =>
    let r := s.row o
    (match r.savePos with
     | some p => s.toSave[p]? == some (some o)
     | none => true) &&
    (if r.status = .inserted || r.status = .updated then r.savePos.isNone else true)

def idxOkB (sch : Schema) (s : Store) : Bool :=
  let live := fun (o : ObjId) => decide (o < s.n) && !(s.row o).status.isDel
  let attrs := List.range sch.attrs.length
  let keys := List.range sch.ckeys.length
  ((List.range s.n).all fun o => !live o ||
    ((attrs.all fun a => match (s.row o).val a, sch.decl a with
        | some u, some d => !d.unique || s.idx a u == some o
        | _, _ => true) &&
     (keys.all fun k => match tuple ((sch.keyAttrs k).map (s.row o).val) with
        | some us => s.cidx k us == some o
        | none => true))) &&
  ((dedup s.seen).all fun key => match key with
    | .simple a v => (match s.idx a v with
        | some o => decide (o < s.n) && (match sch.decl a with | some d => d.unique | none => false) && (!live o || (s.row o).val a == some v)
        | none => true)
    | .comp k vs => (match s.cidx k vs with
        | some o => decide (o < s.n) && decide (k < sch.ckeys.length) && (!live o || tuple ((sch.keyAttrs k).map (s.row o).val) == some vs)
        | none => true)
    | .pk _ _ => true)

/-- executable form of the schema hypothesis `SchemaWf` of `C13_reachable` -/
def schemaWfB (sch : Schema) : Bool :=
  ((List.range sch.ckeys.length).all fun k => (sch.keyAttrs k).all fun a => match sch.decl a with
      | some d => sch.entOfKey k == some d.ent
      | none => true) &&
  ((List.range sch.attrs.length).all fun a => match sch.decl a with
      | some d => (!d.unique || d.kind == .scalar) && (!sch.isKeyPart a || d.kind != .coll)
      | none => true)

def handle (j : Json) : Except String Json := do
  let op ← argStr j "op"
  match op with
  | "run" =>
      let sch ← schemaOfJson (← j.getObjVal? "schema")
      let ops ← (← argArr j "ops").mapM opOfJson
      let (_, outs) := ops.foldl (fun (acc : Store × List Json) op =>
        let o := stepO sch acc.1 op
        let tl := match op with
          | .flush _ => 0
          | _ => (run1 sch op { store := acc.1 }).st.trail.length
        (o.store, Json.mkObj [("err", match o.err with | none => Json.null | some e => Json.str (errName e)),
                               ("trail", toJson tl), ("wf", toJson (saveOkB o.store && idxOkB sch o.store)),
                               ("guard", toJson (schemaWfB sch && (match op, o.err with
                                 | .create _ _ _, none => decide ((o.store.row acc.1.n).status = .created)
                                 | _, _ => true))),
                               ("obs", dump sch o.store)] :: acc.2)) (({} : Store), [])
      pure (Json.mkObj [("steps", .arr outs.reverse.toArray)])
  | _ => throw s!"unknown op {op}"
end PonyVerif.Drive.C13
