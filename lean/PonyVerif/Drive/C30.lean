import PonyVerif.Drive.Util
import PonyVerif.Model.RawSql
import PonyVerif.Model.RawScan
namespace PonyVerif.Drive.C30
open Lean PonyVerif.Drive PonyVerif.Model.RawSql

def styleOf (s : String) : Except String Style :=
  match s with
  | "qmark" => pure .qmark
  | "format" => pure .format
  | "numeric" => pure .numeric
  | "named" => pure .named
  | "pyformat" => pure .pyformat
  | _ => throw s!"unknown paramstyle {s}"

def tokOf (j : Json) : Except String Tok := do
  match j.getObjVal? "t", j.getObjVal? "e" with
  | .ok (.str t), _ => pure (.text t.toList)
  | _, .ok (.str e) => pure (.expr e.toList ((j.getObjValAs? Bool "semi").toOption.getD false))
  | _, _ => pure .dollar

def toksOf (j : Json) (k : String) : Except String (List Tok) := do
  (← argArr j k).mapM tokOf

def jStr (cs : List Char) : Json := .str (String.ofList cs)

def jSource : Source → Json
  | .none => Json.mkObj [("none", true)]
  | .tuple es => Json.mkObj [("tuple", .arr (es.map jStr).toArray)]
  | .dict items => Json.mkObj [("dict", .arr (items.map (fun (k, e) => Json.arr #[jStr (keyText k), jStr e])).toArray)]

def jAdapted (a : Adapted) : Json := Json.mkObj [("sql", jStr a.sql), ("source", jSource a.source)]

def jOut (l : List (Out String)) : Json :=
  .str (String.join (l.map (fun o => match o with | .ch c => String.singleton c | .val v => v)))

def handle (j : Json) : Except String Json := do
  let op ← argStr j "op"
  match op with
  | "adapt" =>
    let style ← styleOf (← argStr j "style")
    let toks ← toksOf j "toks"
    pure (Json.mkObj [("ok", jAdapted (adaptCold style toks)), ("rendered", jStr (render toks))])
  | "run" =>
    -- a whole process history on one cache, starting cold
    let calls ← (← argArr j "calls").mapM (fun c => do
      let style ← styleOf (← argStr c "style")
      let toks ← toksOf c "toks"
      pure (toks, style))
    pure (Json.mkObj [("ok", .arr ((run [] calls).map jAdapted).toArray)])
  | "expand" =>
    -- Python's `adapted_sql % arguments` with the given values in place of the evaluated expressions
    let style ← styleOf (← argStr j "style")
    let toks ← toksOf j "toks"
    let vals ← (← argArr j "values").mapM (fun v => match v with | .str s => pure s | _ => throw "values: strings")
    let a := adaptCold style toks
    match style, a.source with
    | .format, .tuple _ =>
      pure (match expandFormat a.sql vals with
        | some l => Json.mkObj [("ok", jOut l)]
        | none => Json.mkObj [("error", "format")])
    | .pyformat, .dict items =>
      let lookup : Nat → Option String := fun k =>
        match (items.zip vals).find? (fun p => p.1.1 == k) with
        | some p => some p.2
        | none => none
      pure (match expandPyformat lookup .normal a.sql with
        | some l => Json.mkObj [("ok", jOut l)]
        | none => Json.mkObj [("error", "format")])
    | _, _ => pure (Json.mkObj [("ok", jStr a.sql), ("verbatim", true)])
  | "raw" =>
    let toks ← toksOf j "toks"
    let (items, exprs) := parseRaw toks
    let jItem : RawItem → Json := fun i => match i with
      | .str s => jStr s
      | .param e => Json.mkObj [("expr", jStr e)]
    let jAst : RawAst → Json := fun i => match i with
      | .str s => jStr s
      | .param i => Json.mkObj [("param", toJson i)]
    pure (Json.mkObj [("items", .arr (items.map jItem).toArray), ("exprs", .arr (exprs.map jStr).toArray),
      ("ast", .arr ((rawAst 0 items).map jAst).toArray)])
  | "parseexpr" =>
    -- `parse_expr(s, 0)[0]`
    let s ← argStr j "s"
    pure (match parseExpr s.toList with
      | some n => Json.mkObj [("ok", jStr (s.toList.take n))]
      | none => Json.mkObj [("error", "ValueError")])
  | "scan" =>
    -- the statement loop of adapt_sql on the characters of the statement: tokens, and the adaptation for a style
    let s ← argStr j "s"
    let style ← styleOf (← argStr j "style")
    let jTok : Tok → Json := fun t => match t with
      | .text t => Json.mkObj [("t", jStr t)]
      | .dollar => Json.mkObj [("d", true)]
      | .expr e semi => Json.mkObj [("e", jStr e), ("semi", semi)]
    let jE : ScanErr → Json := fun e => Json.mkObj [("error", match e with
      | .indexError => "IndexError" | .valueError => "ValueError" | .typeError => "TypeError")]
    let raw := match scanRaw s.toList with
      | .ok (items, exprs) => Json.mkObj [("items", .arr (items.map (fun i => match i with
          | .str s => jStr s | .param e => Json.mkObj [("expr", jStr e)])).toArray), ("exprs", .arr (exprs.map jStr).toArray)]
      | .error e => jE e
    pure (match scanSql s.toList with
      | .ok toks => Json.mkObj [("toks", .arr (toks.map jTok).toArray), ("adapted", jAdapted (adaptCold style toks)), ("raw", raw)]
      | .error e => Json.mkObj [("scan", jE e), ("raw", raw)])
  | _ => throw s!"unknown op {op}"
end PonyVerif.Drive.C30
