import PonyVerif.Drive.Util
import PonyVerif.Model.KeyIndex
/-
  Line-protocol entry for the key-index model (C11; the session ops of C14 reuse the JSON readers).
  request : {"op":"run","schema":{"nattrs":3,"keys":[[0],[1,2]],"parent":[null,0]},
             "groups":[[{"k":"create","cls":0,"pk":[1]|null,"vals":[5,null,7],"lateFail":false}
                    | {"k":"seed","cls":0,"pk":[1]}
                    | {"k":"load","cls":0,"pk":[1],"vals":[5,null,"NL"],"used":[0],"unpickling":false}
                    | {"k":"set","o":0,"changes":[[0,5],[1,null]]} | {"k":"read","o":0,"a":1} | {"k":"delete","o":0}
                    | {"k":"saveCreated","o":0,"newId":7|null} | {"k":"saveUpdated","o":0} | {"k":"saveDeleted","o":0}
                    | {"k":"find","cls":0,"pk":[1]|null,"kw":[[0,5]]} | {"k":"proxy","o":0} | {"k":"markRead","os":[0,1],"attrs":[0]}], ..]}
            (one group = the model ops of ONE real call; a group stops at its first error)
  reply   : {"steps":[{"err":null|"CacheIndexError"..,"yields":[null|id..],"ran":k,"inv":bool,"objs":[..],"pk":[[key,o]..],"ixs":[[[key,o]..]..],"queue":[..]}]}
-/
namespace PonyVerif.Drive.C11
open Lean PonyVerif.Drive PonyVerif.Model.KeyIndex

def optIntOfJson : Json → Except String (Option Int)
  | .null => pure none
  | v => do pure (some (← fromJson? v))

def intsOfJson (j : Json) : Except String (List Int) := do
  match j with
  | .arr a => a.toList.mapM fun x => fromJson? x
  | _ => throw "list of ints expected"

def natsOfJson (j : Json) : Except String (List Nat) := do
  match j with
  | .arr a => a.toList.mapM fun x => fromJson? x
  | _ => throw "list of nats expected"

def optKey (j : Json) (k : String) : Except String (Option KeyVal) := do
  match j.getObjVal? k with
  | .ok .null => pure none
  | .ok v => pure (some (← intsOfJson v))
  | .error _ => pure none

def slotOfJson : Json → Except String Slot
  | .str _ => pure .notLoaded
  | .null => pure (.val none)
  | v => do pure (.val (some (← fromJson? v)))

def schemaOfJson (j : Json) : Except String Schema := do
  let keys ← (← argArr j "keys").mapM natsOfJson
  let parent ← (← argArr j "parent").mapM fun x => match x with
    | .null => pure none
    | v => do pure (some (← fromJson? v))
  let cbd := match j.getObjValAs? Bool "classBitsDiffer" with
    | .ok b => b
    | .error _ => false
  pure { nattrs := ← argNat j "nattrs", keys := keys, parent := parent, classBitsDiffer := cbd }

def pairOfJson (j : Json) : Except String (Nat × Json) := do
  match j with
  | .arr #[a, v] => pure ((← fromJson? a), v)
  | _ => throw "[attr, value] expected"

def boolD (j : Json) (k : String) : Bool :=
  match j.getObjValAs? Bool k with
  | .ok b => b
  | .error _ => false

def opOfJson (j : Json) : Except String Op := do
  let k ← argStr j "k"
  match k with
  | "create" => pure (.create (← argNat j "cls") (← optKey j "pk") (← (← argArr j "vals").mapM optIntOfJson) (boolD j "lateFail"))
  | "seed" => pure (.seed (← argNat j "cls") (← intsOfJson (← j.getObjVal? "pk")))
  | "load" =>
      let used ← match j.getObjVal? "used" with
        | .ok v => natsOfJson v
        | .error _ => pure []
      pure (.load { cls := ← argNat j "cls", pk := ← intsOfJson (← j.getObjVal? "pk"), vals := ← (← argArr j "vals").mapM slotOfJson }
                  used (boolD j "unpickling"))
  | "set" =>
      let ch ← (← argArr j "changes").mapM fun p => do
        let (a, v) ← pairOfJson p
        pure (a, (← optIntOfJson v))
      pure (.setAttrs (← argNat j "o") ch)
  | "read" => pure (.read (← argNat j "o") (← argNat j "a"))
  | "delete" => pure (.delete (← argNat j "o"))
  | "saveCreated" => pure (.saveCreated (← argNat j "o") (← argOptInt j "newId"))
  | "saveUpdated" => pure (.saveUpdated (← argNat j "o"))
  | "saveDeleted" => pure (.saveDeleted (← argNat j "o"))
  | "find" =>
      let kw ← (← argArr j "kw").mapM fun p => do
        let (a, v) ← pairOfJson p
        pure (a, (← (fromJson? v : Except String Int)))
      pure (.find (← argNat j "cls") (← optKey j "pk") kw)
  | "proxy" => pure (.proxy (← argNat j "o"))
  | "findVia" =>
      let kw ← (← argArr j "kw").mapM fun p => do
        let (a, v) ← pairOfJson p
        pure (a, (← (fromJson? v : Except String Int)))
      pure (.findVia (← argNat j "cls") (← intsOfJson (← j.getObjVal? "pk")) (← argNat j "via") kw)
  | "cascadeFail" => pure (.cascadeFail (← natsOfJson (← j.getObjVal? "children")))
  | "markRead" => pure (.markRead (← natsOfJson (← j.getObjVal? "os")) (← natsOfJson (← j.getObjVal? "attrs")))
  | _ => throw s!"unknown op kind {k}"

def errName : Err → String
  | .cacheIndex => "CacheIndexError"
  | .constraint => "ConstraintError"
  | .deletedObject => "OperationWithDeletedObjectError"
  | .integrity => "TransactionIntegrityError"
  | .unrepeatable => "UnrepeatableReadError"
  | .classChange => "TransactionError"
  | .notImplemented => "NotImplementedError"
  | .assertion => "AssertionError"
  | .objectNotFound => "ObjectNotFound"
  | .needLoad => "NeedLoad"
  | .badOp => "BadOp"

def statusName : Status → String
  | .created => "created" | .loaded => "loaded" | .modified => "modified" | .inserted => "inserted" | .updated => "updated"
  | .markedToDelete => "marked_to_delete" | .deleted => "deleted" | .cancelled => "cancelled"

def jSlot : Slot → Json
  | .notLoaded => .str "NL"
  | .val none => .null
  | .val (some v) => .num (JsonNumber.fromInt v)

def jKey (k : KeyVal) : Json := .arr (k.map fun v => Json.num (JsonNumber.fromInt v)).toArray
def jIndex (ix : Index) : Json := .arr (ix.map fun p => Json.arr #[jKey p.1, toJson p.2]).toArray

def dumpObj (sch : Schema) (ob : Obj) : Json :=
  let r := List.range sch.nattrs
  Json.mkObj [("cls", toJson ob.cls), ("status", .str (statusName ob.status)),
    ("pk", match ob.pk with | none => Json.null | some k => jKey k),
    ("vals", .arr (r.map fun a => jSlot (ob.vals a)).toArray),
    ("dbvals", .arr (r.map fun a => jSlot (ob.dbvals a)).toArray),
    ("rbits", .arr (r.map fun a => Json.bool (ob.rbits a)).toArray),
    ("wbits", if ob.isNew then Json.null else .arr (r.map fun a => Json.bool (ob.wbits a)).toArray),
    ("seed", .bool ob.isSeed)]

def dumpSess (sch : Schema) (s : Sess) : List (String × Json) :=
  [("objs", .arr ((List.range s.n).map fun o => dumpObj sch (s.obj o)).toArray),
   ("pk", jIndex s.pkIx),
   ("ixs", .arr ((allKeys sch).map fun i => jIndex (s.ixs i)).toArray),
   ("queue", toJson s.queue)]

/-- one real call = one GROUP of model ops, run until the first error (the exception ends the call) -/
def runGroup (sch : Schema) (s : Sess) : List Op → (Sess × Option Err × List (Option ObjId) × Bool × Nat) → (Sess × Option Err × List (Option ObjId) × Bool × Nat)
  | [], acc => acc
  | op :: ops, (_, _, ys, inv, k) =>
      let (s', r) := stepR sch s op
      let inv' := inv && checkInv sch s'
      match r.err with
      | some e => (s', some e, ys, inv', k + 1)
      | none => runGroup sch s' ops (s', none, ys ++ [r.yield], inv', k + 1)

def handle (j : Json) : Except String Json := do
  let op ← argStr j "op"
  match op with
  | "run" =>
      let sch ← schemaOfJson (← j.getObjVal? "schema")
      let groups ← (← argArr j "groups").mapM fun g => match g with
        | .arr a => a.toList.mapM opOfJson
        | _ => throw "groups: list of lists of ops expected"
      let (_, outs) := groups.foldl (fun (acc : Sess × List Json) g =>
        let (s', e, ys, inv, k) := runGroup sch acc.1 g (acc.1, none, [], true, 0)
        (s', Json.mkObj ([("err", match e with | none => Json.null | some e => Json.str (errName e)),
                          ("yields", .arr (ys.map jOptNat).toArray), ("ran", toJson k),
                          ("inv", toJson inv)] ++ dumpSess sch s') :: acc.2)) (Sess.empty, [])
      pure (Json.mkObj [("steps", .arr outs.reverse.toArray)])
  | _ => throw s!"unknown op {op}"
end PonyVerif.Drive.C11
