import PonyVerif.Drive.Util
import PonyVerif.Gen.StringSlice
import PonyVerif.Model.SqlStr
namespace PonyVerif.Drive.C25
open Lean PonyVerif.Py PonyVerif.Drive PonyVerif.Model.SqlStr

def svalOfJson : Json → Except String SVal
  | .null => pure .null
  | .bool b => pure (.bool b)
  | .num n => if n.exponent == 0 then pure (.int n.mantissa) else throw "non-integer number"
  | .str s => pure (.str s.toList)
  | _ => throw "bad SQL value"

def jsonOfSVal : SVal → Json
  | .null => .null
  | .int i => .num (JsonNumber.fromInt i)
  | .str s => .str (String.ofList s)
  | .bool b => .bool b

def jsonOfSM : SM SVal → Json
  | .ok v => Json.mkObj [("ok", jsonOfSVal v)]
  | .error .negativeLength => Json.mkObj [("error", "negativeLength")]
  | .error .typeError => Json.mkObj [("error", "typeError")]
  | .error (.unbound n) => Json.mkObj [("error", "unbound"), ("name", .str n)]
  | .error .badInt => Json.mkObj [("error", "badInt")]

def bindings (j : Json) (k : String) : Except String (List (String × SVal)) := do
  match j.getObjVal? k with
  | .ok (.obj o) => o.toList.mapM (fun (n, v) => do pure (n, ← svalOfJson v))
  | .ok .null => pure []
  | .ok _ => throw s!"{k}: object expected"
  | .error _ => pure []

def envOf (j : Json) : Except String Env := do
  let cols ← bindings j "cols"
  let params ← bindings j "params"
  pure ⟨fun n => cols.lookup n, fun n => params.lookup n⟩

def dialectOf (j : Json) : Except String Dialect := do
  let n ← argStr j "dialect"
  match Dialect.ofName n with
  | some d => pure d
  | none => throw s!"unknown dialect {n}"

def sqlOf (j : Json) : Except String Sql := do
  match dec (← pyOfJson j) with
  | some t => pure t
  | none => throw s!"AST outside the modelled node kinds: {j.compress}"

/-- `null` | `{"const": i}` | `{"expr": ast}` -/
def argOf (j : Json) : Except String Arg := do
  match j with
  | .null => pure .omitted
  | _ =>
    match j.getObjVal? "const" with
    | .ok v => pure (.const (← fromJson? v))
    | .error _ => pure (.expr (← sqlOf (← j.getObjVal? "expr")))

/-- `null` | `{"const": i}` | `{"param": key, "value": i|null}` | `{"expr": ast}` -/
def gargOf (j : Json) : Except String GArg := do
  match j with
  | .null => pure .omitted
  | _ =>
    match j.getObjVal? "const" with
    | .ok v => pure (.const (← fromJson? v))
    | .error _ =>
      match j.getObjVal? "param" with
      | .ok k => pure (.param (← fromJson? k) (← argOptInt j "value"))
      | .error _ => pure (.expr (← sqlOf (← j.getObjVal? "expr")))

def recvOf (j : Json) : Except String Recv := do
  match j.getObjVal? "const" with
  | .ok v => pure (.strConst (← fromJson? v))
  | .error _ => pure (.expr (← sqlOf (← j.getObjVal? "expr")))

def jsonOfArg : Arg → Json
  | .omitted => .null
  | .const i => Json.mkObj [("const", .num (JsonNumber.fromInt i))]
  | .expr x => Json.mkObj [("expr", jsonOfPy x.enc)]

def jsonOfGRes (d : Dialect) (recv : Recv) (r : GRes) : Json :=
  let kind : Json := match r with
    | .whole => "whole" | .folded _ => "folded" | .node _ _ => "node" | .substr _ => "substr" | .foldedChar _ => "foldedChar"
  let node : Json := match r with
    | .node a b => Json.mkObj [("start", jsonOfArg a), ("stop", jsonOfArg b)]
    | _ => .null
  let sql : Json := match r.sql d recv with
    | some q => jsonOfPy q.enc
    | none => .null
  Json.mkObj [("kind", kind), ("node", node), ("sql", sql)]

def fixedOf (j : Json) : Except String Fixed := do
  match j.getObjVal? "fixed" with
  | .ok (.arr a) => a.toList.mapM (fun p => do
      match p with
      | .arr #[k, v] => pure ((← fromJson? k : String), (← fromJson? v : Int))
      | _ => throw "fixed: [key, value] pairs expected")
  | _ => pure []

def jsonOfFixed (f : Fixed) : Json := .arr (f.map (fun (k, v) => Json.arr #[.str k, .num (JsonNumber.fromInt v)])).toArray

def handle (j : Json) : Except String Json := do
  let op ← argStr j "op"
  match op with
  | "gen" =>       -- the definition regenerated from SQLBuilder.STRING_SLICE
      let e ← argPy j "expr"; let a ← argPy j "start"; let b ← argPy j "stop"
      pure (jsonOfPyM (PonyVerif.Gen.stringSlice e a b (.str (← argStr j "dialect"))))
  | "gen_sqlite" =>   -- the definition regenerated from SQLiteBuilder.STRING_SLICE
      let e ← argPy j "expr"; let a ← argPy j "start"; let b ← argPy j "stop"
      pure (jsonOfPyM (PonyVerif.Gen.sqliteStringSlice e a b))
  | "mirror" =>    -- typed mirror (what the theorems are about), encoded back
      let d ← dialectOf j
      let e ← sqlOf (← j.getObjVal? "expr")
      let a ← argOf (← j.getObjVal? "start"); let b ← argOf (← j.getObjVal? "stop")
      pure (Json.mkObj [("ok", jsonOfPy (sliceFor d e a b).enc)])
  | "eval" =>      -- dialect evaluator on an AST (the real one Pony emitted, or a model one)
      let d ← dialectOf j
      let t ← sqlOf (← j.getObjVal? "ast")
      pure (jsonOfSM (eval d (← envOf j) t))
  | "pyslice" =>
      let s ← argStr j "s"
      pure (.str (String.ofList (pySlice s.toList (← argOptInt j "i") (← argOptInt j "j"))))
  | "pyindex" =>
      let s ← argStr j "s"
      pure (match pyIndex s.toList (← argInt j "i") with
        | some c => .str (String.ofList [c])
        | none => Json.mkObj [("error", "IndexError")])
  | "substr" =>
      let d ← dialectOf j
      let s ← argStr j "s"
      match ← argOptInt j "len" with
      | some l => pure (jsonOfSM (substr3V d s.toList (← argInt j "pos") l))
      | none => pure (jsonOfSM (substr2V d s.toList (← argInt j "pos")))
  | "udf" =>
      pure (jsonOfSM (pyStringSliceUdf (← svalOfJson (← j.getObjVal? "s")) (← svalOfJson (← j.getObjVal? "a")) (← svalOfJson (← j.getObjVal? "b"))))
  | "getitem_slice" =>
      let d ← dialectOf j
      let recv ← recvOf (← j.getObjVal? "recv")
      let (r, f) := getitemSlice recv (← gargOf (← j.getObjVal? "start")) (← gargOf (← j.getObjVal? "stop")) (← fixedOf j)
      pure (Json.mkObj [("res", jsonOfGRes d recv r), ("fixed", jsonOfFixed f)])
  | "getitem_index" =>
      let d ← dialectOf j
      let recv ← recvOf (← j.getObjVal? "recv")
      let (r, f) := getitemIndex d recv (← gargOf (← j.getObjVal? "index")) (← fixedOf j)
      pure (Json.mkObj [("res", jsonOfGRes d recv r), ("fixed", jsonOfFixed f)])
  | _ => throw s!"unknown op {op}"
end PonyVerif.Drive.C25
